(* C10 - search limits bound the work and never alter an answer, only stop it.

   With an iteration limit a search never performs more expansion steps than the limit; with a solution-size limit its
   tree never exceeds the limit by more than one vertex's out-degree; with an exhausted time budget it stops at the
   next scheduled check.  A search that hits any configured limit returns an explicit 'terminated' error naming the
   limit, never a truncated or different route; whenever a search does return under a limit its result is identical
   to the unlimited result, and success is monotone in the limit.  The same for every sub-search of a driver that
   calls the search and propagates its errors (the k-shortest-path algorithms).

   All theorems are about Model/Search.v's loop (run_loop / run_a_star / run_vertex_oriented) instantiated with the
   termination model of Model/Termination.v:  TM.to_search t ck  is  TerminationModel::test  of model t under the
   clock ck (elapsed time as a function of the iteration count), for EVERY graph, cost type, frontier / traversal /
   estimate model, direction, origin, destination, fuel, model t without a zero frequency (wf) and clock.
   A visited state = the search state at the top of a loop turn (TM.run_states), i.e. at a limit test.

   This file contains only statements: each theorem is closed by [exact] of a lemma proved in Proofs/, pinned by
   [Check], with non-vacuity [Example]s and Print Assumptions. *)
From Coq Require Import List Arith Bool String NArith Lia.
From stdpp Require Import gmap.
From RC Require Import Base.Res Base.Show Model.Search Model.Termination
     Model.TerminationRun Proofs.Termination Proofs.TerminationSearch Proofs.TerminationC10 Proofs.TerminationRunSpec.
Import ListNotations.
Local Open Scope string_scope.
Import Search TM.

Section C10.
  Context {C St : Type}.
  Variable clt : C -> C -> bool.
  Variable cadd : C -> C -> C.
  Variable czero : C.
  Variable cfloor : C -> C.
  Variable g : graph.
  Variable frontier : nat -> St -> option nat -> res bool.
  Variable traverse : dir -> nat -> option nat -> St -> res (C * C * St).
  Variable estimate : nat -> nat -> St -> res C.
  Variable init_state : res St.

  Notation astar T := (run_a_star clt cadd czero cfloor g frontier traverse estimate init_state T).
  Notation search T := (run_vertex_oriented clt cadd czero cfloor g frontier traverse estimate init_state T).
  Notation states T := (run_states clt cadd czero cfloor g frontier traverse estimate T).
  Notation loop T := (run_loop clt cadd czero cfloor g frontier traverse estimate T).
  Notation turn T := (step clt cadd czero cfloor g frontier traverse estimate T).
  Notation enters := (enters czero g estimate init_state).
  Notation start := (start czero).

  (* -- iterations_bound.  `iteration + 1 > limit`: under IterationsLimit n (alone or anywhere inside a Combined) no
        visited state has more than n expansions behind it, the turn at iteration n is never executed, and a search
        that returns has performed fewer than n expansions (the returning turn is itself tested). -- *)
  Theorem c10_iterations_bound : forall t ck n fuel d source target init h0,
    wf t = true -> In (Iter (N.of_nat n)) (leaves t) ->
    Forall (fun s' : sstate C St => s_iters s' <= n)
           (states (to_search t ck) fuel d source target init (start source h0))
    /\ (forall s', loop (to_search t ck) fuel d source target init (start source h0) = Ok s' -> s_iters s' < n)
    /\ (forall tree it, astar (to_search t ck) fuel d source target = Ok (tree, it) ->
                        it < n \/ (it = 0 /\ tree = ∅)).
  Proof. exact (iterations_bound clt cadd czero cfloor g frontier traverse estimate init_state). Qed.

  (* -- size_bound.  `solution_size > limit` is tested before the expansion: every visited state's tree has at most
        n + (incident edges of one vertex, the one expanded last) entries, hence at most n + the largest out-degree
        in the search direction; a tree that is returned has at most n entries. -- *)
  Theorem c10_size_bound : forall t ck n fuel d source target init h0,
    wf t = true -> In (Size (N.of_nat n)) (leaves t) ->
    Forall (fun s' : sstate C St => exists v, size (s_tree s') <= n + List.length (incident d g v))
           (states (to_search t ck) fuel d source target init (start source h0))
    /\ Forall (fun s' : sstate C St => size (s_tree s') <= n + deg_bound d g)
              (states (to_search t ck) fuel d source target init (start source h0))
    /\ (forall s', loop (to_search t ck) fuel d source target init (start source h0) = Ok s' ->
                   size (s_tree s') <= n)
    /\ (forall tree it, astar (to_search t ck) fuel d source target = Ok (tree, it) -> size tree <= n).
  Proof. exact (size_bound clt cadd czero cfloor g frontier traverse estimate init_state). Qed.

  (* -- runtime_stops_at_next_check.  If the clock stays above the budget from iteration i0 on, the search stops at
        j = the first iteration >= i0 that is a multiple of the frequency f (fewer than f turns later): no visited
        state is beyond j, nothing is returned at or after j, and the turn at iteration j is the error. -- *)
  Theorem c10_runtime_stops_at_next_check : forall t ck lim f i0 fuel d source target init h0,
    wf t = true -> 0 < f -> In (Runtime lim (N.of_nat f)) (leaves t) ->
    (forall i, i0 <= i -> (lim < ck i)%N) ->
    let j := next_check f i0 in
    i0 <= j < i0 + f /\ j mod f = 0 /\ (forall i, i0 <= i < j -> i mod f <> 0)
    /\ Forall (fun s' : sstate C St => s_iters s' <= j)
              (states (to_search t ck) fuel d source target init (start source h0))
    /\ (forall s', loop (to_search t ck) fuel d source target init (start source h0) = Ok s' -> s_iters s' < j)
    /\ (forall s : sstate C St, s_iters s = j ->
          exists why, turn (to_search t ck) d source target init s = Err ("terminated: " ++ why)).
  Proof. exact (runtime_stops_at_next_check clt cadd czero cfloor g frontier traverse estimate). Qed.

  (* -- terminated_is_error.  If the model fires at a visited state, the search (loop, run_a_star and the route-
        building run_vertex_oriented alike) IS the error "terminated: <explanations joined by ', '>" - no result, no
        backtracking - and the explanations are exactly those of the configured limits that are exceeded by that
        state's counters (at least one). -- *)
  Theorem c10_terminated_is_error : forall t ck fuel d source target init h0 (s' : sstate C St),
    wf t = true -> enters d source target init h0 ->
    In s' (states (to_search t ck) fuel d source target init (start source h0)) ->
    fires t ck (size (s_tree s')) (s_iters s') = true ->
    let e := stop_msg t ck (size (s_tree s')) (s_iters s') in
    astar (to_search t ck) fuel d source target = Err e
    /\ search (to_search t ck) fuel d source target = Err e
    /\ fired t ck (size (s_tree s')) (s_iters s') <> []
    /\ (forall x, In x (fired t ck (size (s_tree s')) (s_iters s')) <->
                  In x (leaves t) /\ fires x ck (size (s_tree s')) (s_iters s') = true).
  Proof. exact (terminated_is_error clt cadd czero cfloor g frontier traverse estimate init_state). Qed.

  Theorem c10_turn_terminated : forall t ck d source target init (s : sstate C St),
    wf t = true -> fires t ck (size (s_tree s)) (s_iters s) = true ->
    turn (to_search t ck) d source target init s = Err (stop_msg t ck (size (s_tree s)) (s_iters s)).
  Proof. exact (step_terminated clt cadd czero cfloor g frontier traverse estimate). Qed.

  (* -- limited_prefix_of_unlimited.  The visited states of the limited run are a prefix of those of the unlimited
        run (same fuel); whatever the limited search returns, the unlimited search returns: identical trees, routes,
        iterations. -- *)
  Theorem c10_limited_prefix_of_unlimited : forall t ck fuel d source target,
    wf t = true ->
    (forall init s, exists k,
        states unlimited fuel d source target init s =
        (states (to_search t ck) fuel d source target init s ++ k)%list)
    /\ (forall r, search (to_search t ck) fuel d source target = Ok r -> search unlimited fuel d source target = Ok r)
    /\ (forall r, astar (to_search t ck) fuel d source target = Ok r -> astar unlimited fuel d source target = Ok r).
  Proof. exact (limited_prefix_of_unlimited clt cadd czero cfloor g frontier traverse estimate init_state). Qed.

  (* ... and nothing else can happen: a limited search is the unlimited search verbatim (result or error), or the
     explicit error raised at a state the unlimited search visits. *)
  Theorem c10_limited_cases : forall t ck fuel d source target,
    wf t = true ->
    search (to_search t ck) fuel d source target = search unlimited fuel d source target
    \/ exists init h0 (s' : sstate C St),
         enters d source target init h0
         /\ In s' (states unlimited fuel d source target init (start source h0))
         /\ fires t ck (size (s_tree s')) (s_iters s') = true
         /\ search (to_search t ck) fuel d source target = Err (stop_msg t ck (size (s_tree s')) (s_iters s')).
  Proof. exact (limited_cases clt cadd czero cfloor g frontier traverse estimate init_state). Qed.

  (* -- success_monotone.  [stricter t1 t2]: t1 fires whenever t2 does.  A search that returns under t1 returns the
        same result under every t2 that t1 is stricter than; in particular under every larger iteration, size or
        runtime limit, and under the model with a limit removed. -- *)
  Theorem c10_success_monotone : forall t1 t2 ck fuel d source target r,
    wf t1 = true -> wf t2 = true -> stricter t1 t2 ->
    search (to_search t1 ck) fuel d source target = Ok r -> search (to_search t2 ck) fuel d source target = Ok r.
  Proof. exact (success_monotone clt cadd czero cfloor g frontier traverse estimate init_state). Qed.
  Theorem c10_success_monotone_iterations : forall n n' ck fuel d source target r, (n <= n')%N ->
    search (to_search (Iter n) ck) fuel d source target = Ok r ->
    search (to_search (Iter n') ck) fuel d source target = Ok r.
  Proof. exact (success_monotone_iter clt cadd czero cfloor g frontier traverse estimate init_state). Qed.
  Theorem c10_success_monotone_size : forall n n' ck fuel d source target r, (n <= n')%N ->
    search (to_search (Size n) ck) fuel d source target = Ok r ->
    search (to_search (Size n') ck) fuel d source target = Ok r.
  Proof. exact (success_monotone_size clt cadd czero cfloor g frontier traverse estimate init_state). Qed.
  Theorem c10_success_monotone_runtime : forall n n' f ck fuel d source target r, f <> 0%N -> (n <= n')%N ->
    search (to_search (Runtime n f) ck) fuel d source target = Ok r ->
    search (to_search (Runtime n' f) ck) fuel d source target = Ok r.
  Proof. exact (success_monotone_runtime clt cadd czero cfloor g frontier traverse estimate init_state). Qed.
End C10.

(* -- the order [stricter] contains what the property calls "the limit": larger limits, removed limits, pointwise -- *)
Theorem c10_stricter_order :
  (forall n n', (n <= n')%N -> stricter (Iter n) (Iter n'))
  /\ (forall n n', (n <= n')%N -> stricter (Size n) (Size n'))
  /\ (forall n n' f, (n <= n')%N -> stricter (Runtime n f) (Runtime n' f))
  /\ (forall l l', Forall2 stricter l l' -> stricter (Combined l) (Combined l'))
  /\ (forall x l, stricter (Combined (x :: l)) (Combined l))
  /\ (forall t, stricter t (Combined [])).
Proof.
  exact (conj stricter_iter (conj stricter_size (conj stricter_runtime
        (conj stricter_combined (conj stricter_add stricter_unlimited))))).
Qed.

(* -- the model's three functions are one pure predicate; combined = any; the search loop's test is `test` -- *)
Theorem c10_combined_any : forall l ck z i, wf (Combined l) = true ->
  terminate_search (Combined l) ck z i = Ok (existsb (fun m => fires m ck z i) l)
  /\ (fires (Combined l) ck z i = true <-> exists m, In m l /\ fires m ck z i = true).
Proof. exact combined_any. Qed.

Theorem c10_test_spec : forall ck z i t, wf t = true ->
  terminate_search t ck z i = Ok (fires t ck z i)
  /\ test t ck z i = (if fires t ck z i
                      then Err ("terminated: " ++ join ", " (map leaf_msg (fired t ck z i)))
                      else Ok tt)
  /\ test t ck z i = match to_search t ck z i with
                     | Some why => Err ("terminated: " ++ why)
                     | None => Ok tt
                     end.
Proof.
  intros ck z i t W.
  exact (conj (terminate_search_fires ck z i t W) (conj (test_spec ck z i t W) (test_to_search ck z i t W))).
Qed.

(* -- the hypothesis wf (no zero frequency) holds for every model TerminationModelBuilder::build produces from a
      configuration file (as of /repo dcfc7c1 a non-positive frequency is rejected there) -- *)
Theorem c10_configured_models_wf : forall fuel j t, build fuel j = Ok t -> wf t = true.
Proof. exact build_wf. Qed.

(* -- drivers (k-shortest paths): a driver = any program that calls the search and propagates every error.  If each
      limited sub-search is the unlimited sub-search or the explicit error (c10_limited_cases), so is the driver;
      if each limited sub-search that returns returns the unlimited result (c10_limited_prefix_of_unlimited), so
      does the driver. -- *)
Theorem c10_ksp_subsearches : forall (Q R A : Type) (o_lim o_unl : Q -> res R),
  ((forall q, o_lim q = o_unl q \/ exists why, o_lim q = Err ("terminated: " ++ why)) ->
   forall p : prog Q R A, exec o_lim p = exec o_unl p \/ exists why, exec o_lim p = Err ("terminated: " ++ why))
  /\ ((forall q r, o_lim q = Ok r -> o_unl q = Ok r) ->
      forall (p : prog Q R A) a, exec o_lim p = Ok a -> exec o_unl p = Ok a).
Proof. intros Q R A o_lim o_unl. exact (conj (exec_limited_cases o_lim o_unl) (exec_limited_ok o_lim o_unl)). Qed.

(* -- the correspondence runner's single-pass search (result + counters of every limit test) is this model: its
      result is run_vertex_oriented, its trace the counters of the visited states -- *)
Theorem c10_runner_is_model : forall (C St : Type) clt cadd czero cfloor g frontier traverse estimate init_state T
    fuel d source target,
  TR.vertex_traced (C:=C) (St:=St) clt cadd czero cfloor g frontier traverse estimate init_state T fuel d source target
  = (run_vertex_oriented clt cadd czero cfloor g frontier traverse estimate init_state T fuel d source target,
     search_counters clt cadd czero cfloor g frontier traverse estimate init_state T fuel d source target).
Proof. intros C St. exact (vertex_traced_spec (C:=C) (St:=St)). Qed.

(* ---------------------------------------------------------------- pins *)
Check @c10_iterations_bound : forall (C St : Type) clt cadd czero cfloor g frontier traverse estimate init_state
    t ck n fuel d source target init h0,
    wf t = true -> In (Iter (N.of_nat n)) (leaves t) ->
    Forall (fun s' : sstate C St => s_iters s' <= n)
           (run_states clt cadd czero cfloor g frontier traverse estimate (to_search t ck) fuel d source target init
              (start czero source h0))
    /\ (forall s', run_loop clt cadd czero cfloor g frontier traverse estimate (to_search t ck) fuel d source target
                     init (start czero source h0) = Ok s' -> s_iters s' < n)
    /\ (forall tree it, run_a_star clt cadd czero cfloor g frontier traverse estimate init_state (to_search t ck)
                          fuel d source target = Ok (tree, it) -> it < n \/ (it = 0 /\ tree = ∅)).
Check @c10_limited_prefix_of_unlimited : forall (C St : Type) clt cadd czero cfloor g frontier traverse estimate
    init_state t ck fuel d source target,
    wf t = true ->
    (forall init (s : sstate C St), exists k,
        run_states clt cadd czero cfloor g frontier traverse estimate unlimited fuel d source target init s =
        (run_states clt cadd czero cfloor g frontier traverse estimate (to_search t ck) fuel d source target init s
           ++ k)%list)
    /\ (forall r, run_vertex_oriented clt cadd czero cfloor g frontier traverse estimate init_state (to_search t ck)
                    fuel d source target = Ok r ->
                  run_vertex_oriented clt cadd czero cfloor g frontier traverse estimate init_state unlimited
                    fuel d source target = Ok r)
    /\ (forall r, run_a_star clt cadd czero cfloor g frontier traverse estimate init_state (to_search t ck)
                    fuel d source target = Ok r ->
                  run_a_star clt cadd czero cfloor g frontier traverse estimate init_state unlimited
                    fuel d source target = Ok r).
Check @c10_success_monotone : forall (C St : Type) clt cadd czero cfloor g frontier traverse estimate init_state
    t1 t2 ck fuel d source target (r : sresult C St),
    wf t1 = true -> wf t2 = true -> stricter t1 t2 ->
    run_vertex_oriented clt cadd czero cfloor g frontier traverse estimate init_state (to_search t1 ck)
      fuel d source target = Ok r ->
    run_vertex_oriented clt cadd czero cfloor g frontier traverse estimate init_state (to_search t2 ck)
      fuel d source target = Ok r.

(* ---------------------------------------------------------------- non-vacuity *)
(* a concrete search: the chain 0 -> 1 -> 2 -> 3 -> 4 plus a shortcut 0 -> 2, unit costs in nat, searched forward
   from 0 to 4 *)
Module Ex.
  Definition g : graph := mkGraph 5 [mkEdge 0 1; mkEdge 1 2; mkEdge 2 3; mkEdge 3 4; mkEdge 0 2].
  Definition fr : nat -> unit -> option nat -> res bool := fun _ _ _ => Ok true.
  Definition tr : dir -> nat -> option nat -> unit -> res (nat * nat * unit) := fun _ _ _ _ => Ok (0, 1, tt).
  Definition est : nat -> nat -> unit -> res nat := fun _ _ _ => Ok 0.
  Definition run (t : term) (ck : clock) : res (sresult nat unit) :=
    run_vertex_oriented Nat.ltb Nat.add 0 (fun x => x) g fr tr est (Ok tt) (to_search t ck) 50 Forward 0 (Some 4).
  Definition run_unl : res (sresult nat unit) :=
    run_vertex_oriented Nat.ltb Nat.add 0 (fun x => x) g fr tr est (Ok tt) unlimited 50 Forward 0 (Some 4).
  Definition sts (t : term) (ck : clock) : list (nat * nat) :=
    map (counters (C:=nat) (St:=unit))
        (run_states Nat.ltb Nat.add 0 (fun x => x) g fr tr est (to_search t ck) 50 Forward 0 (Some 4) tt
           (start 0 0 0)).
  Definition ck0 : clock := fun _ => 0%N.
  Definition route (r : res (sresult nat unit)) : res (list (list nat)) :=
    rmap (fun x => map (map (et_edge (C:=nat) (St:=unit))) (r_routes x)) r.
End Ex.

(* the unlimited search needs 4 expansions (5 limit tests) and finds the route over the shortcut *)
Example ex_unlimited : Ex.route Ex.run_unl = Ok [[4; 2; 3]]
  /\ Ex.sts (Combined []) Ex.ck0 = [(0, 0); (2, 1); (2, 2); (3, 3); (4, 4)].
Proof. vm_compute. split; reflexivity. Qed.
(* iteration limits 0..4 stop it with the explicit error; 5 and more return the unlimited result *)
Example ex_iterations :
  Ex.run (Iter 0) Ex.ck0 = Err "terminated: exceeded iteration limit of 0"
  /\ Ex.run (Iter 4) Ex.ck0 = Err "terminated: exceeded iteration limit of 4"
  /\ Ex.sts (Iter 4) Ex.ck0 = [(0, 0); (2, 1); (2, 2); (3, 3); (4, 4)]
  /\ Ex.run (Iter 5) Ex.ck0 = Ex.run_unl /\ is_ok (Ex.run (Iter 5) Ex.ck0) = true.
Proof. vm_compute. repeat split; reflexivity. Qed.
(* a size limit of 1 is passed by the first expansion (2 incident edges) and caught at the next test *)
Example ex_size :
  Ex.run (Size 1) Ex.ck0 = Err "terminated: exceeded solution size limit of 1"
  /\ Ex.sts (Size 1) Ex.ck0 = [(0, 0); (2, 1)]
  /\ Ex.run (Size 4) Ex.ck0 = Ex.run_unl
  /\ deg_bound Forward Ex.g = 2.
Proof. vm_compute. repeat split; reflexivity. Qed.
(* budget 1 s, checked every 3rd iteration, exhausted from iteration 1 on: the search runs on to iteration 3 *)
Example ex_runtime :
  let ck : clock := fun i => if Nat.eqb i 0 then 0%N else 1000000001%N in
  Ex.run (Runtime 1000000000 3) ck = Err "terminated: exceeded runtime limit of 0:00:01.000"
  /\ Ex.sts (Runtime 1000000000 3) ck = [(0, 0); (2, 1); (2, 2); (3, 3)]
  /\ next_check 3 1 = 3
  /\ Ex.run (Runtime 1000000000 5) ck = Ex.run_unl.
Proof. vm_compute. repeat split; reflexivity. Qed.
(* a combination names every limit that fired, in configuration order, and only those *)
Example ex_combined :
  Ex.run (Combined [Size 1; Iter 9; Combined [Iter 1; Size 0]]) Ex.ck0
  = Err "terminated: exceeded solution size limit of 1, exceeded iteration limit of 1, exceeded solution size limit of 0".
Proof. vm_compute. reflexivity. Qed.
(* the hypotheses of the theorems hold on this instance *)
Example ex_hypotheses :
  wf (Combined [Size 1; Iter 9; Runtime 5 3]) = true
  /\ In (Iter (N.of_nat 9)) (leaves (Combined [Size 1; Iter 9; Runtime 5 3]))
  /\ enters 0 Ex.g Ex.est (Ok tt) Forward 0 (Some 4) tt 0
  /\ stricter (Iter 4) (Iter 5).
Proof.
  split; [reflexivity|]. split; [cbn; auto|]. split; [repeat split|].
  apply stricter_iter. lia.
Qed.
(* a driver in the style of single-via: two sub-searches, then a pure combination *)
Example ex_driver :
  let o (t : term) (q : dir * nat * nat) :=
    run_vertex_oriented Nat.ltb Nat.add 0 (fun x => x) Ex.g Ex.fr Ex.tr Ex.est (Ok tt) (to_search t Ex.ck0) 50
      (fst (fst q)) (snd (fst q)) (Some (snd q)) in
  let p := single_via (Forward, 0, 4) (Reverse, 4, 0) (fun f r => Ok (r_iters f + r_iters r)) in
  exec (o (Iter 5)) p = Ok 8
  /\ exec (o (Iter 4)) p = Err "terminated: exceeded iteration limit of 4".
Proof. vm_compute. split; reflexivity. Qed.

Print Assumptions c10_iterations_bound.
Print Assumptions c10_size_bound.
Print Assumptions c10_runtime_stops_at_next_check.
Print Assumptions c10_terminated_is_error.
Print Assumptions c10_turn_terminated.
Print Assumptions c10_limited_prefix_of_unlimited.
Print Assumptions c10_limited_cases.
Print Assumptions c10_success_monotone.
Print Assumptions c10_success_monotone_iterations.
Print Assumptions c10_success_monotone_size.
Print Assumptions c10_success_monotone_runtime.
Print Assumptions c10_stricter_order.
Print Assumptions c10_combined_any.
Print Assumptions c10_test_spec.
Print Assumptions c10_configured_models_wf.
Print Assumptions c10_ksp_subsearches.
Print Assumptions c10_runner_is_model.
