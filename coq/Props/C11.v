(* C11 - every state feature owns exactly one state-vector slot, at any feature count; the
   ordered container behind it is an insertion-ordered map for every sequence of inserts and
   overwrites, at every size.

   This file contains only statements: each theorem is closed by [exact] of a lemma proved in
   Proofs/, pinned by a [Check ... : statement] and followed by Print Assumptions. *)
From Coq Require Import List Arith Bool ZArith.
From RC Require Import Model.CompactMap Proofs.CompactMap.
Import ListNotations.

Section C11.
  Context {K V : Type} (keqb : K -> K -> bool).
  Hypothesis keqb_spec : forall a b, reflect (a = b) (keqb a b).
  Notation Abs := (@Abs K V).
  Notation ins_all := (fold_left (fun s kv => CM.s_ins keqb s (fst kv) (snd kv))).
  Notation insert_all := (fold_left (fun c kv => fst (CM.insert keqb c (fst kv) (snd kv)))).

  (* Refinement: every reachable container state (any constructor followed by any sequence of
     inserts and overwrites, of any length) represents the insertion-ordered list obtained by
     the same operations on the specification ... *)
  Theorem c11_empty_refines : Abs CM.empty [].
  Proof. exact abs_empty. Qed.
  Theorem c11_new_refines : forall l, NoDup (map fst l) -> Abs (CM.new keqb l) l.
  Proof. exact (abs_new keqb keqb_spec). Qed.
  Theorem c11_from_iter_refines : forall l, Abs (CM.from_iter keqb l) (ins_all l []).
  Proof. exact (abs_from_iter keqb keqb_spec). Qed.
  Theorem c11_insert_refines : forall c s k v, Abs c s ->
      Abs (fst (CM.insert keqb c k v)) (CM.s_ins keqb s k v)
      /\ snd (CM.insert keqb c k v) = CM.s_get keqb s k.
  Proof. exact (abs_insert keqb keqb_spec). Qed.
  Theorem c11_every_op_sequence : forall ops c s, Abs c s -> Abs (insert_all ops c) (ins_all ops s).
  Proof. exact (ops_refine keqb keqb_spec). Qed.

  (* ... and every observer of the container returns what the list says. *)
  Theorem c11_observers : forall c s, Abs c s ->
      CM.len c = length s
      /\ CM.iter c = s
      /\ CM.keys c = map fst s
      /\ CM.to_vec c = indexed s
      /\ (forall k, CM.get keqb c k = CM.s_get keqb s k)
      /\ (forall k, CM.get_index keqb c k = CM.s_index keqb s k)
      /\ (forall i, CM.get_pair c i = nth_error s i).
  Proof.
    intros c s H. repeat split; intros.
    - exact (abs_len c s H).
    - exact (abs_iter c s H).
    - exact (abs_keys c s H).
    - exact (abs_to_vec c s H).
    - exact (abs_get keqb keqb_spec c s k H).
    - exact (abs_get_index keqb keqb_spec c s k H).
    - exact (abs_get_pair c s i H).
  Qed.

  (* Slots: the index of a feature is its position in insertion order; slots are exactly
     0..n-1, none shared, none skipped; inserting never moves an existing slot and a new
     feature takes slot n. *)
  Theorem c11_slots_bijective : forall c s, Abs c s ->
      (forall k i, CM.get_index keqb c k = Some i -> i < CM.len c)
      /\ (forall k1 k2 i, CM.get_index keqb c k1 = Some i -> CM.get_index keqb c k2 = Some i -> k1 = k2)
      /\ (forall i, i < CM.len c -> exists k, CM.get_index keqb c k = Some i)
      /\ (forall k i, CM.get_index keqb c k = Some i <-> exists v, CM.get_pair c i = Some (k, v)).
  Proof.
    intros c s H. pose proof (abs_nodup c s H) as Hnd.
    rewrite (abs_len c s H). repeat split.
    - intros k i Hi. rewrite (abs_get_index keqb keqb_spec c s k H) in Hi.
      exact (s_index_lt keqb keqb_spec s k i Hi).
    - intros k1 k2 i H1 H2. rewrite (abs_get_index keqb keqb_spec c s k1 H) in H1.
      rewrite (abs_get_index keqb keqb_spec c s k2 H) in H2.
      exact (s_index_inj keqb keqb_spec s k1 k2 i H1 H2).
    - intros i Hi. destruct (s_index_surj keqb keqb_spec s i Hnd Hi) as [k Hk].
      exists k. rewrite (abs_get_index keqb keqb_spec c s k H). exact Hk.
    - intros Hi. rewrite (abs_get_index keqb keqb_spec c s k H) in Hi.
      apply (s_index_nth keqb keqb_spec s k i Hnd) in Hi. destruct Hi as [v Hv].
      exists v. rewrite (abs_get_pair c s i H). exact Hv.
    - intros [v Hv]. rewrite (abs_get_pair c s i H) in Hv.
      rewrite (abs_get_index keqb keqb_spec c s k H).
      apply (s_index_nth keqb keqb_spec s k i Hnd). exists v. exact Hv.
  Qed.

  Theorem c11_insert_keeps_slots : forall c s k v, Abs c s ->
      let c' := fst (CM.insert keqb c k v) in
      (forall k' i, CM.get_index keqb c k' = Some i -> CM.get_index keqb c' k' = Some i)
      /\ (CM.get keqb c k = None -> CM.get_index keqb c' k = Some (CM.len c) /\ CM.len c' = S (CM.len c))
      /\ (CM.get keqb c k <> None -> CM.len c' = CM.len c)
      /\ CM.get keqb c' k = Some v
      /\ (forall k', k' <> k -> CM.get keqb c' k' = CM.get keqb c k').
  Proof.
    intros c s k v H c'.
    destruct (abs_insert keqb keqb_spec c s k v H) as [H' _]. fold c' in H'.
    pose proof (s_ins_length keqb s k v) as Hlen.
    rewrite (abs_len c s H), (abs_len c' _ H'), (abs_get keqb keqb_spec c s k H),
      (abs_get keqb keqb_spec c' _ k H').
    repeat split.
    - intros k' i Hi. rewrite (abs_get_index keqb keqb_spec c s k' H) in Hi.
      rewrite (abs_get_index keqb keqb_spec c' _ k' H').
      exact (s_ins_index_old keqb s k v k' i Hi).
    - rewrite (abs_get_index keqb keqb_spec c' _ k H').
      exact (s_ins_index_new keqb keqb_spec s k v H0).
    - rewrite Hlen, H0. reflexivity.
    - intros Hne. rewrite Hlen. destruct (CM.s_get keqb s k); [reflexivity | congruence].
    - exact (s_get_ins_same keqb keqb_spec s k v).
    - intros k' Hk'. rewrite (abs_get keqb keqb_spec c' _ k' H'), (abs_get keqb keqb_spec c s k' H).
      exact (s_get_ins_other keqb keqb_spec s k v k' Hk').
  Qed.
End C11.

(* statement pins: editing a statement above without editing the pin breaks the build *)
Check @c11_every_op_sequence : forall K V keqb, (forall a b, reflect (a = b) (keqb a b)) ->
  forall (ops : list (K * V)) c s, Abs c s ->
  Abs (fold_left (fun c kv => fst (CM.insert keqb c (fst kv) (snd kv))) ops c)
      (fold_left (fun s kv => CM.s_ins keqb s (fst kv) (snd kv)) ops s).
Check @c11_observers : forall K V keqb, (forall a b, reflect (a = b) (keqb a b)) ->
  forall (c : CM.cmap K V) s, Abs c s ->
      CM.len c = length s /\ CM.iter c = s /\ CM.keys c = map fst s /\ CM.to_vec c = indexed s
      /\ (forall k, CM.get keqb c k = CM.s_get keqb s k)
      /\ (forall k, CM.get_index keqb c k = CM.s_index keqb s k)
      /\ (forall i, CM.get_pair c i = nth_error s i).

(* non-vacuity: a reachable 7-key state (past the small-size specialisations) satisfies Abs *)
Example c11_nonvacuous : exists c s, @Abs Z Z c s /\ CM.len c = 7 /\ (exists m, c = CM.NE m).
Proof.
  exists (CM.from_iter Z.eqb ex_ops), ex_spec. split; [exact ex7_abs|]. split; [reflexivity|].
  destruct ex7_is_NE as [m [Hm _]]. exists m. exact Hm.
Qed.

Print Assumptions c11_empty_refines.
Print Assumptions c11_new_refines.
Print Assumptions c11_from_iter_refines.
Print Assumptions c11_insert_refines.
Print Assumptions c11_every_op_sequence.
Print Assumptions c11_observers.
Print Assumptions c11_slots_bijective.
Print Assumptions c11_insert_keeps_slots.
Print Assumptions c11_nonvacuous.

(* ====================================================================================================
   The STATE MODEL on top of the container (appended; everything above is the container part).

   Model/StateModel.v     StateFeature, CustomFeatureFormat, StateModel::{new, extend, initial_state, get_*, set_*,
                          add_*}, search_app_ops::collect_features, SearchApp::build_search_instance (state part),
                          written over the container model CM exactly as the code is written over the container
   Model/StateModelSpec.v the specification over the declaration lists (association lists, no container):
                          names = every name declared in configuration, by the traversal model, by the access
                          model, once, in order of first declaration; slot = position; feature = last definition
                          in the order configuration < traversal model < access model < query override
   Quantification: every configured list with distinct names (any container state representing it), every list
   of traversal-model and access-model features (names may repeat, within one model and across), every query
   override set (a JSON object: distinct names), any number of features, every feature kind / unit / format,
   every state vector, every value; arithmetic in exact rationals (QN). *)
From Coq Require Import String QArith Qabs.
From RC Require Import Base.Num Base.Res Model.Units Model.UnitsRun Model.StateModel Model.StateModelSpec
     Proofs.StateModelBuild Proofs.StateModel Proofs.StateModelOps.
Import SM Units.
Local Open Scope nat_scope.

Section C11State.
  Variable N : Num.
  Variable of_int : Z -> N.      (* the integer -> float cast of the custom codecs (`as f64`) *)
  Notation entries := (list (string * feature N)).
  Implicit Types (cfg sm : smodel N) (tm am : entries) (user : user_q N).

  (* the configured model: StateModel::new on distinct names represents the configured list *)
  Theorem c11_configured_model : forall l : entries, NoDup (map fst l) -> SAbs (new l) l.
  Proof. exact (abs_new String.eqb String.eqb_spec). Qed.

  (* REFINEMENT: collect_features + extend, as coded over the container, give the same verdict as the
     specification and, on success, a container that represents exactly the specified list.
     (With invalid overrides of both kinds in one query the code reports whichever its HashMap hands out
     first: both are errors, the class may differ - [mixed_invalid].) *)
  Theorem c11_build_refines : forall cfg (s0 : entries) tm am user,
      SAbs cfg s0 -> NoDup (map fst (user_entries user)) ->
      match build_search_instance cfg tm am user, SMS.build s0 tm am user with
      | Ok sm, Ok s => SAbs sm s
      | Err c, Err c' => c = c' \/ mixed_invalid tm am (user_entries user) = true
      | _, _ => False
      end.
  Proof. exact build_refines. Qed.

  (* every feature occupies exactly one slot; the slots are 0..n-1, none shared, none skipped; the slot of a
     name is the position of its first declaration; configured features keep the slot they had *)
  Theorem slots_bijective : forall cfg (s0 : entries) tm am user sm,
      SAbs cfg s0 -> NoDup (map fst (user_entries user)) ->
      build_search_instance cfg tm am user = Ok sm ->
      (forall k, get_index sm k = SMS.position (SMS.final_names s0 tm am) k)
      /\ len sm = List.length (SMS.final_names s0 tm am)
      /\ NoDup (SMS.final_names s0 tm am)
      /\ (forall k i, get_index sm k = Some i -> i < len sm)
      /\ (forall k1 k2 i, get_index sm k1 = Some i -> get_index sm k2 = Some i -> k1 = k2)
      /\ (forall i, i < len sm -> exists k, get_index sm k = Some i)
      /\ (forall k, get_index sm k <> None <-> In k (map fst s0) \/ In k (map fst tm) \/ In k (map fst am))
      /\ (forall k i, get_index cfg k = Some i -> get_index sm k = Some i).
  Proof. exact (slots_bijective_lemma N). Qed.

  (* the initial state has exactly n entries; the entry at a name's slot is the initial value of the LAST
     definition of that name (query override, else last model definition, else configuration), encoded by its
     format *)
  Theorem initial_state_length_and_values : forall cfg (s0 : entries) tm am user sm,
      SAbs cfg s0 -> NoDup (map fst (user_entries user)) ->
      build_search_instance cfg tm am user = Ok sm ->
      exists st, initial_state N of_int sm = Ok st
        /\ List.length st = len sm
        /\ (forall k i, get_index sm k = Some i ->
              exists f, SMS.final_feature s0 tm am (user_entries user) k = Some f
                        /\ nth_error st i = Some (SMS.initial_value N of_int f)).
  Proof. exact (initial_state_lemma N of_int). Qed.

  Theorem override_keeps_slot : forall cfg (s0 : entries) tm am (u : entries) sm sm0,
      SAbs cfg s0 -> NoDup (map fst u) ->
      build_search_instance cfg tm am (USome u) = Ok sm ->
      build_search_instance cfg tm am UNone = Ok sm0 ->
      len sm = len sm0 /\ forall k, get_index sm k = get_index sm0 k.
  Proof. exact (override_keeps_slot_lemma N). Qed.

  (* set_* / add_* / set_custom_* change the slot of their name and nothing else, and every other name reads
     as before *)
  Theorem set_touches_own_slot :
      (forall U (unit_of : feature N -> res U) conv sm st name x u st',
         set_with N unit_of conv sm st name x u = Ok st' ->
         exists i, get_index sm name = Some i /\ List.length st' = List.length st
                   /\ forall j, j <> i -> nth_error st' j = nth_error st j)
      /\ (forall U (unit_of : feature N -> res U) conv sm st name x u st',
         add_with N unit_of conv sm st name x u = Ok st' ->
         exists i, get_index sm name = Some i /\ List.length st' = List.length st
                   /\ forall j, j <> i -> nth_error st' j = nth_error st j)
      /\ (forall X (enc : fmt N -> X -> res N) sm st name (x : X) st',
         set_custom_with N enc sm st name x = Ok st' ->
         exists i, get_index sm name = Some i /\ List.length st' = List.length st
                   /\ forall j, j <> i -> nth_error st' j = nth_error st j)
      /\ (forall sm (s : entries) st st' name i name',
         SAbs sm s -> get_index sm name = Some i -> name' <> name ->
         (forall j, j <> i -> nth_error st' j = nth_error st j) ->
         get_state_variable N sm st' name' = get_state_variable N sm st name').
  Proof.
    repeat split.
    - intros U unit_of conv. exact (set_frame N unit_of conv).
    - intros U unit_of conv. exact (add_frame N unit_of conv).
    - intros X enc. exact (set_custom_frame N enc).
    - exact (other_names_unchanged N).
  Qed.

  Theorem unknown_name_is_error :
      (* a query override of a name no model declares *)
      (forall cfg (s0 : entries) tm am (u : entries) (e : string * feature N),
         SAbs cfg s0 -> NoDup (map fst u) -> In e u -> ~ In (fst e) (map fst (tm ++ am)) ->
         exists c, build_search_instance cfg tm am (USome u) = Err c
                   /\ (c = err_unknown \/ mixed_invalid tm am u = true))
      (* an accessor on a name that is not in the model *)
      /\ (forall U (unit_of : feature N -> res U) conv X (enc : fmt N -> X -> res N) sm (s : entries) st name u x (cx : X),
         SAbs sm s -> get_index sm name = None ->
         get_with N unit_of conv sm st name u = Err err_unknown
         /\ set_with N unit_of conv sm st name x u = Err err_unknown
         /\ add_with N unit_of conv sm st name x u = Err err_unknown
         /\ get_custom_state_variable N sm st name = Err err_unknown
         /\ set_custom_with N enc sm st name cx = Err err_unknown).
  Proof.
    split.
    - exact unknown_override_refused.
    - intros U unit_of conv X enc. exact (unknown_name_accessors N unit_of conv enc).
  Qed.

  Theorem type_mismatch_is_error :
      (* a query override with another feature type *)
      (forall cfg (s0 : entries) tm am (u : entries) (e : string * feature N) m,
         SAbs cfg s0 -> NoDup (map fst u) -> In e u -> SMS.last_def (tm ++ am) (fst e) = Some m ->
         feature_type m <> feature_type (snd e) ->
         exists c, build_search_instance cfg tm am (USome u) = Err c
                   /\ (c = err_type \/ mixed_invalid tm am u = true))
      (* a definition replacing a definition of another kind *)
      /\ (forall cfg (s0 : entries) tm am user,
         SAbs cfg s0 -> NoDup (map fst (user_entries user)) -> user <> UBad ->
         existsb (SMS.unknown_override tm am) (user_entries user) = false ->
         existsb (SMS.mistyped_override tm am) (user_entries user) = false ->
         existsb (SMS.replaces_other_kind SMS.lookup s0) (SMS.model_defs tm am)
         || existsb (SMS.replaces_other_kind SMS.last_def (tm ++ am)) (user_entries user) = true ->
         build_search_instance cfg tm am user = Err err_build)
      (* an accessor of one family on a feature of another *)
      /\ (forall U (unit_of : feature N -> res U) conv sm st name f c u x,
         get_feature N sm name = Ok f -> unit_of f = Err c ->
         set_with N unit_of conv sm st name x u = Err c
         /\ add_with N unit_of conv sm st name x u = Err c
         /\ (forall v, get_state_variable N sm st name = Ok v -> get_with N unit_of conv sm st name u = Err c)).
  Proof.
    repeat split.
    - exact mistyped_override_refused.
    - exact other_kind_refused.
    - exact (proj1 (wrong_family_accessors N unit_of conv sm st name f c u x H H0)).
    - exact (proj1 (proj2 (wrong_family_accessors N unit_of conv sm st name f c u x H H0))).
    - exact (proj2 (proj2 (wrong_family_accessors N unit_of conv sm st name f c u x H H0))).
  Qed.
End C11State.

(* ---- reading back what was written, exact rationals ---- *)
Local Open Scope Q_scope.
(* set in unit u then get in unit u: y = x converted to the feature's unit fu and back = x * k(u,fu) * k(fu,u);
   within C09's round-trip bound of x (0.1 %), and exactly x when u = fu *)
Theorem get_set_roundtrip :
    (forall (sm : smodel QN) st name (x : Q) u st',
       set_distance QN sm st name x u = Ok st' ->
       exists f fu y, get_feature QN sm name = Ok f /\ get_distance_unit QN f = Ok fu
         /\ get_distance QN sm st' name u = Ok y /\ y = convert_distance QN fu u (convert_distance QN u fu x)
         /\ y == x * k_dist u fu * k_dist fu u /\ Qabs (y - x) <= UnitsRun.tol * Qabs x /\ (u = fu -> y == x))
    /\ (forall (sm : smodel QN) st name (x : Q) u st',
       set_time QN sm st name x u = Ok st' ->
       exists f fu y, get_feature QN sm name = Ok f /\ get_time_unit QN f = Ok fu
         /\ get_time QN sm st' name u = Ok y /\ y = convert_time QN fu u (convert_time QN u fu x)
         /\ y == x * k_time u fu * k_time fu u /\ Qabs (y - x) <= UnitsRun.tol * Qabs x /\ (u = fu -> y == x))
    /\ (forall (sm : smodel QN) st name (x : Q) u st',
       set_energy QN sm st name x u = Ok st' ->
       exists f fu y, get_feature QN sm name = Ok f /\ get_energy_unit QN f = Ok fu
         /\ get_energy QN sm st' name u = Ok y /\ y = convert_energy QN fu u (convert_energy QN u fu x)
         /\ y == x * k_energy u fu * k_energy fu u /\ Qabs (y - x) <= UnitsRun.tol * Qabs x /\ (u = fu -> y == x)).
Proof.
  split; [exact get_set_roundtrip_distance|]. split; [exact get_set_roundtrip_time | exact get_set_roundtrip_energy].
Qed.

(* add in unit u: the reading in unit u grows by the increment converted to the feature's unit and back *)
Theorem get_after_add :
    (forall (sm : smodel QN) st name (dx : Q) u st' y0,
       add_distance QN sm st name dx u = Ok st' -> get_distance QN sm st name u = Ok y0 ->
       exists fu y1, get_distance QN sm st' name u = Ok y1
         /\ y1 == y0 + dx * k_dist u fu * k_dist fu u
         /\ Qabs (y1 - (y0 + dx)) <= UnitsRun.tol * Qabs dx /\ (u = fu -> y1 == y0 + dx))
    /\ (forall (sm : smodel QN) st name (dx : Q) u st' y0,
       add_time QN sm st name dx u = Ok st' -> get_time QN sm st name u = Ok y0 ->
       exists fu y1, get_time QN sm st' name u = Ok y1
         /\ y1 == y0 + dx * k_time u fu * k_time fu u
         /\ Qabs (y1 - (y0 + dx)) <= UnitsRun.tol * Qabs dx /\ (u = fu -> y1 == y0 + dx))
    /\ (forall (sm : smodel QN) st name (dx : Q) u st' y0,
       add_energy QN sm st name dx u = Ok st' -> get_energy QN sm st name u = Ok y0 ->
       exists fu y1, get_energy QN sm st' name u = Ok y1
         /\ y1 == y0 + dx * k_energy u fu * k_energy fu u
         /\ Qabs (y1 - (y0 + dx)) <= UnitsRun.tol * Qabs dx /\ (u = fu -> y1 == y0 + dx)).
Proof.
  split; [exact get_after_add_distance|]. split; [exact get_after_add_time | exact get_after_add_energy].
Qed.

(* the custom codecs: floats and booleans are read back exactly; an integer is read back as the code's two casts
   leave it: rounded to 53 significant bits by `as f64` (ties to even; [round53], computed on Z), then saturated to
   the range of its type by `as i64` / `as u64` ([clamp]).  Hence exactly for |z| <= 2^53, and the u64::MAX /
   i64::MAX / i64::MIN sentinels survive the round trip (u64::MAX as f64 = 2^64, 2^64 as u64 = u64::MAX). *)
Theorem custom_get_set_roundtrip : forall (sm : smodel QN) (st : list QN) name st',
    (forall x : Q, set_custom_f64 QN sm st name x = Ok st' -> get_custom_f64 QN sm st' name = Ok x)
    /\ (forall z, set_custom_i64 QN of_int_Q sm st name z = Ok st' ->
                  get_custom_i64 QN trunc_Q sm st' name = Ok (clamp i64_min i64_max (round53 z)))
    /\ (forall z, (0 <= z)%Z -> set_custom_u64 QN of_int_Q sm st name z = Ok st' ->
                  get_custom_u64 QN trunc_Q sm st' name = Ok (clamp 0 u64_max (round53 z)))
    /\ (forall b, set_custom_bool QN sm st name b = Ok st' -> get_custom_bool QN sm st' name = Ok b).
Proof. exact custom_roundtrip. Qed.

Theorem custom_integers_exact_up_to_2_53 :
    (forall z, (Z.abs z <= 2 ^ 53)%Z -> clamp i64_min i64_max (round53 z) = z)
    /\ (forall z, (0 <= z <= 2 ^ 53)%Z -> clamp 0 u64_max (round53 z) = z).
Proof. split; [exact i64_small | exact u64_small]. Qed.

Theorem custom_integer_range_ends :
    (clamp 0 u64_max (round53 u64_max) = u64_max
    /\ clamp i64_min i64_max (round53 i64_max) = i64_max
    /\ clamp i64_min i64_max (round53 i64_min) = i64_min
    /\ round53 (2 ^ 53 + 1) = 2 ^ 53 /\ round53 (2 ^ 53 + 3) = 2 ^ 53 + 4
    /\ clamp 0 u64_max (round53 (u64_max - 1024)) = u64_max - 2047
    /\ clamp 0 u64_max (round53 (u64_max - 1023)) = u64_max)%Z.
Proof. exact range_ends. Qed.
Local Close Scope Q_scope.

(* statement pins *)
Check slots_bijective : forall (N : Num) (cfg : smodel N) (s0 tm am : list (string * feature N)) (user : user_q N) (sm : smodel N),
    SAbs cfg s0 -> NoDup (map fst (user_entries user)) -> build_search_instance cfg tm am user = Ok sm ->
    (forall k, get_index sm k = SMS.position (SMS.final_names s0 tm am) k)
    /\ len sm = List.length (SMS.final_names s0 tm am)
    /\ NoDup (SMS.final_names s0 tm am)
    /\ (forall k i, get_index sm k = Some i -> i < len sm)
    /\ (forall k1 k2 i, get_index sm k1 = Some i -> get_index sm k2 = Some i -> k1 = k2)
    /\ (forall i, i < len sm -> exists k, get_index sm k = Some i)
    /\ (forall k, get_index sm k <> None <-> In k (map fst s0) \/ In k (map fst tm) \/ In k (map fst am))
    /\ (forall k i, get_index cfg k = Some i -> get_index sm k = Some i).
Check initial_state_length_and_values : forall (N : Num) (of_int : Z -> N) (cfg : smodel N) (s0 tm am : list (string * feature N)) (user : user_q N) (sm : smodel N),
    SAbs cfg s0 -> NoDup (map fst (user_entries user)) -> build_search_instance cfg tm am user = Ok sm ->
    exists st, initial_state N of_int sm = Ok st /\ List.length st = len sm
      /\ (forall k i, get_index sm k = Some i ->
            exists f, SMS.final_feature s0 tm am (user_entries user) k = Some f
                      /\ nth_error st i = Some (SMS.initial_value N of_int f)).

(* ---- non-vacuity: 3 configured features, 3 from the traversal model (one of them re-declaring a configured
   one in another unit), 2 from the access model (one of them declared by the traversal model too), and a query
   that overrides two model-contributed features: 7 features, an NEntries container ---- *)
Section Example7State.
  Local Open Scope string_scope.
  Local Open Scope Q_scope.
  Definition ex_cfg : list (string * feature QN) :=
    [("distance", FDistance Kilometers 0); ("time", FTime Minutes 0); ("energy_electric", FEnergy KilowattHours 0)].
  Definition ex_tm : list (string * feature QN) :=
    [("trip_distance", FDistance Miles 0); ("battery_state", FCustom "soc" "percent" (FFloat 100));
     ("time", FTime Seconds 30)].
  Definition ex_am : list (string * feature QN) :=
    [("trip_time", FTime Seconds 0); ("battery_state", FCustom "soc" "percent" (FFloat 90)); ("stops", FCustom "count" "items" (FSigned 3))].
  Definition ex_user : list (string * feature QN) :=
    [("battery_state", FCustom "soc" "percent" (FFloat 55)); ("trip_time", FTime Hours 2)].

  Example ex7_hypotheses : SAbs (new ex_cfg) ex_cfg /\ NoDup (map fst (user_entries (USome ex_user))).
  Proof.
    split.
    - apply (abs_new String.eqb String.eqb_spec). cbn. repeat constructor; cbn; intuition discriminate.
    - cbn. repeat constructor; cbn; intuition discriminate.
  Qed.

  Example ex7_state_model :
    exists sm m, build_search_instance (new ex_cfg) ex_tm ex_am (USome ex_user) = Ok sm
      /\ sm = CM.NE m /\ len sm = 7%nat
      /\ get_names sm = ["distance"; "time"; "energy_electric"; "trip_distance"; "battery_state"; "trip_time"; "stops"]
      /\ get_index sm "battery_state" = Some 4%nat /\ get_index sm "trip_time" = Some 5%nat
      /\ get_index sm "time" = Some 1%nat
      /\ initial_state QN of_int_Q sm = Ok [0; 30; 0; 0; 55; 2; 3].
  Proof. eexists. eexists. split; [vm_compute; reflexivity|]. repeat split. Qed.

  (* the same through the theorems *)
  Example ex7_by_theorem :
    forall sm, build_search_instance (new ex_cfg) ex_tm ex_am (USome ex_user) = Ok sm ->
      get_index sm "battery_state" = Some 4%nat
      /\ exists st, initial_state QN of_int_Q sm = Ok st /\ nth_error st 4 = Some 55.
  Proof.
    intros sm H. destruct ex7_hypotheses as [Ha Hn].
    destruct (slots_bijective QN _ _ _ _ _ _ Ha Hn H) as (Hi & _).
    destruct (initial_state_length_and_values QN of_int_Q _ _ _ _ _ _ Ha Hn H) as (st & Hst & _ & Hv).
    split; [rewrite Hi; reflexivity|]. exists st. split; [exact Hst|].
    destruct (Hv "battery_state" 4%nat) as (f & Hf & Hn4); [rewrite Hi; reflexivity|].
    vm_compute in Hf. injection Hf as <-. exact Hn4.
  Qed.

  (* round trip on that model: 10 miles written to a feature kept in kilometres reads back as
     10 * 1.60934 * 0.6215040398 miles; the other slots are untouched *)
  Definition ex_sm : smodel QN :=
    Eval vm_compute in match build_search_instance (new ex_cfg) ex_tm ex_am (USome ex_user) with Ok sm => sm | _ => empty end.
  Definition ex_st : list Q := Eval vm_compute in match initial_state QN of_int_Q ex_sm with Ok st => st | _ => [] end.
  Definition ex_st' : list Q :=
    Eval vm_compute in match set_distance QN ex_sm ex_st "distance" 10 Miles with Ok st => st | _ => [] end.
  Example ex7_roundtrip :
    build_search_instance (new ex_cfg) ex_tm ex_am (USome ex_user) = Ok ex_sm
    /\ initial_state QN of_int_Q ex_sm = Ok ex_st
    /\ set_distance QN ex_sm ex_st "distance" 10 Miles = Ok ex_st'
    /\ get_distance QN ex_sm ex_st' "distance" Miles
       = Ok (convert_distance QN Kilometers Miles (convert_distance QN Miles Kilometers 10))
    /\ nth_error ex_st' 4 = Some 55 /\ List.length ex_st' = 7%nat.
  Proof. repeat split; vm_compute; reflexivity. Qed.

  (* refusals are reachable too *)
  Example ex7_refused :
    build_search_instance (new ex_cfg) ex_tm ex_am (USome [("ghost", FTime Hours 2)]) = Err err_unknown
    /\ build_search_instance (new ex_cfg) ex_tm ex_am (USome [("trip_time", FDistance Miles 2)]) = Err err_type
    /\ build_search_instance (new ex_cfg) ex_tm ex_am (USome [("trip_time", FCustom "time" "s" (FFloat 2))]) = Err err_build
    /\ build_search_instance (new ex_cfg) ex_tm ex_am (USome [("distance", FDistance Miles 2)]) = Err err_unknown.
  Proof. repeat split; vm_compute; reflexivity. Qed.
End Example7State.

Print Assumptions c11_configured_model.
Print Assumptions c11_build_refines.
Print Assumptions slots_bijective.
Print Assumptions initial_state_length_and_values.
Print Assumptions override_keeps_slot.
Print Assumptions set_touches_own_slot.
Print Assumptions unknown_name_is_error.
Print Assumptions type_mismatch_is_error.
Print Assumptions get_set_roundtrip.
Print Assumptions get_after_add.
Print Assumptions custom_get_set_roundtrip.
Print Assumptions custom_integers_exact_up_to_2_53.
Print Assumptions custom_integer_range_ends.
Print Assumptions ex7_hypotheses.
Print Assumptions ex7_state_model.
Print Assumptions ex7_by_theorem.
Print Assumptions ex7_roundtrip.
Print Assumptions ex7_refused.
