(* C11 - every state feature owns exactly one state-vector slot, at any feature count; the
   ordered container behind it is an insertion-ordered map for every sequence of inserts and
   overwrites, at every size.

   This file contains only statements: each theorem is closed by [exact] of a lemma proved in
   Proofs/, pinned by a [Check ... : statement] and followed by Print Assumptions. *)
From Coq Require Import List Arith Bool ZArith.
From RC Require Import Model.CompactMap Proofs.CompactMap.
Import ListNotations.

Section C11.
  Context {K V : Type} (keqb : K -> K -> bool).
  Hypothesis keqb_spec : forall a b, reflect (a = b) (keqb a b).
  Notation Abs := (@Abs K V).
  Notation ins_all := (fold_left (fun s kv => CM.s_ins keqb s (fst kv) (snd kv))).
  Notation insert_all := (fold_left (fun c kv => fst (CM.insert keqb c (fst kv) (snd kv)))).

  (* Refinement: every reachable container state (any constructor followed by any sequence of
     inserts and overwrites, of any length) represents the insertion-ordered list obtained by
     the same operations on the specification ... *)
  Theorem c11_empty_refines : Abs CM.empty [].
  Proof. exact abs_empty. Qed.
  Theorem c11_new_refines : forall l, NoDup (map fst l) -> Abs (CM.new keqb l) l.
  Proof. exact (abs_new keqb keqb_spec). Qed.
  Theorem c11_from_iter_refines : forall l, Abs (CM.from_iter keqb l) (ins_all l []).
  Proof. exact (abs_from_iter keqb keqb_spec). Qed.
  Theorem c11_insert_refines : forall c s k v, Abs c s ->
      Abs (fst (CM.insert keqb c k v)) (CM.s_ins keqb s k v)
      /\ snd (CM.insert keqb c k v) = CM.s_get keqb s k.
  Proof. exact (abs_insert keqb keqb_spec). Qed.
  Theorem c11_every_op_sequence : forall ops c s, Abs c s -> Abs (insert_all ops c) (ins_all ops s).
  Proof. exact (ops_refine keqb keqb_spec). Qed.

  (* ... and every observer of the container returns what the list says. *)
  Theorem c11_observers : forall c s, Abs c s ->
      CM.len c = length s
      /\ CM.iter c = s
      /\ CM.keys c = map fst s
      /\ CM.to_vec c = indexed s
      /\ (forall k, CM.get keqb c k = CM.s_get keqb s k)
      /\ (forall k, CM.get_index keqb c k = CM.s_index keqb s k)
      /\ (forall i, CM.get_pair c i = nth_error s i).
  Proof.
    intros c s H. repeat split; intros.
    - exact (abs_len c s H).
    - exact (abs_iter c s H).
    - exact (abs_keys c s H).
    - exact (abs_to_vec c s H).
    - exact (abs_get keqb keqb_spec c s k H).
    - exact (abs_get_index keqb keqb_spec c s k H).
    - exact (abs_get_pair c s i H).
  Qed.

  (* Slots: the index of a feature is its position in insertion order; slots are exactly
     0..n-1, none shared, none skipped; inserting never moves an existing slot and a new
     feature takes slot n. *)
  Theorem c11_slots_bijective : forall c s, Abs c s ->
      (forall k i, CM.get_index keqb c k = Some i -> i < CM.len c)
      /\ (forall k1 k2 i, CM.get_index keqb c k1 = Some i -> CM.get_index keqb c k2 = Some i -> k1 = k2)
      /\ (forall i, i < CM.len c -> exists k, CM.get_index keqb c k = Some i)
      /\ (forall k i, CM.get_index keqb c k = Some i <-> exists v, CM.get_pair c i = Some (k, v)).
  Proof.
    intros c s H. pose proof (abs_nodup c s H) as Hnd.
    rewrite (abs_len c s H). repeat split.
    - intros k i Hi. rewrite (abs_get_index keqb keqb_spec c s k H) in Hi.
      exact (s_index_lt keqb keqb_spec s k i Hi).
    - intros k1 k2 i H1 H2. rewrite (abs_get_index keqb keqb_spec c s k1 H) in H1.
      rewrite (abs_get_index keqb keqb_spec c s k2 H) in H2.
      exact (s_index_inj keqb keqb_spec s k1 k2 i H1 H2).
    - intros i Hi. destruct (s_index_surj keqb keqb_spec s i Hnd Hi) as [k Hk].
      exists k. rewrite (abs_get_index keqb keqb_spec c s k H). exact Hk.
    - intros Hi. rewrite (abs_get_index keqb keqb_spec c s k H) in Hi.
      apply (s_index_nth keqb keqb_spec s k i Hnd) in Hi. destruct Hi as [v Hv].
      exists v. rewrite (abs_get_pair c s i H). exact Hv.
    - intros [v Hv]. rewrite (abs_get_pair c s i H) in Hv.
      rewrite (abs_get_index keqb keqb_spec c s k H).
      apply (s_index_nth keqb keqb_spec s k i Hnd). exists v. exact Hv.
  Qed.

  Theorem c11_insert_keeps_slots : forall c s k v, Abs c s ->
      let c' := fst (CM.insert keqb c k v) in
      (forall k' i, CM.get_index keqb c k' = Some i -> CM.get_index keqb c' k' = Some i)
      /\ (CM.get keqb c k = None -> CM.get_index keqb c' k = Some (CM.len c) /\ CM.len c' = S (CM.len c))
      /\ (CM.get keqb c k <> None -> CM.len c' = CM.len c)
      /\ CM.get keqb c' k = Some v
      /\ (forall k', k' <> k -> CM.get keqb c' k' = CM.get keqb c k').
  Proof.
    intros c s k v H c'.
    destruct (abs_insert keqb keqb_spec c s k v H) as [H' _]. fold c' in H'.
    pose proof (s_ins_length keqb s k v) as Hlen.
    rewrite (abs_len c s H), (abs_len c' _ H'), (abs_get keqb keqb_spec c s k H),
      (abs_get keqb keqb_spec c' _ k H').
    repeat split.
    - intros k' i Hi. rewrite (abs_get_index keqb keqb_spec c s k' H) in Hi.
      rewrite (abs_get_index keqb keqb_spec c' _ k' H').
      exact (s_ins_index_old keqb s k v k' i Hi).
    - rewrite (abs_get_index keqb keqb_spec c' _ k H').
      exact (s_ins_index_new keqb keqb_spec s k v H0).
    - rewrite Hlen, H0. reflexivity.
    - intros Hne. rewrite Hlen. destruct (CM.s_get keqb s k); [reflexivity | congruence].
    - exact (s_get_ins_same keqb keqb_spec s k v).
    - intros k' Hk'. rewrite (abs_get keqb keqb_spec c' _ k' H'), (abs_get keqb keqb_spec c s k' H).
      exact (s_get_ins_other keqb keqb_spec s k v k' Hk').
  Qed.
End C11.

(* statement pins: editing a statement above without editing the pin breaks the build *)
Check @c11_every_op_sequence : forall K V keqb, (forall a b, reflect (a = b) (keqb a b)) ->
  forall (ops : list (K * V)) c s, Abs c s ->
  Abs (fold_left (fun c kv => fst (CM.insert keqb c (fst kv) (snd kv))) ops c)
      (fold_left (fun s kv => CM.s_ins keqb s (fst kv) (snd kv)) ops s).
Check @c11_observers : forall K V keqb, (forall a b, reflect (a = b) (keqb a b)) ->
  forall (c : CM.cmap K V) s, Abs c s ->
      CM.len c = length s /\ CM.iter c = s /\ CM.keys c = map fst s /\ CM.to_vec c = indexed s
      /\ (forall k, CM.get keqb c k = CM.s_get keqb s k)
      /\ (forall k, CM.get_index keqb c k = CM.s_index keqb s k)
      /\ (forall i, CM.get_pair c i = nth_error s i).

(* non-vacuity: a reachable 7-key state (past the small-size specialisations) satisfies Abs *)
Example c11_nonvacuous : exists c s, @Abs Z Z c s /\ CM.len c = 7 /\ (exists m, c = CM.NE m).
Proof.
  exists (CM.from_iter Z.eqb ex_ops), ex_spec. split; [exact ex7_abs|]. split; [reflexivity|].
  destruct ex7_is_NE as [m [Hm _]]. exists m. exact Hm.
Qed.

Print Assumptions c11_empty_refines.
Print Assumptions c11_new_refines.
Print Assumptions c11_from_iter_refines.
Print Assumptions c11_insert_refines.
Print Assumptions c11_every_op_sequence.
Print Assumptions c11_observers.
Print Assumptions c11_slots_bijective.
Print Assumptions c11_insert_keeps_slots.
Print Assumptions c11_nonvacuous.
