(* C12 - no batch of queries makes the application panic, abort or run without bound; every query
   is answered with a response that carries its request; an error is local to its query.

   The model (Model/Pipeline.v, module PL) is the control skeleton of CompassApp::run over JSON
   values with Rust's failure modes as values (Ok | Err | Panic | OutOfFuel).  The components the
   property quantifies over are arguments: the input plugins, the per-query search, the output
   plugins, the response sink, both parallelism values and the persistence policy.  "Benign" means
   "returns Ok or Err" (never Panic, never OutOfFuel).

   This file contains only statements: each theorem is closed by [exact] of a lemma proved in
   Proofs/Pipeline.v / Proofs/PipelineAnswers.v, pinned by a [Check], followed by Print Assumptions. *)
From Coq Require Import ZArith String List Bool Arith Permutation.
From RC Require Import Base.Res Base.Json Model.Pipeline Proofs.Pipeline Proofs.PipelineAnswers.
Import ListNotations.
Import PL.
Local Open Scope list_scope.

Section C12.
  Variable wo : wops.          (* the f64 weight arithmetic of the load balancer, abstract *)
  Variable R : Type.
  Variable plugins : list plugin.
  Variable search : json -> res R.
  Variable oplugins : list (R -> json -> res json).
  Variable sink : json -> res json.
  Variables (par_app par_run : nat) (persist : bool).

  Hypothesis plugins_benign : forall p, In p plugins -> forall q, pbenign (p q) = true.
  Hypothesis search_benign : forall q, crashes (search q) = false.
  Hypothesis oplugins_benign : forall op, In op oplugins -> forall r out, crashes (op r out) = false.

  (* pipeline_total: for EVERY batch (any list of JSON values), every parallelism (0 included), both
     persistence policies and every sink that itself returns: the call returns - never Panic, never
     OutOfFuel.  The pipeline itself contains no fuel-bounded loop: chunking, flattening, the weight
     partition, load balancing and response assembly are structural recursions over the batch; the
     only fuel in the model is in Yen's outer loop (a search component, see search_entry_outside_K). *)
  Theorem pipeline_total : (forall j, crashes (sink j) = false) ->
    forall batch : list json,
      crashes (run wo R plugins search oplugins sink par_app par_run persist batch) = false.
  Proof. intros Hs. exact (run_total wo R plugins search oplugins sink par_app par_run persist plugins_benign search_benign oplugins_benign Hs). Qed.

  (* the same for any JSON document offered as the batch (what the command line does) *)
  Theorem pipeline_total_any_document : (forall j, crashes (sink j) = false) ->
    forall user : json,
      crashes (run_user wo R plugins search oplugins sink par_app par_run persist user) = false.
  Proof. intros Hs. exact (run_user_total wo R plugins search oplugins sink par_app par_run persist plugins_benign search_benign oplugins_benign Hs). Qed.

  (* hypotheses of the answer theorems: output plugins keep the "request" field, the sink accepts
     every response and keeps its request (ResponseSink::None: the identity), parallelism >= 1,
     responses persisted in memory *)
  Hypothesis oplugins_keep_request : forall op, In op oplugins -> forall r out out',
      op r out = Ok out' -> jget out' "request" = jget out "request".
  Hypothesis sink_accepts : forall j, exists j', sink j = Ok j' /\ jget j' "request" = jget j "request".
  Hypothesis par_pos : 1 <= par_run.

  (* every_query_answered: the call returns Ok; the number of responses is the number of queries
     after expansion (a query that fails in the input stage counts once); every response carries a
     request; every processed query q' is answered by a response whose request is q' *)
  Theorem every_query_answered : forall batch,
    exists resps, run wo R plugins search oplugins sink par_app par_run true batch = Ok resps
      /\ List.length resps = list_sum (map (stage_count plugins) batch)
      /\ (forall r, In r resps -> exists x, jget r "request" = Some x)
      /\ (forall q qs q', In q batch -> apply_input_plugins plugins q = SOk qs -> In q' qs ->
            exists r, In r resps /\ jget r "request" = Some q'
                      /\ (weight_ok wo q' = false -> r = werr sink q')).
  Proof.
    exact (run_answers_every_query wo R plugins search oplugins sink par_app par_run plugins_benign search_benign
             oplugins_benign oplugins_keep_request sink_accepts par_pos).
  Qed.

  (* the responses are, up to order, the answers every query gets on its own ... *)
  Theorem responses_decompose : forall batch,
    exists resps, run wo R plugins search oplugins sink par_app par_run true batch = Ok resps
      /\ Permutation resps (flat_map (per_query wo R plugins search oplugins sink) batch).
  Proof.
    exact (run_decomposes wo R plugins search oplugins sink par_app par_run plugins_benign search_benign
             oplugins_benign oplugins_keep_request sink_accepts par_pos).
  Qed.
  (* ... hence error_is_local: replacing one query (by one on which a component returns Err, say)
     changes that query's own responses and nothing else *)
  Theorem error_is_local : forall qs1 q q' qs2,
    exists resps resps' rest,
      run wo R plugins search oplugins sink par_app par_run true (qs1 ++ q :: qs2) = Ok resps
      /\ run wo R plugins search oplugins sink par_app par_run true (qs1 ++ q' :: qs2) = Ok resps'
      /\ Permutation resps (per_query wo R plugins search oplugins sink q ++ rest)
      /\ Permutation resps' (per_query wo R plugins search oplugins sink q' ++ rest).
  Proof.
    exact (run_error_is_local wo R plugins search oplugins sink par_app par_run plugins_benign search_benign
             oplugins_benign oplugins_keep_request sink_accepts par_pos).
  Qed.
End C12.

(* what an input-stage error response echoes: for an OBJECT query under plugins that keep the
   documented invariant (object -> object or array of objects), the query value the failing plugin
   left behind ... *)
Theorem object_query_error_echoes_request : forall ps, (forall p, In p ps -> keeps_shape p) ->
  forall q e, is_obj q = true -> apply_input_plugins ps q = SErr e ->
  exists p q0 q' c, In p ps /\ is_obj q0 = true /\ p q0 = PFail q' c /\ e = package_error q' c.
Proof. exact object_query_error_echoes. Qed.
(* ... and a query that is not an object (null, number, string, bool, array) is answered with an
   error response whose request is that query, under every plugin configuration (plugins are not run) *)
Theorem nonobject_query_is_echoed : forall ps q, is_obj q = false ->
  exists c, apply_input_plugins ps q = SErr (package_error q c).
Proof. exact nonobject_query_echoed. Qed.

(* the concrete components satisfy the 'benign' hypothesis for EVERY JSON input *)
Theorem inject_never_panics : forall k v o q, pbenign (inject k v o q) = true.
Proof. exact inject_benign. Qed.
Theorem weight_plugin_never_panics : forall wo c q, pbenign (lb_numeric wo c q) = true.
Proof. exact lb_numeric_benign. Qed.
Theorem grid_search_never_panics : forall q, pbenign (grid_search q) = true.
Proof. exact grid_search_benign. Qed.
Theorem weight_extraction_total : forall wo q, crashes (weight_estimate wo q) = false.
Proof. exact weight_estimate_total. Qed.
Theorem get_queries_never_panics : forall user, crashes (get_queries user) = false.
Proof. exact get_queries_total. Qed.
Theorem concrete_plugins_benign : forall wo p, concrete wo p -> (forall q, pbenign (p q) = true) /\ keeps_shape p.
Proof. intros wo p H. split; [exact (concrete_benign wo p H)|exact (concrete_keeps_shape wo p H)]. Qed.
(* degenerate grid-search sections as the current code handles them: {} -> one copy, an empty
   array -> error, scalars ignored, a scalar section -> error, nesting -> error, non-object -> untouched *)
Theorem grid_search_degenerate_sections :
  let q s := JObj [("origin_vertex", JInt 0); ("grid_search", s)] in
  grid_search (q (JObj [])) = PDone (JArr [JObj [("origin_vertex", JInt 0)]])
  /\ (exists c, grid_search (q (JObj [("a", JArr [])])) = PFail (q (JObj [("a", JArr [])])) c)
  /\ (exists c, grid_search (q (JObj [("a", JArr [JInt 1]); ("b", JArr [])])) = PFail (q (JObj [("a", JArr [JInt 1]); ("b", JArr [])])) c)
  /\ grid_search (q (JObj [("a", JInt 5)])) = PDone (JArr [JObj [("origin_vertex", JInt 0)]])
  /\ (exists c, grid_search (q (JInt 5)) = PFail (q (JInt 5)) c)
  /\ (exists c, grid_search (q (JObj [("a", JArr [JObj [("grid_search", JObj [])]])])) = PFail (q (JObj [("a", JArr [JObj [("grid_search", JObj [])]])])) c)
  /\ grid_search (JInt 5) = PDone (JInt 5).
Proof. exact grid_search_degenerate. Qed.

(* the search entry: outside the class K = "algorithm = yens and effective k >= 2" (k from the query
   field "k", else the configured k) the dispatch returns whenever the underlying search does, with
   fuel 1; inside K it does not (known finding K_yens_k_ge_2) *)
Theorem search_entry_outside_K : forall alg shortest spur,
  (forall q, crashes (shortest q) = false) ->
  forall q fuel, 1 <= fuel -> K_yens_k_ge_2 alg q = false ->
  crashes (search_entry alg shortest spur fuel q) = false.
Proof. exact search_entry_total. Qed.
Theorem yens_K_witness_panic : forall spur fuel, exists w,
  K_yens_k_ge_2 (Yens 1) (JObj [("k", JInt 2)]) = true
  /\ search_entry (Yens 1) (fun _ => Ok [[7]]) spur (S fuel) (JObj [("k", JInt 2)]) = Panic w.
Proof. exact yens_k_from_query. Qed.
Theorem yens_K_witness_diverges : forall spur fuel,
  search_entry (Yens 2) (fun _ => Ok [[7; 8]]) spur fuel (JObj []) = OutOfFuel.
Proof. exact yens_two_edges_diverges. Qed.
(* ... and the whole call inherits it: a one-query batch panics / never returns *)
Theorem pipeline_K_witness_panic : exists w,
  run zw unit [] (yens_as_search [[0]] 8) [] (fun j => Ok j) 2 2 true
      [JObj [("origin_vertex", JInt 0); ("destination_vertex", JInt 1)]] = Panic w.
Proof. exact pipeline_yens_panics. Qed.
Theorem pipeline_K_witness_diverges : forall wo fuel,
  run wo unit [] (yens_as_search [[0; 1]] fuel) [] (fun j => Ok j) 2 2 true
      [JObj [("origin_vertex", JInt 0); ("destination_vertex", JInt 2)]] = OutOfFuel.
Proof. exact pipeline_yens_diverges. Qed.
(* the seeded defect behind D-EMPTY: a chunk size of 0 panics, the arithmetic never produces it *)
Theorem chunk_size_never_zero : forall len par, 1 <= chunk_size len par.
Proof. exact chunk_size_pos. Qed.

(* statement pins *)
Check pipeline_total : forall wo R plugins search oplugins sink par_app par_run persist,
  (forall p, In p plugins -> forall q, pbenign (p q) = true) ->
  (forall q, crashes (search q) = false) ->
  (forall op, In op oplugins -> forall (r : R) out, crashes (op r out) = false) ->
  (forall j, crashes (sink j) = false) ->
  forall batch : list json, crashes (run wo R plugins search oplugins sink par_app par_run persist batch) = false.
Check every_query_answered : forall wo R plugins search oplugins sink par_app par_run,
  (forall p, In p plugins -> forall q, pbenign (p q) = true) ->
  (forall q, crashes (search q) = false) ->
  (forall op, In op oplugins -> forall (r : R) out, crashes (op r out) = false) ->
  (forall op, In op oplugins -> forall r out out', op r out = Ok out' -> jget out' "request" = jget out "request") ->
  (forall j, exists j', sink j = Ok j' /\ jget j' "request" = jget j "request") ->
  1 <= par_run ->
  forall batch, exists resps, run wo R plugins search oplugins sink par_app par_run true batch = Ok resps
      /\ List.length resps = list_sum (map (stage_count plugins) batch)
      /\ (forall r, In r resps -> exists x, jget r "request" = Some x)
      /\ (forall q qs q', In q batch -> apply_input_plugins plugins q = SOk qs -> In q' qs ->
            exists r, In r resps /\ jget r "request" = Some q' /\ (weight_ok wo q' = false -> r = werr sink q')).
Check error_is_local : forall wo R plugins search oplugins sink par_app par_run,
  (forall p, In p plugins -> forall q, pbenign (p q) = true) ->
  (forall q, crashes (search q) = false) ->
  (forall op, In op oplugins -> forall (r : R) out, crashes (op r out) = false) ->
  (forall op, In op oplugins -> forall r out out', op r out = Ok out' -> jget out' "request" = jget out "request") ->
  (forall j, exists j', sink j = Ok j' /\ jget j' "request" = jget j "request") ->
  1 <= par_run ->
  forall qs1 q q' qs2, exists resps resps' rest,
      run wo R plugins search oplugins sink par_app par_run true (qs1 ++ q :: qs2) = Ok resps
      /\ run wo R plugins search oplugins sink par_app par_run true (qs1 ++ q' :: qs2) = Ok resps'
      /\ Permutation resps (per_query wo R plugins search oplugins sink q ++ rest)
      /\ Permutation resps' (per_query wo R plugins search oplugins sink q' ++ rest).

(* non-vacuity: a concrete configuration [grid_search; inject; numeric weights] with a search that
   fails on queries without an origin meets every hypothesis, and on a 5-query batch (a 2x2 grid
   query, a non-object, a query the search rejects, an ill-typed weight, an empty grid axis) the call
   returns 8 responses = 4 expansions + 1 + 1 + 1 + 1 *)
Example c12_nonvacuous :
  (forall p, In p ex_plugins -> forall q, pbenign (p q) = true)
  /\ (forall q, crashes (ex_search q) = false)
  /\ (exists rs, run zw unit ex_plugins ex_search [] (fun j => Ok j) 2 3 true ex_batch = Ok rs /\ List.length rs = 8)
  /\ list_sum (map (stage_count ex_plugins) ex_batch) = 8.
Proof.
  split; [intros p Hp; exact (concrete_benign zw p (ex_plugins_concrete p Hp))|].
  split; [exact ex_search_total|]. split; [exact ex_run_counts|]. vm_compute. reflexivity.
Qed.

Print Assumptions pipeline_total.
Print Assumptions pipeline_total_any_document.
Print Assumptions every_query_answered.
Print Assumptions responses_decompose.
Print Assumptions error_is_local.
Print Assumptions object_query_error_echoes_request.
Print Assumptions nonobject_query_is_echoed.
Print Assumptions inject_never_panics.
Print Assumptions weight_plugin_never_panics.
Print Assumptions grid_search_never_panics.
Print Assumptions weight_extraction_total.
Print Assumptions get_queries_never_panics.
Print Assumptions concrete_plugins_benign.
Print Assumptions grid_search_degenerate_sections.
Print Assumptions search_entry_outside_K.
Print Assumptions yens_K_witness_panic.
Print Assumptions yens_K_witness_diverges.
Print Assumptions pipeline_K_witness_panic.
Print Assumptions pipeline_K_witness_diverges.
Print Assumptions chunk_size_never_zero.
Print Assumptions c12_nonvacuous.
