(* C13 - when the destination is reachable a k-shortest-paths query returns between one and k routes: the first is a
   least-cost route, every route is a valid loop-free origin-to-destination route with correctly accumulated state, no
   two have the same edge sequence, and no two are more similar than the configured threshold.  The default 'accept
   all' setting rejects no alternative for similarity, so it returns at least as many routes as any similarity
   threshold does for the same query, and the algorithm always terminates without turning an answerable query into
   an error because one alternative search failed.

   Single-via (Ksp.sv_run): Section C13 states every clause for every graph, cost type, k, termination criterion,
   similarity function, every pop of the intersection queue that removes one entry, and every underlying search that
   returns a tree satisfying the C01 tree invariant; c13_model* discharge all hypotheses for the executable model of
   the correspondence stream.  Yen (Ksp.yens_run, faithful): the known-finding class is K = (k >= 2); the theorems
   are stated outside K and the witnesses inside K are proved on the faithful model.

   This file contains only statements: each theorem is closed by [exact] of a lemma proved in Proofs/. *)
From Coq Require Import List Arith Bool String QArith Permutation.
From stdpp Require Import gmap.
From RC Require Import Base.Res Base.Num Model.Search Model.SearchSpec Model.SearchRun Model.Ksp Model.KspSpec Model.KspRun
  Proofs.SearchInv Proofs.KspBase Proofs.Ksp Proofs.KspDominates Proofs.KspSim Proofs.KspCheck Proofs.KspConcrete
  Proofs.KspModel Proofs.KspYen.
Import ListNotations.
Import Search SearchSpec Ksp KspSpec.

Section C13.
  Context {C St : Type}.
  Variable cadd : C -> C -> C.                       (* Cost addition *)
  Variable cfloor : C -> C.                          (* the positive floor inside EdgeTraversal::total_cost *)
  Variable g : graph.
  Variable traverse_fwd : nat -> option nat -> St -> res (C * C * St).     (* EdgeTraversal::forward_traversal *)
  Variable init_state : res St.
  Variable search : dir -> nat -> nat -> res (sresult C St).              (* underlying.run_vertex_oriented *)
  Variable sim : list nat -> list nat -> res bool.                        (* similarity.test_similarity *)
  Variable pick : list (nat * C) -> option (nat * C * list (nat * C)).    (* intersection_queue.pop *)
  Hypothesis pick_perm : forall q v c q', pick q = Some (v, c, q') -> Permutation q ((v, c) :: q').
  Hypothesis pick_none : forall q, pick q = None -> q = [].
  Hypothesis Hsearch : forall d a b r, search d a b = Ok r ->
    exists tree route, r_trees r = [tree] /\ r_routes r = [route] /\ TreeInv g d a tree
                       /\ vertex_oriented_route a b tree = Ok route.
  Notation run := (sv_run cadd cfloor g traverse_fwd init_state search sim pick).
  Notation ids := (@ids C St).

  (* between one and k routes *)
  Theorem c13_sv_count : forall k term s t r, 1 <= k -> run k term s t = Ok r -> 1 <= length (r_routes r) <= k.
  Proof. exact (sv_count cadd cfloor g traverse_fwd init_state search sim pick pick_perm Hsearch). Qed.

  (* the first route is the underlying forward search's own (least-cost, C02) route *)
  Theorem c13_sv_first_is_best : forall k term s t r, 1 <= k -> run k term s t = Ok r ->
    exists rf route, search Forward s t = Ok rf /\ r_routes rf = [route] /\ nth_error (r_routes r) 0 = Some route.
  Proof. exact (sv_first_is_best cadd cfloor g traverse_fwd init_state search sim pick pick_perm Hsearch). Qed.

  (* every route is a non-empty chained walk from the origin to the destination *)
  Theorem c13_sv_routes_valid : forall k term s t r, s <> t -> run k term s t = Ok r ->
    forall x, In x (r_routes r) -> ids x <> [] /\ walk g Forward s (ids x) t.
  Proof. exact (sv_routes_valid cadd cfloor g traverse_fwd init_state search sim pick pick_perm Hsearch). Qed.

  (* accumulated state: an alternative is a forward-tree path followed by edges re-traversed, one by one, from
     that path's last edge and final state *)
  Theorem c13_sv_routes_state : forall k term s t r, run k term s t = Ok r ->
    forall i x, nth_error (r_routes r) (S i) = Some x ->
    exists v fr rr rf tf, x = fr ++ rr /\ search Forward s t = Ok rf /\ r_trees rf = [tf]
                    /\ vertex_oriented_route s v tf = Ok fr
                    /\ (forall le, last fr = Some le -> chained traverse_fwd (Some (et_edge le)) (et_state le) rr).
  Proof. exact (sv_routes_state cadd cfloor g traverse_fwd init_state search sim pick pick_perm Hsearch). Qed.

  (* loop-free as the code defines it: the tails of the route's edges are pairwise different vertices ... *)
  Theorem c13_sv_loop_free : forall k term s t r, run k term s t = Ok r ->
    forall x, In x (r_routes r) -> List.NoDup (srcs g (ids x)).
  Proof. exact (sv_loop_free cadd cfloor g traverse_fwd init_state search sim pick pick_perm Hsearch). Qed.

  (* ... and no vertex at all is visited twice when the forward search did not expand the destination *)
  Theorem c13_sv_loop_free_full : forall k term s t r, s <> t -> run k term s t = Ok r ->
    (forall rf tf v b, search Forward s t = Ok rf -> r_trees rf = [tf] -> tf !! v = Some b -> b_term b <> t) ->
    forall x, In x (r_routes r) -> List.NoDup (s :: dsts g (ids x)).
  Proof. exact (sv_loop_free_full cadd cfloor g traverse_fwd init_state search sim pick pick_perm Hsearch). Qed.

  (* no two routes have the same edge sequence *)
  Theorem c13_sv_pairwise_distinct : forall k term s t r, run k term s t = Ok r ->
    forall i j a b, i <> j -> nth_error (r_routes r) i = Some a -> nth_error (r_routes r) j = Some b -> ids a <> ids b.
  Proof. exact (sv_pairwise_distinct cadd cfloor g traverse_fwd init_state search sim pick pick_perm Hsearch). Qed.

  (* every pair was tested and found not similar *)
  Theorem c13_sv_pairwise_dissimilar : forall k term s t r, run k term s t = Ok r ->
    forall i j a b, i < j -> nth_error (r_routes r) i = Some a -> nth_error (r_routes r) j = Some b ->
    sim (ids b) (ids a) = Ok false.
  Proof. exact (sv_pairwise_dissimilar cadd cfloor g traverse_fwd init_state search sim pick pick_perm Hsearch). Qed.

  (* the driver's loop needs no fuel beyond |queue|+1: it returns whenever the underlying searches do *)
  Theorem c13_sv_terminates :
    (forall e prev st, traverse_fwd e prev st <> OutOfFuel) -> init_state <> OutOfFuel ->
    (forall a b, sim a b <> OutOfFuel) ->
    forall k term s t, search Forward s t <> OutOfFuel -> search Reverse t s <> OutOfFuel -> run k term s t <> OutOfFuel.
  Proof. exact (sv_terminates cadd cfloor g traverse_fwd init_state search sim pick pick_perm Hsearch). Qed.

  (* an answerable query is not turned into an error by the driver *)
  Theorem c13_sv_no_spurious_error :
    (forall e prev st, is_Some (get_edge g e) -> exists x, traverse_fwd e prev st = Ok x) ->
    (forall a b, known g a -> known g b -> exists x, sim a b = Ok x) ->
    forall k term s t rf rr, s <> t -> search Forward s t = Ok rf -> search Reverse t s = Ok rr ->
    exists r, run k term s t = Ok r.
  Proof. exact (sv_no_spurious_error cadd cfloor g traverse_fwd init_state search sim pick pick_perm Hsearch). Qed.

  (* AcceptAll returns at least as many routes as [sim], even if the two runs break priority ties differently *)
  Theorem c13_accept_all_dominates : forall pick' : list (nat * C) -> option (nat * C * list (nat * C)),
    (forall q v c q', pick' q = Some (v, c, q') -> Permutation q ((v, c) :: q')) -> (forall q, pick' q = None -> q = []) ->
    forall k term s t ra rf,
    sv_run cadd cfloor g traverse_fwd init_state search accept_all pick' k term s t = Ok ra ->
    run k term s t = Ok rf -> length (r_routes rf) <= length (r_routes ra).
  Proof.
    intros pick' Hp Hn. exact (accept_all_dominates cadd cfloor g traverse_fwd init_state search sim pick' pick Hp Hn pick_perm Hsearch).
  Qed.
End C13.

(* the cosine similarity over exact rationals is symmetric: "b was tested against a" covers "a against b" *)
Theorem c13_similarity_symmetric : forall (f : simfn Q) (w : nat -> Q) a b,
  test_similarity QN cos_ge_Q f (fun e => Ok (w e)) a b = test_similarity QN cos_ge_Q f (fun e => Ok (w e)) b a.
Proof. exact test_similarity_sym. Qed.

(* the underlying Dijkstra / A-star of Model/Search.v meets the hypothesis Hsearch (C01) and never expands its
   destination *)
Theorem c13_underlying : forall (C St : Type) clt cadd czero cfloor g frontier traverse estimate init_state terminate
    (cle : C -> C -> Prop), PreOrder cle ->
    (forall a b, clt a b = true -> cle a b) -> (forall a b, clt a b = true -> cle b a -> False) ->
    (forall d e last (st : St) ac tc st' gc, traverse d e last st = Ok (ac, tc, st') -> cle gc (cadd gc (cfloor (cadd ac tc)))) ->
    forall fuel d a b r,
    Search.run_vertex_oriented clt cadd czero cfloor g frontier traverse estimate init_state terminate fuel d a (Some b) = Ok r ->
    exists tree route, r_trees r = [tree] /\ r_routes r = [route] /\ TreeInv g d a tree
                       /\ vertex_oriented_route a b tree = Ok route /\ leaf b tree.
Proof. intros C St clt cadd czero cfloor g fr tv es ini te cle HP. exact (rvo_shape clt cadd czero cfloor g fr tv es ini te cle). Qed.

(* ---- everything together for the executable model of the correspondence stream (exact rationals) ---- *)
Import SR KR.
Theorem c13_model : forall fuel (w : world QN) (q : kq QN) k s t (r : sresult Q Q),
    kq_alg QN q = KSingleVia -> kq_source QN q = s -> kq_target QN q = Some t ->
    ksp_query_k (kq_k QN q) (kq_qk QN q) = Ok k -> 1 <= k -> s <> t -> thr_nonneg (kq_sim QN q) ->
    KR.run QN cos_ge_Q fuel w q = Ok r ->
    routes_ok (graph_of QN w) s t k (map (@ids Q Q) (r_routes r))
    /\ pairwise_dissimilar (kq_sim QN q) (fun e => nth e (w_cost QN w) 1%Q) (map (@ids Q Q) (r_routes r))
    /\ exists rf route, KR.search QN fuel w q Forward s t = Ok rf /\ r_routes rf = [route]
                        /\ nth_error (r_routes r) 0 = Some route.
Proof. exact sv_model_ok. Qed.

Theorem c13_model_dominates : forall fuel (w : world QN) (q : kq QN) k t (r ra : sresult Q Q),
    kq_alg QN q = KSingleVia -> kq_target QN q = Some t -> ksp_query_k (kq_k QN q) (kq_qk QN q) = Ok k ->
    KR.run QN cos_ge_Q fuel w q = Ok r -> run_with QN cos_ge_Q fuel w q (@SAcceptAll Q) = Ok ra ->
    length (r_routes r) <= length (r_routes ra).
Proof. exact sv_model_dominates. Qed.

Theorem c13_model_no_spurious_error : forall fuel (w : world QN) (q : kq QN) k s t (rf rr : sresult Q Q),
    kq_alg QN q = KSingleVia -> kq_source QN q = s -> kq_target QN q = Some t ->
    ksp_query_k (kq_k QN q) (kq_qk QN q) = Ok k -> s <> t -> w_terr QN w = [] ->
    KR.search QN fuel w q Forward s t = Ok rf -> KR.search QN fuel w q Reverse t s = Ok rr ->
    exists r, KR.run QN cos_ge_Q fuel w q = Ok r.
Proof. exact sv_model_no_spurious_error. Qed.

(* ---- soundness of the checker (S line) that judges the IMPLEMENTATION's routes ---- *)
Theorem c13_check_routes_sound : forall g s t k rs, check_routes g s t k rs = None -> routes_ok g s t k rs.
Proof. exact check_routes_sound. Qed.
Theorem c13_check_dissimilar_sound : forall f dist rs, check_dissimilar f dist rs = true -> pairwise_dissimilar f dist rs.
Proof. exact check_dissimilar_sound. Qed.
Theorem c13_check_potential_sound : forall g edges cost s pi,
    gedges g = map (fun p => mkEdge (fst p) (snd p)) edges -> check_potential edges cost s pi = true ->
    forall r t, walk g Forward s r t -> exists pt, nth t pi None = Some pt /\ (pt <= route_sum cost r)%Q.
Proof. exact check_potential_sound. Qed.

(* with turn (access) costs the objective depends on the previous edge: certificate on edges *)
Theorem c13_check_edge_potential_sound : forall g edges cost turn s pi,
    gedges g = map (fun p => mkEdge (fst p) (snd p)) edges -> check_edge_potential edges cost turn s pi = true ->
    forall c0 t, at_most_all c0 (potentials_into edges pi t) = true ->
    forall r, r <> [] -> walk g Forward s r t -> (c0 <= route_total cost turn None r)%Q.
Proof. exact certified_least_total. Qed.

(* ---- Yen's algorithm: K = (k >= 2) is the known finding K_yens_k_ge_2 ---- *)
Theorem c13_yens_outside_K : forall (C St : Type) clt cadd czero cfloor g (search : dir -> nat -> nat -> res (sresult C St))
    spur_search sim fuel k term s t, ~ (2 <= k) ->
    yens_run clt cadd czero cfloor g search spur_search sim (S fuel) k term s t =
    (do sh <- search Forward s t;
     match r_routes sh with
     | [] => Ok (mkR [] [] 0)
     | sp :: _ => Ok (mkR (r_trees sh) [sp] 1)
     end).
Proof. exact @yens_outside_K. Qed.

Theorem c13_yens_k1 : forall (C St : Type) clt cadd czero cfloor g (search : dir -> nat -> nat -> res (sresult C St))
    spur_search sim fuel term s t sh tree route,
    search Forward s t = Ok sh -> r_trees sh = [tree] -> r_routes sh = [route] ->
    yens_run clt cadd czero cfloor g search spur_search sim (S fuel) 1 term s t = Ok (mkR [tree] [route] 1).
Proof. exact @yens_k1. Qed.

(* witnesses inside K, on the faithful model *)
Theorem c13_yens_K_witness_panic : forall fuel, is_panic (yens_on w_diamond 2 0 1 (S fuel)) = true.
Proof. exact yens_K_witness_panic. Qed.
Theorem c13_yens_K_witness_hang : forall fuel, yens_on w_diamond 2 0 3 fuel = OutOfFuel.
Proof. exact yens_K_witness_hang. Qed.
Theorem c13_yens_K_witness_hang3 : forall fuel, yens_on w_three 3 0 3 fuel = OutOfFuel.
Proof. exact yens_K_witness_hang3. Qed.
Theorem c13_yens_K_witness_duplicate :
  route_ids (yens_on w_exits 3 0 4 10) = Some [[0;1;2;3]; [0;4]; [0;4]]
  /\ route_ids (yens_on w_exits 2 0 4 10) = Some [[0;1;2;3]; [0;4]; [0;4]].
Proof. exact yens_K_witness_duplicate. Qed.

(* statement pins: editing a statement above without editing the pin breaks the build *)
Check @c13_sv_count : forall (C St : Type) cadd cfloor g traverse_fwd init_state
    (search : dir -> nat -> nat -> res (sresult C St)) sim pick,
  (forall q v c q', pick q = Some (v, c, q') -> Permutation q ((v, c) :: q')) ->
  (forall d a b r, search d a b = Ok r ->
     exists tree route, r_trees r = [tree] /\ r_routes r = [route] /\ TreeInv g d a tree
                        /\ vertex_oriented_route a b tree = Ok route) ->
  forall k term s t r, 1 <= k ->
  sv_run cadd cfloor g traverse_fwd init_state search sim pick k term s t = Ok r -> 1 <= length (r_routes r) <= k.
Check c13_model : forall fuel (w : world QN) (q : kq QN) k s t (r : sresult Q Q),
    kq_alg QN q = KSingleVia -> kq_source QN q = s -> kq_target QN q = Some t ->
    ksp_query_k (kq_k QN q) (kq_qk QN q) = Ok k -> 1 <= k -> s <> t -> thr_nonneg (kq_sim QN q) ->
    KR.run QN cos_ge_Q fuel w q = Ok r ->
    routes_ok (graph_of QN w) s t k (map (@ids Q Q) (r_routes r))
    /\ pairwise_dissimilar (kq_sim QN q) (fun e => nth e (w_cost QN w) 1%Q) (map (@ids Q Q) (r_routes r))
    /\ exists rf route, KR.search QN fuel w q Forward s t = Ok rf /\ r_routes rf = [route]
                        /\ nth_error (r_routes r) 0 = Some route.
Check c13_model_dominates : forall fuel (w : world QN) (q : kq QN) k t (r ra : sresult Q Q),
    kq_alg QN q = KSingleVia -> kq_target QN q = Some t -> ksp_query_k (kq_k QN q) (kq_qk QN q) = Ok k ->
    KR.run QN cos_ge_Q fuel w q = Ok r -> run_with QN cos_ge_Q fuel w q (@SAcceptAll Q) = Ok ra ->
    length (r_routes r) <= length (r_routes ra).

(* non-vacuity: on the two-lane network (shortest 0>1>2>3, lanes 0>4>5>3 and 0>6>3), k = 3, EdgeIdCosine 0.9, the
   hypotheses of c13_model hold and the run returns three routes; under threshold 0 it returns one, AcceptAll three *)
Definition ex_w : world QN :=
  mkW QN 7 [(0,1);(1,2);(2,3);(0,4);(4,5);(5,3);(0,6);(6,3)] [1; 3#2; 5#4; 2; 5#2; 9#4; 8; 19#2]%Q [] [] [] [] [] [] TUnlimited 0%Q.
Definition ex_q (f : simfn Q) : kq QN := mkKQ QN KSingleVia (ADijkstra QN) None 3 QKAbsent KExact f 0 (Some 3).
Example c13_nonvacuous :
  (exists r, KR.run QN cos_ge_Q 300 ex_w (ex_q (SEdgeIdCosine (9#10)%Q)) = Ok r
             /\ map (@ids Q Q) (r_routes r) = [[0;1;2]; [3;4;5]; [6;7]])
  /\ (exists r, KR.run QN cos_ge_Q 300 ex_w (ex_q (SEdgeIdCosine 0%Q)) = Ok r /\ length (r_routes r) = 1)
  /\ (exists r, KR.run QN cos_ge_Q 300 ex_w (ex_q SAcceptAll) = Ok r /\ length (r_routes r) = 3)
  /\ thr_nonneg (SEdgeIdCosine (9#10)%Q).
Proof.
  split; [|split; [|split]].
  - eexists. split; vm_compute; reflexivity.
  - eexists. split; vm_compute; reflexivity.
  - eexists. split; vm_compute; reflexivity.
  - vm_compute. discriminate.
Qed.

Print Assumptions c13_sv_count.
Print Assumptions c13_sv_first_is_best.
Print Assumptions c13_sv_routes_valid.
Print Assumptions c13_sv_routes_state.
Print Assumptions c13_sv_loop_free.
Print Assumptions c13_sv_loop_free_full.
Print Assumptions c13_sv_pairwise_distinct.
Print Assumptions c13_sv_pairwise_dissimilar.
Print Assumptions c13_sv_terminates.
Print Assumptions c13_sv_no_spurious_error.
Print Assumptions c13_accept_all_dominates.
Print Assumptions c13_similarity_symmetric.
Print Assumptions c13_underlying.
Print Assumptions c13_model.
Print Assumptions c13_model_dominates.
Print Assumptions c13_model_no_spurious_error.
Print Assumptions c13_check_routes_sound.
Print Assumptions c13_check_dissimilar_sound.
Print Assumptions c13_check_potential_sound.
Print Assumptions c13_check_edge_potential_sound.
Print Assumptions c13_yens_outside_K.
Print Assumptions c13_yens_k1.
Print Assumptions c13_yens_K_witness_panic.
Print Assumptions c13_yens_K_witness_hang.
Print Assumptions c13_yens_K_witness_hang3.
Print Assumptions c13_yens_K_witness_duplicate.
Print Assumptions c13_nonvacuous.
