(* C13 - placeholder while the correspondence stream is being brought up; theorems follow. *)
From RC Require Import Model.Ksp Model.KspSpec Model.KspRun.
