(* C14 -- interpolated powertrain predictions stay faithful to the underlying model. *)
From Coq Require Import ZArith QArith List Bool.
From RC Require Import Base.Num Base.Res Model.Interp Proofs.Interp.
Import ListNotations.
