(* C14 -- interpolated powertrain predictions stay faithful to the underlying model.

   All statements are about the model of Model/Interp.v instantiated with exact rationals (QN); the same text, run with
   binary64 (FN), is compared bit for bit with the Rust code by the correspondence streams of checks/c14.py.
   They hold for EVERY strictly increasing grid with at least two points per axis and every table (no size bound).

   Vocabulary (Proofs/Interp*.v):  nq g i = g[i];  lastq g = g[len-1];  incr g = strictly increasing;
   inr g x = g[0] <= x <= g[len-1];  axis_cell g x i = "cell i contains x": i+1 < len, g[i] <= x <= g[i+1], g[i] < g[i+1];
   fr g i x = (x - g[i]) / (g[i+1] - g[i]);  ler a b d = a (1 - d) + b d;
   P1 / P2 / P3 / ndP = the (multi)linear polynomial of one cell;  t2 f i j = f[i][j];  validK m / wf n gs v = what the
   constructors validate plus ">= 2 points per axis" (theorems c14_*_new_valid).

   This file contains statements only: every theorem is closed by [exact] of a lemma of Proofs/Interp*.v. *)
From Coq Require Import ZArith QArith Qminmax Qabs List Bool Arith String.
From RC Require Import Base.Num Base.Res Model.Interp Model.InterpRun
  Proofs.Interp Proofs.InterpGrid Proofs.InterpSG Proofs.InterpND Proofs.InterpAgree Proofs.InterpNew
  Proofs.InterpSpec Proofs.InterpTop Proofs.InterpCont.
Import ListNotations.
Import Interp InterpP InterpG InterpS InterpN InterpA InterpW InterpC InterpT InterpL InterpRun.
Open Scope Q_scope.

(* ================================================================== 1. cell index (utils::find_nearest_index) *)

(* the binary search never runs out of the fuel find_nearest_index gives it (the Rust loop terminates) and returns the
   first index whose grid value is >= the target *)
Theorem c14_search_fuel : forall (g : list Q) (t : Q),
  (1 <= List.length g)%nat -> t <= lastq g ->
  exists r, bs_loop (N:=QN) (List.length g) g t 0 (List.length g - 1) = Ok r /\
            (r <= List.length g - 1)%nat /\ (r = 0%nat \/ nq g (r - 1) < t) /\ t <= nq g r.
Proof. exact bs_loop_fuel. Qed.

(* cell_index_spec: for an in-range coordinate the returned index i is a valid lower cell index:
   i + 1 < len and grid[i] <= x <= grid[i+1]; on the upper boundary i = len - 2 (the special case of the code);
   otherwise grid[i] < x, except at x = grid[0] *)
Theorem c14_cell_index : forall (g : list Q) (x : Q),
  incr g -> (2 <= List.length g)%nat -> nq g 0 <= x -> x <= lastq g ->
  exists i, find_nearest_index (N:=QN) g x = Ok i /\ (S i < List.length g)%nat /\
            nq g i <= x /\ x <= nq g (S i) /\
            ((x == lastq g /\ i = (List.length g - 2)%nat) \/ nq g i < x \/ (i = 0%nat /\ x == nq g 0)).
Proof. exact fni_spec. Qed.

(* ================================================================== 2. the speed/grade model *)
Section SpeedGrade.
  (* the underlying prediction model (energy at unit distance for a speed and a grade in the model's units) and the
     unit conversions of the query are arbitrary *)
  Variable underlying : Q -> Q -> res Q.
  Variable conv_speed conv_grade : Q -> Q.
  Variables (s_lo s_hi : Q) (s_bins : nat) (g_lo g_hi : Q) (g_bins : nat) (m : @interp2 QN).
  Hypothesis Hnew : sg_new (N:=QN) underlying s_lo s_hi s_bins g_lo g_hi g_bins = Ok m.
  Hypothesis Hsb : (2 <= s_bins)%nat.
  Hypothesis Hgb : (2 <= g_bins)%nat.

  Notation predict := (sg_predict (N:=QN) conv_speed conv_grade m).
  (* the converted query clamped to the grid bounds *)
  Notation qs := (qs conv_speed m).
  Notation qg := (qg conv_grade m).

  (* grid_is_underlying: the axes are the linspace of the bounds, the table is the predictor at the grid points *)
  Theorem c14_sg_grid_is_underlying :
    linspace (N:=QN) s_lo s_hi s_bins = Ok (x2 m) /\ linspace (N:=QN) g_lo g_hi g_bins = Ok (y2 m) /\
    List.length (x2 m) = s_bins /\ List.length (y2 m) = g_bins /\
    nq (x2 m) 0 = s_lo /\ lastq (x2 m) == s_hi /\ nq (y2 m) 0 = g_lo /\ lastq (y2 m) == g_hi /\
    s_lo < s_hi /\ g_lo < g_hi /\
    (forall i, (i < s_bins)%nat ->
       nq (x2 m) i == s_lo + inject_Z (Z.of_nat i) * ((s_hi - s_lo) / inject_Z (Z.of_nat (s_bins - 1)))) /\
    (forall j, (j < g_bins)%nat ->
       nq (y2 m) j == g_lo + inject_Z (Z.of_nat j) * ((g_hi - g_lo) / inject_Z (Z.of_nat (g_bins - 1)))) /\
    (forall i j, (i < s_bins)%nat -> (j < g_bins)%nat ->
       underlying (nq (x2 m) i) (nq (y2 m) j) = Ok (t2 (f2 m) i j)).
  Proof. exact (tsg_grid_is_underlying underlying s_lo s_hi s_bins g_lo g_hi g_bins m Hnew Hsb Hgb). Qed.

  (* interp2_convex for the model: for ANY speed and grade the prediction succeeds and lies between the smallest and the
     largest underlying rate at the four grid points surrounding the (clamped) query *)
  Theorem c14_sg_between_surrounding : forall speed grade,
    exists i j v u00 u10 u01 u11,
      predict speed grade = Ok v /\
      axis_cell (x2 m) (qs speed) i /\ axis_cell (y2 m) (qg grade) j /\
      underlying (nq (x2 m) i) (nq (y2 m) j) = Ok u00 /\
      underlying (nq (x2 m) (S i)) (nq (y2 m) j) = Ok u10 /\
      underlying (nq (x2 m) i) (nq (y2 m) (S j)) = Ok u01 /\
      underlying (nq (x2 m) (S i)) (nq (y2 m) (S j)) = Ok u11 /\
      min4 u00 u10 u01 u11 <= v /\ v <= max4 u00 u10 u01 u11.
  Proof. exact (tsg_convex underlying conv_speed conv_grade s_lo s_hi s_bins g_lo g_hi g_bins m Hnew Hsb Hgb). Qed.

  (* interp_on_grid: at a grid point the prediction is the underlying model's value *)
  Theorem c14_sg_on_grid : forall speed grade k l, (k < s_bins)%nat -> (l < g_bins)%nat ->
    conv_speed speed == nq (x2 m) k -> conv_grade grade == nq (y2 m) l ->
    exists v u, predict speed grade = Ok v /\ underlying (nq (x2 m) k) (nq (y2 m) l) = Ok u /\ v == u.
  Proof. exact (tsg_on_grid underlying conv_speed conv_grade s_lo s_hi s_bins g_lo g_hi g_bins m Hnew Hsb Hgb). Qed.

  (* border_agreement: the prediction is the bilinear polynomial of EVERY cell whose closed rectangle contains the
     (clamped) query; on a shared edge or corner all adjacent cells therefore give the same value.  With each cell
     polynomial being Lipschitz inside its cell (c14_cell_lipschitz) this is the algebraic content of continuity;
     continuity itself is c14_sg_lipschitz / c14_sg_continuous below. *)
  Theorem c14_sg_border_agreement : forall speed grade,
    exists v, predict speed grade = Ok v /\
      forall i j, axis_cell (x2 m) (qs speed) i -> axis_cell (y2 m) (qg grade) j ->
                  v == P2 m i j (qs speed) (qg grade).
  Proof. exact (tsg_any_cell underlying conv_speed conv_grade s_lo s_hi s_bins g_lo g_hi g_bins m Hnew Hsb Hgb). Qed.

  (* clamp_outside: never an error; predicting at x is interpolating at clamp x; clamping is idempotent; a coordinate
     below / above the grid is replaced by the lower / upper grid bound, one inside is unchanged *)
  Theorem c14_sg_clamp_outside : forall speed grade,
    (exists v, predict speed grade = Ok v) /\
    predict speed grade = interpolate2 (N:=QN) m [qs speed; qg grade] /\
    sg_predict_conv (N:=QN) m (conv_speed speed) (conv_grade grade)
      = sg_predict_conv (N:=QN) m (qs speed) (qg grade) /\
    inr (x2 m) (qs speed) /\ inr (y2 m) (qg grade) /\
    (conv_speed speed < s_lo -> qs speed = s_lo) /\
    (lastq (x2 m) < conv_speed speed -> qs speed = lastq (x2 m)) /\
    (inr (x2 m) (conv_speed speed) -> qs speed = conv_speed speed) /\
    (conv_grade grade < g_lo -> qg grade = g_lo) /\
    (lastq (y2 m) < conv_grade grade -> qg grade = lastq (y2 m)) /\
    (inr (y2 m) (conv_grade grade) -> qg grade = conv_grade grade).
  Proof. exact (tsg_clamp_outside underlying conv_speed conv_grade s_lo s_hi s_bins g_lo g_hi g_bins m Hnew Hsb Hgb). Qed.
End SpeedGrade.

(* continuity, at full strength: the prediction is globally Lipschitz in the converted inputs -- inside cells, across cell
   borders and outside the grid (clamping) -- with any constants Kx, Ky bounding the divided differences of the
   underlying values along the two axes; such constants exist for every table; hence it is uniformly continuous.
   (The unit conversions are arbitrary functions here, so continuity is stated for the converted speed and grade.) *)
Section SpeedGradeContinuity.
  Variable underlying : Q -> Q -> res Q.
  Variables (s_lo s_hi : Q) (s_bins : nat) (g_lo g_hi : Q) (g_bins : nat) (m : @interp2 QN).
  Hypothesis Hnew : sg_new (N:=QN) underlying s_lo s_hi s_bins g_lo g_hi g_bins = Ok m.
  Hypothesis Hsb : (2 <= s_bins)%nat.
  Hypothesis Hgb : (2 <= g_bins)%nat.

  Theorem c14_sg_lipschitz : forall Kx Ky sv gv sv' gv', dd_bounds m Kx Ky ->
    exists v v', sg_predict_conv (N:=QN) m sv gv = Ok v /\ sg_predict_conv (N:=QN) m sv' gv' = Ok v' /\
                 Qabs (v' - v) <= Kx * Qabs (sv' - sv) + Ky * Qabs (gv' - gv).
  Proof. exact (sg_lipschitz underlying s_lo s_hi s_bins g_lo g_hi g_bins m Hnew Hsb Hgb). Qed.

  Theorem c14_sg_continuous : forall eps, 0 < eps ->
    exists delta, 0 < delta /\
      forall sv gv sv' gv', Qabs (sv' - sv) < delta -> Qabs (gv' - gv) < delta ->
        exists v v', sg_predict_conv (N:=QN) m sv gv = Ok v /\ sg_predict_conv (N:=QN) m sv' gv' = Ok v' /\
                     Qabs (v' - v) < eps.
  Proof. exact (sg_continuous underlying s_lo s_hi s_bins g_lo g_hi g_bins m Hnew Hsb Hgb). Qed.
End SpeedGradeContinuity.

(* `new` succeeds whenever the bounds are ordered, there are two bins per axis and the predictor answers *)
Theorem c14_sg_new_total : forall underlying s_lo s_hi s_bins g_lo g_hi g_bins,
  s_lo < s_hi -> g_lo < g_hi -> (2 <= s_bins)%nat -> (2 <= g_bins)%nat ->
  (forall s g, exists v, underlying s g = Ok v) ->
  exists m, sg_new (N:=QN) underlying s_lo s_hi s_bins g_lo g_hi g_bins = Ok m.
Proof. exact sg_new_total. Qed.

(* ================================================================== 3. Interp2D *)
Theorem c14_interp2_new_valid : forall x y f m, interp2_new (N:=QN) x y f = Ok m ->
  (2 <= List.length x)%nat -> (2 <= List.length y)%nat -> valid2 m /\ x2 m = x /\ y2 m = y /\ f2 m = f.
Proof. exact new2_valid. Qed.

(* interp2_convex *)
Theorem c14_interp2_convex : forall m px py, valid2 m -> inr (x2 m) px -> inr (y2 m) py ->
  exists i j v, interpolate2 (N:=QN) m [px; py] = Ok v /\ axis_cell (x2 m) px i /\ axis_cell (y2 m) py j /\
    min4 (t2 (f2 m) i j) (t2 (f2 m) (S i) j) (t2 (f2 m) i (S j)) (t2 (f2 m) (S i) (S j)) <= v /\
    v <= max4 (t2 (f2 m) i j) (t2 (f2 m) (S i) j) (t2 (f2 m) i (S j)) (t2 (f2 m) (S i) (S j)).
Proof. exact t2_convex. Qed.

Theorem c14_interp2_on_grid : forall m px py k l, valid2 m ->
  (k < List.length (x2 m))%nat -> (l < List.length (y2 m))%nat -> px == nq (x2 m) k -> py == nq (y2 m) l ->
  exists v, interpolate2 (N:=QN) m [px; py] = Ok v /\ v == t2 (f2 m) k l.
Proof. exact t2_on_grid. Qed.

Theorem c14_interp2_border_agreement : forall m px py, valid2 m -> inr (x2 m) px -> inr (y2 m) py ->
  exists v, interpolate2 (N:=QN) m [px; py] = Ok v /\
            forall i j, axis_cell (x2 m) px i -> axis_cell (y2 m) py j -> v == P2 m i j px py.
Proof. exact t2_any_cell. Qed.

(* left and right (lower and upper) cell polynomials coincide on their common grid line *)
Theorem c14_border_agreement_x : forall m k j py, valid2 m -> (S (S k) < List.length (x2 m))%nat ->
  axis_cell (y2 m) py j -> P2 m k j (nq (x2 m) (S k)) py == P2 m (S k) j (nq (x2 m) (S k)) py.
Proof. exact t2_border_x. Qed.
Theorem c14_border_agreement_y : forall m i l px, valid2 m -> (S (S l) < List.length (y2 m))%nat ->
  axis_cell (x2 m) px i -> P2 m i l px (nq (y2 m) (S l)) == P2 m i (S l) px (nq (y2 m) (S l)).
Proof. exact t2_border_y. Qed.

(* interp2_lipschitz_in_cell: the change of a cell polynomial is the change of the fractions times blends of corner
   differences (so at most the largest corner difference per unit of fraction) *)
Theorem c14_cell_lipschitz : forall (m : @interp2 QN) i j px px' py py',
  P2 m i j px py - P2 m i j px' py' ==
  (fr (x2 m) i px - fr (x2 m) i px') *
    ler (t2 (f2 m) (S i) j - t2 (f2 m) i j) (t2 (f2 m) (S i) (S j) - t2 (f2 m) i (S j)) (fr (y2 m) j py)
  + (fr (y2 m) j py - fr (y2 m) j py') *
    ler (t2 (f2 m) i (S j) - t2 (f2 m) i j) (t2 (f2 m) (S i) (S j) - t2 (f2 m) (S i) j) (fr (x2 m) i px').
Proof. exact t2_lipschitz. Qed.

(* the bilinear interpolant is Lipschitz across the whole grid: for points in possibly different cells *)
Theorem c14_interp2_lipschitz : forall m Kx Ky i j i' j' x y x' y', valid2 m -> dd_bounds m Kx Ky ->
  axis_cell (x2 m) x i -> axis_cell (y2 m) y j -> axis_cell (x2 m) x' i' -> axis_cell (y2 m) y' j' ->
  Qabs (P2 m i' j' x' y' - P2 m i j x y) <= Kx * Qabs (x' - x) + Ky * Qabs (y' - y).
Proof. exact P2_lipschitz. Qed.
Theorem c14_lipschitz_constants_exist : forall m, valid2 m -> exists Kx Ky, dd_bounds m Kx Ky.
Proof. exact dd_bounds_exist. Qed.

(* multilinear_exact, 2-D: c0 + c1 x + c2 y + c3 x y sampled on the grid is reproduced exactly *)
Theorem c14_interp2_multilinear_exact : forall m px py c0 c1 c2 c3, valid2 m -> inr (x2 m) px -> inr (y2 m) py ->
  (forall a b, (a < List.length (x2 m))%nat -> (b < List.length (y2 m))%nat ->
               t2 (f2 m) a b == mlin2 c0 c1 c2 c3 (nq (x2 m) a) (nq (y2 m) b)) ->
  exists v, interpolate2 (N:=QN) m [px; py] = Ok v /\ v == mlin2 c0 c1 c2 c3 px py.
Proof. exact t2_multilinear. Qed.

(* outside_rejected *)
Theorem c14_interp2_outside_rejected : forall m px py, valid2 m -> ~ (inr (x2 m) px /\ inr (y2 m) py) ->
  interpolate2 (N:=QN) m [px; py] = Err "out-of-grid".
Proof. exact interpolate2_outside. Qed.
Theorem c14_interp2_wrong_length_rejected : forall (m : @interp2 QN) pt, List.length pt <> 2%nat ->
  interpolate2 (N:=QN) m pt = Err "point-len".
Proof. exact interpolate2_wrong_len. Qed.

(* ================================================================== 4. Interp1D *)
Theorem c14_interp1_new_valid : forall x f m, interp1_new (N:=QN) x f = Ok m -> (2 <= List.length x)%nat ->
  valid1 m /\ x1 m = x /\ f1 m = f.
Proof. exact new1_valid. Qed.
Theorem c14_interp1_convex : forall m p, valid1 m -> inr (x1 m) p ->
  exists i v, interpolate1 (N:=QN) m [p] = Ok v /\ axis_cell (x1 m) p i /\
    Qmin (nq (f1 m) i) (nq (f1 m) (S i)) <= v /\ v <= Qmax (nq (f1 m) i) (nq (f1 m) (S i)).
Proof. exact t1_convex. Qed.
Theorem c14_interp1_on_grid : forall m p k, valid1 m -> (k < List.length (x1 m))%nat -> p == nq (x1 m) k ->
  exists v, interpolate1 (N:=QN) m [p] = Ok v /\ v == nq (f1 m) k.
Proof. exact t1_on_grid. Qed.
Theorem c14_interp1_border_agreement : forall m p, valid1 m -> inr (x1 m) p ->
  exists v, interpolate1 (N:=QN) m [p] = Ok v /\ forall i, axis_cell (x1 m) p i -> v == P1 m i p.
Proof. exact t1_any_cell. Qed.
Theorem c14_interp1_multilinear_exact : forall m p A B, valid1 m -> inr (x1 m) p ->
  (forall k, (k < List.length (x1 m))%nat -> nq (f1 m) k == A + B * nq (x1 m) k) ->
  exists v, interpolate1 (N:=QN) m [p] = Ok v /\ v == A + B * p.
Proof. exact t1_affine. Qed.
Theorem c14_interp1_outside_rejected : forall m p, valid1 m -> ~ inr (x1 m) p ->
  interpolate1 (N:=QN) m [p] = Err "out-of-grid".
Proof. exact interpolate1_outside. Qed.

(* ================================================================== 5. Interp3D *)
Theorem c14_interp3_new_valid : forall x y z f m, interp3_new (N:=QN) x y z f = Ok m ->
  (2 <= List.length x)%nat -> (2 <= List.length y)%nat -> (2 <= List.length z)%nat ->
  valid3 m /\ x3 m = x /\ y3 m = y /\ z3 m = z /\ f3 m = f.
Proof. exact new3_valid. Qed.
Theorem c14_interp3_convex : forall m px py pz lo hi, valid3 m -> inr (x3 m) px -> inr (y3 m) py -> inr (z3 m) pz ->
  exists i j k v, interpolate3 (N:=QN) m [px; py; pz] = Ok v /\
    axis_cell (x3 m) px i /\ axis_cell (y3 m) py j /\ axis_cell (z3 m) pz k /\
    ((forall a b c, (a = i \/ a = S i) -> (b = j \/ b = S j) -> (c = k \/ c = S k) ->
                    lo <= t3 (f3 m) a b c /\ t3 (f3 m) a b c <= hi) -> lo <= v /\ v <= hi).
Proof. exact t3_convex. Qed.
Theorem c14_interp3_on_grid : forall m px py pz a b c, valid3 m ->
  (a < List.length (x3 m))%nat -> (b < List.length (y3 m))%nat -> (c < List.length (z3 m))%nat ->
  px == nq (x3 m) a -> py == nq (y3 m) b -> pz == nq (z3 m) c ->
  exists v, interpolate3 (N:=QN) m [px; py; pz] = Ok v /\ v == t3 (f3 m) a b c.
Proof. exact t3_on_grid. Qed.
Theorem c14_interp3_border_agreement : forall m px py pz, valid3 m -> inr (x3 m) px -> inr (y3 m) py -> inr (z3 m) pz ->
  exists v, interpolate3 (N:=QN) m [px; py; pz] = Ok v /\
    forall i j k, axis_cell (x3 m) px i -> axis_cell (y3 m) py j -> axis_cell (z3 m) pz k ->
                  v == P3 m i j k px py pz.
Proof. exact t3_any_cell. Qed.
(* multilinear_exact, 3-D: all eight coefficients of a function affine in each of x, y, z *)
Theorem c14_interp3_multilinear_exact : forall m px py pz c, valid3 m ->
  inr (x3 m) px -> inr (y3 m) py -> inr (z3 m) pz ->
  (forall a b d, (a < List.length (x3 m))%nat -> (b < List.length (y3 m))%nat -> (d < List.length (z3 m))%nat ->
                 t3 (f3 m) a b d == mlin3 c (nq (x3 m) a) (nq (y3 m) b) (nq (z3 m) d)) ->
  exists v, interpolate3 (N:=QN) m [px; py; pz] = Ok v /\ v == mlin3 c px py pz.
Proof. exact t3_multilinear. Qed.
Theorem c14_interp3_outside_rejected : forall m px py pz, valid3 m ->
  ~ (inr (x3 m) px /\ inr (y3 m) py /\ inr (z3 m) pz) ->
  interpolate3 (N:=QN) m [px; py; pz] = Err "out-of-grid".
Proof. exact interpolate3_outside. Qed.

(* ================================================================== 6. InterpND, every dimension n *)
(* what InterpND::new accepts (with >= 2 points per axis) is well-formed data *)
Theorem c14_nd_new_valid : forall n gs (v : @arr QN n) m, nd_new (N:=QN) n gs v = Ok m ->
  Forall (fun g : list Q => (2 <= List.length g)%nat) gs -> m = mk n gs v /\ wf n gs v.
Proof. exact nd_new_wf. Qed.

(* convexity over the 2^n corners of a cell containing the point *)
Theorem c14_nd_convex : forall n gs (v : @arr QN n) pt, wf n gs v -> inrs gs pt ->
  exists cs out, interpolaten (N:=QN) (mk n gs v) pt = Ok out /\ cells gs pt cs /\
    forall lo hi, (forall q, In q (corners n cs v) -> lo <= q /\ q <= hi) -> lo <= out /\ out <= hi.
Proof. exact tn_convex. Qed.
Theorem c14_nd_on_grid : forall n gs (v : @arr QN n) pt ix, wf n gs v -> on_grid gs pt ix -> inrs gs pt ->
  exists out, interpolaten (N:=QN) (mk n gs v) pt = Ok out /\ out == entry n ix v.
Proof. exact tn_on_grid. Qed.
Theorem c14_nd_border_agreement : forall n gs (v : @arr QN n) pt, wf n gs v -> inrs gs pt ->
  exists out, interpolaten (N:=QN) (mk n gs v) pt = Ok out /\ forall cs, cells gs pt cs -> out == ndP n gs cs pt v.
Proof. exact tn_any_cell. Qed.
(* multilinear_exact, N-D: every function that is affine in each variable separately (2^n coefficients, [mpoly n]) *)
Theorem c14_nd_multilinear_exact : forall n gs (v : @arr QN n) pt (P : mpoly n), wf n gs v -> inrs gs pt ->
  (forall ix, inrange gs ix -> entry n ix v == meval n P (coords gs ix)) ->
  exists out, interpolaten (N:=QN) (mk n gs v) pt = Ok out /\ out == meval n P pt.
Proof. exact tn_multilinear. Qed.
Theorem c14_nd_outside_rejected : forall n gs (v : @arr QN n) pt, wf n gs v -> List.length pt = n -> ~ inrs gs pt ->
  interpolaten (N:=QN) (mk n gs v) pt = Err "out-of-grid".
Proof. exact interpolaten_outside. Qed.
Theorem c14_nd_wrong_length_rejected : forall n gs (v : @arr QN n) (pt : list Q), wf n gs v -> List.length pt <> n ->
  interpolaten (N:=QN) (mk n gs v) pt = Err "point-len".
Proof. exact interpolaten_wrong_len. Qed.

(* nd_agrees_with_1d_2d_3d: on the same data InterpND and the specialised interpolator return equal values *)
Theorem c14_nd_agrees_1d : forall m p, valid1 m -> inr (x1 m) p ->
  exists o1 on, interpolate1 (N:=QN) m [p] = Ok o1 /\
                interpolaten (N:=QN) (mk 1 [x1 m] (f1 m)) [p] = Ok on /\ o1 == on.
Proof. exact nd_agrees_1d. Qed.
Theorem c14_nd_agrees_2d : forall m px py, valid2 m -> inr (x2 m) px -> inr (y2 m) py ->
  exists o2 on, interpolate2 (N:=QN) m [px; py] = Ok o2 /\
                interpolaten (N:=QN) (mk 2 [x2 m; y2 m] (f2 m)) [px; py] = Ok on /\ o2 == on.
Proof. exact nd_agrees_2d. Qed.
Theorem c14_nd_agrees_3d : forall m px py pz, valid3 m -> inr (x3 m) px -> inr (y3 m) py -> inr (z3 m) pz ->
  exists o3 on, interpolate3 (N:=QN) m [px; py; pz] = Ok o3 /\
                interpolaten (N:=QN) (mk 3 [x3 m; y3 m; z3 m] (f3 m)) [px; py; pz] = Ok on /\ o3 == on.
Proof. exact nd_agrees_3d. Qed.

(* ================================================================== 7. the checkers behind the S lines are sound *)
(* Spec.convexnb tol ... out = true  (what the S lines evaluate on the implementation's output, tol = 1e-9) implies the
   convexity statement widened by tol * (1 + 2 max(|lo|, |hi|)); with tol = 0 it is the statement itself *)
Theorem c14_checker_convex_sound : forall tol n gs (v : @arr QN n) p out, 0 <= tol -> wf n gs v -> inrs gs p ->
  Spec.convexnb tol n gs v p out = true ->
  exists cs, cells gs p cs /\
    forall lo hi, (forall q, In q (corners n cs v) -> lo <= q /\ q <= hi) ->
      lo - tol * (1 + 2 * Qmax (Qabs lo) (Qabs hi)) <= out /\
      out <= hi + tol * (1 + 2 * Qmax (Qabs lo) (Qabs hi)).
Proof. exact convexnb_sound. Qed.
(* on a grid point the checker demands the table value exactly, whatever the tolerance *)
Theorem c14_checker_on_grid_sound : forall tol n gs (v : @arr QN n) p ix out, wf n gs v -> on_grid gs p ix ->
  Spec.convexnb tol n gs v p out = true -> out == entry n ix v.
Proof. exact convexnb_on_grid. Qed.
Theorem c14_checker_interpolate_sound : forall tol n gs (v : @arr QN n) (p : list Q) (r : res Q), wf n gs v ->
  Spec.check_interpolate tol n gs v p r = true ->
  (List.length p <> n -> exists e, r = Err e) /\
  (List.length p = n -> ~ inrs gs p -> exists e, r = Err e) /\
  (inrs gs p -> exists out, r = Ok out /\ Spec.convexnb tol n gs v p out = true).
Proof. exact check_interpolate_sound. Qed.
Theorem c14_checker_sg_sound : forall tol (m : @interp2 QN) sv gv (r : res Q), valid2 m ->
  Spec.check_sg tol (x2 m) (y2 m) (f2 m) sv gv r = true ->
  let cs := Spec.qclamp (nq (x2 m) 0) (lastq (x2 m)) sv in
  let cg := Spec.qclamp (nq (y2 m) 0) (lastq (y2 m)) gv in
  inr (x2 m) cs /\ inr (y2 m) cg /\
  exists out, r = Ok out /\ Spec.convexnb tol 2 [x2 m; y2 m] (f2 m) [cs; cg] out = true.
Proof. exact check_sg_sound. Qed.
(* exact-value checker (every case of both streams): an accepted value is within the tolerance of the multilinear
   polynomial of EVERY cell containing the point, i.e. of the value sections 2-6 prove convex, exact on grid points and
   on multi-affine tables, continuous across cell borders and common to Interp1D/2D/3D/ND; this is what rejects a wrong
   value that still lies between the corner minimum and maximum *)
Theorem c14_checker_exact_sound : forall tol n gs (v : @arr QN n) p out, 0 <= tol -> wf n gs v -> inrs gs p ->
  Spec.exactnb tol n gs v p out = true ->
  exists cs1, cells gs p cs1 /\
    forall lo hi, (forall q, In q (corners n cs1 v) -> lo <= q /\ q <= hi) ->
      forall cs, cells gs p cs ->
        Qabs (out - ndP n gs cs p v) <= tol * (1 + 2 * Qmax (Qabs lo) (Qabs hi)).
Proof. exact exactnb_sound. Qed.
Theorem c14_checker_exact_interpolate_sound : forall tol n gs (v : @arr QN n) (p : list Q) (r : res Q),
  wf n gs v -> inrs gs p ->
  Spec.check_exact tol n gs v p r = true -> exists out, r = Ok out /\ Spec.exactnb tol n gs v p out = true.
Proof. exact check_exact_sound. Qed.
Theorem c14_checker_sg_exact_sound : forall tol (m : @interp2 QN) sv gv (r : res Q), valid2 m ->
  Spec.check_sg_exact tol (x2 m) (y2 m) (f2 m) sv gv r = true ->
  exists out, r = Ok out /\
    Spec.exactnb tol 2 [x2 m; y2 m] (f2 m)
      [Spec.qclamp (nq (x2 m) 0) (lastq (x2 m)) sv; Spec.qclamp (nq (y2 m) 0) (lastq (y2 m)) gv] out = true.
Proof. exact check_sg_exact_sound. Qed.
(* the grid reported by the implementation is checked against the shape c14_sg_grid_is_underlying proves *)
Theorem c14_checker_axis_sound : forall tol lo hi bins (xs : list Q), Spec.check_axis tol lo hi bins xs = true ->
  List.length xs = bins /\ incr xs /\ (1 <= List.length xs)%nat /\ nq xs 0 == lo /\
  Qabs (lastq xs - hi) <= tol * (1 + Qabs lo + Qabs hi).
Proof. exact check_axis_sound. Qed.
(* the checker's clamp is the model's clamp *)
Theorem c14_checker_clamp : forall lo hi v, lo <= hi -> Spec.qclamp lo hi v == clamp (N:=QN) lo hi v.
Proof. exact qclamp_clamp. Qed.
(* the harness's multi-affine test function c + prod (b_i + a_i x_i) is reproduced exactly by the cell polynomial,
   and the checker bounds the implementation's distance from it *)
Theorem c14_mlin_exact : forall c ab gs cs pt (v : @arr QN (List.length ab)),
  List.length gs = List.length ab -> cells gs pt cs ->
  (forall ix, inrange gs ix -> entry (List.length ab) ix v == Spec.mlinF c ab (coords gs ix)) ->
  ndP (List.length ab) gs cs pt v == Spec.mlinF c ab pt.
Proof. exact mlin_exact. Qed.
Theorem c14_checker_mlin_sound : forall tol n gs (v : @arr QN n) c ab (p : list Q) (r : res Q),
  0 <= tol -> wf n gs v -> inrs gs p -> Spec.check_mlin tol n gs v c ab p r = true ->
  exists out cs, r = Ok out /\ cells gs p cs /\
    forall lo hi, (forall q, In q (corners n cs v) -> lo <= q /\ q <= hi) ->
      Qabs (out - Spec.mlinF c ab p) <= tol * (1 + 2 * Qmax (Qabs lo) (Qabs hi)).
Proof. exact check_mlin_sound. Qed.

(* ================================================================== pins *)
Check c14_cell_index : forall (g : list Q) (x : Q),
  incr g -> (2 <= List.length g)%nat -> nq g 0 <= x -> x <= lastq g ->
  exists i, find_nearest_index (N:=QN) g x = Ok i /\ (S i < List.length g)%nat /\
            nq g i <= x /\ x <= nq g (S i) /\
            ((x == lastq g /\ i = (List.length g - 2)%nat) \/ nq g i < x \/ (i = 0%nat /\ x == nq g 0)).
Check c14_sg_between_surrounding : forall (underlying : Q -> Q -> res Q) (conv_speed conv_grade : Q -> Q)
    (s_lo s_hi : Q) (s_bins : nat) (g_lo g_hi : Q) (g_bins : nat) (m : @interp2 QN),
  sg_new (N:=QN) underlying s_lo s_hi s_bins g_lo g_hi g_bins = Ok m -> (2 <= s_bins)%nat -> (2 <= g_bins)%nat ->
  forall speed grade,
    exists i j v u00 u10 u01 u11,
      sg_predict (N:=QN) conv_speed conv_grade m speed grade = Ok v /\
      axis_cell (x2 m) (qs conv_speed m speed) i /\ axis_cell (y2 m) (qg conv_grade m grade) j /\
      underlying (nq (x2 m) i) (nq (y2 m) j) = Ok u00 /\
      underlying (nq (x2 m) (S i)) (nq (y2 m) j) = Ok u10 /\
      underlying (nq (x2 m) i) (nq (y2 m) (S j)) = Ok u01 /\
      underlying (nq (x2 m) (S i)) (nq (y2 m) (S j)) = Ok u11 /\
      min4 u00 u10 u01 u11 <= v /\ v <= max4 u00 u10 u01 u11.
Check c14_sg_on_grid : forall (underlying : Q -> Q -> res Q) (conv_speed conv_grade : Q -> Q)
    (s_lo s_hi : Q) (s_bins : nat) (g_lo g_hi : Q) (g_bins : nat) (m : @interp2 QN),
  sg_new (N:=QN) underlying s_lo s_hi s_bins g_lo g_hi g_bins = Ok m -> (2 <= s_bins)%nat -> (2 <= g_bins)%nat ->
  forall speed grade k l, (k < s_bins)%nat -> (l < g_bins)%nat ->
    conv_speed speed == nq (x2 m) k -> conv_grade grade == nq (y2 m) l ->
    exists v u, sg_predict (N:=QN) conv_speed conv_grade m speed grade = Ok v /\
                underlying (nq (x2 m) k) (nq (y2 m) l) = Ok u /\ v == u.
Check c14_sg_continuous : forall (underlying : Q -> Q -> res Q)
    (s_lo s_hi : Q) (s_bins : nat) (g_lo g_hi : Q) (g_bins : nat) (m : @interp2 QN),
  sg_new (N:=QN) underlying s_lo s_hi s_bins g_lo g_hi g_bins = Ok m -> (2 <= s_bins)%nat -> (2 <= g_bins)%nat ->
  forall eps, 0 < eps ->
    exists delta, 0 < delta /\
      forall sv gv sv' gv', Qabs (sv' - sv) < delta -> Qabs (gv' - gv) < delta ->
        exists v v', sg_predict_conv (N:=QN) m sv gv = Ok v /\ sg_predict_conv (N:=QN) m sv' gv' = Ok v' /\
                     Qabs (v' - v) < eps.
Check c14_nd_multilinear_exact : forall n gs (v : @arr QN n) pt (P : mpoly n), wf n gs v -> inrs gs pt ->
  (forall ix, inrange gs ix -> entry n ix v == meval n P (coords gs ix)) ->
  exists out, interpolaten (N:=QN) (mk n gs v) pt = Ok out /\ out == meval n P pt.
Check c14_nd_agrees_2d : forall m px py, valid2 m -> inr (x2 m) px -> inr (y2 m) py ->
  exists o2 on, interpolate2 (N:=QN) m [px; py] = Ok o2 /\
                interpolaten (N:=QN) (mk 2 [x2 m; y2 m] (f2 m)) [px; py] = Ok on /\ o2 == on.

(* ================================================================== non-vacuity *)
(* a non-uniform 3 x 2 grid with a non-trivial table is accepted by the constructor; an interior point, a point on a
   grid line and the upper boundary corner are interpolated; a point outside is rejected *)
Example c14_ex_interp2 :
  exists m, interp2_new (N:=QN) [0; 1; 3] [-1; 2] [[1; 2]; [3; 5]; [0; 4]] = Ok m /\ valid2 m /\
            (exists v, interpolate2 (N:=QN) m [2; (1#2)] = Ok v /\ v == 3) /\
            (exists v, interpolate2 (N:=QN) m [1; (1#2)] = Ok v /\ v == 4) /\
            (exists v, interpolate2 (N:=QN) m [3; 2] = Ok v /\ v == 4) /\
            interpolate2 (N:=QN) m [3; (5#2)] = Err "out-of-grid".
Proof.
  eexists. split; [reflexivity|]. split.
  - apply (new2_valid [0; 1; 3] [-1; 2] [[1; 2]; [3; 5]; [0; 4]]); [reflexivity|cbn; auto|cbn; auto].
  - repeat split; eexists; (split; [vm_compute; reflexivity|vm_compute; reflexivity]).
Qed.
(* the upper boundary special case and an interior target of the cell search *)
Example c14_ex_cell_index :
  find_nearest_index (N:=QN) [0; 1; 3; 7] 7 = Ok 2%nat /\ find_nearest_index (N:=QN) [0; 1; 3; 7] 3 = Ok 1%nat /\
  find_nearest_index (N:=QN) [0; 1; 3; 7] (7#2) = Ok 2%nat /\ find_nearest_index (N:=QN) [0; 1; 3; 7] 0 = Ok 0%nat /\
  incr [0; 1; 3; 7].
Proof. repeat split; vm_compute; reflexivity. Qed.
(* a speed/grade model over a non-linear predictor: built (4 x 3 grid), queried inside (1005), far outside both axes
   (clamped to (60, -1), no error: 3590) and on a grid point (40^2 + 0 = 1600) *)
Example c14_ex_sg :
  match sg_new (N:=QN) (fun s g : Q => Ok (s * s + 10 * g)) 0 60 4 (-1) 1 3 with
  | Ok m =>
      let p := sg_predict (N:=QN) (fun x => x) (fun x => x) m in
      match p 30 (1#2), p 1000 (-50), p 40 0 with
      | Ok a, Ok b, Ok c => Qeq_bool a 1005 && Qeq_bool b 3590 && Qeq_bool c 1600
      | _, _, _ => false
      end
  | _ => false
  end = true.
Proof. vm_compute. reflexivity. Qed.
(* well-formed 3-dimensional data for the N-D theorems *)
Example c14_ex_nd :
  exists m, nd_new (N:=QN) 3 [[0; 1]; [0; 2]; [1; 2; 4]]
              ([[[1; 2; 3]; [4; 5; 6]]; [[7; 8; 9]; [10; 11; 13]]] : @arr QN 3) = Ok m /\
            wf 3 [[0; 1]; [0; 2]; [1; 2; 4]] ([[[1; 2; 3]; [4; 5; 6]]; [[7; 8; 9]; [10; 11; 13]]] : @arr QN 3) /\
            (exists v, interpolaten (N:=QN) m [(1#2); 1; 3] = Ok v /\ v == 57#8).
Proof.
  set (G := [[0; 1]; [0; 2]; [1; 2; 4]]).
  set (V := ([[[1; 2; 3]; [4; 5; 6]]; [[7; 8; 9]; [10; 11; 13]]] : @arr QN 3)).
  assert (H : nd_new (N:=QN) 3 G V = Ok (mk 3 G V)) by (vm_compute; reflexivity).
  exists (mk 3 G V). split; [exact H|]. split.
  - apply (nd_new_wf 3 G V _ H). repeat constructor.
  - eexists. split; [vm_compute; reflexivity|vm_compute; reflexivity].
Qed.

Print Assumptions c14_search_fuel.
Print Assumptions c14_cell_index.
Print Assumptions c14_sg_grid_is_underlying.
Print Assumptions c14_sg_between_surrounding.
Print Assumptions c14_sg_on_grid.
Print Assumptions c14_sg_border_agreement.
Print Assumptions c14_sg_clamp_outside.
Print Assumptions c14_sg_lipschitz.
Print Assumptions c14_sg_continuous.
Print Assumptions c14_sg_new_total.
Print Assumptions c14_interp2_new_valid.
Print Assumptions c14_interp2_convex.
Print Assumptions c14_interp2_on_grid.
Print Assumptions c14_interp2_border_agreement.
Print Assumptions c14_border_agreement_x.
Print Assumptions c14_border_agreement_y.
Print Assumptions c14_cell_lipschitz.
Print Assumptions c14_interp2_lipschitz.
Print Assumptions c14_lipschitz_constants_exist.
Print Assumptions c14_interp2_multilinear_exact.
Print Assumptions c14_interp2_outside_rejected.
Print Assumptions c14_interp2_wrong_length_rejected.
Print Assumptions c14_interp1_new_valid.
Print Assumptions c14_interp1_convex.
Print Assumptions c14_interp1_on_grid.
Print Assumptions c14_interp1_border_agreement.
Print Assumptions c14_interp1_multilinear_exact.
Print Assumptions c14_interp1_outside_rejected.
Print Assumptions c14_interp3_new_valid.
Print Assumptions c14_interp3_convex.
Print Assumptions c14_interp3_on_grid.
Print Assumptions c14_interp3_border_agreement.
Print Assumptions c14_interp3_multilinear_exact.
Print Assumptions c14_interp3_outside_rejected.
Print Assumptions c14_nd_new_valid.
Print Assumptions c14_nd_convex.
Print Assumptions c14_nd_on_grid.
Print Assumptions c14_nd_border_agreement.
Print Assumptions c14_nd_multilinear_exact.
Print Assumptions c14_nd_outside_rejected.
Print Assumptions c14_nd_wrong_length_rejected.
Print Assumptions c14_nd_agrees_1d.
Print Assumptions c14_nd_agrees_2d.
Print Assumptions c14_nd_agrees_3d.
Print Assumptions c14_checker_convex_sound.
Print Assumptions c14_checker_on_grid_sound.
Print Assumptions c14_checker_interpolate_sound.
Print Assumptions c14_checker_sg_sound.
Print Assumptions c14_checker_exact_sound.
Print Assumptions c14_checker_exact_interpolate_sound.
Print Assumptions c14_checker_sg_exact_sound.
Print Assumptions c14_checker_axis_sound.
Print Assumptions c14_checker_clamp.
Print Assumptions c14_mlin_exact.
Print Assumptions c14_checker_mlin_sound.
