(* C15 - the loaded network is exactly the one described by the edge / vertex files.

   Statements only: each theorem is closed by [exact] of a lemma of Proofs/Loader.v (a few lines of glue),
   pinned by [Check ... : statement] and followed by Print Assumptions.

   Model: Model/Loader.v (LD).  A file is its decoded rows in file order plus its line count; distances
   and coordinates are opaque payloads (D, C).  The specification functions LD.s_* read the network off
   the row lists with find / filter only - no loader state, no container.  Hypotheses (LD.wf): the
   documented input format - edge / vertex ids are the row indices, every end point is a listed vertex,
   a file is a header line plus one line per row, an explicit vertex count is the true one.  Any number
   of rows, any degree, parallel edges, self loops, isolated vertices; the explicit edge count is arbitrary.
   What is NOT modelled: CSV / gzip decoding and line counting (exercised on real files by the stream). *)
From Coq Require Import List Arith Bool Permutation String.
From RC Require Import Base.Res Model.CompactMap Model.Loader Proofs.CompactMap Proofs.Loader.
Import ListNotations.

Section C15.
  Context {D C : Type}.
  Notation edge := (LD.edge D).
  Notation vertex := (LD.vertex C).
  Notation build := (@LD.build D C).

  (* loading succeeds and yields the graph built from the rows with n = number of vertex rows *)
  Theorem c15_from_files : forall (f : LD.files D C) ne nv, LD.wf f nv ->
    LD.graph_from_files f ne nv
    = Ok (build (List.length (LD.f_vertex_rows f)) (LD.f_edge_rows f) (LD.f_vertex_rows f)).
  Proof. exact from_files_ok. Qed.

  (* sizes *)
  Theorem c15_sizes : forall n (rows : list edge) (vrows : list vertex),
    List.length (LD.adj (build n rows vrows)) = n /\ List.length (LD.rev (build n rows vrows)) = n
    /\ LD.n_edges (build n rows vrows) = List.length rows
    /\ LD.n_vertices (build n rows vrows) = List.length vrows.
  Proof. exact build_lengths. Qed.

  (* every listed edge is retrievable by its id with its source, destination and List.length *)
  Theorem c15_get_edge_row : forall n (rows : list edge) (vrows : list vertex) i, LD.ids_are_rows rows ->
    LD.get_edge (build n rows vrows) i = LD.s_edge rows i
    /\ (forall e, LD.get_edge (build n rows vrows) i = Ok e -> nth_error rows i = Some e /\ LD.e_id e = i).
  Proof. exact get_edge_row. Qed.
  Theorem c15_src_dst : forall n (rows : list edge) (vrows : list vertex) i, LD.ids_are_rows rows ->
    LD.src_vertex_id (build n rows vrows) i = rmap LD.e_src (LD.s_edge rows i)
    /\ LD.dst_vertex_id (build n rows vrows) i = rmap LD.e_dst (LD.s_edge rows i).
  Proof. exact src_dst_spec. Qed.

  (* the outgoing edges of a vertex are precisely the listed edges that leave it, the incoming edges
     precisely those that enter it, in file order, AT ANY DEGREE (C11's refinement is used here: the
     per-vertex maps are CompactOrderedHashMaps that change representation at 5 entries) *)
  Theorem c15_out_edges_spec : forall n (rows : list edge) (vrows : list vertex),
    LD.ids_are_rows rows -> LD.ends_below n rows ->
    forall v, LD.out_edges (build n rows vrows) v = LD.s_out rows v.
  Proof. exact out_edges_spec. Qed.
  Theorem c15_in_edges_spec : forall n (rows : list edge) (vrows : list vertex),
    LD.ids_are_rows rows -> LD.ends_below n rows ->
    forall v, LD.in_edges (build n rows vrows) v = LD.s_in rows v.
  Proof. exact in_edges_spec. Qed.
  (* the adjacency fields themselves (read through iter()): (edge, other end) pairs *)
  Theorem c15_adjacency_views : forall n (rows : list edge) (vrows : list vertex),
    LD.ids_are_rows rows -> LD.ends_below n rows ->
    forall v, LD.adj_view (build n rows vrows) v = LD.s_adj_view rows v
              /\ LD.rev_view (build n rows vrows) v = LD.s_rev_view rows v.
  Proof.
    intros n rows vrows Hi He v. split.
    - exact (adj_view_spec n rows vrows Hi He v).
    - exact (rev_view_spec n rows vrows Hi He v).
  Qed.

  (* ... and read through keys() + get() and len(): the same answers as iter(), for ANY rows *)
  Theorem c15_adjacency_get_len : forall n (rows : list edge) (vrows : list vertex) v,
    let some := map (fun p : nat * nat => (fst p, Some (snd p))) in
    LD.get_view (LD.adj (build n rows vrows)) v = some (LD.adj_view (build n rows vrows) v)
    /\ LD.get_view (LD.rev (build n rows vrows)) v = some (LD.rev_view (build n rows vrows) v)
    /\ LD.len_view (LD.adj (build n rows vrows)) v = List.length (LD.adj_view (build n rows vrows) v)
    /\ LD.len_view (LD.rev (build n rows vrows)) v = List.length (LD.rev_view (build n rows vrows) v).
  Proof. exact get_len_views_general. Qed.

  (* forward and reverse adjacency describe the same edge set, which is the listed one (each row once) *)
  Theorem c15_adj_rev_same_edge_set : forall n (rows : list edge) (vrows : list vertex),
    LD.ids_are_rows rows -> LD.ends_below n rows ->
    Permutation (LD.triples_adj (build n rows vrows)) (LD.triples_rev (build n rows vrows))
    /\ (forall t, In t (LD.triples_adj (build n rows vrows)) <-> In t (LD.s_triples rows))
    /\ (forall t, In t (LD.triples_rev (build n rows vrows)) <-> In t (LD.s_triples rows)).
  Proof. exact adj_rev_same_edge_set. Qed.
  Theorem c15_adj_is_rows_each_once : forall n (rows : list edge) (vrows : list vertex),
    LD.ids_are_rows rows -> LD.ends_below n rows ->
    Permutation (LD.triples_adj (build n rows vrows)) (LD.s_triples rows)
    /\ Permutation (LD.triples_rev (build n rows vrows)) (LD.s_triples rows).
  Proof.
    intros n rows vrows Hi He. split.
    - exact (triples_adj_perm n rows vrows Hi He).
    - exact (triples_rev_perm n rows vrows Hi He).
  Qed.

  (* each vertex has the listed coordinates *)
  Theorem c15_vertex_coords : forall n (rows : list edge) (vrows : list vertex) i, LD.vids_are_rows vrows ->
    LD.get_vertex (build n rows vrows) i = LD.s_vertex vrows i
    /\ (forall x, LD.get_vertex (build n rows vrows) i = Ok x -> nth_error vrows i = Some x /\ LD.v_id x = i).
  Proof. exact vertex_coords. Qed.

  (* derived accessors *)
  Theorem c15_edge_triplet : forall n (rows : list edge) (vrows : list vertex) i,
    LD.ids_are_rows rows -> LD.vids_are_rows vrows ->
    LD.edge_triplet (build n rows vrows) i = LD.s_triplet rows vrows i.
  Proof. exact edge_triplet_spec. Qed.
  Theorem c15_incident : forall n (rows : list edge) (vrows : list vertex) v d,
    LD.ids_are_rows rows -> LD.ends_below n rows ->
    LD.incident_edges (build n rows vrows) v d = map LD.e_id (LD.s_incident rows v d)
    /\ LD.incident_triplet_ids (build n rows vrows) v d = Ok (LD.s_triplet_ids rows v d).
  Proof. exact incident_spec. Qed.
  Theorem c15_incident_attributes : forall n (rows : list edge) (vrows : list vertex) v d,
    LD.ids_are_rows rows -> LD.vids_are_rows vrows -> LD.ends_below n rows ->
    LD.incident_triplet_attributes (build n rows vrows) v d = LD.s_triplet_attributes rows vrows v d.
  Proof. exact incident_attributes_spec. Qed.

  (* the property in one statement: a well-formed pair of files loads, and every accessor of the loaded
     graph answers what the rows say *)
  Theorem c15_loaded_network : forall (f : LD.files D C) ne nv, LD.wf f nv ->
    let rows := LD.f_edge_rows f in let vrows := LD.f_vertex_rows f in
    exists g, LD.graph_from_files f ne nv = Ok g
      /\ LD.n_edges g = List.length rows /\ LD.n_vertices g = List.length vrows
      /\ List.length (LD.adj g) = List.length vrows /\ List.length (LD.rev g) = List.length vrows
      /\ (forall i, LD.get_edge g i = LD.s_edge rows i)
      /\ (forall i, LD.get_vertex g i = LD.s_vertex vrows i)
      /\ (forall v, LD.out_edges g v = LD.s_out rows v)
      /\ (forall v, LD.in_edges g v = LD.s_in rows v)
      /\ (forall v, LD.adj_view g v = LD.s_adj_view rows v)
      /\ (forall v, LD.rev_view g v = LD.s_rev_view rows v)
      /\ (forall i, LD.edge_triplet g i = LD.s_triplet rows vrows i)
      /\ Permutation (LD.triples_adj g) (LD.triples_rev g)
      /\ Permutation (LD.triples_adj g) (LD.s_triples rows).
  Proof.
    intros f ne nv Hwf rows vrows. pose proof Hwf as (Hi & Hv & He & _).
    exists (build (List.length vrows) rows vrows). split; [exact (from_files_ok f ne nv Hwf)|].
    destruct (build_lengths (List.length vrows) rows vrows) as (Ha & Hr & Hne & Hnv).
    repeat split; try assumption; intros.
    - exact (proj1 (get_edge_row _ rows vrows i Hi)).
    - exact (proj1 (vertex_coords _ rows vrows i Hv)).
    - exact (out_edges_spec _ rows vrows Hi He v).
    - exact (in_edges_spec _ rows vrows Hi He v).
    - exact (adj_view_spec _ rows vrows Hi He v).
    - exact (rev_view_spec _ rows vrows Hi He v).
    - exact (edge_triplet_spec _ rows vrows i Hi Hv).
    - exact (proj1 (adj_rev_same_edge_set _ rows vrows Hi He)).
    - exact (triples_adj_perm _ rows vrows Hi He).
  Qed.

  (* ---- faithful statements outside the hypotheses ---- *)
  (* any rows at all (duplicate ids, any end points, any adjacency size n): the adjacency of v is the
     replace-or-append insertion, in file order, of the rows leaving v - for v < n - and empty for v >= n *)
  Theorem c15_any_rows : forall n (rows : list edge) (vrows : list vertex) v,
    let ins_all := fold_left (fun s kv => CM.s_ins Nat.eqb s (fst kv) (snd kv)) in
    LD.adj_view (build n rows vrows) v = (if Nat.ltb v n then ins_all (LD.s_adj_view rows v) [] else [])
    /\ LD.rev_view (build n rows vrows) v = (if Nat.ltb v n then ins_all (LD.s_rev_view rows v) [] else [])
    /\ LD.get_edge (build n rows vrows) v
       = match nth_error rows v with Some e => Ok e | None => Err "EdgeNotFound"%string end
    /\ LD.get_vertex (build n rows vrows) v
       = match nth_error vrows v with Some x => Ok x | None => Err "VertexNotFound"%string end.
  Proof.
    intros n rows vrows v. cbv zeta. repeat split.
    - exact (adj_view_general n rows vrows v).
    - exact (rev_view_general n rows vrows v).
  Qed.
  (* out-of-range end points (distinct ids): a row is in the forward adjacency iff its SOURCE is below the
     adjacency size, in the reverse adjacency iff its DESTINATION is; it stays in `edges` either way and no
     error is raised (missing_vertices is dropped) *)
  Theorem c15_out_of_range_end_points : forall n (rows : list edge) (vrows : list vertex) v,
    NoDup (map LD.e_id rows) ->
    LD.out_edges (build n rows vrows) v = (if Nat.ltb v n then LD.s_out rows v else [])
    /\ LD.in_edges (build n rows vrows) v = (if Nat.ltb v n then LD.s_in rows v else [])
    /\ LD.adj_view (build n rows vrows) v = (if Nat.ltb v n then LD.s_adj_view rows v else [])
    /\ LD.rev_view (build n rows vrows) v = (if Nat.ltb v n then LD.s_rev_view rows v else []).
  Proof.
    intros n rows vrows v Hnd. repeat split.
    - exact (out_edges_distinct n rows vrows v Hnd).
    - exact (in_edges_distinct n rows vrows v Hnd).
    - exact (adj_view_distinct n rows vrows v Hnd).
    - exact (rev_view_distinct n rows vrows v Hnd).
  Qed.
  (* the explicit edge count plays no role *)
  Theorem c15_n_edges_irrelevant : forall (f : LD.files D C) k k' nv,
    LD.graph_from_files f (Some k) nv = LD.graph_from_files f (Some k') nv
    /\ (1 <= LD.f_edge_lines f -> LD.graph_from_files f None nv = LD.graph_from_files f (Some k) nv).
  Proof. exact n_edges_irrelevant. Qed.
  (* the runner's decision "inside the hypotheses" is the hypothesis *)
  Theorem c15_wfb_wf : forall (f : LD.files D C) nv, LD.wfb f nv = true <-> LD.wf f nv.
  Proof. exact wfb_wf. Qed.
End C15.

(* per-edge tables are aligned with edge ids by row *)
Section C15Tables.
  Context {L T : Type} (decode : nat -> L -> option T).
  Theorem c15_tables_aligned : forall (lines : list L) (t : list T),
    LD.read_raw_file decode lines = Ok t ->
    List.length t = List.length lines
    /\ forall edge_id, LD.lookup t edge_id
         = match nth_error lines edge_id with Some l => decode edge_id l | None => None end.
  Proof. exact (tables_aligned decode). Qed.
  Theorem c15_tables_aligned_header : forall (lines : list L) (t : list T),
    LD.read_csv_with_header decode lines = Ok t ->
    forall edge_id, LD.lookup t edge_id
         = match nth_error lines (S edge_id) with Some l => decode edge_id l | None => None end.
  Proof. exact (tables_aligned_header decode). Qed.
  Theorem c15_table_all_or_nothing : forall (lines : list L),
    (exists t, LD.read_raw_file decode lines = Ok t)
    <-> (forall i l, nth_error lines i = Some l -> decode i l <> None).
  Proof. exact (table_all_or_nothing decode). Qed.
End C15Tables.

(* statement pins *)
Check @c15_loaded_network : forall D C (f : LD.files D C) ne nv, LD.wf f nv ->
    let rows := LD.f_edge_rows f in let vrows := LD.f_vertex_rows f in
    exists g, LD.graph_from_files f ne nv = Ok g
      /\ LD.n_edges g = List.length rows /\ LD.n_vertices g = List.length vrows
      /\ List.length (LD.adj g) = List.length vrows /\ List.length (LD.rev g) = List.length vrows
      /\ (forall i, LD.get_edge g i = LD.s_edge rows i)
      /\ (forall i, LD.get_vertex g i = LD.s_vertex vrows i)
      /\ (forall v, LD.out_edges g v = LD.s_out rows v)
      /\ (forall v, LD.in_edges g v = LD.s_in rows v)
      /\ (forall v, LD.adj_view g v = LD.s_adj_view rows v)
      /\ (forall v, LD.rev_view g v = LD.s_rev_view rows v)
      /\ (forall i, LD.edge_triplet g i = LD.s_triplet rows vrows i)
      /\ Permutation (LD.triples_adj g) (LD.triples_rev g)
      /\ Permutation (LD.triples_adj g) (LD.s_triples rows).
Check @c15_out_edges_spec : forall D C n (rows : list (LD.edge D)) (vrows : list (LD.vertex C)),
    LD.ids_are_rows rows -> LD.ends_below n rows ->
    forall v, LD.out_edges (LD.build n rows vrows) v
              = map LD.e_id (filter (fun e => Nat.eqb (LD.e_src e) v) rows).
Check @c15_in_edges_spec : forall D C n (rows : list (LD.edge D)) (vrows : list (LD.vertex C)),
    LD.ids_are_rows rows -> LD.ends_below n rows ->
    forall v, LD.in_edges (LD.build n rows vrows) v
              = map LD.e_id (filter (fun e => Nat.eqb (LD.e_dst e) v) rows).
Check @c15_adj_rev_same_edge_set : forall D C n (rows : list (LD.edge D)) (vrows : list (LD.vertex C)),
    LD.ids_are_rows rows -> LD.ends_below n rows ->
    Permutation (LD.triples_adj (LD.build n rows vrows)) (LD.triples_rev (LD.build n rows vrows))
    /\ (forall t, In t (LD.triples_adj (LD.build n rows vrows))
                  <-> In t (map (fun e => (LD.e_id e, LD.e_src e, LD.e_dst e)) rows))
    /\ (forall t, In t (LD.triples_rev (LD.build n rows vrows))
                  <-> In t (map (fun e => (LD.e_id e, LD.e_src e, LD.e_dst e)) rows)).

(* ---- non-vacuity: a concrete network inside the hypotheses with a degree-7 hub (past the small-size
   specialisations of the container), parallel edges, a self loop and an isolated vertex ---- *)
Section Example.
  Definition ex_rows : list (LD.edge nat) :=
    [ LD.mkEdge 0 0 1 10; LD.mkEdge 1 0 2 11; LD.mkEdge 2 0 1 12 (* parallel to 0 *); LD.mkEdge 3 0 0 13 (* self loop *);
      LD.mkEdge 4 0 3 14; LD.mkEdge 5 2 0 15; LD.mkEdge 6 0 2 16; LD.mkEdge 7 0 3 17;
      LD.mkEdge 8 1 0 18; LD.mkEdge 9 3 0 19; LD.mkEdge 10 2 0 20; LD.mkEdge 11 1 0 21 ].
  Definition ex_vrows : list (LD.vertex nat) :=
    [ LD.mkVertex 0 0 0; LD.mkVertex 1 1 0; LD.mkVertex 2 0 1; LD.mkVertex 3 1 1; LD.mkVertex 4 5 5 (* isolated *) ].
  Definition ex_files : LD.files nat nat := LD.mkFiles 13 ex_rows 6 ex_vrows.

  Example c15_nonvacuous :
    LD.wf ex_files None
    /\ (exists g m, LD.graph_from_files ex_files None None = Ok g
                    /\ nth_error (LD.adj g) 0 = Some (CM.NE m) /\ List.length m = 7
                    /\ LD.out_edges g 0 = [0; 1; 2; 3; 4; 6; 7]
                    /\ LD.in_edges g 0 = [3; 5; 8; 9; 10; 11]
                    /\ LD.out_edges g 4 = [] /\ LD.in_edges g 4 = []).
  Proof.
    split; [apply c15_wfb_wf; vm_compute; reflexivity|].
    vm_compute. eexists. eexists. repeat split.
  Qed.

  (* an end point outside the vertex list: the two adjacency directions then disagree (the property's
     hypothesis "every end point is a listed vertex" is necessary) *)
  Example c15_out_of_range_views_differ :
    let g := LD.build 2 [LD.mkEdge 0 0 5 1] [LD.mkVertex 0 0 0; LD.mkVertex 1 1 1] in
    LD.triples_adj g = [(0, 0, 5)] /\ LD.triples_rev g = [] /\ LD.get_edge g 0 = Ok (LD.mkEdge 0 0 5 1)
    /\ LD.edge_triplet g 0 = Err "VertexNotFound"%string.
  Proof. vm_compute. repeat split. Qed.

  (* rows not in id order (outside the documented format): retrieval is by ROW, the id is not consulted *)
  Example c15_unsorted_rows_by_position :
    let g := LD.build 2 [LD.mkEdge 0 0 1 1] [LD.mkVertex 1 10 10; LD.mkVertex 0 20 20] in
    LD.get_vertex g 0 = Ok (LD.mkVertex 1 10 10) /\ LD.s_vertex [LD.mkVertex 1 10 10; LD.mkVertex 0 20 20] 0 = Ok (LD.mkVertex 0 20 20).
  Proof. vm_compute. repeat split. Qed.
End Example.

Print Assumptions c15_from_files.
Print Assumptions c15_sizes.
Print Assumptions c15_get_edge_row.
Print Assumptions c15_src_dst.
Print Assumptions c15_out_edges_spec.
Print Assumptions c15_in_edges_spec.
Print Assumptions c15_adjacency_views.
Print Assumptions c15_adjacency_get_len.
Print Assumptions c15_adj_rev_same_edge_set.
Print Assumptions c15_adj_is_rows_each_once.
Print Assumptions c15_vertex_coords.
Print Assumptions c15_edge_triplet.
Print Assumptions c15_incident.
Print Assumptions c15_incident_attributes.
Print Assumptions c15_loaded_network.
Print Assumptions c15_any_rows.
Print Assumptions c15_out_of_range_end_points.
Print Assumptions c15_n_edges_irrelevant.
Print Assumptions c15_wfb_wf.
Print Assumptions c15_tables_aligned.
Print Assumptions c15_tables_aligned_header.
Print Assumptions c15_table_all_or_nothing.
Print Assumptions c15_nonvacuous.
Print Assumptions c15_out_of_range_views_differ.
Print Assumptions c15_unsorted_rows_by_position.
