(* C15 - the loaded network is exactly the one described by the edge / vertex files.

   Statements only: each theorem is closed by [exact] of a lemma of Proofs/Loader.v (a few lines of glue),
   pinned by [Check ... : statement] and followed by Print Assumptions.

   Model: Model/Loader.v (LD).  A file is its decoded rows in file order plus its line count; distances
   and coordinates are opaque payloads (D, C).  The specification functions LD.s_* read the network off
   the row lists with find / filter only - no loader state, no container.

   Shape of the statements (since /repo 75c7433 the loader refuses an edge list that references a vertex
   outside the adjacency):
     * EVERY SUCCESSFUL LOAD - hypothesis "graph_from_files f ne nv = Ok g", for ANY files and ANY explicit or
       scanned counts - whose edge ids are the row indices (documented format) exposes exactly the listed
       topology; no hypothesis on the end points is needed, it follows from Ok.  The vertex statements need
       the vertex ids to be the row indices.
     * a pair of files in the documented format (LD.wf_format: ids are row indices, a file is a header line
       plus one line per row, an explicit n_vertices is the true one) loads iff every end point is a listed
       vertex, and fails with DatasetError otherwise.
   Any number of rows, any degree, parallel edges, self loops, isolated vertices; the explicit edge count is
   arbitrary.  NOT modelled: CSV / gzip decoding and line counting (exercised on real files by the stream). *)
From Coq Require Import List Arith Bool Permutation String.
From RC Require Import Base.Num Base.Res Model.CompactMap Model.Loader Model.Units Model.LoaderOps
  Proofs.CompactMap Proofs.Loader Proofs.LoaderOps.
Import ListNotations.

Section C15.
  Context {D C : Type}.
  Notation edge := (LD.edge D).
  Notation vertex := (LD.vertex C).

  (* ---- which files load ---- *)
  Theorem c15_from_files : forall (f : LD.files D C) ne nv, LD.wf f nv ->
    LD.graph_from_files f ne nv
    = Ok (LD.build (List.length (LD.f_vertex_rows f)) (LD.f_edge_rows f) (LD.f_vertex_rows f)).
  Proof. exact from_files_ok. Qed.
  (* an edge list that references a vertex that is not listed fails to load *)
  Theorem c15_out_of_range_end_points : forall (f : LD.files D C) ne nv, LD.wf_format f nv ->
    ~ LD.ends_below (List.length (LD.f_vertex_rows f)) (LD.f_edge_rows f) ->
    LD.graph_from_files f ne nv = Err "DatasetError"%string.
  Proof. exact from_files_fails. Qed.
  (* for any adjacency size n and any rows: the load succeeds iff every end point is below n *)
  Theorem c15_load_ok_iff : forall n (rows : list edge) (vrows : list vertex) g,
    LD.load n rows vrows = Ok g <-> g = LD.build n rows vrows /\ LD.ends_below n rows.
  Proof. exact load_ok_iff. Qed.
  (* whatever the files and the counts, a graph that loaded has no end point outside its adjacency *)
  Theorem c15_loaded_end_points : forall (f : LD.files D C) ne nv g,
    LD.graph_from_files f ne nv = Ok g -> LD.ends_below (List.length (LD.adj g)) (LD.f_edge_rows f).
  Proof. exact loaded_end_points. Qed.

  (* ---- every successful load ---- *)
  Section Loaded.
    Variables (f : LD.files D C) (ne nv : option nat) (g : LD.graph D C).
    Hypothesis Hload : LD.graph_from_files f ne nv = Ok g.
    Notation rows := (LD.f_edge_rows f).
    Notation vrows := (LD.f_vertex_rows f).

    Theorem c15_sizes :
      LD.n_edges g = List.length rows /\ LD.n_vertices g = List.length vrows
      /\ List.length (LD.rev g) = List.length (LD.adj g)
      /\ (forall n, nv = Some n -> List.length (LD.adj g) = n)
      /\ (nv = None -> LD.f_vertex_lines f = S (List.length (LD.adj g))).
    Proof. exact (loaded_sizes f ne nv g Hload). Qed.

    (* the adjacency fields read through keys() + get() and len(): the same answers as iter() *)
    Theorem c15_adjacency_get_len : forall v,
      let some := map (fun p : nat * nat => (fst p, Some (snd p))) in
      LD.get_view (LD.adj g) v = some (LD.adj_view g v) /\ LD.get_view (LD.rev g) v = some (LD.rev_view g v)
      /\ LD.len_view (LD.adj g) v = List.length (LD.adj_view g v)
      /\ LD.len_view (LD.rev g) v = List.length (LD.rev_view g v).
    Proof. exact (loaded_get_len f ne nv g Hload). Qed.

    (* each vertex has the listed coordinates *)
    Theorem c15_vertex_coords : forall i, LD.vids_are_rows vrows ->
      LD.get_vertex g i = LD.s_vertex vrows i
      /\ (forall x, LD.get_vertex g i = Ok x -> nth_error vrows i = Some x /\ LD.v_id x = i).
    Proof. exact (loaded_get_vertex f ne nv g Hload). Qed.

    Hypothesis Hids : LD.ids_are_rows rows.

    (* every listed edge is retrievable by its id with its source, destination and length *)
    Theorem c15_get_edge_row : forall i,
      LD.get_edge g i = LD.s_edge rows i
      /\ (forall e, LD.get_edge g i = Ok e -> nth_error rows i = Some e /\ LD.e_id e = i).
    Proof. exact (loaded_get_edge f ne nv g Hload Hids). Qed.
    Theorem c15_src_dst : forall i,
      LD.src_vertex_id g i = rmap LD.e_src (LD.s_edge rows i)
      /\ LD.dst_vertex_id g i = rmap LD.e_dst (LD.s_edge rows i).
    Proof. exact (loaded_src_dst f ne nv g Hload Hids). Qed.

    (* the outgoing edges of a vertex are precisely the listed edges that leave it, the incoming edges
       precisely those that enter it, in file order, AT ANY DEGREE (C11's refinement is used here: the
       per-vertex maps are CompactOrderedHashMaps that change representation at 5 entries) *)
    Theorem c15_out_edges_spec : forall v, LD.out_edges g v = LD.s_out rows v.
    Proof. exact (loaded_out_edges f ne nv g Hload Hids). Qed.
    Theorem c15_in_edges_spec : forall v, LD.in_edges g v = LD.s_in rows v.
    Proof. exact (loaded_in_edges f ne nv g Hload Hids). Qed.
    (* the adjacency fields themselves (read through iter()): (edge, other end) pairs *)
    Theorem c15_adjacency_views : forall v,
      LD.adj_view g v = LD.s_adj_view rows v /\ LD.rev_view g v = LD.s_rev_view rows v.
    Proof. exact (loaded_views f ne nv g Hload Hids). Qed.

    (* forward and reverse adjacency ALWAYS describe the same edge set, the listed one (each row once) *)
    Theorem c15_adj_rev_same_edge_set :
      Permutation (LD.triples_adj g) (LD.triples_rev g)
      /\ (forall t, In t (LD.triples_adj g) <-> In t (LD.s_triples rows))
      /\ (forall t, In t (LD.triples_rev g) <-> In t (LD.s_triples rows)).
    Proof. exact (loaded_same_edge_set f ne nv g Hload Hids). Qed.
    Theorem c15_adj_is_rows_each_once :
      Permutation (LD.triples_adj g) (LD.s_triples rows) /\ Permutation (LD.triples_rev g) (LD.s_triples rows).
    Proof. exact (loaded_each_once f ne nv g Hload Hids). Qed.

    (* derived accessors *)
    Theorem c15_incident : forall v d,
      LD.incident_edges g v d = map LD.e_id (LD.s_incident rows v d)
      /\ LD.incident_triplet_ids g v d = Ok (LD.s_triplet_ids rows v d).
    Proof. exact (loaded_incident f ne nv g Hload Hids). Qed.
    Theorem c15_edge_triplet : LD.vids_are_rows vrows ->
      forall i, LD.edge_triplet g i = LD.s_triplet rows vrows i.
    Proof. intros Hv. exact (loaded_triplet f ne nv g Hload Hids Hv). Qed.
    Theorem c15_incident_attributes : LD.vids_are_rows vrows ->
      forall v d, LD.incident_triplet_attributes g v d = LD.s_triplet_attributes rows vrows v d.
    Proof. intros Hv. exact (loaded_incident_attributes f ne nv g Hload Hids Hv). Qed.
  End Loaded.

  (* the property in one statement: files in the documented format whose end points are listed vertices
     load, and every accessor of the loaded graph answers what the rows say *)
  Theorem c15_loaded_network : forall (f : LD.files D C) ne nv, LD.wf f nv ->
    let rows := LD.f_edge_rows f in let vrows := LD.f_vertex_rows f in
    exists g, LD.graph_from_files f ne nv = Ok g
      /\ LD.n_edges g = List.length rows /\ LD.n_vertices g = List.length vrows
      /\ List.length (LD.adj g) = List.length vrows /\ List.length (LD.rev g) = List.length vrows
      /\ (forall i, LD.get_edge g i = LD.s_edge rows i)
      /\ (forall i, LD.get_vertex g i = LD.s_vertex vrows i)
      /\ (forall v, LD.out_edges g v = LD.s_out rows v)
      /\ (forall v, LD.in_edges g v = LD.s_in rows v)
      /\ (forall v, LD.adj_view g v = LD.s_adj_view rows v)
      /\ (forall v, LD.rev_view g v = LD.s_rev_view rows v)
      /\ (forall i, LD.edge_triplet g i = LD.s_triplet rows vrows i)
      /\ Permutation (LD.triples_adj g) (LD.triples_rev g)
      /\ Permutation (LD.triples_adj g) (LD.s_triples rows).
  Proof.
    intros f ne nv Hwf rows vrows. pose proof Hwf as ((Hi & Hv & _) & He).
    pose proof (from_files_ok f ne nv Hwf) as Hload. fold rows vrows in Hload.
    exists (LD.build (List.length vrows) rows vrows). split; [exact Hload|].
    destruct (build_lengths (List.length vrows) rows vrows) as (Ha & Hr & Hne & Hnv).
    repeat split; try assumption; intros.
    - exact (proj1 (loaded_get_edge f ne nv _ Hload Hi i)).
    - exact (proj1 (loaded_get_vertex f ne nv _ Hload i Hv)).
    - exact (loaded_out_edges f ne nv _ Hload Hi v).
    - exact (loaded_in_edges f ne nv _ Hload Hi v).
    - exact (proj1 (loaded_views f ne nv _ Hload Hi v)).
    - exact (proj2 (loaded_views f ne nv _ Hload Hi v)).
    - exact (loaded_triplet f ne nv _ Hload Hi Hv i).
    - exact (proj1 (loaded_same_edge_set f ne nv _ Hload Hi)).
    - exact (proj1 (loaded_each_once f ne nv _ Hload Hi)).
  Qed.

  (* ---- faithful statements about ids that are not row indices (outside the documented format) ---- *)
  (* any rows at all (duplicate ids, any adjacency size n): the adjacency state the loader has built when the
     last row is read is the replace-or-append insertion, in file order, of the rows leaving / entering v -
     for v < n - and empty for v >= n; retrieval is by ROW POSITION, the id written in the row is not consulted *)
  Theorem c15_any_rows : forall n (rows : list edge) (vrows : list vertex) v,
    let ins_all := fold_left (fun s kv => CM.s_ins Nat.eqb s (fst kv) (snd kv)) in
    LD.adj_view (LD.build n rows vrows) v = (if Nat.ltb v n then ins_all (LD.s_adj_view rows v) [] else [])
    /\ LD.rev_view (LD.build n rows vrows) v = (if Nat.ltb v n then ins_all (LD.s_rev_view rows v) [] else [])
    /\ LD.get_edge (LD.build n rows vrows) v
       = match nth_error rows v with Some e => Ok e | None => Err "EdgeNotFound"%string end
    /\ LD.get_vertex (LD.build n rows vrows) v
       = match nth_error vrows v with Some x => Ok x | None => Err "VertexNotFound"%string end.
  Proof.
    intros n rows vrows v. cbv zeta. repeat split.
    - exact (adj_view_general n rows vrows v).
    - exact (rev_view_general n rows vrows v).
  Qed.
  (* the explicit edge count plays no role *)
  Theorem c15_n_edges_irrelevant : forall (f : LD.files D C) k k' nv,
    LD.graph_from_files f (Some k) nv = LD.graph_from_files f (Some k') nv
    /\ (1 <= LD.f_edge_lines f -> LD.graph_from_files f None nv = LD.graph_from_files f (Some k) nv).
  Proof. exact n_edges_irrelevant. Qed.
  (* the runner's decisions are the hypotheses *)
  Theorem c15_wfb_wf : forall (f : LD.files D C) nv,
    (LD.wfb f nv = true <-> LD.wf f nv) /\ (LD.formatb f nv = true <-> LD.wf_format f nv)
    /\ (forall n, LD.endsb n (LD.f_edge_rows f) = true <-> LD.ends_below n (LD.f_edge_rows f)).
  Proof.
    intros f nv. split; [exact (wfb_wf f nv)|]. split; [exact (formatb_format f nv)|].
    intros n. exact (endsb_ends n _).
  Qed.
End C15.

(* the read-back API of the application (SearchAppGraphOps, behind the graph_* bindings): on every successful
   load whose edge ids are the row indices the origin / destination / incident-edge queries answer what the rows
   say, the length of edge i in unit u is DistanceUnit::convert(Meters -> u) of the LISTED length (C09: within
   0.1 % of the physical factor), no unit / meters return the listed length itself, and an id that is not a row
   is an error *)
Section C15Ops.
  Context {N : Num} {C : Type}.
  Theorem c15_graph_ops : forall (f : LD.files N C) ne nv g,
    LD.graph_from_files f ne nv = Ok g -> LD.ids_are_rows (LD.f_edge_rows f) ->
    (forall i, LO.get_edge_origin g i = rmap LD.e_src (LD.s_edge (LD.f_edge_rows f) i))
    /\ (forall i, LO.get_edge_destination g i = rmap LD.e_dst (LD.s_edge (LD.f_edge_rows f) i))
    /\ (forall i u, LO.get_edge_distance g i u
                    = rmap (fun e => LO.in_unit u (LD.e_dist e)) (LD.s_edge (LD.f_edge_rows f) i))
    /\ (forall v d, LO.get_incident_edge_ids g v d = map LD.e_id (LD.s_incident (LD.f_edge_rows f) v d)).
  Proof. exact graph_ops_spec. Qed.
  Theorem c15_graph_ops_errors_and_identity : forall (f : LD.files N C) ne nv g,
    LD.graph_from_files f ne nv = Ok g -> LD.ids_are_rows (LD.f_edge_rows f) -> forall i,
    (LD.s_edge (LD.f_edge_rows f) i = Err "EdgeNotFound"%string ->
       LO.get_edge_origin g i = Err "EdgeNotFound"%string /\ LO.get_edge_destination g i = Err "EdgeNotFound"%string
       /\ forall u, LO.get_edge_distance g i u = Err "EdgeNotFound"%string)
    /\ (forall e, LD.s_edge (LD.f_edge_rows f) i = Ok e ->
          LO.get_edge_distance g i None = Ok (LD.e_dist e)
          /\ LO.get_edge_distance g i (Some Units.Meters) = Ok (LD.e_dist e)).
  Proof. exact graph_ops_errors_and_identity. Qed.
End C15Ops.

(* per-edge tables are aligned with edge ids by row *)
Section C15Tables.
  Context {L T : Type} (decode : nat -> L -> option T).
  Theorem c15_tables_aligned : forall (lines : list L) (t : list T),
    LD.read_raw_file decode lines = Ok t ->
    List.length t = List.length lines
    /\ forall edge_id, LD.lookup t edge_id
         = match nth_error lines edge_id with Some l => decode edge_id l | None => None end.
  Proof. exact (tables_aligned decode). Qed.
  Theorem c15_tables_aligned_header : forall (lines : list L) (t : list T),
    LD.read_csv_with_header decode lines = Ok t ->
    forall edge_id, LD.lookup t edge_id
         = match nth_error lines (S edge_id) with Some l => decode edge_id l | None => None end.
  Proof. exact (tables_aligned_header decode). Qed.
  Theorem c15_table_all_or_nothing : forall (lines : list L),
    (exists t, LD.read_raw_file decode lines = Ok t)
    <-> (forall i l, nth_error lines i = Some l -> decode i l <> None).
  Proof. exact (table_all_or_nothing decode). Qed.
End C15Tables.

(* statement pins *)
Check @c15_loaded_network : forall D C (f : LD.files D C) ne nv, LD.wf f nv ->
    let rows := LD.f_edge_rows f in let vrows := LD.f_vertex_rows f in
    exists g, LD.graph_from_files f ne nv = Ok g
      /\ LD.n_edges g = List.length rows /\ LD.n_vertices g = List.length vrows
      /\ List.length (LD.adj g) = List.length vrows /\ List.length (LD.rev g) = List.length vrows
      /\ (forall i, LD.get_edge g i = LD.s_edge rows i)
      /\ (forall i, LD.get_vertex g i = LD.s_vertex vrows i)
      /\ (forall v, LD.out_edges g v = LD.s_out rows v)
      /\ (forall v, LD.in_edges g v = LD.s_in rows v)
      /\ (forall v, LD.adj_view g v = LD.s_adj_view rows v)
      /\ (forall v, LD.rev_view g v = LD.s_rev_view rows v)
      /\ (forall i, LD.edge_triplet g i = LD.s_triplet rows vrows i)
      /\ Permutation (LD.triples_adj g) (LD.triples_rev g)
      /\ Permutation (LD.triples_adj g) (LD.s_triples rows).
Check @c15_out_edges_spec : forall D C (f : LD.files D C) ne nv g,
    LD.graph_from_files f ne nv = Ok g -> LD.ids_are_rows (LD.f_edge_rows f) ->
    forall v, LD.out_edges g v = map LD.e_id (filter (fun e => Nat.eqb (LD.e_src e) v) (LD.f_edge_rows f)).
Check @c15_in_edges_spec : forall D C (f : LD.files D C) ne nv g,
    LD.graph_from_files f ne nv = Ok g -> LD.ids_are_rows (LD.f_edge_rows f) ->
    forall v, LD.in_edges g v = map LD.e_id (filter (fun e => Nat.eqb (LD.e_dst e) v) (LD.f_edge_rows f)).
Check @c15_adj_rev_same_edge_set : forall D C (f : LD.files D C) ne nv g,
    LD.graph_from_files f ne nv = Ok g -> LD.ids_are_rows (LD.f_edge_rows f) ->
    Permutation (LD.triples_adj g) (LD.triples_rev g)
    /\ (forall t, In t (LD.triples_adj g)
                  <-> In t (map (fun e => (LD.e_id e, LD.e_src e, LD.e_dst e)) (LD.f_edge_rows f)))
    /\ (forall t, In t (LD.triples_rev g)
                  <-> In t (map (fun e => (LD.e_id e, LD.e_src e, LD.e_dst e)) (LD.f_edge_rows f))).
Check @c15_out_of_range_end_points : forall D C (f : LD.files D C) ne nv, LD.wf_format f nv ->
    ~ LD.ends_below (List.length (LD.f_vertex_rows f)) (LD.f_edge_rows f) ->
    LD.graph_from_files f ne nv = Err "DatasetError"%string.

(* ---- non-vacuity: a concrete network inside the hypotheses with a degree-7 hub (past the small-size
   specialisations of the container), parallel edges, a self loop and an isolated vertex ---- *)
Section Example.
  Definition ex_rows : list (LD.edge nat) :=
    [ LD.mkEdge 0 0 1 10; LD.mkEdge 1 0 2 11; LD.mkEdge 2 0 1 12 (* parallel to 0 *); LD.mkEdge 3 0 0 13 (* self loop *);
      LD.mkEdge 4 0 3 14; LD.mkEdge 5 2 0 15; LD.mkEdge 6 0 2 16; LD.mkEdge 7 0 3 17;
      LD.mkEdge 8 1 0 18; LD.mkEdge 9 3 0 19; LD.mkEdge 10 2 0 20; LD.mkEdge 11 1 0 21 ].
  Definition ex_vrows : list (LD.vertex nat) :=
    [ LD.mkVertex 0 0 0; LD.mkVertex 1 1 0; LD.mkVertex 2 0 1; LD.mkVertex 3 1 1; LD.mkVertex 4 5 5 (* isolated *) ].
  Definition ex_files : LD.files nat nat := LD.mkFiles 13 ex_rows 6 ex_vrows.

  Example c15_nonvacuous :
    LD.wf ex_files None
    /\ (exists g m, LD.graph_from_files ex_files None None = Ok g
                    /\ nth_error (LD.adj g) 0 = Some (CM.NE m) /\ List.length m = 7
                    /\ LD.out_edges g 0 = [0; 1; 2; 3; 4; 6; 7]
                    /\ LD.in_edges g 0 = [3; 5; 8; 9; 10; 11]
                    /\ LD.out_edges g 4 = [] /\ LD.in_edges g 4 = []).
  Proof.
    split; [apply c15_wfb_wf; vm_compute; reflexivity|].
    vm_compute. eexists. eexists. repeat split.
  Qed.

  (* an end point outside the vertex list: the load fails (before /repo 75c7433 it succeeded with the edge
     in adj[0] only); the hypotheses of c15_out_of_range_end_points are satisfiable *)
  Definition ex_dangling : LD.files nat nat :=
    LD.mkFiles 2 [LD.mkEdge 0 0 5 1] 3 [LD.mkVertex 0 0 0; LD.mkVertex 1 1 1].
  Example c15_dangling_end_point_fails :
    LD.wf_format ex_dangling None
    /\ ~ LD.ends_below 2 (LD.f_edge_rows ex_dangling)
    /\ LD.graph_from_files ex_dangling None None = Err "DatasetError"%string
    /\ LD.triples_adj (LD.build 2 (LD.f_edge_rows ex_dangling) (LD.f_vertex_rows ex_dangling)) = [(0, 0, 5)]
    /\ LD.triples_rev (LD.build 2 (LD.f_edge_rows ex_dangling) (LD.f_vertex_rows ex_dangling)) = [].
  Proof.
    split; [apply c15_wfb_wf; vm_compute; reflexivity|].
    split; [intros H; apply (proj2 (c15_wfb_wf ex_dangling None)) in H; vm_compute in H; discriminate|].
    vm_compute. repeat split.
  Qed.

  (* rows not in id order (outside the documented format): retrieval is by ROW, the id is not consulted *)
  Example c15_unsorted_rows_by_position :
    let g := LD.build 2 [LD.mkEdge 0 0 1 1] [LD.mkVertex 1 10 10; LD.mkVertex 0 20 20] in
    LD.load 2 [LD.mkEdge 0 0 1 1] [LD.mkVertex 1 10 10; LD.mkVertex 0 20 20] = Ok g
    /\ LD.get_vertex g 0 = Ok (LD.mkVertex 1 10 10)
    /\ LD.s_vertex [LD.mkVertex 1 10 10; LD.mkVertex 0 20 20] 0 = Ok (LD.mkVertex 0 20 20).
  Proof. vm_compute. repeat split. Qed.
End Example.

Print Assumptions c15_from_files.
Print Assumptions c15_load_ok_iff.
Print Assumptions c15_loaded_end_points.
Print Assumptions c15_sizes.
Print Assumptions c15_get_edge_row.
Print Assumptions c15_src_dst.
Print Assumptions c15_out_edges_spec.
Print Assumptions c15_in_edges_spec.
Print Assumptions c15_adjacency_views.
Print Assumptions c15_adjacency_get_len.
Print Assumptions c15_adj_rev_same_edge_set.
Print Assumptions c15_adj_is_rows_each_once.
Print Assumptions c15_vertex_coords.
Print Assumptions c15_edge_triplet.
Print Assumptions c15_incident.
Print Assumptions c15_incident_attributes.
Print Assumptions c15_loaded_network.
Print Assumptions c15_any_rows.
Print Assumptions c15_out_of_range_end_points.
Print Assumptions c15_n_edges_irrelevant.
Print Assumptions c15_wfb_wf.
Print Assumptions c15_graph_ops.
Print Assumptions c15_graph_ops_errors_and_identity.
Print Assumptions c15_tables_aligned.
Print Assumptions c15_tables_aligned_header.
Print Assumptions c15_table_all_or_nothing.
Print Assumptions c15_nonvacuous.
Print Assumptions c15_dangling_end_point_fails.
Print Assumptions c15_unsorted_rows_by_position.
