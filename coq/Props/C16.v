(* C16 - map matching picks the nearest admissible element and honours the tolerance.

   The R-tree (rstar) is not modelled: it enters as the parameters [nn] (RTree::nearest_neighbor) and [nn_iter]
   (RTree::nearest_neighbor_iter) with their documented contract ([nn_spec]: a minimiser of the squared coordinate
   distance; [iter_spec]: a nearest-first enumeration of all elements).  The theorems hold for every such
   implementation and every tie-break, for candidate lists of any size.  The great-circle distance [gc] is an
   arbitrary non-negative function (an oracle for the f32 haversine).  "Beyond" / "strictly within" the tolerance
   refer to the tolerance converted to metres by the exact SI factor of its unit, with the relative band
   [unit_band] = 5e-4 that covers the decimal conversion constants of the code (worst: Meters->Miles, 2.2e-4);
   inside the band nothing is claimed in those units; in Meters (no conversion) the rule is exact and inclusive for
   both matchers, [c16_tolerance_inclusive]: distance <= tolerance matches, equality included.  Tolerance theorems are about the exact-rational
   reading [QN] of the model text that is executed in binary64 next to the code.

   This file contains only statements: each theorem is closed by [exact] of a lemma proved in Proofs/. *)
From Coq Require Import ZArith QArith List String Bool Floats Sorting.Sorted Sorting.Permutation.
From RC Require Import Base.Show Base.Res Base.Num Base.Json Model.Units Model.MapMatch
                       Proofs.MapMatch Proofs.MapMatchJson Proofs.MapMatchTop.
Import ListNotations.
Import Units MM.

(* the contract assumed of rstar is satisfiable: a linear scan and a stable sort meet it *)
Theorem c16_rstar_contract_inhabited : nn_spec scan_nearest /\ iter_spec sort_nearest.
Proof. exact (conj scan_nearest_spec sort_nearest_spec). Qed.

(* ---------------------------------------------------------------- nearest vertex = exhaustive scan *)
(* a matched vertex is a candidate, no candidate is nearer under the plugin's measure, and its distance is
   the minimum found by the exhaustive scan [min_d2] (ties: any minimiser) *)
Theorem c16_nearest_minimal : forall nn, nn_spec nn ->
  forall (N : Num) (gc : point -> point -> N) vs tol p v,
  match_vertex N gc nn vs tol p = Ok v ->
  In v vs /\ (forall c, In c vs -> d2 (cpt v) p <= d2 (cpt c) p)
  /\ exists m, min_d2 p vs = Some m /\ d2 (cpt v) p == m.
Proof. exact nearest_minimal_full. Qed.

(* ---------------------------------------------------------------- nearest admissible edge *)
(* [vc] = the road-class verdict per edge under the query's road classes (the class file covers every edge, as
   EdgeRtreeInputPlugin::new enforces), [truck_ok] = the vehicle-restriction verdict per edge under the query's
   vehicle parameters; admissible = both.  The chosen edge is admissible, no admissible edge is strictly nearer,
   and its distance is the exhaustive-scan minimum over the admissible edges. *)
Theorem c16_edge_match_first_admissible : forall nn_iter, iter_spec nn_iter ->
  forall (N : Num) (gc : point -> point -> N) es tol lookup truck_ok rcq vc,
  (forall c, In c es -> valid_class rcq lookup c = Ok (vc c)) ->
  forall p e, match_edge N gc nn_iter es tol lookup truck_ok rcq p = Ok e ->
  In e es /\ adm truck_ok vc e = true
  /\ (forall c, In c es -> adm truck_ok vc c = true -> d2 (cpt e) p <= d2 (cpt c) p)
  /\ exists m, min_d2 p (filter (adm truck_ok vc) es) = Some m /\ d2 (cpt e) p == m.
Proof. exact edge_first_admissible_full. Qed.

(* ---------------------------------------------------------------- tolerance *)
Theorem c16_tolerance_semantics_vertex : forall nn, nn_spec nn ->
  forall (gc : point -> point -> Q), (forall a b, 0 <= gc a b) ->
  forall vs t u p,
  ((forall c, minimal_in p vs c -> beyond t u (gc p (cpt c))) ->
     match_vertex QN gc nn vs (Some (t, u)) p = Err e_failed)
  /\ (forall v, match_vertex QN gc nn vs (Some (t, u)) p = Ok v -> ~ beyond t u (gc p (cpt v)))
  /\ (vs <> [] -> in_range p = true -> (forall c, In c vs -> in_range (cpt c) = true) ->
      (forall c, minimal_in p vs c -> within t u (gc p (cpt c))) ->
      exists v, match_vertex QN gc nn vs (Some (t, u)) p = Ok v /\ minimal_in p vs v)
  /\ (vs <> [] -> exists v, match_vertex QN gc nn vs None p = Ok v /\ minimal_in p vs v).
Proof. exact vertex_tolerance_full. Qed.

Theorem c16_tolerance_semantics_edge : forall nn_iter, iter_spec nn_iter ->
  forall (gc : point -> point -> Q), (forall a b, 0 <= gc a b) ->
  forall es t u lookup truck_ok rcq vc,
  (forall c, In c es -> valid_class rcq lookup c = Ok (vc c)) ->
  forall p,
  ((forall c, adm_minimal es truck_ok vc p c -> beyond t u (gc p (cpt c))) ->
     match_edge QN gc nn_iter es (Some (t, u)) lookup truck_ok rcq p = Err e_failed)
  /\ (forall e, match_edge QN gc nn_iter es (Some (t, u)) lookup truck_ok rcq p = Ok e ->
        ~ beyond t u (gc p (cpt e)))
  /\ (forall c, In c es -> adm truck_ok vc c = true ->
      in_range p = true -> (forall c, In c es -> in_range (cpt c) = true) ->
      (forall c, adm_minimal es truck_ok vc p c -> within t u (gc p (cpt c))) ->
      exists e, match_edge QN gc nn_iter es (Some (t, u)) lookup truck_ok rcq p = Ok e
                /\ adm_minimal es truck_ok vc p e)
  /\ (forall c, In c es -> adm truck_ok vc c = true ->
      exists e, match_edge QN gc nn_iter es None lookup truck_ok rcq p = Ok e
                /\ adm_minimal es truck_ok vc p e).
Proof. exact edge_tolerance_full. Qed.

(* AT the tolerance: one inclusive rule for both matchers.  With the tolerance in Meters (no conversion factor) the
   tolerance test is exactly `distance <= tolerance`; a candidate whose distance EQUALS the tolerance is matched
   (so tolerance 0 exactly on a candidate matches) *)
Theorem c16_tolerance_inclusive : forall (gc : point -> point -> Q),
  (forall src dst t, in_range src = true -> in_range dst = true ->
     validate_tolerance QN gc src dst (Some (t, Meters)) = if Qle_bool (gc src dst) t then Ok tt else Err e_failed)
  /\ (forall d t, within_tolerance QN (Some (t, Meters)) d = Qle_bool d t)
  /\ (forall nn vs p v, nn p vs = Some v -> in_range p = true -> in_range (cpt v) = true ->
      match_vertex QN gc nn vs (Some (gc p (cpt v), Meters)) p = Ok v)
  /\ (forall p c, in_range p = true -> in_range (cpt c) = true ->
      decide QN gc (Some (gc p (cpt c), Meters)) p c = Ok (Some c)).
Proof.
  intros gc. split; [exact (validate_tolerance_meters gc)|]. split; [exact within_tolerance_meters|].
  split; [exact (match_vertex_at_tolerance gc) | exact (decide_edge_at_tolerance gc)].
Qed.

(* the same at the level of `process`: an origin (or destination) whose nearest candidates are all beyond the
   tolerance makes the whole query an error, and the failing coordinate's match is not written; origin and
   destination all strictly within make it succeed *)
Theorem c16_vertex_process_beyond : forall fq gc, (forall a b, 0 <= gc a b) -> forall nn, nn_spec nn ->
  forall vs t u query src,
  get_origin_coordinate fq query = Ok src ->
  (forall dst, get_destination_coordinate fq query = Ok dst -> all_beyond gc vs t u src ->
     vertex_process QN fq gc nn vs (Some (t, u)) query = (query, Err e_failed))
  /\ (forall d, get_destination_coordinate fq query = Ok (Some d) -> all_beyond gc vs t u d ->
      snd (vertex_process QN fq gc nn vs (Some (t, u)) query) = Err e_failed
      /\ jget (fst (vertex_process QN fq gc nn vs (Some (t, u)) query)) k_destination_vertex
         = jget query k_destination_vertex).
Proof.
  intros fq gc Hgc nn Hnn vs t u query src Hs. split.
  - intros dst Hd. exact (vertex_process_origin_beyond fq gc Hgc nn Hnn vs t u query src dst Hs Hd).
  - intros d Hd. exact (vertex_process_destination_beyond fq gc Hgc nn Hnn vs t u query src d Hs Hd).
Qed.
Theorem c16_vertex_process_within : forall fq gc, (forall a b, 0 <= gc a b) -> forall nn, nn_spec nn ->
  forall vs t u query src dst,
  get_origin_coordinate fq query = Ok src -> get_destination_coordinate fq query = Ok dst -> vs <> [] ->
  ranges_ok vs src -> all_within gc vs t u src ->
  match dst with None => True | Some d => ranges_ok vs d /\ all_within gc vs t u d end ->
  snd (vertex_process QN fq gc nn vs (Some (t, u)) query) = Ok tt.
Proof. exact vertex_process_within. Qed.
Theorem c16_edge_process_beyond : forall fq gc, (forall a b, 0 <= gc a b) -> forall nn_iter, iter_spec nn_iter ->
  forall es t u mapping lookup truck_ok rcq vc,
  (forall c, In c es -> valid_class rcq lookup c = Ok (vc c)) ->
  forall query src dst, read_query mapping query = Ok rcq ->
  get_origin_coordinate fq query = Ok src -> get_destination_coordinate fq query = Ok dst ->
  e_all_beyond gc es t u truck_ok vc src \/ (exists d, dst = Some d /\ e_all_beyond gc es t u truck_ok vc d) ->
  edge_process QN fq gc nn_iter es (Some (t, u)) mapping lookup truck_ok query = (query, Err e_failed).
Proof. exact edge_process_beyond. Qed.
Theorem c16_edge_process_within : forall fq gc, (forall a b, 0 <= gc a b) -> forall nn_iter, iter_spec nn_iter ->
  forall es t u mapping lookup truck_ok rcq vc,
  (forall c, In c es -> valid_class rcq lookup c = Ok (vc c)) ->
  forall query src dst c, read_query mapping query = Ok rcq ->
  get_origin_coordinate fq query = Ok src -> get_destination_coordinate fq query = Ok dst ->
  In c es -> adm truck_ok vc c = true ->
  e_ranges_ok es src -> e_all_within gc es t u truck_ok vc src ->
  match dst with None => True | Some d => e_ranges_ok es d /\ e_all_within gc es t u truck_ok vc d end ->
  snd (edge_process QN fq gc nn_iter es (Some (t, u)) mapping lookup truck_ok query) = Ok tt.
Proof. exact edge_process_within. Qed.

(* ---------------------------------------------------------------- what a successful process writes *)
Theorem c16_vertex_process_writes_match : forall (N : Num) fq gc nn vs tol query q',
  vertex_process N fq gc nn vs tol query = (q', Ok tt) ->
  exists src v, get_origin_coordinate fq query = Ok src /\ match_vertex N gc nn vs tol src = Ok v
    /\ jget q' k_origin_vertex = Some (JInt (cid v))
    /\ match get_destination_coordinate fq query with
       | Ok (Some d) => exists w, match_vertex N gc nn vs tol d = Ok w
                                  /\ jget q' k_destination_vertex = Some (JInt (cid w))
       | Ok None => jget q' k_destination_vertex = jget query k_destination_vertex
       | _ => False
       end.
Proof. exact vertex_process_ok. Qed.
Theorem c16_edge_process_writes_match : forall (N : Num) fq gc nn_iter es tol mapping lookup truck_ok query q',
  edge_process N fq gc nn_iter es tol mapping lookup truck_ok query = (q', Ok tt) ->
  exists rcq src s, read_query mapping query = Ok rcq /\ get_origin_coordinate fq query = Ok src
    /\ match_edge N gc nn_iter es tol lookup truck_ok rcq src = Ok s
    /\ jget q' k_origin_edge = Some (JInt (cid s))
    /\ match get_destination_coordinate fq query with
       | Ok (Some d) => exists e, match_edge N gc nn_iter es tol lookup truck_ok rcq d = Ok e
                                  /\ jget q' k_destination_edge = Some (JInt (cid e))
       | Ok None => jget q' k_destination_edge = jget query k_destination_edge
       | _ => False
       end.
Proof. exact edge_process_ok. Qed.
(* an error of the edge plugin leaves the query exactly as it was *)
Theorem c16_edge_error_writes_nothing : forall (N : Num) fq gc nn_iter es tol mapping lookup truck_ok query,
  snd (edge_process N fq gc nn_iter es tol mapping lookup truck_ok query) <> Ok tt ->
  fst (edge_process N fq gc nn_iter es tol mapping lookup truck_ok query) = query.
Proof. exact edge_process_err. Qed.

(* ---------------------------------------------------------------- all other fields unchanged *)
(* whatever the outcome (Ok or Err): the query without the four match keys is the same object - same keys, same
   values, same order - and in particular every other key reads the same; the vertex plugin does not touch the
   edge keys either *)
Theorem c16_other_fields_unchanged_vertex : forall (N : Num) fq (gc : point -> point -> N) nn vs tol query,
  let q' := fst (vertex_process N fq gc nn vs tol query) in
  others q' = others query
  /\ (forall k, is_match_key k = false -> jget q' k = jget query k)
  /\ (jget query k_origin_edge = jget q' k_origin_edge /\ jget query k_destination_edge = jget q' k_destination_edge).
Proof. exact vertex_other_fields. Qed.
Theorem c16_other_fields_unchanged_edge :
  forall (N : Num) fq (gc : point -> point -> N) nn_iter es tol mapping lookup truck_ok query,
  let q' := fst (edge_process N fq gc nn_iter es tol mapping lookup truck_ok query) in
  others q' = others query
  /\ (forall k, is_match_key k = false -> jget q' k = jget query k).
Proof. exact edge_other_fields. Qed.
(* [others]: order of the remaining keys *)
Theorem c16_others_keeps_key_order : forall m m', others (JObj m) = others (JObj m') ->
  filter (fun k => negb (is_match_key k)) (map fst m) = filter (fun k => negb (is_match_key k)) (map fst m').
Proof. exact others_keys. Qed.

(* ---------------------------------------------------------------- no candidates, bad coordinates *)
Theorem c16_no_candidates_vertex : forall nn, nn_spec nn ->
  forall (N : Num) fq (gc : point -> point -> N) tol query src dst,
  get_origin_coordinate fq query = Ok src -> get_destination_coordinate fq query = Ok dst ->
  vertex_process N fq gc nn [] tol query = (query, Err e_failed).
Proof. exact vertex_process_no_candidates. Qed.
Theorem c16_no_admissible_edge : forall nn_iter, iter_spec nn_iter ->
  forall (N : Num) fq (gc : point -> point -> N) es tol mapping lookup truck_ok rcq vc,
  (forall c, In c es -> valid_class rcq lookup c = Ok (vc c)) ->
  (forall c, In c es -> adm truck_ok vc c = false) ->
  forall query src dst, read_query mapping query = Ok rcq ->
  get_origin_coordinate fq query = Ok src -> get_destination_coordinate fq query = Ok dst ->
  edge_process N fq gc nn_iter es tol mapping lookup truck_ok query = (query, Err e_failed).
Proof. exact edge_process_no_admissible. Qed.
Theorem c16_bad_coordinates : forall (N : Num) fq gc nn vs tol query c,
  get_origin_coordinate fq query = Err c
  \/ (exists src, get_origin_coordinate fq query = Ok src /\ get_destination_coordinate fq query = Err c) ->
  vertex_process N fq gc nn vs tol query = (query, Err c).
Proof. exact vertex_parse_failure. Qed.
Theorem c16_bad_coordinates_edge : forall (N : Num) fq gc nn_iter es tol mapping lookup truck_ok query c,
  read_query mapping query = Err c
  \/ (exists rcq, read_query mapping query = Ok rcq /\ get_origin_coordinate fq query = Err c)
  \/ (exists rcq src, read_query mapping query = Ok rcq /\ get_origin_coordinate fq query = Ok src
                      /\ get_destination_coordinate fq query = Err c) ->
  edge_process N fq gc nn_iter es tol mapping lookup truck_ok query = (query, Err c).
Proof. exact edge_parse_failure. Qed.
Theorem c16_missing_origin_is_an_error : forall fq q,
  (jget q "origin_x" = None -> get_origin_coordinate fq q = Err (e_missing "origin_x"))
  /\ (forall j, jget q "origin_x" = Some j -> json_num fq j = None ->
      get_origin_coordinate fq q = Err (e_type "origin_x")).
Proof. intros fq q. split; [exact (origin_missing_x fq q) | exact (origin_ill_typed_x fq q)]. Qed.

(* ---------------------------------------------------------------- statement pins *)
Check c16_nearest_minimal : forall nn, nn_spec nn ->
  forall (N : Num) (gc : point -> point -> N) vs tol p v,
  match_vertex N gc nn vs tol p = Ok v ->
  In v vs /\ (forall c, In c vs -> d2 (cpt v) p <= d2 (cpt c) p)
  /\ exists m, min_d2 p vs = Some m /\ d2 (cpt v) p == m.
Check c16_edge_match_first_admissible : forall nn_iter, iter_spec nn_iter ->
  forall (N : Num) (gc : point -> point -> N) es tol lookup truck_ok rcq vc,
  (forall c, In c es -> valid_class rcq lookup c = Ok (vc c)) ->
  forall p e, match_edge N gc nn_iter es tol lookup truck_ok rcq p = Ok e ->
  In e es /\ adm truck_ok vc e = true
  /\ (forall c, In c es -> adm truck_ok vc c = true -> d2 (cpt e) p <= d2 (cpt c) p)
  /\ exists m, min_d2 p (filter (adm truck_ok vc) es) = Some m /\ d2 (cpt e) p == m.
Check c16_tolerance_semantics_vertex : forall nn, nn_spec nn ->
  forall (gc : point -> point -> Q), (forall a b, 0 <= gc a b) ->
  forall vs t u p,
  ((forall c, minimal_in p vs c -> beyond t u (gc p (cpt c))) ->
     match_vertex QN gc nn vs (Some (t, u)) p = Err e_failed)
  /\ (forall v, match_vertex QN gc nn vs (Some (t, u)) p = Ok v -> ~ beyond t u (gc p (cpt v)))
  /\ (vs <> [] -> in_range p = true -> (forall c, In c vs -> in_range (cpt c) = true) ->
      (forall c, minimal_in p vs c -> within t u (gc p (cpt c))) ->
      exists v, match_vertex QN gc nn vs (Some (t, u)) p = Ok v /\ minimal_in p vs v)
  /\ (vs <> [] -> exists v, match_vertex QN gc nn vs None p = Ok v /\ minimal_in p vs v).
Check c16_other_fields_unchanged_edge :
  forall (N : Num) fq (gc : point -> point -> N) nn_iter es tol mapping lookup truck_ok query,
  let q' := fst (edge_process N fq gc nn_iter es tol mapping lookup truck_ok query) in
  others q' = others query
  /\ (forall k, is_match_key k = false -> jget q' k = jget query k).
(* the vocabulary of the statements, pinned *)
Check eq_refl : beyond = fun t u d => (t * si_m u * (1 + (1 # 2000)) < d)%Q.
Check eq_refl : within = fun t u d => (d < t * si_m u * (1 - (1 # 2000)))%Q.
Check eq_refl : si_m Miles = (1609344 # 1000)%Q.
Check eq_refl : d2 = fun c q => ((fst c - fst q) * (fst c - fst q) + (snd c - snd q) * (snd c - snd q))%Q.
Check eq_refl : minimal_in = fun q l c => In c l /\ forall c', In c' l -> (d2 (cpt c) q <= d2 (cpt c') q)%Q.
Check eq_refl : is_match_key "origin_vertex" = true.
Check eq_refl : is_match_key "road_classes" = false.

(* ---------------------------------------------------------------- non-vacuity *)
(* five vertices, a coordinate off every vertex: within 20 km a match with the nearest (id 7), under 1 km an
   error; the hypotheses of the tolerance theorems hold for these inputs *)
Example c16_nonvacuous_vertex :
  (match_vertex QN ex_gc scan_nearest ex_vs (Some (25, Kilometers)) ex_p = Ok (mkCand 7 (0, 0))
   /\ (forall c, minimal_in ex_p ex_vs c -> within 25 Kilometers (ex_gc ex_p (cpt c)))
   /\ List.length ex_vs = 5%nat)
  /\ (match_vertex QN ex_gc scan_nearest ex_vs (Some (15, Kilometers)) ex_p = Err e_failed
      /\ (forall c, minimal_in ex_p ex_vs c -> beyond 15 Kilometers (ex_gc ex_p (cpt c))))
  /\ (forall a b, 0 <= ex_gc a b).
Proof. exact (conj ex_vertex_within (conj ex_vertex_beyond ex_gc_nonneg)). Qed.
(* a query with six other fields (one nested, one array, a stale origin_vertex): both ids written, the stale
   one replaced in place, the rest untouched *)
Example c16_nonvacuous_process :
  vertex_process QN ex_fq ex_gc scan_nearest ex_vs (Some (100, Miles)) ex_query
  = (JObj [("name", JStr "q1"); ("origin_x", JInt 1); ("origin_y", JInt 1);
           ("origin_vertex", JInt 7); ("weights", JObj [("time", JInt 1)]);
           ("destination_x", JInt 16); ("destination_y", JInt 14); ("k", JArr [JInt 1; JNull]);
           ("destination_vertex", JInt 12)]%string, Ok tt).
Proof. exact ex_vertex_process. Qed.
(* four edges; the nearest is excluded by the query's road classes, the second by the vehicle table: the
   third is matched *)
Example c16_nonvacuous_edge :
  let vc := fun c => negb (Z.eqb (cid c) 0) in
  read_query [] ex_equery = Ok (Some [1; 2]%Z)
  /\ (forall c, In c ex_es -> valid_class (Some [1; 2]%Z) ex_lookup c = Ok (vc c))
  /\ match_edge QN ex_gc sort_nearest ex_es (Some (1200, Kilometers)) ex_lookup ex_truck (Some [1; 2]%Z) ex_p
     = Ok (mkCand 2 (8, 8))
  /\ adm ex_truck vc (mkCand 0 (0, 0)) = false /\ adm ex_truck vc (mkCand 1 (2, 0)) = false
  /\ fst (edge_process QN ex_fq ex_gc sort_nearest ex_es (Some (1200, Kilometers)) [] ex_lookup ex_truck ex_equery)
     = JObj [("origin_y", JInt 1); ("origin_x", JInt 1);
             ("road_classes", JArr [JInt 1; JInt 2]); ("tag", JStr "t"); ("origin_edge", JInt 2)]%string.
Proof. exact ex_edge_skips. Qed.

Print Assumptions c16_rstar_contract_inhabited.
Print Assumptions c16_nearest_minimal.
Print Assumptions c16_edge_match_first_admissible.
Print Assumptions c16_tolerance_semantics_vertex.
Print Assumptions c16_tolerance_semantics_edge.
Print Assumptions c16_tolerance_inclusive.
Print Assumptions c16_vertex_process_beyond.
Print Assumptions c16_vertex_process_within.
Print Assumptions c16_edge_process_beyond.
Print Assumptions c16_edge_process_within.
Print Assumptions c16_vertex_process_writes_match.
Print Assumptions c16_edge_process_writes_match.
Print Assumptions c16_edge_error_writes_nothing.
Print Assumptions c16_other_fields_unchanged_vertex.
Print Assumptions c16_other_fields_unchanged_edge.
Print Assumptions c16_others_keeps_key_order.
Print Assumptions c16_no_candidates_vertex.
Print Assumptions c16_no_admissible_edge.
Print Assumptions c16_bad_coordinates.
Print Assumptions c16_bad_coordinates_edge.
Print Assumptions c16_missing_origin_is_an_error.
Print Assumptions c16_nonvacuous_vertex.
Print Assumptions c16_nonvacuous_process.
Print Assumptions c16_nonvacuous_edge.
