(* C17 - grid search expands a query into exactly the Cartesian product of its options:
   n1 x ... x nm queries, one for each combination and none twice; every generated query keeps
   all other fields, has no grid section, takes scalar choices under the grid field's name and
   merges object-valued choices into the top level; a query without a grid section passes
   through unchanged.

   All statements are for every number of array-valued fields, every length, every query, and
   every carrier F of non-integer JSON numbers (GS.value F; binary64 in the streams).
   Models: Model/MultiSet.v (MultiSet::from / Iterator::next / collect), Model/GridSearch.v
   (GridSearchPlugin::process, json_array_op, flatten, apply_input_plugins).
   This file contains only statements: each theorem is closed by [exact] of a lemma proved in
   Proofs/, the main ones are pinned by [Check], and followed by Print Assumptions. *)
From Coq Require Import List Arith Bool String ZArith Permutation.
From RC Require Import Base.Res Model.MultiSet Model.GridSearch Proofs.MultiSet Proofs.GridSearch.
Import ListNotations.
Import MS GS.
Open Scope string_scope.

(* ================= MultiSet: the mixed-radix enumeration ================= *)

(* one step of the counter: the successor of an in-range position is in range and its
   little-endian mixed-radix value is one larger; the iterator stops exactly at the last
   position.  (fin dims = the final_pos vector, nᵢ - 1) *)
Theorem multiset_step : forall dims p, in_range dims p -> p <> [] ->
  (forall q, tick p (fin dims) = Some q -> in_range dims q /\ val dims q = S (val dims p))
  /\ (tick p (fin dims) = None -> S (val dims p) = size dims).
Proof.
  intros dims p Hr Hne. split.
  - intros q Hq. exact (tick_some dims p q Hr Hne Hq).
  - exact (tick_none dims p Hr Hne).
Qed.

(* fuel: any fuel above the product of the set sizes is enough, for EVERY family of sets (any
   number of sets, any sizes, empty sets and the empty family included): the iteration never
   runs out of fuel and never panics, and yields exactly the product, first set fastest *)
Theorem multiset_fuel_sufficient : forall (A : Type) (sets : list (list A)) fuel,
  total sets < fuel -> collect fuel (from sets) = Ok (product sets).
Proof. intros A sets fuel H. exact (collect_ok sets fuel H). Qed.

(* the index vectors produced for sizes n1..nm: each exactly once, exactly the in-range
   vectors, n1 x ... x nm of them, a permutation of the textbook product *)
Theorem multiset_enumerates : forall dims,
  let out := product (index_sets dims) in
  to_vec (index_sets dims) = Ok out
  /\ NoDup out
  /\ (forall p, In p out <-> in_range dims p)
  /\ List.length out = size dims
  /\ Permutation out (product_be (index_sets dims)).
Proof.
  intros dims out. repeat split.
  - exact (to_vec_ok (index_sets dims)).
  - exact (index_product_nodup dims).
  - apply index_product_in.
  - apply index_product_in.
  - exact (index_product_length dims).
  - exact (product_perm_be (index_sets dims)).
Qed.

(* the same for sets of arbitrary items (duplicates inside a set are kept as such) *)
Theorem multiset_items : forall (A : Type) (sets : list (list A)),
  to_vec sets = Ok (product sets)
  /\ List.length (product sets) = total sets
  /\ Permutation (product sets) (product_be sets)
  /\ (forall it, In it (product sets) <-> Forall2 (fun s x => In x s) sets it)
  /\ Forall2 (sel sets) (product (index_sets (map (@List.length A) sets))) (product sets).
Proof.
  intros A sets. repeat split.
  - exact (to_vec_ok sets).
  - exact (product_length sets).
  - exact (product_perm_be sets).
  - apply product_in.
  - apply product_in.
  - exact (product_index_rel sets).
Qed.

(* ================= the plugin on an acceptable grid section ================= *)

Section Grid.
  (* the query object (serde_json::Map: unique keys), its grid section, accepted by the
     recursion guard, every array-valued field with at least one option *)
  Context {F : Type}.
  Variables (m sec : obj F).
  Hypothesis unique_keys : NoDup (map fst m).
  Hypothesis has_section : oget m grid_key = Some (VObj sec).
  Hypothesis guard_passed : mentions (VObj sec) = false.
  Hypothesis options_nonempty : existsb (fun a => GS.is_nil (snd a)) (axes sec) = false.

  Let base := oremove m grid_key.
  (* the generated queries, as the specification builds them: one per element of the
     Cartesian product of the (field, option) lists, first field fastest *)
  Let queries := map (overlay base) (combos (axes sec)).

  (* result = map (overlay base) product, in enumeration order; for the plugin alone and for
     the whole apply_input_plugins chain with the plugin configured once or several times *)
  Theorem grid_exact :
    process (VObj m) = Ok (VArr (map VObj queries))
    /\ forall n, run (S n) (VObj m) = Ok (map VObj queries).
  Proof.
    split.
    - exact (process_section m sec has_section guard_passed options_nonempty).
    - intros n. exact (run_section n m sec unique_keys has_section guard_passed options_nonempty).
  Qed.

  (* n1 x ... x nm queries *)
  Theorem grid_count :
    List.length queries = fold_right (fun a acc => List.length (snd a) * acc) 1 (axes sec).
  Proof. exact (expansion_length m sec). Qed.

  (* one for each combination and none twice: the queries are, position by position, the
     overlays selected by a duplicate-free list of index vectors that contains exactly the
     in-range vectors *)
  Theorem grid_each_combination_once :
    let dims := map (fun a => List.length (snd a)) (axes sec) in
    let positions := product (index_sets dims) in
    NoDup positions
    /\ (forall p, In p positions <-> in_range dims p)
    /\ Forall2 (fun p o => exists c, sel (choice_sets (axes sec)) p c /\ o = overlay base c)
               positions queries.
  Proof.
    intros dims positions. split; [exact (index_product_nodup dims)|].
    split; [intros p; apply index_product_in|].
    exact (expansion_by_index m sec).
  Qed.

  (* every generated query has no grid section *)
  Theorem no_grid_key : forall c, In c (combos (axes sec)) -> oget (overlay base c) grid_key = None.
  Proof. intros c Hc. exact (overlay_no_key m sec c unique_keys guard_passed Hc). Qed.

  (* ... keeps all other fields of the original *)
  Theorem other_fields_kept : forall c k, In c (combos (axes sec)) ->
    k <> grid_key -> ~ In k (map fst (assigns c)) -> oget (overlay base c) k = oget m k.
  Proof. intros c k _ Hk Hn. exact (overlay_other_fields m c k Hk Hn). Qed.

  (* ... takes scalar choices under the grid field's name *)
  Theorem scalar_under_key : forall c k v, In c (combos (axes sec)) ->
    NoDup (map fst (assigns c)) -> In (k, v) c -> is_object v = false ->
    oget (overlay base c) k = Some v.
  Proof. intros c k v _ Hnd Hin Hv. exact (overlay_scalar base c k v Hnd Hin Hv). Qed.

  (* ... merges object-valued choices into the top level *)
  Theorem object_merged : forall c k o k' v', In c (combos (axes sec)) ->
    NoDup (map fst (assigns c)) -> In (k, VObj o) c -> In (k', v') o ->
    oget (overlay base c) k' = Some v'.
  Proof. intros c k o k' v' _ Hnd Hin Ho. exact (overlay_object base c k o k' v' Hnd Hin Ho). Qed.

  (* without the no-clash premise: the last assignment of the combination to a name wins,
     names not assigned keep the value of the original query *)
  Theorem name_clash_last_writer_wins : forall c k,
    oget (overlay base c) k =
      match last_assign (assigns c) k with Some v => Some v | None => oget base k end.
  Proof. intros c k. exact (overlay_lookup base c k). Qed.
End Grid.

(* ================= pass-through, degenerate and rejected sections ================= *)

(* a query without a grid section passes through unchanged (any JSON value through the plugin;
   a query object through the whole chain, any number of applications) *)
Theorem passthrough_without_section : forall F : Type,
  (forall q : value F, jget q grid_key = None -> process q = Ok q)
  /\ (forall (m : obj F) n, oget m grid_key = None -> run n (VObj m) = Ok [VObj m]).
Proof.
  intros F. split.
  - exact process_passthrough.
  - intros m n H. apply run_settled. exists m. split; [reflexivity | exact H].
Qed.

(* current code, degenerate sections: no array-valued field = the empty product = the one
   query without the section; an array-valued field without options = rejected *)
Theorem section_without_array_fields : forall (F : Type) (m sec : obj F) n,
  NoDup (map fst m) -> oget m grid_key = Some (VObj sec) -> mentions (VObj sec) = false ->
  axes sec = [] -> run (S n) (VObj m) = Ok [VObj (oremove m grid_key)].
Proof.
  intros F m sec n Hnd Hg Hm Hax.
  rewrite (run_section n m sec Hnd Hg Hm ltac:(rewrite Hax; reflexivity)).
  rewrite (expansion_no_axes m sec Hax). reflexivity.
Qed.

Theorem rejected_sections : forall (F : Type) (m : obj F) section n, oget m grid_key = Some section ->
  (mentions section = true -> run (S n) (VObj m) = Err "Recursion")
  /\ (mentions section = false -> is_object section = false ->
      run (S n) (VObj m) = Err "UnexpectedQueryStructure")
  /\ (forall sec, section = VObj sec -> mentions section = false ->
      existsb (fun a => GS.is_nil (snd a)) (axes sec) = true -> run (S n) (VObj m) = Err "EmptyAxis").
Proof.
  intros F m section n Hg. repeat split.
  - intros Hm. apply run_reject. exact (process_recursion m section Hg Hm).
  - intros Hm Ho. apply run_reject. exact (process_not_object m section Hg Hm Ho).
  - intros sec -> Hm He. apply run_reject. exact (process_empty_axis m sec Hg Hm He).
Qed.

(* no panic and no hang (the fuel of the model is never exhausted), on any JSON value and any
   number of applications of the plugin *)
Theorem never_panics_or_hangs : forall (F : Type) n (q : value F), crashes (run n q) = false.
Proof. intros F. exact run_no_crash. Qed.

(* the specification function evaluated by the S line of stream `gridset` is the model *)
Theorem spec_is_model : forall (F : Type) (q : value F) l n,
  (forall m, q = VObj m -> NoDup (map fst m)) -> spec q = Some l -> run (S n) q = Ok l.
Proof. intros F. exact spec_sound. Qed.

(* plugin chains (stream `chain` families): for EVERY chain of grid search plugins and stub
   plugins that add grid sections to some queries, i.e. for multi-element query states in which
   any subset of the elements expands, json_array_op + flatten replace every query by its
   specified expansion in place: the chain specification of the S line is the model *)
Theorem chain_spec_is_model : forall (F : Type) (stages : list (@stage F)) (q : value F) l,
  (forall m, q = VObj m -> NoDup (map fst m)) -> spec_stages stages q = Some l ->
  run_stages stages q = Ok l.
Proof. intros F. exact spec_stages_sound. Qed.

(* one grid stage on a state of well-formed queries (unique keys), whichever of them expand *)
Theorem grid_stage_on_any_state : forall (F : Type) (qs l : list (value F)),
  Forall wfq qs -> flat_map_opt spec qs = Some l ->
  array_op process (VArr qs) = Ok (VArr l) /\ Forall wfq l.
Proof.
  intros F qs l H Hs. split; [exact (array_op_grid qs l H Hs) | exact (flat_map_opt_wf qs l H Hs)].
Qed.

(* output side, unconditional in the grid section: for EVERY query object (unique keys) and
   every chain whose last plugin is the grid search - whatever the section contains, whatever
   sections stub plugins added before - a successful result contains no query with a grid
   section (this is the clause the S line checks on every implementation output) *)
Theorem output_has_no_grid_section : forall (F : Type) (stages : list (@stage F)) (q : value F) l,
  (forall m, q = VObj m -> NoDup (map fst m)) ->
  run_stages (stages ++ [SGrid]) q = Ok l -> Forall (fun x => jget x grid_key = None) l.
Proof. intros F. exact run_stages_output. Qed.

Theorem run_is_a_chain : forall (F : Type) n (q : value F), run n q = run_stages (repeat SGrid n) q.
Proof. intros F. exact run_is_run_stages. Qed.

(* ================= statement pins ================= *)

Check multiset_fuel_sufficient : forall (A : Type) (sets : list (list A)) fuel,
  total sets < fuel -> collect fuel (from sets) = Ok (product sets).
Check multiset_enumerates : forall dims,
  let out := product (index_sets dims) in
  to_vec (index_sets dims) = Ok out /\ NoDup out /\ (forall p, In p out <-> in_range dims p)
  /\ List.length out = size dims /\ Permutation out (product_be (index_sets dims)).
Check @grid_exact : forall (F : Type) (m sec : obj F), NoDup (map fst m) -> oget m grid_key = Some (VObj sec) ->
  mentions (VObj sec) = false -> existsb (fun a => GS.is_nil (snd a)) (axes sec) = false ->
  process (VObj m) = Ok (VArr (map VObj (map (overlay (oremove m grid_key)) (combos (axes sec)))))
  /\ forall n, run (S n) (VObj m) = Ok (map VObj (map (overlay (oremove m grid_key)) (combos (axes sec)))).
Check @grid_count : forall (F : Type) (m sec : obj F),
  List.length (map (overlay (oremove m grid_key)) (combos (axes sec)))
  = fold_right (fun a acc => List.length (snd a) * acc) 1 (axes sec).
Check @no_grid_key : forall (F : Type) (m sec : obj F), NoDup (map fst m) -> mentions (VObj sec) = false ->
  forall c, In c (combos (axes sec)) -> oget (overlay (oremove m grid_key) c) grid_key = None.
Check passthrough_without_section : forall F : Type,
  (forall q : value F, jget q grid_key = None -> process q = Ok q)
  /\ (forall (m : obj F) n, oget m grid_key = None -> run n (VObj m) = Ok [VObj m]).
Check chain_spec_is_model : forall (F : Type) (stages : list (@stage F)) (q : value F) l,
  (forall m, q = VObj m -> NoDup (map fst m)) -> spec_stages stages q = Some l -> run_stages stages q = Ok l.
Check output_has_no_grid_section : forall (F : Type) (stages : list (@stage F)) (q : value F) l,
  (forall m, q = VObj m -> NoDup (map fst m)) ->
  run_stages (stages ++ [SGrid]) q = Ok l -> Forall (fun x => jget x grid_key = None) l.
Check never_panics_or_hangs : forall (F : Type) n (q : value F), crashes (run n q) = false.

(* ================= non-vacuity ================= *)

(* a query with three array-valued fields of 2, 1 and 3 options (a one-option field in the
   middle), scalar and object-valued options, a non-array field in the section and two other
   fields meets all hypotheses of Section Grid, and expands into 6 queries *)
Example c17_nonvacuous : forall F : Type,
  let ex_m := @ex_m F in let ex_sec := @ex_sec F in
  NoDup (map fst ex_m) /\ oget ex_m grid_key = Some (VObj ex_sec) /\ mentions (VObj ex_sec) = false
  /\ existsb (fun a => GS.is_nil (snd a)) (axes ex_sec) = false
  /\ map (fun a => List.length (snd a)) (axes ex_sec) = [2; 1; 3]
  /\ (exists l, run 1 (VObj ex_m) = Ok l /\ List.length l = 6
        /\ nth_error l 5 = Some (VObj [("origin_x", VInt 5); ("destination_x", VInt 7); ("model", VStr "bolt");
                                       ("x", VInt 0); ("y", VInt 0); ("w", VNull)])).
Proof.
  intros F ex_m ex_sec.
  split; [repeat constructor; cbn; intuition discriminate|].
  repeat split; try reflexivity.
  eexists. split; [vm_compute; reflexivity|]. split; reflexivity.
Qed.

(* a chain in which the SECOND of two queries is the one that expands at the second grid stage *)
Example c17_chain_nonvacuous : forall F : Type,
  let q : value F := VObj [("id", VInt 2); (grid_key, VObj [("vehicle", VArr [VStr "ice"; VStr "ev"])])] in
  let chain := [SGrid; SAdd (PStrEq "vehicle" "ev") (VObj [("soc", VArr [VInt 20; VInt 80])]); SGrid] in
  spec_stages chain q = Some [VObj [("id", VInt 2); ("vehicle", VStr "ice")];
                              VObj [("id", VInt 2); ("vehicle", VStr "ev"); ("soc", VInt 20)];
                              VObj [("id", VInt 2); ("vehicle", VStr "ev"); ("soc", VInt 80)]]
  /\ run_stages chain q = spec_stages_result chain q.
Proof. intros F q chain. split; reflexivity. Qed.

(* the counter really carries: from position (1,0,2) of sizes (2,1,3) ... *)
Example c17_step_nonvacuous :
  in_range [2; 1; 3] [1; 0; 1] /\ tick [1; 0; 1] (fin [2; 1; 3]) = Some [0; 0; 2]
  /\ val [2; 1; 3] [1; 0; 1] = 3 /\ val [2; 1; 3] [0; 0; 2] = 4
  /\ tick [1; 0; 2] (fin [2; 1; 3]) = None /\ size [2; 1; 3] = 6.
Proof. repeat split; repeat constructor. Qed.

Print Assumptions multiset_step.
Print Assumptions multiset_fuel_sufficient.
Print Assumptions multiset_enumerates.
Print Assumptions multiset_items.
Print Assumptions grid_exact.
Print Assumptions grid_count.
Print Assumptions grid_each_combination_once.
Print Assumptions no_grid_key.
Print Assumptions other_fields_kept.
Print Assumptions scalar_under_key.
Print Assumptions object_merged.
Print Assumptions name_clash_last_writer_wins.
Print Assumptions passthrough_without_section.
Print Assumptions section_without_array_fields.
Print Assumptions rejected_sections.
Print Assumptions never_panics_or_hangs.
Print Assumptions spec_is_model.
Print Assumptions chain_spec_is_model.
Print Assumptions grid_stage_on_any_state.
Print Assumptions run_is_a_chain.
Print Assumptions output_has_no_grid_section.
Print Assumptions c17_nonvacuous.
Print Assumptions c17_step_nonvacuous.
Print Assumptions c17_chain_nonvacuous.
