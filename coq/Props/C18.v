(* C18 - strongly connected components are exactly the mutual-reachability classes: component
   analysis partitions the vertices, two vertices share a component exactly when each reaches the
   other along directed edges, every vertex is in exactly one component, and the reported largest
   component has maximal size.

   Statements only; proofs are in Proofs/SccDfs.v (depth-first search invariant, fuel),
   Proofs/SccKosaraju.v (two-pass argument), Proofs/SccCheck.v + SccCheckComplete.v (the boolean
   checker run on the implementation's output decides the property).
   Vocabulary (Model/Scc.v): [wf g] every edge joins two existing vertices; [reach g x y] a directed
   path; [mutual g u v := reach g u v /\ reach g v u]; [partition n comps] the concatenation of comps
   is duplicate-free, holds exactly the vertices 0..n-1, and no block is empty;
   [same_comp comps u v] some block holds both. *)
From Coq Require Import List Arith Bool.
From Coq Require Import NArith.
From RC Require Import Base.Res Model.Scc Proofs.SccCheck Proofs.SccDfs Proofs.SccKosaraju
     Proofs.SccCheckComplete Model.SccDeep Proofs.SccDeep.
Import ListNotations.
Import Scc.

(* ---- the algorithm (model of scc.rs), every well-formed digraph of every size ---- *)

(* Any fuel (= recursion depth allowance) above the vertex count excludes OutOfFuel; the model
   returns Ok (never EdgeNotFound), the components partition the vertices and are exactly the
   mutual-reachability classes. *)
Theorem c18_kosaraju_correct : forall g fuel, wf g -> nv g < fuel ->
    exists comps, all_sccs_fuel fuel g = Ok comps
      /\ partition (nv g) comps
      /\ (forall u v, same_comp comps u v -> mutual g u v)
      /\ (forall u v, u < nv g -> mutual g u v -> same_comp comps u v).
Proof. intros g fuel Hwf Hf. exact (kosaraju_correct g Hwf fuel Hf). Qed.
Check c18_kosaraju_correct : forall g fuel, wf g -> nv g < fuel ->
    exists comps, all_sccs_fuel fuel g = Ok comps
      /\ partition (nv g) comps
      /\ (forall u v, same_comp comps u v -> mutual g u v)
      /\ (forall u v, u < nv g -> mutual g u v -> same_comp comps u v).

(* the entry point as run by the correspondence stream (fuel = nv g + 1) *)
Theorem c18_all_sccs_correct : forall g, wf g ->
    exists comps, all_strongly_connected_components g = Ok comps /\ scc_classes g comps.
Proof. exact all_sccs_correct. Qed.
Check c18_all_sccs_correct : forall g, wf g ->
    exists comps, all_strongly_connected_components g = Ok comps /\ scc_classes g comps.

(* "share a component exactly when each can reach the other", as an equivalence on vertices *)
Theorem c18_same_component_iff_mutual : forall g comps, scc_classes g comps ->
    forall u v, u < nv g -> (same_comp comps u v <-> mutual g u v).
Proof.
  intros g comps [_ [Hs Hc]] u v Hu. split; [apply Hs | apply Hc, Hu].
Qed.

(* "every vertex appears in exactly one component" *)
Theorem c18_exactly_one_component : forall n comps, partition n comps -> forall v, v < n ->
    exists c, In c comps /\ In v c /\ forall c', In c' comps -> In v c' -> c' = c.
Proof. exact partition_exactly_one. Qed.

(* "the reported largest component has maximal size among them" (and is one of them) *)
Theorem c18_largest_maximal : forall g, wf g ->
    exists comps l, all_strongly_connected_components g = Ok comps
      /\ largest_strongly_connected_component g = Ok l
      /\ (forall c, In c comps -> length c <= length l)
      /\ (0 < nv g -> In l comps)
      /\ (nv g = 0 -> l = []).
Proof. exact largest_correct. Qed.
Check c18_largest_maximal : forall g, wf g ->
    exists comps l, all_strongly_connected_components g = Ok comps
      /\ largest_strongly_connected_component g = Ok l
      /\ (forall c, In c comps -> length c <= length l)
      /\ (0 < nv g -> In l comps)
      /\ (nv g = 0 -> l = []).

(* ---- the lemmas behind it, pinned because they are the content of the argument ---- *)

(* depth-first search from any state satisfying the invariant, over any successor function:
   invariant preserved; the added block sits on top of the stack, is disjoint from the old visited
   set and consists of vertices reachable from the root inside the block (white-path, post-order) *)
Theorem c18_dfs_invariant : forall next fuel v V S V' S',
    pdfs next fuel v (V, S) = Ok (V', S') -> Inv next V S ->
    Inv next V' S' /\ Ext next [v] V S V' S' /\ In v V'.
Proof. intros next fuel. exact (proj1 (dfs_spec next fuel)). Qed.

(* recursion depth never exceeds the number of unvisited vertices + 1 *)
Theorem c18_dfs_fuel : forall next n, (forall x y, x < n -> In y (next x) -> y < n) ->
    forall fuel v st, n < fuel -> v < n -> exists st', pdfs next fuel v st = Ok st'.
Proof. exact dfs_fuel_ok. Qed.

(* on a well-formed graph the model's searches are the pure search over succs / preds *)
Theorem c18_model_dfs_is_pure : forall g, wf g ->
    (forall f v st, depth_first_search g f v st = pdfs (succs g) f v st)
    /\ (forall f v st, reverse_depth_first_search g f v st = pdfs (preds g) f v st).
Proof. intros g H. split; [apply dfs1_pure, H | apply dfs2_pure, H]. Qed.

(* ---- the checker evaluated on the implementation's output (S lines) decides the property ---- *)
Theorem c18_check_scc_sound : forall g comps, check_scc g comps = true ->
    wf g /\ partition (nv g) comps
    /\ (forall u v, same_comp comps u v -> mutual g u v)
    /\ (forall u v, u < nv g -> mutual g u v -> same_comp comps u v).
Proof. exact check_scc_sound. Qed.
Theorem c18_check_scc_complete : forall g comps, wf g -> scc_classes g comps -> check_scc g comps = true.
Proof. exact check_scc_complete. Qed.
Theorem c18_check_scc_decides : forall g comps, wf g -> (check_scc g comps = true <-> scc_classes g comps).
Proof. exact check_scc_iff. Qed.
Check c18_check_scc_decides : forall g comps, wf g -> (check_scc g comps = true <-> scc_classes g comps).
Theorem c18_check_largest_sound : forall comps l, check_largest comps l = true ->
    (forall c, In c comps -> length c <= length l) /\ (In l comps \/ (comps = [] /\ l = [])).
Proof. exact check_largest_sound. Qed.
Theorem c18_check_largest_complete : forall comps l,
    (forall c, In c comps -> length c <= length l) -> (In l comps \/ (comps = [] /\ l = [])) ->
    check_largest comps l = true.
Proof. exact check_largest_complete. Qed.

(* ---- the near-linear checker used on the "deep" family (4500..20000 vertices, where neither the
   nat model nor check_scc can be evaluated): an accepted answer is the partition into
   mutual-reachability classes, in the same vocabulary as the theorems above.  The order of the
   blocks is an unchecked-origin certificate: soundness does not depend on it. ---- *)
Theorem c18_deep_check_sound : forall g comps, SccDeep.deep_check g comps = true ->
    scc_classes (to_nat_graph g) (to_nat_comps comps).
Proof. exact deep_check_sound_nat. Qed.
Check c18_deep_check_sound : forall g comps, SccDeep.deep_check g comps = true ->
    scc_classes (to_nat_graph g) (to_nat_comps comps).
Theorem c18_deep_check_sound_N : forall g comps, SccDeep.deep_check g comps = true ->
    SccDeep.scc_classes g comps.
Proof. exact deep_check_sound. Qed.
Theorem c18_deep_check_largest_sound : forall comps l, SccDeep.check_largest comps l = true ->
    (forall c, In c comps -> length c <= length l) /\ (In l comps \/ (comps = [] /\ l = [])).
Proof. exact deep_check_largest_sound. Qed.
(* the deep checker accepts the right answer in certificate order and rejects: the same blocks in
   the reverse order, a merged block, a split block, a missing vertex *)
Example c18_deep_check_example :
  let g := SccDeep.mkGraph 5 [(0,1);(1,2);(2,0);(2,3);(3,4);(4,3)]%N in
  SccDeep.deep_check g [[0;2;1];[3;4]]%N = true
  /\ SccDeep.deep_check g [[3;4];[0;2;1]]%N = false
  /\ SccDeep.deep_check g [[0;2;1;3;4]]%N = false
  /\ SccDeep.deep_check g [[0;1];[2];[3;4]]%N = false
  /\ SccDeep.deep_check g [[0;2;1];[3]]%N = false.
Proof. repeat split; vm_compute; reflexivity. Qed.

(* ---- non-vacuity: concrete graphs meet the hypotheses and have non-trivial answers ---- *)
(* the fixture of scc.rs's own tests: a 4-clique {0,1,2,3} and the self loop 4 *)
Definition fixture : graph :=
  mkGraph 5 [(0,1);(1,0);(1,2);(2,1);(2,3);(3,2);(3,0);(0,3);(0,2);(1,3);(2,0);(3,1);(4,4)].
Example c18_fixture_wf : wf fixture.
Proof. apply wfb_wf. vm_compute. reflexivity. Qed.
Example c18_fixture_result :
  all_strongly_connected_components fixture = Ok [[4]; [0; 1; 2; 3]]
  /\ largest_strongly_connected_component fixture = Ok [0; 1; 2; 3].
Proof. split; vm_compute; reflexivity. Qed.
(* a graph where the pass-1 order matters: 0 -> 1 -> 2 -> 0 is a cycle, 2 -> 3 -> 4 -> 3 a second
   one reachable from the first but not back, 5 isolated *)
Definition two_cycles : graph := mkGraph 6 [(0,1);(1,2);(2,0);(2,3);(3,4);(4,3)].
Example c18_two_cycles :
  wf two_cycles
  /\ all_strongly_connected_components two_cycles = Ok [[5]; [0; 2; 1]; [3; 4]]
  /\ check_scc two_cycles [[5]; [0; 1; 2]; [3; 4]] = true
  /\ check_scc two_cycles [[5]; [0; 1; 2; 3; 4]] = false
  /\ check_scc two_cycles [[5]; [0; 1]; [2]; [3; 4]] = false.
Proof. split; [apply wfb_wf; vm_compute; reflexivity|]. repeat split; vm_compute; reflexivity. Qed.
(* the hypotheses of the fuel theorem are tight in the model: with fuel = nv g a cycle runs out
   (the call that finds the root already visited sits at depth nv g + 1) *)
Example c18_fuel_tight :
  all_sccs_fuel 3 (mkGraph 3 [(0,1);(1,2);(2,0)]) = OutOfFuel
  /\ all_sccs_fuel 4 (mkGraph 3 [(0,1);(1,2);(2,0)]) = Ok [[0; 2; 1]].
Proof. split; vm_compute; reflexivity. Qed.

Print Assumptions c18_kosaraju_correct.
Print Assumptions c18_all_sccs_correct.
Print Assumptions c18_same_component_iff_mutual.
Print Assumptions c18_exactly_one_component.
Print Assumptions c18_largest_maximal.
Print Assumptions c18_dfs_invariant.
Print Assumptions c18_dfs_fuel.
Print Assumptions c18_model_dfs_is_pure.
Print Assumptions c18_check_scc_sound.
Print Assumptions c18_check_scc_complete.
Print Assumptions c18_check_scc_decides.
Print Assumptions c18_check_largest_sound.
Print Assumptions c18_check_largest_complete.
Print Assumptions c18_deep_check_sound.
Print Assumptions c18_deep_check_sound_N.
Print Assumptions c18_deep_check_largest_sound.
