(* C18 - preliminary: checker soundness (Kosaraju theorems are added below once proved). *)
From Coq Require Import List Arith Bool.
From RC Require Import Base.Res Model.Scc Proofs.SccCheck.
Import ListNotations.
Import Scc.

Theorem c18_check_scc_sound : forall g comps, check_scc g comps = true ->
    wf g /\ partition (nv g) comps
    /\ (forall u v, same_comp comps u v -> mutual g u v)
    /\ (forall u v, u < nv g -> mutual g u v -> same_comp comps u v).
Proof. exact check_scc_sound. Qed.
Print Assumptions c18_check_scc_sound.
