(* C19 - The output file holds one intact record per response under any parallelism.

   With file output in newline-delimited JSON or CSV form, after a batch completes the file
   contains exactly one complete record per response - none lost, duplicated, truncated or
   interleaved - for every parallelism level and thread schedule; each JSON record is the JSON
   text of its response on one line; CSV output has a single header followed by rows whose
   columns follow the configured mapping in header order; writing a response never removes or
   replaces information (such as a search error) in the response handed back.

   Statements only: every theorem is closed by [exact] of a lemma from Proofs/Sink*.v.
   Model: Model/Sink.v (faithful to response_sink.rs, response_output_format.rs at 13a78eb,
   csv_mapping.rs, write_mode.rs, response_output_policy.rs), tied to the code by the streams of
   checks/c19.py on every run.

   The JSON reader of the round-trip theorem is Model/SinkJson.v (compact JSON, numbers kept as
   their text: the decimal text of an f64 is ryu's, a parameter here); the same reader judges the
   real records in the fmt stream, next to an exact JSON reader in the harness. *)
From Coq Require Import String Ascii List Bool Arith Permutation Floats ZArith.
From RC Require Import Base.Show Base.Res Base.Json Model.Sink
                       Model.SinkJson
                       Proofs.Sink Proofs.SinkFmt Proofs.SinkCsv Proofs.SinkEnd Proofs.SinkJson.
Import ListNotations.
Import SK.
Open Scope string_scope.

(* ------------------------------------------------------------------------------------ *)
(* the concurrent sink, generic in bytes [B], responses [R], formatter, newline, flush rate *)
Section C19_conc.
  Local Open Scope list_scope.
  Context {B R : Type}.
  Variable fmt : R -> option (list B).
  Variable nlb : B.
  Variable rate : nat.
  Notation reach := (@reach B R fmt nlb rate).
  Notation run := (@run B R fmt nlb rate).

  (* file_inv: in EVERY state reachable under ANY schedule (any number of threads, any queues),
     the file is the base (header / previous content), then the complete records of the
     finished writes [log s], then at most the part of the lock holder's record written so far;
     that part is a prefix of its record; only the lock holder is inside the critical section;
     and no response is lost or duplicated: all responses = written ++ failed ++ still owed. *)
  Theorem c19_file_inv : forall (base : list B) (queues : list (list R)) s,
      reach (init base queues) s ->
      file s = base ++ records fmt nlb (log s) ++ partial s
      /\ (forall r, In r (log s) -> exists row, fmt r = Some row)
      /\ (forall t th r sent rest, holder s = Some t -> nth_error (thr s) t = Some th -> t_pc th = Writing r sent rest ->
            partial s = sent /\ exists row, fmt r = Some row /\ sent ++ rest = record_of nlb row)
      /\ (forall t th, nth_error (thr s) t = Some th -> t_pc th <> Idle -> holder s = Some t)
      /\ Permutation (concat queues) (log s ++ dropped s ++ owed s).
  Proof. exact (file_inv fmt nlb rate). Qed.

  Theorem c19_one_writer : forall (base : list B) (queues : list (list R)) s t1 t2 th1 th2,
      reach (init base queues) s ->
      nth_error (thr s) t1 = Some th1 -> nth_error (thr s) t2 = Some th2 ->
      t_pc th1 <> Idle -> t_pc th2 <> Idle -> t1 = t2.
  Proof. exact (one_writer fmt nlb rate). Qed.

  (* at quiescence, every schedule, every parallelism *)
  Theorem c19_quiescent_file : forall (base : list B) (queues : list (list R)) s,
      reach (init base queues) s -> quiescent s ->
      file s = base ++ records fmt nlb (log s)
      /\ Permutation (concat queues) (log s ++ dropped s)
      /\ (forall r, In r (log s) -> exists row, fmt r = Some row)
      /\ (forall r, In r (dropped s) -> fmt r = None).
  Proof. exact (quiescent_file fmt nlb rate). Qed.

  Theorem c19_records_permutation : forall (base : list B) (queues : list (list R)) s,
      (forall r, In r (concat queues) -> fmt r <> None) ->
      reach (init base queues) s -> quiescent s ->
      exists order, Permutation (concat queues) order
                    /\ file s = base ++ concat (map (rec_of fmt nlb) order)
                    /\ Permutation (map (rec_of fmt nlb) (concat queues)) (map (rec_of fmt nlb) order).
  Proof. exact (quiescent_records_permutation fmt nlb rate). Qed.

  (* previous content is never touched; successive runs (each: build + batch) only append *)
  Theorem c19_append_keeps_previous : forall (base : list B) (queues : list (list R)) s,
      reach (init base queues) s -> exists added, file s = base ++ added.
  Proof. exact (append_keeps_previous_reach fmt nlb rate). Qed.

  Theorem c19_successive_runs : forall b logs b',
      chain fmt nlb rate b logs b' -> b' = b ++ concat (map (records fmt nlb) logs).
  Proof. exact (chain_file fmt nlb rate). Qed.

  (* the executable acceptor used on the H1 traces of real executions *)
  Theorem c19_acceptor_sound : forall (base : list B) (queues : list (list R)) tr,
      accepts fmt nlb rate base queues tr = true ->
      exists s, run (init base queues) tr s /\ quiescent s
                /\ replay fmt nlb rate base queues tr = Some (file s).
  Proof. exact (acceptor_sound fmt nlb rate). Qed.

  Theorem c19_accepted_trace_file : forall (base : list B) (queues : list (list R)) tr,
      accepts fmt nlb rate base queues tr = true ->
      exists s, replay fmt nlb rate base queues tr = Some (file s)
                /\ file s = base ++ records fmt nlb (log s)
                /\ Permutation (concat queues) (log s ++ dropped s).
  Proof. exact (accepted_trace_file fmt nlb rate). Qed.
End C19_conc.

(* ------------------------------------------------------------------------------------ *)
(* the formats; [fj] / [fd] are the decimal printers of f64 (ryu, Display), any functions *)
Section C19_fmt.
  Variable fj : float -> string.
  Variable fd : float -> string.
  Variable fo : fops.

  Theorem c19_response_error_not_clobbered : forall f r row r',
      format_response fj fd fo f r = Ok (row, r') ->
      (forall v, jget r "error" = Some v -> jget r' "error" = Some v)
      /\ (forall k v, k <> "csv_error" -> jget r k = Some v -> jget r' k = Some v)
      /\ (forall k, jget r k <> None -> jget r' k <> None).
  Proof. exact (response_error_not_clobbered fj fd fo). Qed.

  Theorem c19_csv_columns_follow_header : forall sorted m r,
      Permutation (order sorted m) m
      /\ header_cols sorted m = map fst (order sorted m)
      /\ List.length (row_cells fj fd fo sorted m r) = List.length (header_cols sorted m)
      /\ (forall i name, nth_error (header_cols sorted m) i = Some name ->
            exists mp, nth_error (order sorted m) i = Some (name, mp)
                       /\ nth_error (row_cells fj fd fo sorted m r) i
                          = Some (cell_value fj (apply_mapping fj fd fo mp r))).
  Proof. exact (csv_columns_follow_header fj fd fo). Qed.

  (* the value of a cell is the SPECIFIED one: a path is a dot-separated list of object keys taken
     literally ('/' and '~' are key characters, a numeric segment is a key, never an array index),
     Sum / Optional as documented; the cell fails exactly when the specification says so *)
  Theorem c19_csv_cell_meets_spec : forall m r,
      to_opt (apply_mapping fj fd fo m r) = spec_value fo m r
      /\ cell_value fj (apply_mapping fj fd fo m r) = spec_cell fj fo m r.
  Proof. intros m r. split; [exact (apply_mapping_meets_spec fj fd fo m r)|exact (cell_value_meets_spec fj fd fo m r)]. Qed.

  (* the header goes into a new file and never into an existing one *)
  Theorem c19_csv_header_once : forall f rate c,
      (exists n, build_file f rate None = Ok (header_of f, n) \/ exists e, build_file f rate None = Err e)
      /\ (forall n c', build_file f rate (Some c) = Ok (c', n) -> c' = c)
      /\ open_file Append f None = Ok (header_of f)
      /\ open_file Append f (Some c) = Ok c.
  Proof. exact csv_header_once_open. Qed.

  (* a CSV row is read back by an RFC 4180 reader as exactly the fields of the mapping: one per
     header column, whatever the values contain *)
  Theorem c19_csv_row_field_count : forall m sorted o row r',
      m <> [] -> format_response fj fd fo (FCsv m sorted) (JObj o) = Ok (row, r') ->
      csv_records (row ++ nl) = [row_cells fj fd fo sorted m (JObj o)]
      /\ List.length (row_cells fj fd fo sorted m (JObj o)) = List.length (header_cols sorted m).
  Proof. exact (csv_row_field_count fj fd fo). Qed.

  (* end to end, CSV: every schedule, every parallelism, a new file *)
  Theorem c19_csv_end_to_end : forall rate m sorted (queues : list (list json)) s,
      m <> [] -> header_cols sorted m <> [""] ->
      (forall r, In r (concat queues) -> exists o, r = JObj o) ->
      @reach ascii json (sink_fmt fj fd fo (FCsv m sorted)) nl_char rate
             (init (list_ascii_of_string (header_line sorted m)) queues) s ->
      quiescent s ->
      exists order, Permutation (concat queues) order
                    /\ csv_records (string_of_list_ascii (file s))
                       = header_cols sorted m :: map (row_cells fj fd fo sorted m) order.
  Proof. exact (csv_end_to_end fj fd fo). Qed.

  (* end to end, JSON lines: every schedule, every parallelism, any previous content *)
  Theorem c19_json_lines_end_to_end : forall rate (base : string) (queues : list (list json)) s,
      @reach ascii json (sink_fmt fj fd fo (FJson true)) nl_char rate (init (list_ascii_of_string base) queues) s ->
      quiescent s ->
      exists order, Permutation (concat queues) order
                    /\ string_of_list_ascii (file s) = base ++ cat (map (fun r => to_string fj r ++ nl) order).
  Proof. exact (json_lines_end_to_end fj fd fo). Qed.

  (* a record never contains a line feed, so the lines of the file are the records *)
  Theorem c19_json_line_no_newline :
      (forall f, contains_char nl_char (fj f) = false) ->
      forall j, contains_char nl_char (to_string fj j) = false.
  Proof. exact (json_line_no_newline fj). Qed.

  (* json_line_roundtrip: each JSON record parses back to the response that was produced *)
  Theorem c19_json_line_roundtrip :
      (forall f, SJ.num_text (fj f)) ->
      forall j, SJ.parse_value (SJ.vsize j) (to_string fj j) = Some (SJ.erase fj j, EmptyString).
  Proof. exact (SJ_roundtrip fj). Qed.
  Theorem c19_json_reads_back :
      (forall f, SJ.num_text (fj f)) -> forall j, SJ.reads_back fj (to_string fj j) j = true.
  Proof. exact (reads_back_own_text fj). Qed.
End C19_fmt.

(* the reader gets back what the writer wrote, for a whole file *)
Theorem c19_csv_file_roundtrip : forall header rows,
    header <> [] -> header <> [""] -> (forall row, In row rows -> row <> []) ->
    csv_records (csv_line header ++ cat (map row_text rows)) = header :: rows.
Proof. exact csv_file_roundtrip. Qed.

(* ------------------------------------------------------------------------------------ *)
(* statement pins *)
Check @c19_file_inv : forall B R (fmt : R -> option (list B)) nlb rate (base : list B) (queues : list (list R)) s,
    @reach B R fmt nlb rate (init base queues) s ->
    file s = (base ++ records fmt nlb (log s) ++ partial s)%list
    /\ (forall r, In r (log s) -> exists row, fmt r = Some row)
    /\ (forall t th r sent rest, holder s = Some t -> nth_error (thr s) t = Some th -> t_pc th = Writing r sent rest ->
          partial s = sent /\ exists row, fmt r = Some row /\ (sent ++ rest)%list = record_of nlb row)
    /\ (forall t th, nth_error (thr s) t = Some th -> t_pc th <> Idle -> holder s = Some t)
    /\ Permutation (concat queues) (log s ++ dropped s ++ owed s)%list.
Check @c19_records_permutation : forall B R (fmt : R -> option (list B)) nlb rate (base : list B) (queues : list (list R)) s,
    (forall r, In r (concat queues) -> fmt r <> None) ->
    @reach B R fmt nlb rate (init base queues) s -> quiescent s ->
    exists order, Permutation (concat queues) order
                  /\ file s = (base ++ concat (map (rec_of fmt nlb) order))%list
                  /\ Permutation (map (rec_of fmt nlb) (concat queues)) (map (rec_of fmt nlb) order).
Check @c19_acceptor_sound : forall B R (fmt : R -> option (list B)) nlb rate (base : list B) (queues : list (list R)) tr,
    accepts fmt nlb rate base queues tr = true ->
    exists s, @run B R fmt nlb rate (init base queues) tr s /\ quiescent s
              /\ replay fmt nlb rate base queues tr = Some (file s).
Check c19_csv_end_to_end : forall fj fd fo rate m sorted (queues : list (list json)) s,
    m <> [] -> header_cols sorted m <> [""] ->
    (forall r, In r (concat queues) -> exists o, r = JObj o) ->
    @reach ascii json (sink_fmt fj fd fo (FCsv m sorted)) nl_char rate
           (init (list_ascii_of_string (header_line sorted m)) queues) s ->
    quiescent s ->
    exists order, Permutation (concat queues) order
                  /\ csv_records (string_of_list_ascii (file s))
                     = header_cols sorted m :: map (row_cells fj fd fo sorted m) order.
Check c19_response_error_not_clobbered : forall fj fd fo f r row r',
    format_response fj fd fo f r = Ok (row, r') ->
    (forall v, jget r "error" = Some v -> jget r' "error" = Some v)
    /\ (forall k v, k <> "csv_error" -> jget r k = Some v -> jget r' k = Some v)
    /\ (forall k, jget r k <> None -> jget r' k <> None).

(* ------------------------------------------------------------------------------------ *)
(* non-vacuity *)
Definition ex_fmt (r : nat) : option (list nat) := Some [r; r; r].
Definition ex_queues : list (list nat) := [[1; 2]; [3]].
(* a real-shaped H1 trace: thread 0 writes record 1 in two chunks plus the newline, thread 1
   gets the lock next, then thread 0 again; flush every 2nd write *)
Definition ex_trace : list (nat * event) :=
  [(0, ELock); (0, EFmt 3); (0, EWrite 2); (0, EWrite 1); (0, EWrite 1); (0, ERel);
   (1, ELock); (1, EFmt 3); (1, EWrite 3); (1, EWrite 1); (1, EFlush); (1, ERel);
   (0, ELock); (0, EFmt 3); (0, EWrite 3); (0, EWrite 1); (0, ERel)]%nat.
Example c19_nonvacuous_accepts :
  accepts ex_fmt 0 2 [9; 9] ex_queues ex_trace = true
  /\ replay ex_fmt 0 2 [9; 9] ex_queues ex_trace = Some [9; 9; 1; 1; 1; 0; 3; 3; 3; 0; 2; 2; 2; 0]%nat.
Proof. split; vm_compute; reflexivity. Qed.
(* the relation says no to: a write by a thread that does not hold the lock; a second lock
   holder; a record left unfinished; a missing flush *)
Example c19_nonvacuous_rejects :
  accepts ex_fmt 0 2 [] ex_queues [(0, ELock); (0, EFmt 3); (0, EWrite 2); (1, EWrite 1)]%nat = false
  /\ accepts ex_fmt 0 2 [] ex_queues [(0, ELock); (1, ELock)]%nat = false
  /\ accepts ex_fmt 0 2 [] [[1]] [(0, ELock); (0, EFmt 3); (0, EWrite 3); (0, ERel)]%nat = false
  /\ accepts ex_fmt 0 1 [] [[1]] [(0, ELock); (0, EFmt 3); (0, EWrite 3); (0, EWrite 1); (0, ERel)]%nat = false.
Proof. repeat split; vm_compute; reflexivity. Qed.
(* a reachable state in the middle of a write: the invariant's partial record is really there *)
Example c19_nonvacuous_partial :
  exists s, @reach nat nat ex_fmt 0 2 (init [9] ex_queues) s /\ partial s = [1; 1]%nat /\ file s = [9; 1; 1]%nat.
Proof.
  destruct (exec ex_fmt 0 2 (init [9] ex_queues) [(0, ELock); (0, EFmt 3); (0, EWrite 2)]%nat) as [s|] eqn:E;
    [|vm_compute in E; discriminate].
  exists s. split.
  - eapply run_reach. apply exec_sound. exact E.
  - vm_compute in E. inversion E; subst. split; reflexivity.
Qed.

Definition ex_fj (f : float) : string := "29276.44456915712".
(* float operations are irrelevant to these examples (no Sum mapping): a trivial instance *)
Definition ex_fo : fops :=
  {| f_add := fun a _ => a; f_of_Z := fun _ => 1%float; f_is_finite := fun _ => true;
     f_zero := 1%float; f_neg_zero := 1%float |}.
Definition ex_map : mapping :=
  mapping_of_doc [("zeta", CPath "request.origin_vertex"); ("name", CPath "request.name");
                  ("mid", CPath "route.path"); ("cost", CPath "route.cost.total_cost")].
Definition ex_resp : json :=
  JObj [("request", JObj [("origin_vertex", JInt 0); ("name", JStr ("a ""quoted"", name" ++ nl ++ "second line"))]);
        ("route", JObj [("path", JArr [JInt 0; JInt 2]); ("cost", JObj [("total_cost", JFloat 1%float)])])].
(* the D-CSVCELL witness (array cell [0,2], a string with quote, comma and line break): four
   header columns, four fields *)
Example c19_nonvacuous_csv :
  initial_file_contents (FCsv ex_map false) = Some ("cost,mid,name,zeta" ++ nl)
  /\ exists row r', format_response ex_fj ex_fj ex_fo (FCsv ex_map false) ex_resp = Ok (row, r')
       /\ csv_records (row ++ nl)
          = [["29276.44456915712"; "[0,2]"; "a ""quoted"", name" ++ nl ++ "second line"; "0"]].
Proof.
  split; [vm_compute; reflexivity|]. eexists. eexists. split; [vm_compute; reflexivity|].
  vm_compute. reflexivity.
Qed.
Definition ex_err : json :=
  JObj [("request", JObj [("origin_vertex", JInt 0)]); ("error", JStr "no path exists between vertices 0 and 99")].
(* the oracle hypotheses are satisfiable and the reader really reads: a record with escapes *)
Example c19_nonvacuous_json :
  (forall f, SJ.num_text (ex_fj f)) /\ (forall f, contains_char nl_char (ex_fj f) = false)
  /\ to_string ex_fj ex_resp
     = "{""request"":{""origin_vertex"":0,""name"":""a \""quoted\"", name\nsecond line""},""route"":{""path"":[0,2],""cost"":{""total_cost"":29276.44456915712}}}"
  /\ SJ.reads_back ex_fj (to_string ex_fj ex_resp) ex_resp = true
  /\ SJ.reads_back ex_fj (to_string ex_fj ex_resp) ex_err = false.
Proof.
  split; [intros f; split; [discriminate|reflexivity]|]. split; [intros f; reflexivity|].
  split; [vm_compute; reflexivity|]. split; vm_compute; reflexivity.
Qed.
(* keys that look like JSON-pointer syntax are plain keys; a numeric segment under an array fails *)
Example c19_nonvacuous_literal_keys :
  let r := JObj [("request", JObj [("trip/id", JStr "T-0"); ("~0", JStr "tilde0"); ("~", JStr "tilde");
                                   ("a", JObj [("b", JStr "nested")]); ("a/b", JStr "flat");
                                   ("list", JArr [JStr "first"]); ("0", JInt 7)])] in
  map (fun p => spec_cell ex_fj ex_fo (CPath p) r)
      ["request.trip/id"; "request.~0"; "request.a/b"; "request.a.b"; "request.list.0"; "request.0"]
  = ["T-0"; "tilde0"; "flat"; "nested"; ""; "7"].
Proof. vm_compute. reflexivity. Qed.
(* the D-CSVERR witness: the search error survives, the mapping failures go to csv_error *)
Example c19_nonvacuous_error_kept :
  exists row r', format_response ex_fj ex_fj ex_fo (FCsv ex_map true) ex_err = Ok (row, r')
       /\ row = ",,,0"
       /\ jget r' "error" = Some (JStr "no path exists between vertices 0 and 99")
       /\ jget r' "csv_error" <> None.
Proof.
  eexists. eexists. split; [vm_compute; reflexivity|]. split; [reflexivity|]. split; [reflexivity|]. discriminate.
Qed.
(* the one-column blank-row witness (13a78eb) *)
Example c19_nonvacuous_blank_row :
  exists row r', format_response ex_fj ex_fj ex_fo (FCsv [("only", CPath "nope")] false) ex_err = Ok (row, r')
       /\ row = dquote ++ dquote /\ csv_records ("only" ++ nl ++ row ++ nl) = [["only"]; [""]].
Proof. eexists. eexists. split; [vm_compute; reflexivity|]. split; vm_compute; reflexivity. Qed.

Print Assumptions c19_file_inv.
Print Assumptions c19_one_writer.
Print Assumptions c19_quiescent_file.
Print Assumptions c19_records_permutation.
Print Assumptions c19_append_keeps_previous.
Print Assumptions c19_successive_runs.
Print Assumptions c19_acceptor_sound.
Print Assumptions c19_accepted_trace_file.
Print Assumptions c19_response_error_not_clobbered.
Print Assumptions c19_csv_columns_follow_header.
Print Assumptions c19_csv_cell_meets_spec.
Print Assumptions c19_csv_header_once.
Print Assumptions c19_csv_row_field_count.
Print Assumptions c19_csv_end_to_end.
Print Assumptions c19_json_lines_end_to_end.
Print Assumptions c19_json_line_no_newline.
Print Assumptions c19_json_line_roundtrip.
Print Assumptions c19_json_reads_back.
Print Assumptions c19_nonvacuous_json.
Print Assumptions c19_csv_file_roundtrip.
Print Assumptions c19_nonvacuous_accepts.
Print Assumptions c19_nonvacuous_rejects.
Print Assumptions c19_nonvacuous_partial.
Print Assumptions c19_nonvacuous_csv.
Print Assumptions c19_nonvacuous_literal_keys.
Print Assumptions c19_nonvacuous_error_kept.
Print Assumptions c19_nonvacuous_blank_row.
