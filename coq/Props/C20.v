(* C20 - every route output format (edge-id list, per-edge JSON records, GeoJSON features with
   ids and properties, WKT, WKB) describes the same route in the returned edge order; the route
   geometry is the concatenation of the edges' stored geometries in that order; a missing
   geometry yields an error response, never a shortened or shifted geometry; tree outputs
   contain exactly one entry per tree branch; the attached origin / destination identifiers are
   the ones stored for the matched vertices.

   For every route, tree, geometry table, identifier table, format and plugin chain, of any
   size; coordinates [C] and traversal numbers [N] are arbitrary types.  This file contains only
   statements: each theorem is closed by [exact] of a lemma of Proofs/Output.v, the main ones are
   pinned by a [Check], followed by non-vacuity examples and Print Assumptions. *)
From Coq Require Import List String Ascii Bool Arith Permutation.
From RC Require Import Base.Res Model.Output Proofs.Output.
Import ListNotations.
Import OUT.

Section C20.
  Context {C N : Type}.
  Variable state_ok : list N -> bool.
  Notation route := (route N).
  Notation tree := (tree N).
  Notation geoms := (geoms C).
  Implicit Types (g : geoms) (r : route) (t : tree).

  (* (1) All five formats follow the returned edge sequence.  Whatever a format carries - edge
     ids (edge_id, json, geo_json), traversal records (json, geo_json properties), geometry
     (geo_json, wkt, wkb) - read back from its output is the route's, in route order; geo_json
     pairs every feature with that edge's own stored geometry. *)
  Theorem c20_formats_same_edge_sequence : forall f r g p,
      generate_route_output f r g = Ok p ->
      path_ids p = (if id_format f then Some (map edge_id r) else None)
      /\ path_records p = (if record_format f then Some r else None)
      /\ path_geometry p
         = (if geometry_format f then Some (flat_map (fun e => stored g (edge_id e)) r) else None)
      /\ path_feature_geoms p
         = (match f with GeoJson => Some (map (fun e => stored g (edge_id e)) r) | _ => None end).
  Proof. exact formats_same_edge_sequence. Qed.

  (* any two formats of the same route agree on whatever both carry *)
  Theorem c20_formats_agree : forall f1 f2 r g p1 p2,
      generate_route_output f1 r g = Ok p1 -> generate_route_output f2 r g = Ok p2 ->
      (forall a b, path_ids p1 = Some a -> path_ids p2 = Some b -> a = b)
      /\ (forall a b, path_records p1 = Some a -> path_records p2 = Some b -> a = b)
      /\ (forall a b, path_geometry p1 = Some a -> path_geometry p2 = Some b -> a = b).
  Proof. exact formats_agree. Qed.

  (* (2) Route geometry = concatenation of the stored geometries in route order, and it exists
     exactly when every edge of the route has a stored geometry: never shortened, never shifted. *)
  Theorem c20_geometry_is_concat : forall r g l,
      create_route_linestring r g = Ok l <->
      Forall (fun e => present g (edge_id e)) r /\ l = flat_map (fun e => stored g (edge_id e)) r.
  Proof. exact route_linestring_iff. Qed.

  Theorem c20_route_output_defined_iff : forall f r g p,
      generate_route_output f r g = Ok p <->
      (geometry_format f = true -> Forall (fun e => present g (edge_id e)) r) /\ p = route_spec f r g.
  Proof. exact route_output_iff. Qed.

  (* (3) A missing geometry is an error: of the format function, of the tree format function, and
     of the whole response, wherever the traversal plugin sits in the chain. *)
  Theorem c20_missing_geometry_is_error : forall f r g,
      geometry_format f = true -> Exists (fun e => ~ present g (edge_id e)) r ->
      generate_route_output f r g = Err "missing_geometry".
  Proof. exact route_output_missing. Qed.

  Theorem c20_missing_tree_geometry_is_error : forall f t g,
      geometry_format f = true -> Exists (fun b => ~ present g (bedge b)) (values t) ->
      generate_tree_output f t g = Err "missing_geometry".
  Proof. exact tree_output_missing. Qed.

  Theorem c20_missing_geometry_error_response : forall req routes trees ps g rf tf,
      In (PlTraversal g rf tf) ps ->
      (exists f, rf = Some f /\ geometry_format f = true /\ Exists (route_missing g) routes)
      \/ (exists f, tf = Some f /\ geometry_format f = true /\ Exists (tree_missing g) trees) ->
      is_err (apply_output_processing state_ok req (SOk routes trees) ps).
  Proof. exact (apply_missing_is_error state_ok). Qed.

  (* a geometry-file row that does not parse fails the build; otherwise row i is edge i's geometry *)
  Theorem c20_geometry_rows_never_shift : forall (rows : list (option (linestring C))) g,
      traversal_from_file rows = Ok g ->
      List.length g = List.length rows /\ forall e, nth_error rows e = option_map Some (nth_error g e).
  Proof. exact from_file_rows. Qed.

  (* (4) Tree outputs: exactly one entry per branch, each entry that branch's (its edge id, its
     record, its feature, its stored geometry) ... *)
  Theorem c20_tree_one_entry_per_branch : forall f t g o,
      generate_tree_output f t g = Ok o ->
      tree_entries o = map (entry_spec f g) (values t)
      /\ List.length (tree_entries o) = List.length t
      /\ map entry_edge (tree_entries o)
         = map (fun b => if id_format f then Some (bedge b) else None) (values t).
  Proof. exact tree_one_entry_per_branch. Qed.

  (* ... and as a multiset independent of the order in which the hash map hands out its values *)
  Theorem c20_tree_order_independent : forall f t t' g o,
      Permutation t t' -> generate_tree_output f t g = Ok o ->
      exists o', generate_tree_output f t' g = Ok o' /\ Permutation (tree_entries o) (tree_entries o').
  Proof. exact tree_output_perm. Qed.
  Theorem c20_tree_error_order_independent : forall f t t' g,
      Permutation t t' -> is_err (generate_tree_output f t g) -> is_err (generate_tree_output f t' g).
  Proof. exact tree_output_perm_err. Qed.

  (* (5) process stores one output per route / tree under `route` / `tree`; a route's summary is
     the state of its last edge; nothing else in the response moves. *)
  Theorem c20_process_places_outputs : forall g rf tf (out out' : response C N) routes trees,
      traversal_process state_ok g rf tf out (SOk routes trees) = Ok out' ->
      (match rf with
       | None => r_route out' = r_route out
       | Some f => exists ros, r_route out' = Some (pack ros)
                               /\ Forall2 (fun r ro => construct_route_output state_ok r f g = Ok ro) routes ros
       end)
      /\ (match tf with
          | None => r_tree out' = r_tree out
          | Some f => r_tree out' = Some (pack (map (fun t => tree_spec f t g) trees))
                      /\ (geometry_format f = true -> Forall (fun t => ~ tree_missing g t) trees)
          end)
      /\ r_request out' = r_request out /\ r_origin_uuid out' = r_origin_uuid out
      /\ r_destination_uuid out' = r_destination_uuid out
      /\ r_route_edges out' = r_route_edges out /\ r_tree_size_count out' = r_tree_size_count out.
  Proof. exact (traversal_process_ok state_ok). Qed.

  Theorem c20_route_output_is_path_and_last_state : forall r f g ro,
      construct_route_output state_ok r f g = Ok ro <->
      exists e, last_opt r = Some e
                /\ (geometry_format f = true -> Forall (fun e => present g (edge_id e)) r)
                /\ state_ok (result_state e) = true
                /\ ro = mkRO (result_state e) (route_spec f r g).
  Proof. exact (construct_route_output_ok state_ok). Qed.

  (* (6) The identifiers attached are the rows of the identifier table at the request's
     origin_vertex / destination_vertex, origin to origin and destination to destination. *)
  Theorem c20_uuid_is_nth : forall uuids (out out' : response C N) routes trees,
      uuid_process uuids out (SOk routes trees) = Ok out' <->
      exists o d ou du,
        r_request out = Some (ReqObj (FNat o) (FNat d))
        /\ nth_error uuids o = Some ou /\ nth_error uuids d = Some du
        /\ out' = set_uuids out ou du.
  Proof. exact uuid_process_ok. Qed.

  Theorem c20_uuid_response : forall req (routes : list route) (trees : list tree) uuids (out' : response C N),
      apply_output_processing state_ok req (SOk routes trees) [PlUuid uuids] = Ok out' ->
      exists o d ou du,
        req = ReqObj (FNat o) (FNat d)
        /\ nth_error uuids o = Some ou /\ nth_error uuids d = Some du
        /\ r_origin_uuid out' = Some ou /\ r_destination_uuid out' = Some du.
  Proof. exact (uuid_response state_ok). Qed.

  (* the identifier table is read line by line, nothing dropped, nothing trimmed: row i of the file is
     vertex i's identifier, blank / whitespace-only / duplicate rows included, LF or CRLF line ends *)
  Theorem c20_uuid_rows_never_shift : forall rows, Forall no_nl rows ->
      (Forall keeps_cr rows -> uuid_from_file (render_lf rows) = Ok rows)
      /\ uuid_from_file (render_lf (map with_cr rows)) = Ok rows.
  Proof. exact uuid_rows_never_shift. Qed.

  (* (7) The summary counters are the number of route edges and of tree branches. *)
  Theorem c20_summary_counts : forall (out : response C N) (routes : list route) (trees : list tree),
      summary_process out (SOk routes trees)
      = Ok (set_counts out (List.length (List.concat routes)) (List.length (List.concat trees))).
  Proof. exact summary_process_ok. Qed.
End C20.

(* statement pins: editing a statement above without editing the pin breaks the build *)
Check @c20_formats_same_edge_sequence : forall C N f (r : route N) (g : geoms C) p,
    generate_route_output f r g = Ok p ->
    path_ids p = (if id_format f then Some (map edge_id r) else None)
    /\ path_records p = (if record_format f then Some r else None)
    /\ path_geometry p = (if geometry_format f then Some (flat_map (fun e => stored g (edge_id e)) r) else None)
    /\ path_feature_geoms p
       = (match f with GeoJson => Some (map (fun e => stored g (edge_id e)) r) | _ => None end).
Check @c20_geometry_is_concat : forall C N (r : route N) (g : geoms C) l,
    create_route_linestring r g = Ok l <->
    Forall (fun e => present g (edge_id e)) r /\ l = flat_map (fun e => stored g (edge_id e)) r.
Check @c20_missing_geometry_is_error : forall C N f (r : route N) (g : geoms C),
    geometry_format f = true -> Exists (fun e => ~ present g (edge_id e)) r ->
    generate_route_output f r g = Err "missing_geometry".
Check @c20_missing_geometry_error_response : forall C N state_ok req routes trees ps (g : geoms C) rf tf,
    In (PlTraversal g rf tf) ps ->
    (exists f, rf = Some f /\ geometry_format f = true /\ Exists (route_missing g) routes)
    \/ (exists f, tf = Some f /\ geometry_format f = true /\ Exists (tree_missing g) trees) ->
    is_err (@apply_output_processing C N state_ok req (SOk routes trees) ps).
Check @c20_tree_one_entry_per_branch : forall C N f (t : tree N) (g : geoms C) o,
    generate_tree_output f t g = Ok o ->
    tree_entries o = map (entry_spec f g) (values t)
    /\ List.length (tree_entries o) = List.length t
    /\ map entry_edge (tree_entries o) = map (fun b => if id_format f then Some (bedge b) else None) (values t).
Check @c20_tree_order_independent : forall C N f (t t' : tree N) (g : geoms C) o,
    Permutation t t' -> generate_tree_output f t g = Ok o ->
    exists o', generate_tree_output f t' g = Ok o' /\ Permutation (tree_entries o) (tree_entries o').
Check @c20_uuid_is_nth : forall C N uuids (out out' : response C N) routes trees,
    uuid_process uuids out (SOk routes trees) = Ok out' <->
    exists o d ou du,
      r_request out = Some (ReqObj (FNat o) (FNat d))
      /\ nth_error uuids o = Some ou /\ nth_error uuids d = Some du /\ out' = set_uuids out ou du.
Check @c20_summary_counts : forall C N (out : response C N) (routes : list (route N)) (trees : list (tree N)),
    summary_process out (SOk routes trees)
    = Ok (set_counts out (List.length (List.concat routes)) (List.length (List.concat trees))).

Check c20_uuid_rows_never_shift : forall rows, Forall no_nl rows ->
    (Forall keeps_cr rows -> uuid_from_file (render_lf rows) = Ok rows)
    /\ uuid_from_file (render_lf (map with_cr rows)) = Ok rows.

(* ---- non-vacuity: concrete inputs meeting the hypotheses, with non-trivial conclusions ---- *)
(* a 4-edge route visiting edges 2,0,1,0 over three distinct multi-point linestrings: every format
   is defined, and the WKT geometry is the nine stored points in route order *)
Example c20_nonvacuous_route :
  Forall (fun e => present ex_geoms (edge_id e)) ex_route
  /\ generate_route_output Wkt ex_route ex_geoms
     = Ok (PWkt [(2,1); (3,3); (0,0); (1,0); (1,0); (1,1); (2,1); (0,0); (1,0)])
  /\ (exists p, generate_route_output GeoJson ex_route ex_geoms = Ok p /\ path_ids p = Some [2; 0; 1; 0])
  /\ (exists p, generate_route_output Json ex_route ex_geoms = Ok p /\ path_ids p = Some [2; 0; 1; 0])
  /\ generate_route_output EdgeId ex_route ex_geoms = Ok (PIds [2; 0; 1; 0]).
Proof.
  split; [repeat constructor|]. split; [reflexivity|].
  split; [eexists; split; reflexivity|]. split; [eexists; split; reflexivity|]. reflexivity.
Qed.

(* the same route followed by an edge without a row: the hypothesis of (3) holds and the whole
   response of a chain [summary; traversal(geo_json); uuid] is an error *)
Example c20_nonvacuous_missing :
  Exists (fun e => ~ present ex_geoms (edge_id e)) (ex_route ++ [ex_trav 3])%list
  /\ generate_route_output GeoJson (ex_route ++ [ex_trav 3])%list ex_geoms = Err "missing_geometry"
  /\ apply_output_processing ex_state_ok (ReqObj (FNat 0) (FNat 1))
       (SOk [(ex_route ++ [ex_trav 3])%list] [])
       [PlSummary; PlTraversal ex_geoms (Some GeoJson) None; PlUuid ["a"; "b"]%string]
     = Err "missing_geometry".
Proof.
  split.
  - apply Exists_app. right. constructor. unfold present. cbn. apply Nat.lt_irrefl.
  - split; reflexivity.
Qed.

(* a tree in which two branches use the same edge: three entries, not two *)
Example c20_nonvacuous_tree :
  generate_tree_output EdgeId ex_tree ex_geoms = Ok (TIds [1; 1; 0])
  /\ (exists o, generate_tree_output Wkt ex_tree ex_geoms = Ok o /\ List.length (tree_entries o) = 3).
Proof. split; [reflexivity | eexists; split; reflexivity]. Qed.

(* a full chain on a well-formed input: route placed, counters and identifiers attached *)
Example c20_nonvacuous_response :
  exists out, apply_output_processing ex_state_ok (ReqObj (FNat 1) (FNat 0)) (SOk [ex_route] [ex_tree])
                [PlTraversal ex_geoms (Some EdgeId) (Some EdgeId); PlSummary; PlUuid ["a"; "b"]%string] = Ok out
              /\ r_route out = Some (POne (mkRO [10] (PIds [2; 0; 1; 0])))
              /\ r_tree out = Some (POne (TIds [1; 1; 0]))
              /\ r_origin_uuid out = Some "b"%string /\ r_destination_uuid out = Some "a"%string
              /\ r_route_edges out = Some 4 /\ r_tree_size_count out = Some 3.
Proof. eexists. repeat split. Qed.

(* an identifier file with a blank row in the middle, a whitespace-only row, a duplicate and a row
   with surrounding spaces: five rows in, the same five rows out, vertex 3 keeps "id-D" *)
Example c20_nonvacuous_uuid_file :
  let rows := ["id-A"; ""; "   "; "id-D"; " id-A "]%string in
  Forall no_nl rows /\ Forall keeps_cr rows
  /\ uuid_from_file (render_lf rows) = Ok rows
  /\ nth_error rows 3 = Some "id-D"%string
  /\ read_lines (render_lf (map with_cr rows)) = rows
  /\ read_lines "a
b"%string = ["a"; "b"]%string.
Proof.
  cbv zeta. split; [repeat constructor; discriminate|]. split; [repeat constructor|].
  repeat split; reflexivity.
Qed.

Print Assumptions c20_formats_same_edge_sequence.
Print Assumptions c20_uuid_rows_never_shift.
Print Assumptions c20_nonvacuous_uuid_file.
Print Assumptions c20_formats_agree.
Print Assumptions c20_geometry_is_concat.
Print Assumptions c20_route_output_defined_iff.
Print Assumptions c20_missing_geometry_is_error.
Print Assumptions c20_missing_tree_geometry_is_error.
Print Assumptions c20_missing_geometry_error_response.
Print Assumptions c20_geometry_rows_never_shift.
Print Assumptions c20_tree_one_entry_per_branch.
Print Assumptions c20_tree_order_independent.
Print Assumptions c20_tree_error_order_independent.
Print Assumptions c20_process_places_outputs.
Print Assumptions c20_route_output_is_path_and_last_state.
Print Assumptions c20_uuid_is_nth.
Print Assumptions c20_uuid_response.
Print Assumptions c20_summary_counts.
Print Assumptions c20_nonvacuous_route.
Print Assumptions c20_nonvacuous_missing.
Print Assumptions c20_nonvacuous_tree.
Print Assumptions c20_nonvacuous_response.
