(* Agreement between the hand-written cost model (Model/Cost.v) and the definitions REGENERATED from the Rust
   source on every run (Gen/CostRates.v, written by translator/tr_costrates.py from
   model/cost/vehicle/vehicle_cost_rate.rs, model/cost/network/network_cost_rate.rs, model/cost/cost_aggregation.rs).

   Every theorem is for ALL inputs (every numeric record, every rate at every nesting depth, every list), by
   structural induction.  They are proof obligations of property C07 (checks/c07.py lists this file): an edit of a
   Rust arm (another operator, another fold seed, another lookup default, another variant) changes Gen/CostRates.v
   and one of these stops compiling.

     gen_vrate_same_variants / gen_nrate_same_variants / gen_agg_same_variants
                              the generated enums have exactly the constructors of the model's (both conversions are
                              total matches and inverse to each other)
     gen_map_value_agrees     VehicleCostRate::map_value
     gen_n_traversal_agrees   NetworkCostRate::traversal_cost
     gen_n_access_agrees      NetworkCostRate::access_cost
     gen_aggregate_agrees     CostAggregation::agg_iter (on the unwrapped items)
     gen_agg_slice_agrees     CostAggregation::agg                                                          *)
From Coq Require Import ZArith QArith List String Bool.
From RC Require Import Base.Num Base.Res Gen.CostConsts Gen.CostRates Model.Cost Proofs.Cost.
Import ListNotations.

Module GenCostRates.
Import Cost.
Module G := CostRates.

(* ---- the variant-for-variant correspondence of the three enums ---- *)
Fixpoint to_gen_v {A} (r : vrate A) : G.VehicleCostRate A :=
  match r with
  | VZero => G.VehicleCostRate_Zero
  | VRaw => G.VehicleCostRate_Raw
  | VFactor f => G.VehicleCostRate_Factor f
  | VOffset o => G.VehicleCostRate_Offset o
  | VCombined l => G.VehicleCostRate_Combined (map to_gen_v l)
  end.
Fixpoint of_gen_v {A} (r : G.VehicleCostRate A) : vrate A :=
  match r with
  | G.VehicleCostRate_Zero => VZero
  | G.VehicleCostRate_Raw => VRaw
  | G.VehicleCostRate_Factor f => VFactor f
  | G.VehicleCostRate_Offset o => VOffset o
  | G.VehicleCostRate_Combined l => VCombined (map of_gen_v l)
  end.
Fixpoint to_gen_n {A} (r : nrate A) : G.NetworkCostRate A :=
  match r with
  | NZero => G.NetworkCostRate_Zero
  | NEdge l => G.NetworkCostRate_EdgeLookup l
  | NEdgeEdge l => G.NetworkCostRate_EdgeEdgeLookup l
  | NCombined l => G.NetworkCostRate_Combined (map to_gen_n l)
  end.
Fixpoint of_gen_n {A} (r : G.NetworkCostRate A) : nrate A :=
  match r with
  | G.NetworkCostRate_Zero => NZero
  | G.NetworkCostRate_EdgeLookup l => NEdge l
  | G.NetworkCostRate_EdgeEdgeLookup l => NEdgeEdge l
  | G.NetworkCostRate_Combined l => NCombined (map of_gen_n l)
  end.
Definition to_gen_a (a : agg) : G.CostAggregation :=
  match a with ASum => G.CostAggregation_Sum | AMul => G.CostAggregation_Mul end.
Definition of_gen_a (a : G.CostAggregation) : agg :=
  match a with G.CostAggregation_Sum => ASum | G.CostAggregation_Mul => AMul end.

Lemma map_id_Forall : forall {X} (f : X -> X) (l : list X), Forall (fun x => f x = x) l -> map f l = l.
Proof.
  intros X f l H. induction H as [|x l Hx _ IH]; [reflexivity|]. cbn [map]. rewrite Hx, IH. reflexivity.
Qed.

Theorem gen_vrate_same_variants : forall A (r : vrate A), of_gen_v (to_gen_v r) = r.
Proof.
  intros A r. induction r as [| | f | o | l IH] using vrate_nested_ind; cbn [to_gen_v of_gen_v]; try reflexivity.
  f_equal. rewrite map_map. apply map_id_Forall. exact IH.
Qed.
Theorem gen_nrate_same_variants : forall A (r : nrate A), of_gen_n (to_gen_n r) = r.
Proof.
  intros A r. induction r as [| l | l | l IH] using nrate_nested_ind; cbn [to_gen_n of_gen_n]; try reflexivity.
  f_equal. rewrite map_map. apply map_id_Forall. exact IH.
Qed.
Theorem gen_agg_same_variants : (forall a, of_gen_a (to_gen_a a) = a) /\ (forall g, to_gen_a (of_gen_a g) = g).
Proof. split; intros []; reflexivity. Qed.

(* ---- HashMap::get as read by the model ([assoc]: first entry whose key is equal) and by the translator ---- *)
Lemma assoc_hm_get : forall {K V} (keq : K -> K -> bool) (m : list (K * V)) (k : K),
  assoc keq m k = G.hm_get keq m k.
Proof.
  intros K V keq m k. unfold assoc. induction m as [|[k' x] m IH]; [reflexivity|].
  cbn [find G.hm_get fst snd]. destruct (keq k' k); [reflexivity|exact IH].
Qed.
Lemma pair_eqb_same : forall a b, pair_eqb a b = G.edge_pair_eqb a b.
Proof. reflexivity. Qed.

Section Agree.
  Variable N : Num.

  Lemma cost_zero_same : cost_zero N = G.Cost_ZERO N.
  Proof. reflexivity. Qed.
  Lemma cost_one_same : cost_one N = G.Cost_ONE N.
  Proof. reflexivity. Qed.

  (* the model's inner loops are left folds *)
  Lemma go_v_fold : forall (l : list (vrate N)) (acc : N),
    (fix go (l : list (vrate N)) (acc : N) : N :=
       match l with [] => acc | r' :: l' => go l' (map_value N r' acc) end) l acc
    = fold_left (fun a r => map_value N r a) l acc.
  Proof. induction l as [|r l IH]; intros acc; [reflexivity|]. cbn [fold_left]. apply IH. Qed.

  Theorem gen_map_value_agrees : forall (r : vrate N) (x : N),
    map_value N r x = G.map_value N (to_gen_v r) x.
  Proof.
    induction r as [| | f | o | l IH] using vrate_nested_ind; intros x; cbn [map_value to_gen_v G.map_value];
      try reflexivity.
    rewrite go_v_fold. revert x. induction IH as [|r l Hr _ IHl]; intros x; [reflexivity|].
    cbn [map fold_left]. rewrite Hr. apply IHl.
  Qed.

  Lemma go_nt_fold : forall (e : Z) (l : list (nrate N)) (acc : N),
    (fix go (rs : list (nrate N)) (acc : N) : N :=
       match rs with [] => acc | r' :: rs' => go rs' (add acc (n_traversal N r' e)) end) l acc
    = fold_left (fun a b => add a b) (map (fun r => n_traversal N r e) l) acc.
  Proof. intros e. induction l as [|r l IH]; intros acc; [reflexivity|]. cbn [map fold_left]. apply IH. Qed.
  Lemma go_na_fold : forall (pe : Z * Z) (l : list (nrate N)) (acc : N),
    (fix go (rs : list (nrate N)) (acc : N) : N :=
       match rs with [] => acc | r' :: rs' => go rs' (add acc (n_access N r' pe)) end) l acc
    = fold_left (fun a b => add a b) (map (fun r => n_access N r pe) l) acc.
  Proof. intros pe. induction l as [|r l IH]; intros acc; [reflexivity|]. cbn [map fold_left]. apply IH. Qed.

  (* the two state variables are parameters of the Rust functions that no arm reads: any values *)
  Theorem gen_n_traversal_agrees : forall (r : nrate N) (prev next : N) (e : Z),
    n_traversal N r e = G.traversal_cost N (to_gen_n r) prev next e.
  Proof.
    intros r prev next e. induction r as [| l | l | l IH] using nrate_nested_ind;
      cbn [n_traversal to_gen_n G.traversal_cost]; try reflexivity.
    - unfold lookup_edge. rewrite assoc_hm_get. reflexivity.
    - rewrite go_nt_fold. rewrite map_map. f_equal.
      induction IH as [|r l Hr _ IHl]; [reflexivity|]. cbn [map]. rewrite Hr, IHl. reflexivity.
  Qed.

  Theorem gen_n_access_agrees : forall (r : nrate N) (prev next : N) (pe : Z * Z),
    n_access N r pe = G.access_cost N (to_gen_n r) prev next (fst pe) (snd pe).
  Proof.
    intros r prev next pe. induction r as [| l | l | l IH] using nrate_nested_ind;
      cbn [n_access to_gen_n G.access_cost]; try reflexivity.
    - unfold lookup_pair. rewrite assoc_hm_get. destruct pe; reflexivity.
    - rewrite go_na_fold. rewrite map_map. f_equal.
      induction IH as [|r l Hr _ IHl]; [reflexivity|]. cbn [map]. rewrite Hr, IHl. reflexivity.
  Qed.

  Lemma fold_snd : forall (f : N -> N -> N) (l : list (string * N)) (acc : N),
    fold_left f (map snd l) acc = fold_left (fun a '(_, c) => f a c) l acc.
  Proof. intros f. induction l as [|[k c] l IH]; intros acc; [reflexivity|]. cbn [map fold_left snd]. apply IH. Qed.

  (* CostAggregation::agg_iter on items (name, cost): the model aggregates the costs, in order *)
  Theorem gen_aggregate_agrees : forall (a : agg) (items : list (string * N)),
    aggregate N a (map snd items) = G.agg_iter N (to_gen_a a) items.
  Proof.
    intros [] items; cbn [aggregate to_gen_a G.agg_iter].
    - rewrite fold_snd. reflexivity.
    - destruct items as [|[k c] items]; [reflexivity|]. cbn [G.is_empty]. rewrite <- fold_snd. reflexivity.
  Qed.
  (* CostAggregation::agg (the slice form) computes the same value *)
  Theorem gen_agg_slice_agrees : forall (a : agg) (items : list (string * N)),
    aggregate N a (map snd items) = G.agg N (to_gen_a a) items.
  Proof.
    intros [] items; cbn [aggregate to_gen_a G.agg].
    - rewrite fold_snd. reflexivity.
    - destruct items as [|[k c] items]; [reflexivity|]. cbn [G.is_empty]. rewrite <- fold_snd. reflexivity.
  Qed.
End Agree.

Check gen_map_value_agrees : forall (N : Num) (r : vrate N) (x : N), map_value N r x = G.map_value N (to_gen_v r) x.
Check gen_aggregate_agrees : forall (N : Num) (a : agg) (items : list (string * N)),
  aggregate N a (map snd items) = G.agg_iter N (to_gen_a a) items.

(* non-vacuity: a nested rate and a three-feature product, evaluated through the GENERATED definitions in Q *)
Example gen_map_value_example :
  G.map_value QN (to_gen_v (VCombined [VFactor (lit 2 0); VOffset (lit 1 0); VCombined [VFactor (lit 3 0)]])) (lit 5 0)
  = inject_Z 33.
Proof. vm_compute. reflexivity. Qed.
Example gen_agg_iter_example :
  G.agg_iter QN G.CostAggregation_Mul [("a"%string, lit 2 0); ("b"%string, lit 3 0); ("c"%string, lit 7 0)] = inject_Z 42
  /\ G.agg_iter QN G.CostAggregation_Mul [] = inject_Z 0.
Proof. split; vm_compute; reflexivity. Qed.

End GenCostRates.

Print Assumptions GenCostRates.gen_vrate_same_variants.
Print Assumptions GenCostRates.gen_nrate_same_variants.
Print Assumptions GenCostRates.gen_agg_same_variants.
Print Assumptions GenCostRates.gen_map_value_agrees.
Print Assumptions GenCostRates.gen_n_traversal_agrees.
Print Assumptions GenCostRates.gen_n_access_agrees.
Print Assumptions GenCostRates.gen_aggregate_agrees.
Print Assumptions GenCostRates.gen_agg_slice_agrees.
