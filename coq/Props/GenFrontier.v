(* Agreement between the hand-written frontier models (Model/Frontier.v) and the definitions REGENERATED from the Rust
   source on every run (Gen/FrontierModels.v, written by translator/tr_frontier.py from
   routee-compass/src/app/compass/config/frontier_model/{vehicle_restrictions, road_class, turn_restrictions, combined}
   and the core crate's frontier_model.rs, no_restriction.rs, edge_cut_frontier_model.rs, unit/{weight,distance}.rs).

   Every theorem is for ALL inputs and every numeric record.  The generated functions are parametric in the unit types,
   the conversions, the error-class text and a trait object's valid_frontier; they are instantiated with Model/Units.v,
   the model's error classes and the model's own [valid_frontier] (so the wrappers Combined / EdgeCut are tied for
   every inner model).  A HashMap<EdgeId, Vec<VehicleRestriction>> is read as its lookup function: the model keeps the
   file rows, [lookup_of_rows] is the map the service builds from them.

   These are proof obligations of property C04 (checks/c04.py lists this file): a changed comparison operator or operand
   order, conversion direction, vehicle parameter, axle division, membership test, missing-row error, default verdict,
   or loop verdict in the Rust source changes Gen/FrontierModels.v and one of them stops compiling.              *)
From Coq Require Import ZArith QArith String List Bool Floats Arith.
From RC Require Import Base.Num Base.Res Base.Json Model.Units Model.Frontier Gen.FrontierModels.
Import ListNotations.
Local Open Scope string_scope.

Module GenFrontier.
Import Units Frontier.
Module G := FrontierModels.

(* FrontierModelError::<variant> as the model writes error classes *)
Definition model_err_class (variant : string) : string :=
  if String.eqb variant "FrontierModelError" then err_frontier
  else if String.eqb variant "BuildError" then err_build else variant.

Section Agree.
  Variable N : Num.
  Notation grestriction := (G.VehicleRestriction N weight_unit dist_unit).
  Notation gvparams := (G.VehicleParameters N weight_unit dist_unit).

  (* ---- the variant-for-variant / field-for-field correspondence (both directions are total) ---- *)
  Definition to_gen_r (r : restriction N) : grestriction :=
    match r with
    | MaximumTotalWeight _ w u => G.VehicleRestriction_MaximumTotalWeight w u
    | MaximumWeightPerAxle _ w u => G.VehicleRestriction_MaximumWeightPerAxle w u
    | MaximumLength _ d u => G.VehicleRestriction_MaximumLength d u
    | MaximumWidth _ d u => G.VehicleRestriction_MaximumWidth d u
    | MaximumHeight _ d u => G.VehicleRestriction_MaximumHeight d u
    | MaximumTrailerLength _ d u => G.VehicleRestriction_MaximumTrailerLength d u
    end.
  Definition of_gen_r (r : grestriction) : restriction N :=
    match r with
    | G.VehicleRestriction_MaximumTotalWeight w u => MaximumTotalWeight N w u
    | G.VehicleRestriction_MaximumWeightPerAxle w u => MaximumWeightPerAxle N w u
    | G.VehicleRestriction_MaximumLength d u => MaximumLength N d u
    | G.VehicleRestriction_MaximumWidth d u => MaximumWidth N d u
    | G.VehicleRestriction_MaximumHeight d u => MaximumHeight N d u
    | G.VehicleRestriction_MaximumTrailerLength d u => MaximumTrailerLength N d u
    end.
  Definition to_gen_vp (vp : vparams N) : gvparams :=
    G.mkVehicleParameters N weight_unit dist_unit (vp_height N vp) (vp_width N vp) (vp_total_length N vp)
      (vp_trailer_length N vp) (vp_total_weight N vp) (vp_axles N vp).
  Definition of_gen_vp (vp : gvparams) : vparams N :=
    mkVP N (G.vp_height vp) (G.vp_width vp) (G.vp_total_length vp) (G.vp_trailer_length vp) (G.vp_total_weight vp)
      (G.vp_number_of_axles vp).
  Theorem gen_restriction_same_variants :
    (forall r, of_gen_r (to_gen_r r) = r) /\ (forall g, to_gen_r (of_gen_r g) = g).
  Proof. split; intros []; reflexivity. Qed.
  Theorem gen_vparams_same_fields :
    (forall vp, of_gen_vp (to_gen_vp vp) = vp) /\ (forall g, to_gen_vp (of_gen_vp g) = g).
  Proof. split; intros []; reflexivity. Qed.

  Notation gvalid := (G.valid N weight_unit dist_unit (convert_weight N) (convert_distance N)).

  Theorem gen_valid_agrees : forall (r : restriction N) (vp : vparams N),
    valid N r vp = gvalid (to_gen_r r) (to_gen_vp vp).
  Proof.
    intros r vp. destruct vp as [h w tl trl tw ax]. destruct h, w, tl, trl, tw. destruct r; reflexivity.
  Qed.

  (* ---- valid_frontier, arm by arm ---- *)
  Theorem gen_no_restriction_agrees : forall e prev,
    valid_frontier N NoRestriction e prev = G.default_valid_frontier e prev.
  Proof. reflexivity. Qed.

  Theorem gen_road_class_agrees : forall lookup allowed e prev,
    valid_frontier N (RoadClass lookup allowed) e prev
    = G.road_class_valid_frontier model_err_class allowed lookup e prev.
  Proof.
    intros lookup [classes|] e prev; cbn [valid_frontier G.road_class_valid_frontier]; [|reflexivity].
    destruct (nth_error lookup e); reflexivity.
  Qed.

  Lemma pair_in_contains : forall p e pairs, pair_in p e pairs = G.set_contains G.edge_pair_eqb pairs (p, e).
  Proof.
    intros p e pairs. unfold pair_in, G.set_contains. induction pairs as [|[a b] r IH]; [reflexivity|].
    cbn [existsb]. rewrite IH. f_equal. unfold G.edge_pair_eqb. cbn [fst snd].
    rewrite (Nat.eqb_sym a p), (Nat.eqb_sym b e). reflexivity.
  Qed.
  Theorem gen_turn_restriction_agrees : forall pairs e prev,
    valid_frontier N (Turn pairs) e prev = G.turn_restriction_valid_frontier pairs e prev.
  Proof.
    intros pairs e [p|]; cbn [valid_frontier G.turn_restriction_valid_frontier]; [|reflexivity].
    rewrite pair_in_contains. reflexivity.
  Qed.

  Lemma forallb_map_ext : forall {X Y} (f : X -> bool) (h : Y -> bool) (g : X -> Y) (l : list X),
    (forall x, f x = h (g x)) -> forallb f l = forallb h (map g l).
  Proof. intros X Y f h g l H. induction l as [|x r IH]; [reflexivity|]. cbn [forallb map]. rewrite H, IH. reflexivity. Qed.

  (* the HashMap the service builds from the file rows: an edge without rows is absent *)
  Definition lookup_of_rows (rows : list (nat * restriction N)) (e : nat) : option (list grestriction) :=
    match restrictions_of N rows e with
    | [] => None
    | l => Some (map to_gen_r l)
    end.
  Theorem gen_vehicle_restriction_agrees : forall rows vp e prev,
    valid_frontier N (Vehicle N rows vp) e prev
    = G.vehicle_restriction_valid_frontier N weight_unit dist_unit (convert_weight N) (convert_distance N)
        (lookup_of_rows rows) (to_gen_vp vp) e prev.
  Proof.
    intros rows vp e prev. cbn [valid_frontier]. unfold G.vehicle_restriction_valid_frontier, lookup_of_rows.
    destruct (restrictions_of N rows e) as [|r l]; [reflexivity|].
    rewrite <- (forallb_map_ext (fun x => valid N x vp) (fun g => gvalid g (to_gen_vp vp)) to_gen_r (r :: l)) by (intros; apply gen_valid_agrees).
    destruct (forallb _ (r :: l)); reflexivity.
  Qed.

  Lemma go_all_res : forall (inner : list (fmodel N)) e prev,
    (fix go (l : list (fmodel N)) : res bool :=
       match l with
       | [] => Ok true
       | m' :: r => do ok <- valid_frontier N m' e prev; if ok then go r else Ok false
       end) inner
    = G.all_res (fun m => do r <- valid_frontier N m e prev; Ok r) inner.
  Proof.
    intros inner e prev. induction inner as [|m r IH]; [reflexivity|]. cbn [G.all_res].
    destruct (valid_frontier N m e prev) as [[]| | |]; cbn [bind]; try reflexivity. exact IH.
  Qed.
  Theorem gen_combined_agrees : forall inner e prev,
    valid_frontier N (Combined N inner) e prev
    = G.combined_valid_frontier (fmodel N) (valid_frontier N) inner e prev.
  Proof.
    intros inner e prev. cbn [valid_frontier]. rewrite go_all_res. unfold G.combined_valid_frontier.
    destruct (G.all_res _ inner) as [[]| | |]; reflexivity.
  Qed.

  Theorem gen_edge_cut_agrees : forall cut under e prev,
    valid_frontier N (EdgeCut N cut under) e prev
    = G.edge_cut_valid_frontier (fmodel N) (valid_frontier N) cut under e prev.
  Proof.
    intros cut under e prev. cbn [valid_frontier]. unfold G.edge_cut_valid_frontier, G.set_contains. reflexivity.
  Qed.
End Agree.

Check gen_valid_agrees : forall (N : Num) (r : restriction N) (vp : vparams N),
  valid N r vp = G.valid N weight_unit dist_unit (convert_weight N) (convert_distance N) (to_gen_r N r) (to_gen_vp N vp).
Check gen_combined_agrees : forall (N : Num) inner e prev,
  valid_frontier N (Combined N inner) e prev = G.combined_valid_frontier (fmodel N) (valid_frontier N) inner e prev.

(* non-vacuity, through the GENERATED definitions in Q: a 4 m vehicle passes a 4 m height limit and fails a 3.9 m one;
   10 t on 2 axles passes a 5 t per-axle limit and fails a 4.9 t one; a restricted (3, 7) turn is refused only in that
   order; a missing road-class row is an error *)
Example gen_frontier_example :
  let vp := G.mkVehicleParameters QN weight_unit dist_unit (4%Q, Meters) (2%Q, Meters) (10%Q, Meters) (0%Q, Meters) (10%Q, Tons) 2%nat in
  let gv := G.valid QN weight_unit dist_unit (convert_weight QN) (convert_distance QN) in
  gv (G.VehicleRestriction_MaximumHeight 4%Q Meters) vp = true
  /\ gv (G.VehicleRestriction_MaximumHeight (39 # 10)%Q Meters) vp = false
  /\ gv (G.VehicleRestriction_MaximumWeightPerAxle 5%Q Tons) vp = true
  /\ gv (G.VehicleRestriction_MaximumWeightPerAxle (49 # 10)%Q Tons) vp = false
  /\ G.turn_restriction_valid_frontier [(3, 7)%nat] 7%nat (Some 3%nat) = Ok false
  /\ G.turn_restriction_valid_frontier [(3, 7)%nat] 3%nat (Some 7%nat) = Ok true
  /\ G.road_class_valid_frontier model_err_class (Some [1%nat]) [1%nat; 2%nat] 5%nat None = Err err_frontier.
Proof. repeat split; vm_compute; reflexivity. Qed.

End GenFrontier.

Print Assumptions GenFrontier.gen_restriction_same_variants.
Print Assumptions GenFrontier.gen_vparams_same_fields.
Print Assumptions GenFrontier.gen_valid_agrees.
Print Assumptions GenFrontier.gen_no_restriction_agrees.
Print Assumptions GenFrontier.gen_road_class_agrees.
Print Assumptions GenFrontier.gen_turn_restriction_agrees.
Print Assumptions GenFrontier.gen_vehicle_restriction_agrees.
Print Assumptions GenFrontier.gen_combined_agrees.
Print Assumptions GenFrontier.gen_edge_cut_agrees.
