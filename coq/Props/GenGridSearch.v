(* Agreement between the hand-written grid-search models (Model/GridSearch.v, Model/MultiSet.v) and the constants and the
   constructor REGENERATED from the Rust source on every run (Gen/GridSearchConsts.v, written by translator/tr_gridsearch.py
   from plugin/input/{input_field, input_json_extensions}.rs, plugin/input/default/grid_search/plugin.rs and
   routee-compass-core/src/util/multiset.rs).

   [gen_grid_key_agrees]: the key the model reads the section from, looks for in the recursion guard and removes from the
   copy of the query is, in each of the three roles, what the source says (the name of InputField::GridSearch through the
   generated to_str table; the literal of the guard).  [gen_error_exits_agree]: the error exits of the Some arm are, in
   source order, the variants behind the model's classes Recursion / UnexpectedQueryStructure (section) /
   UnexpectedQueryStructure (query) / EmptyAxis.  [gen_multiset_from_agrees]: MS.from, for ALL families of sets.

   These are proof obligations of property C17 (checks/c17.py lists this file).  The loops of GridSearchPlugin::process
   and MultiSet::next are outside the translated subset: they stay hand-modelled and tied by the streams.          *)
From Coq Require Import List Arith Bool String ZArith.
From RC Require Import Base.Res Model.MultiSet Model.GridSearch Gen.GridSearchConsts.
Import ListNotations.
Open Scope string_scope.

Module GenGridSearch.
Module G := GridSearchConsts.

Theorem gen_grid_key_agrees :
  G.lookup G.input_field_to_str G.grid_search_section_field = Some GS.grid_key
  /\ G.lookup G.input_field_to_str G.grid_search_removed_field = Some GS.grid_key
  /\ G.grid_search_recursion_marker = GS.grid_key.
Proof. repeat split; reflexivity. Qed.

(* the InputPluginError variant behind each error class of GS.process, in the order GS.process tests them *)
Definition model_exit_variants : list (string * string) :=
  [("Recursion", "InputPluginFailed"); ("UnexpectedQueryStructure", "UnexpectedQueryStructure");
   ("UnexpectedQueryStructure", "UnexpectedQueryStructure"); ("EmptyAxis", "InputPluginFailed")].
Theorem gen_error_exits_agree : map snd model_exit_variants = G.grid_search_error_exits.
Proof. reflexivity. Qed.

(* the to_str table is injective on the unit variants: removing duplicate names removes nothing *)
Theorem gen_field_names_distinct :
  nodup string_dec (map snd G.input_field_to_str) = map snd G.input_field_to_str.
Proof. vm_compute. reflexivity. Qed.

Theorem gen_multiset_from_agrees : forall (A : Type) (ss : list (list A)),
  MS.from ss = MS.mk ss (G.multiset_from_pos ss) (G.multiset_from_final_pos ss).
Proof.
  intros A ss. reflexivity.
Qed.

Check gen_multiset_from_agrees : forall (A : Type) (ss : list (list A)),
  MS.from ss = MS.mk ss (G.multiset_from_pos ss) (G.multiset_from_final_pos ss).

(* non-vacuity, through the GENERATED constructor: [[a;b];[c]] starts at [0;0] and ends at [1;0]; a family with an empty
   set has no position; the empty family starts at the empty position *)
Example gen_gridsearch_example :
  G.multiset_from_pos [[1; 2]; [3]] = Some [0; 0] /\ G.multiset_from_final_pos [[1; 2]; [3]] = [1; 0]
  /\ G.multiset_from_pos [[1]; []] = None /\ G.multiset_from_pos (@nil (list nat)) = Some [].
Proof. repeat split; reflexivity. Qed.

End GenGridSearch.

Print Assumptions GenGridSearch.gen_grid_key_agrees.
Print Assumptions GenGridSearch.gen_error_exits_agree.
Print Assumptions GenGridSearch.gen_field_names_distinct.
Print Assumptions GenGridSearch.gen_multiset_from_agrees.
