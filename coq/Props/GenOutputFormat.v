(* Agreement between the hand-written output model (Model/Output.v: generate_route_output, generate_tree_output) and the
   dispatch REGENERATED from the Rust source on every run (Gen/TraversalOutput.v, written by translator/tr_outputformat.py
   from routee-compass/src/plugin/output/default/traversal/traversal_output_format.rs).

   The generated functions call Section variables for every operation; here they are instantiated with the model's reading:
   the operations of traversal_ops.rs are the model's, a WKT / WKB text is the geometry it encodes (tagged by encoding and
   by geometry kind), a JSON value is [out]: the common image of the model's two result types [route_path] / [tree_out]
   (the embeddings [of_route] / [of_tree] are injective: distinct model results have distinct images).

   Every theorem is for ALL formats, routes, trees and geometry tables, any coordinate and number types.  They are proof
   obligations of property C20 (checks/c20.py lists this file): a format that calls another operation, wraps another
   geometry kind, encodes WKB where WKT is meant, or packs the result differently in the Rust source changes
   Gen/TraversalOutput.v and one of them stops compiling.                                                       *)
From Coq Require Import List String Bool.
From RC Require Import Base.Res Model.Output Gen.TraversalOutput.
Import ListNotations.

Module GenOutputFormat.
Import OUT.
Module G := TraversalOutput.

Definition to_gen (f : format) : G.TraversalOutputFormat :=
  match f with
  | Wkt => G.TraversalOutputFormat_Wkt | Wkb => G.TraversalOutputFormat_Wkb | Json => G.TraversalOutputFormat_Json
  | GeoJson => G.TraversalOutputFormat_GeoJson | EdgeId => G.TraversalOutputFormat_EdgeId
  end.
Definition of_gen (g : G.TraversalOutputFormat) : format :=
  match g with
  | G.TraversalOutputFormat_Wkt => Wkt | G.TraversalOutputFormat_Wkb => Wkb | G.TraversalOutputFormat_Json => Json
  | G.TraversalOutputFormat_GeoJson => GeoJson | G.TraversalOutputFormat_EdgeId => EdgeId
  end.
Theorem gen_format_same_variants : (forall f, of_gen (to_gen f) = f) /\ (forall g, to_gen (of_gen g) = g).
Proof. split; intros []; reflexivity. Qed.

Section Agree.
  Context {C N : Type}.
  Notation linestring := (OUT.linestring C).
  Notation traversal := (OUT.traversal N).
  Notation branch := (OUT.branch N).
  Notation feature := (OUT.feature C N).
  Notation route_path := (OUT.route_path C N).
  Notation tree_out := (OUT.tree_out C N).
  Notation route := (OUT.route N).
  Notation tree := (OUT.tree N).
  Notation geoms := (OUT.geoms C).

  (* geo::Geometry::{LineString, MultiLineString} *)
  Inductive geom := GLine (l : linestring) | GMulti (m : list linestring).
  (* a WKT / WKB text, read as what it encodes *)
  Inductive text := WktOf (g : geom) | WkbOf (g : geom).
  (* a serde_json::Value produced by one of the two functions *)
  Inductive out :=
  | OIds (l : list nat)
  | ORoute (l : list traversal)
  | OBranches (l : list branch)
  | OFeatures (l : list feature)
  | OText (t : text).

  Definition of_route (p : route_path) : out :=
    match p with
    | PIds l => OIds l | PRecs l => ORoute l | PFeats l => OFeatures l
    | PWkt l => OText (WktOf (GLine l)) | PWkb l => OText (WkbOf (GLine l))
    end.
  Definition of_tree (t : tree_out) : out :=
    match t with
    | TIds l => OIds l | TRecs l => OBranches l | TFeats l => OFeatures l
    | TWkt m => OText (WktOf (GMulti m)) | TWkb m => OText (WkbOf (GMulti m))
    end.
  Lemma of_route_injective : forall a b, of_route a = of_route b -> a = b.
  Proof. intros [] [] H; inversion H; reflexivity. Qed.
  Lemma of_tree_injective : forall a b, of_tree a = of_tree b -> a = b.
  Proof. intros [] [] H; inversion H; reflexivity. Qed.

  Notation g_route :=
    (G.generate_route_output traversal geoms linestring geom text out
       create_route_linestring (fun r g => rmap OFeatures (create_route_geojson r g))
       edge_id (fun l => WktOf (GLine l)) GLine (fun g => Ok (WkbOf g))
       OText OIds (fun r => Ok (ORoute r))).
  Notation g_tree :=
    (G.generate_tree_output traversal branch tree geoms (list linestring) geom text out
       create_tree_multilinestring (fun t g => rmap OFeatures (create_tree_geojson t g))
       edge_id edge_traversal values
       (fun m => WktOf (GMulti m)) GMulti (fun g => Ok (WkbOf g))
       OText OIds (fun b => Ok (OBranches b))).

  Theorem gen_generate_route_output_agrees : forall (f : format) (r : route) (g : geoms),
    rmap of_route (generate_route_output f r g) = g_route (to_gen f) r g.
  Proof.
    intros [] r g; unfold generate_route_output, G.generate_route_output, rmap; cbn [to_gen bind].
    - destruct (create_route_linestring r g); reflexivity.
    - destruct (create_route_linestring r g); reflexivity.
    - reflexivity.
    - destruct (create_route_geojson r g); reflexivity.
    - reflexivity.
  Qed.

  Theorem gen_generate_tree_output_agrees : forall (f : format) (t : tree) (g : geoms),
    rmap of_tree (generate_tree_output f t g) = g_tree (to_gen f) t g.
  Proof.
    intros [] t g; unfold generate_tree_output, G.generate_tree_output, rmap; cbn [to_gen bind].
    - destruct (create_tree_multilinestring t g); reflexivity.
    - destruct (create_tree_multilinestring t g); reflexivity.
    - reflexivity.
    - destruct (create_tree_geojson t g); reflexivity.
    - reflexivity.
  Qed.
End Agree.

Check @gen_generate_route_output_agrees.
Check @gen_generate_tree_output_agrees.

(* non-vacuity, through the GENERATED dispatch: over a two-edge route with geometries, WKT and WKB wrap the same
   concatenated line with different encodings, EdgeId lists the ids in route order, a missing geometry row is an error
   for WKT and irrelevant for EdgeId *)
Example gen_outputformat_example :
  let t0 := mkT 0 tt tt [] in let t1 := mkT 1 tt tt [] in
  let g := [[(1, 2)]; [(3, 4)]] in
  let run f r gs := G.generate_route_output (OUT.traversal unit) (OUT.geoms nat) (OUT.linestring nat) (@geom nat) (@text nat) (@out nat unit)
                      create_route_linestring (fun r g => rmap OFeatures (create_route_geojson r g))
                      edge_id (fun l => WktOf (GLine l)) GLine (fun g => Ok (WkbOf g))
                      OText OIds (fun r => Ok (ORoute r)) f r gs in
  run G.TraversalOutputFormat_Wkt [t0; t1] g = Ok (OText (WktOf (GLine [(1, 2); (3, 4)])))
  /\ run G.TraversalOutputFormat_Wkb [t0; t1] g = Ok (OText (WkbOf (GLine [(1, 2); (3, 4)])))
  /\ run G.TraversalOutputFormat_EdgeId [t1; t0] [] = Ok (OIds [1; 0])
  /\ run G.TraversalOutputFormat_Wkt [t1] [[(1, 2)]] = Err "missing_geometry"%string.
Proof. repeat split; vm_compute; reflexivity. Qed.

End GenOutputFormat.

Print Assumptions GenOutputFormat.gen_format_same_variants.
Print Assumptions GenOutputFormat.gen_generate_route_output_agrees.
Print Assumptions GenOutputFormat.gen_generate_tree_output_agrees.
