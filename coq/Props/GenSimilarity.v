(* Agreement between the hand-written similarity model (Model/Ksp.v, section Similarity) and the definitions
   REGENERATED from the Rust source on every run (Gen/RouteSimilarity.v, written by translator/tr_similarity.py from
   routee-compass-core/src/algorithm/search/util/route_similarity_function.rs).

   Every theorem is for ALL routes, thresholds, edge weightings, every numeric record and every square-root function.
   [Ksp.cos_ge_num N sqrt] is the comparison `numer / (denom_a.sqrt() * denom_b.sqrt()) >= threshold` as the code writes
   it; its binary64 instance [Ksp.cos_ge_F := cos_ge_num FN PrimFloat.sqrt] is what Model/KspRun.v executes next to the
   Rust code.  (The theorems of Props/C13.v read the comparison over the rationals as [Ksp.cos_ge_Q], decided on squares;
   that reading is a specification choice and is not derived from the source.)
   The source writes 0.0 / 1.0; the model writes zero / one: [lits N] as in Props/GenStateFeature.v.

   These are proof obligations of property C13 (checks/c13.py lists this file): a changed verdict of AcceptAll,
   comparison operator or operand order, rank literal, weighting per variant, term of a sum or closing formula in the
   Rust source changes Gen/RouteSimilarity.v and one of them stops compiling.                                    *)
From Coq Require Import ZArith QArith List String Bool.
From RC Require Import Base.Num Base.Res Model.Ksp Gen.RouteSimilarity.
Import ListNotations.

Module GenSimilarity.
Import Ksp.
Module G := RouteSimilarity.

Definition to_gen {A} (f : simfn A) : G.RouteSimilarityFunction A :=
  match f with
  | SAcceptAll => G.RouteSimilarityFunction_AcceptAll
  | SEdgeIdCosine thr => G.RouteSimilarityFunction_EdgeIdCosineSimilarity thr
  | SDistanceCosine thr => G.RouteSimilarityFunction_DistanceWeightedCosineSimilarity thr
  end.
Definition of_gen {A} (g : G.RouteSimilarityFunction A) : simfn A :=
  match g with
  | G.RouteSimilarityFunction_AcceptAll => SAcceptAll
  | G.RouteSimilarityFunction_EdgeIdCosineSimilarity thr => SEdgeIdCosine thr
  | G.RouteSimilarityFunction_DistanceWeightedCosineSimilarity thr => SDistanceCosine thr
  end.
Theorem gen_simfn_same_variants : forall A, (forall f : simfn A, of_gen (to_gen f) = f) /\ (forall g, to_gen (@of_gen A g) = g).
Proof. intros A. split; intros []; reflexivity. Qed.

Definition lits (N : Num) : Prop := lit (n:=N) 0 0 = zero /\ lit (n:=N) 1 0 = one.
Lemma lits_QN : lits QN.
Proof. split; reflexivity. Qed.

Section Agree.
  Variable N : Num.
  Variable sqrt : N -> N.

  (* the comparison the model is instantiated with is the generated verdict on the generated formula *)
  Theorem gen_cos_ge_agrees : forall n da db thr : N,
    cos_ge_num N sqrt n da db thr
    = G.is_similar N (G.RouteSimilarityFunction_EdgeIdCosineSimilarity thr) (G.cos_value N sqrt n da db)
    /\ cos_ge_num N sqrt n da db thr
       = G.is_similar N (G.RouteSimilarityFunction_DistanceWeightedCosineSimilarity thr) (G.cos_value N sqrt n da db).
  Proof. intros. split; reflexivity. Qed.

  (* cos_similarity: the sums of the model over the generated terms *)
  Theorem gen_cos_parts_agrees : forall (dist : nat -> res N) (a b : list nat),
    cos_parts N dist a b =
    (do ma <- weights N dist a;
     do mb <- weights N dist b;
     let ka := dedup a in
     let kb := dedup b in
     let un := (ka ++ List.filter (fun e => negb (memn e ka)) kb)%list in
     Ok (wsum N (fun e => G.cos_numer_term N (wget N ma e) (wget N mb e)) un,
         wsum N (fun e => G.cos_denom_term N (wget N ma e)) ka,
         wsum N (fun e => G.cos_denom_term N (wget N mb e)) kb)).
  Proof. reflexivity. Qed.

  (* cos_similarity(a, b, weighting) for two given routes, as the model computes it *)
  Definition model_cos_similarity (a b : list nat) (dist : nat -> res N) : res N :=
    do p <- cos_parts N dist a b; let '(n, da, db) := p in Ok (G.cos_value N sqrt n da db).

  Hypothesis HL : lits N.

  Theorem gen_test_similarity_agrees : forall (f : simfn N) (edge_dist : nat -> res N) (a b : list nat),
    test_similarity N (cos_ge_num N sqrt) f edge_dist a b
    = G.test_similarity N edge_dist (model_cos_similarity a b) (to_gen f).
  Proof.
    destruct HL as [_ H1]. intros [|thr|thr] edge_dist a b;
      unfold test_similarity, G.test_similarity, G.rank_similarity, model_cos_similarity; cbn [to_gen bind G.is_similar].
    - reflexivity.
    - rewrite H1. destruct (cos_parts N (fun _ => Ok one) a b) as [[[n da] db]| | |]; reflexivity.
    - change (fun v_edge_id : nat => edge_dist v_edge_id) with edge_dist.
      destruct (cos_parts N edge_dist a b) as [[[n da] db]| | |]; reflexivity.
  Qed.
End Agree.

Check gen_test_similarity_agrees : forall (N : Num) (sqrt : N -> N), lits N ->
  forall (f : simfn N) (edge_dist : nat -> res N) (a b : list nat),
  test_similarity N (cos_ge_num N sqrt) f edge_dist a b
  = G.test_similarity N edge_dist (model_cos_similarity N sqrt a b) (to_gen f).

(* non-vacuity, through the GENERATED definitions in Q (with the identity in place of the square root, on perfect
   squares 1 * 1): AcceptAll is never similar; a rank equal to the threshold is similar, just below it is not *)
Example gen_similarity_example :
  G.is_similar QN G.RouteSimilarityFunction_AcceptAll 1%Q = false
  /\ G.is_similar QN (G.RouteSimilarityFunction_EdgeIdCosineSimilarity (1 # 2)%Q) (G.cos_value QN (fun x => x) (1 # 2) 1 1)%Q = true
  /\ G.is_similar QN (G.RouteSimilarityFunction_EdgeIdCosineSimilarity (1 # 2)%Q) (G.cos_value QN (fun x => x) (49 # 100) 1 1)%Q = false
  /\ G.test_similarity QN (fun _ => Ok 1%Q) (fun _ => Ok 1%Q) G.RouteSimilarityFunction_AcceptAll = Ok false.
Proof. repeat split; vm_compute; reflexivity. Qed.

End GenSimilarity.

Print Assumptions GenSimilarity.gen_simfn_same_variants.
Print Assumptions GenSimilarity.gen_cos_ge_agrees.
Print Assumptions GenSimilarity.gen_cos_parts_agrees.
Print Assumptions GenSimilarity.gen_test_similarity_agrees.
