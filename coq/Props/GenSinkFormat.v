(* Agreement between the hand-written sink model (Model/Sink.v) and the constants REGENERATED from the Rust source on
   every run (Gen/SinkFormat.v, written by translator/tr_sinkformat.py from
   routee-compass/src/app/compass/response/{response_output_format_json, response_output_format, response_sink,
   write_mode, response_output_policy}.rs).

   Each theorem restates one function of the model with every string, character, separator, key order, template and
   table taken from the generated file, and proves the restatement equal to the model for ALL formats, mappings,
   responses, strings and counters.  They are proof obligations of property C19 (checks/c19.py lists this file): a
   changed delimiter, header / footer text, newline convention, quoting rule, key order, error key or flush rule in
   the Rust source changes Gen/SinkFormat.v and one of them stops compiling.                                       *)
From Coq Require Import ZArith String Ascii List Bool Arith Floats.
From RC Require Import Base.Show Base.Res Base.Json Model.Sink Gen.SinkFormat.
Import ListNotations.
Open Scope string_scope.

Module GenSinkFormat.
Import SK.
Module G := SinkFormat.

(* ---- how the generated vocabulary is read ---- *)
Definition apply_order {A} (o : G.key_order) (m : list (string * A)) : list (string * A) :=
  match o with G.KeysSorted => sort_by_key m | G.KeysReversed => rev m | G.KeysForward => m end.
(* format!("<pre>{}<post>", s) *)
Definition in_template (t : string * string) (s : string) : string := fst t ++ s ++ snd t.
(* str::replace(char, &str) *)
Fixpoint replace_char (c : ascii) (r : string) (s : string) : string :=
  match s with
  | EmptyString => EmptyString
  | String d t => if Ascii.eqb d c then r ++ replace_char c r t else String d (replace_char c r t)
  end.
(* str::contains([chars]) *)
Definition contains_any (cs : list ascii) (s : string) : bool := existsb (fun c => contains_char c s) cs.
(* WriteMode::<name> *)
Definition write_mode_of_name (s : string) : write_mode :=
  if String.eqb s "Append" then Append else if String.eqb s "Overwrite" then Overwrite else ErrorIfExists.

(* ---- header / footer / delimiter of every format ---- *)
Theorem gen_initial_file_contents_agrees : forall f : ofmt,
  initial_file_contents f =
  match f with
  | FJson nd => G.json_initial_file_contents nd
  | FCsv m sorted =>
      Some (in_template G.csv_header_template
              (join G.csv_header_join (map csv_escape (map fst (apply_order (G.csv_header_order sorted) m)))))
  end.
Proof. intros [[]|m []]; reflexivity. Qed.

Theorem gen_final_file_contents_agrees : forall f : ofmt,
  final_file_contents f =
  match f with FJson nd => G.json_final_file_contents nd | FCsv _ _ => G.csv_final_file_contents end.
Proof. intros [[]|m s]; reflexivity. Qed.

Theorem gen_delimiter_agrees : forall f : ofmt,
  delimiter f = match f with FJson nd => G.json_delimiter nd | FCsv _ _ => G.csv_delimiter end.
Proof. intros [[]|m s]; reflexivity. Qed.

Theorem gen_header_of_agrees : forall f : ofmt,
  header_of f = match initial_file_contents f with Some h => h | None => G.header_default end.
Proof. intros f. reflexivity. Qed.

(* ---- fn csv_escape ---- *)
Lemma double_quotes_replace : forall s,
  double_quotes s = replace_char (fst G.csv_quote_replace) (snd G.csv_quote_replace) s.
Proof.
  induction s as [|c s IH]; [reflexivity|].
  cbn [double_quotes replace_char]. change (fst G.csv_quote_replace) with """"%char.
  destruct (Ascii.eqb c """"%char) eqn:E.
  - apply Ascii.eqb_eq in E. subst c. rewrite IH. reflexivity.
  - rewrite IH. reflexivity.
Qed.
Lemma triggers_read : G.csv_quote_triggers = [","%char; """"%char; "010"%char; "013"%char].
Proof. reflexivity. Qed.
Theorem gen_csv_escape_agrees : forall s : string,
  csv_escape s =
  if contains_any G.csv_quote_triggers s
  then in_template G.csv_quote_template (replace_char (fst G.csv_quote_replace) (snd G.csv_quote_replace) s)
  else s.
Proof.
  intros s. unfold csv_escape, needs_quote, contains_any. rewrite triggers_read. cbn [existsb].
  rewrite <- double_quotes_replace.
  destruct (contains_char ","%char s), (contains_char """"%char s), (contains_char "010"%char s),
    (contains_char "013"%char s); reflexivity.
Qed.

(* ---- format_response ---- *)
Section Fmt.
  Variable fj : float -> string.
  Variable fd : float -> string.
  Variable fo : fops.

  (* fn csv_cell on a successful mapping, the generated text on a failed one *)
  Definition gen_cell (c : mres) : string :=
    match c with
    | MErr _ => G.csv_failed_cell
    | MOk (JStr s) => csv_escape s
    | MOk v => csv_escape (to_string fj v)
    end.
  Lemma gen_cell_agrees : forall c, cell_text fj c = gen_cell c.
  Proof. intros [v|msg]; [destruct v; reflexivity | reflexivity]. Qed.

  Definition gen_format_response (f : ofmt) (r : json) : res (string * json) :=
    match f with
    | FJson nd => Ok (match G.json_printer nd with G.Compact => to_string fj r | G.Pretty => pretty fj 0 r end, r)
    | FCsv m sorted =>
        let cs := map (fun kv => (fst kv, apply_mapping fj fd fo (snd kv) r)) (apply_order (G.csv_row_order sorted) m) in
        let row0 := join G.csv_row_join (map (fun kc => gen_cell (snd kc)) cs) in
        let row := match row0 with EmptyString => G.csv_empty_row | _ => row0 end in
        match row_errors cs with
        | [] => Ok (row, r)
        | es =>
            let csv_errors := JObj [(G.csv_error_wrap_key, JObj es)] in
            let key := match jget r G.csv_error_probe_key with
                       | Some _ => G.csv_error_key_if_present
                       | None => G.csv_error_key_if_absent
                       end in
            do r' <- set_key r key csv_errors; Ok (row, r')
        end
    end.

  Theorem gen_format_response_agrees : forall (f : ofmt) (r : json),
    format_response fj fd fo f r = gen_format_response f r.
  Proof.
    intros [nd|m sorted] r.
    - destruct nd; reflexivity.
    - unfold format_response, gen_format_response, row_results.
      assert (Ho : order sorted m = apply_order (G.csv_row_order sorted) m) by (destruct sorted; reflexivity).
      rewrite Ho.
      assert (Hc : forall cs : list (string * mres),
                 map (fun kc => cell_text fj (snd kc)) cs = map (fun kc => gen_cell (snd kc)) cs).
      { intros cs. apply map_ext. intros kc. apply gen_cell_agrees. }
      rewrite Hc. reflexivity.
  Qed.
End Fmt.

(* ---- the bytes of one record, the counter and the flush rule of ResponseSink::write_response ---- *)
Lemma list_ascii_app : forall a b, list_ascii_of_string (a ++ b) = (list_ascii_of_string a ++ list_ascii_of_string b)%list.
Proof. induction a as [|c a IH]; intros b; [reflexivity|]. cbn [append list_ascii_of_string]. rewrite IH. reflexivity. Qed.
Theorem gen_record_agrees : forall row : string,
  record_of nl_char (list_ascii_of_string row) = list_ascii_of_string (in_template G.sink_record_template row).
Proof. intros row. unfold record_of, in_template. cbn [fst snd G.sink_record_template append]. rewrite list_ascii_app. reflexivity. Qed.
Theorem gen_counter_step_agrees : forall c : nat, S c = (c + G.sink_counter_step)%nat.
Proof. intros c. unfold G.sink_counter_step. rewrite Nat.add_1_r. reflexivity. Qed.
Theorem gen_flush_due_agrees : forall rate c : nat, flush_due rate c = G.sink_flush_due c rate.
Proof. reflexivity. Qed.

(* ---- ResponseOutputPolicy::build, File arm ---- *)
Theorem gen_build_file_agrees : forall (f : ofmt) (flush_rate : option Z) (old : option string),
  build_file f flush_rate old =
  (do c <- open_file (write_mode_of_name G.policy_write_mode) f old;
   match G.policy_flush_rate flush_rate with
   | Some n => Ok (c, n)
   | None => Err "iterations_per_flush must be positive"
   end).
Proof.
  intros f fr old. unfold build_file. change (write_mode_of_name G.policy_write_mode) with Append.
  destruct (open_file Append f old) as [c| | |]; cbn [bind]; try reflexivity.
  destruct fr as [z|]; [|reflexivity]. cbn [G.policy_flush_rate]. destruct (z <=? 0)%Z; reflexivity.
Qed.

Check gen_initial_file_contents_agrees.
Check gen_format_response_agrees : forall fj fd fo (f : ofmt) (r : json),
  format_response fj fd fo f r = gen_format_response fj fd fo f r.

(* non-vacuity, through the GENERATED constants: a JSON array file opens with "[\n" and closes with "\n]", ndjson has
   neither; a field with a comma is quoted and its quotes doubled; one record = row + newline *)
Example gen_sink_example :
  G.json_initial_file_contents false = Some ("[" ++ nl) /\ G.json_final_file_contents false = Some (nl ++ "]")
  /\ G.json_initial_file_contents true = None
  /\ in_template G.csv_quote_template (replace_char (fst G.csv_quote_replace) (snd G.csv_quote_replace) ("a,""b"))
     = """a,""""b"""
  /\ in_template G.sink_record_template "{}" = "{}" ++ nl
  /\ G.policy_flush_rate (Some 0%Z) = None /\ G.policy_flush_rate (Some 5%Z) = Some 5%nat /\ G.policy_flush_rate None = Some 1%nat.
Proof. repeat split; reflexivity. Qed.

End GenSinkFormat.

Print Assumptions GenSinkFormat.gen_initial_file_contents_agrees.
Print Assumptions GenSinkFormat.gen_final_file_contents_agrees.
Print Assumptions GenSinkFormat.gen_delimiter_agrees.
Print Assumptions GenSinkFormat.gen_header_of_agrees.
Print Assumptions GenSinkFormat.gen_csv_escape_agrees.
Print Assumptions GenSinkFormat.gen_format_response_agrees.
Print Assumptions GenSinkFormat.gen_record_agrees.
Print Assumptions GenSinkFormat.gen_counter_step_agrees.
Print Assumptions GenSinkFormat.gen_flush_due_agrees.
Print Assumptions GenSinkFormat.gen_build_file_agrees.
