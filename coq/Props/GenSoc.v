(* Agreement between the hand-written vehicle model (Model/Vehicle.v) and the state-of-charge arithmetic REGENERATED
   from the Rust source on every run (Gen/Soc.v, written by translator/tr_soc.py from
   routee-compass-powertrain/src/routee/vehicle/{vehicle_ops.rs, default/bev.rs, default/phev.rs}).

   Every theorem is for ALL arguments.  The source writes the clamp bounds and the range bounds as the literals
   `0.0` / `100.0`; the model writes `zero` for the former.  [lit_zero N] says that the numeric record reads the
   literal 0.0 as its zero; it holds for the exact rationals by computation ([lit_zero_QN]), which is the instance
   every theorem of Props/C08.v is about (the [_Q] corollaries below have no hypothesis).

   These are proof obligations of property C08 (checks/c08.py lists this file): a changed constant, operator,
   operand order, clamp bound, range bound or default in the Rust source changes Gen/Soc.v and one of them stops
   compiling.                                                                                                   *)
From Coq Require Import ZArith QArith String List Bool.
From RC Require Import Base.Num Base.Res Model.Units Model.Vehicle Gen.Soc.
Import ListNotations.

Module GenSoc.
Import Vehicle.
Module G := Soc.

Definition lit_zero (N : Num) : Prop := lit (n:=N) 0 0 = zero.
Lemma lit_zero_QN : lit_zero QN.
Proof. reflexivity. Qed.

Section Agree.
  Variable N : Num.
  Hypothesis HZ : lit_zero N.

  Lemma clamp_agrees : forall x : N, clamp_0_100 N x = G.f64_clamp x (lit 0 0) (lit 100 0).
  Proof. intros x. unfold clamp_0_100, G.f64_clamp, hundred. rewrite HZ. reflexivity. Qed.

  Theorem gen_as_soc_percent_agrees : forall remaining max_battery : N,
    as_soc_percent N remaining max_battery = G.as_soc_percent N remaining max_battery.
  Proof. intros. unfold as_soc_percent, G.as_soc_percent. rewrite clamp_agrees. reflexivity. Qed.

  Theorem gen_soc_from_battery_and_delta_agrees : forall start_battery energy_used max_battery : N,
    soc_from_battery_and_delta N start_battery energy_used max_battery
    = G.soc_from_battery_and_delta N start_battery energy_used max_battery.
  Proof. intros. unfold soc_from_battery_and_delta, G.soc_from_battery_and_delta. rewrite clamp_agrees. reflexivity. Qed.

  (* update_soc_percent: read the feature, write back the generated function of (value read, delta, max) *)
  Theorem gen_update_soc_percent_agrees : forall (sm : smodel N) (st : state N) (name : string) (delta max_battery : N),
    update_soc_percent N sm st name delta max_battery
    = (do start_soc <- get_custom_f64 N sm st name;
       set_custom_f64 N sm st name (G.update_soc_percent_value N start_soc delta max_battery)).
  Proof.
    intros. unfold update_soc_percent, G.update_soc_percent_value.
    destruct (get_custom_f64 N sm st name) as [s| | |]; cbn [bind]; try reflexivity.
    rewrite gen_soc_from_battery_and_delta_agrees. reflexivity.
  Qed.

  Theorem gen_soc_in_query_range_agrees : forall x : N,
    soc_in_query_range N x = G.bev_query_soc_in_range N x /\ soc_in_query_range N x = G.phev_query_soc_in_range N x.
  Proof.
    intros x. unfold soc_in_query_range, G.bev_query_soc_in_range, G.phev_query_soc_in_range, G.range_contains, hundred.
    rewrite HZ. split; reflexivity.
  Qed.

  Theorem gen_starting_energy_agrees : forall soc capacity : N,
    starting_energy N soc capacity = G.bev_starting_energy N soc capacity
    /\ starting_energy N soc capacity = G.phev_starting_energy N soc capacity.
  Proof. intros. split; reflexivity. Qed.

  (* update_from_query restated with every constant, bound and expression taken from the generated file *)
  Definition gen_query_soc (dflt : option N) (q : qval N) : res N :=
    match q with
    | QNumber x => Ok x
    | QNonNumeric => Err e_build
    | QMissing => match dflt with Some d => Ok d | None => Err e_build end
    end.
  Theorem gen_update_from_query_agrees : forall (v : vehicle N) (q : qval N),
    update_from_query N v q =
    match v with
    | ICE r => Ok (ICE r)
    | BEV r cap _ bu =>
        do soc <- gen_query_soc (G.bev_query_soc_default N) q;
        if G.bev_query_soc_in_range N soc then Ok (BEV r cap (G.bev_starting_energy N soc cap) bu) else Err e_build
    | PHEV cs cd cap _ bu =>
        do soc <- gen_query_soc (G.phev_query_soc_default N) q;
        if G.phev_query_soc_in_range N soc then Ok (PHEV cs cd cap (G.phev_starting_energy N soc cap) bu) else Err e_build
    end.
  Proof.
    intros v q. destruct v as [r | r cap st bu | cs cd cap st bu]; [reflexivity| |];
      destruct q as [| |x]; cbn [update_from_query gen_query_soc G.bev_query_soc_default G.phev_query_soc_default bind];
      try reflexivity.
    - destruct (gen_soc_in_query_range_agrees (hundred N)) as [E _]. rewrite E. reflexivity.
    - destruct (gen_soc_in_query_range_agrees x) as [E _]. rewrite E. reflexivity.
    - destruct (gen_soc_in_query_range_agrees x) as [_ E]. rewrite E. reflexivity.
  Qed.
End Agree.

(* the instance the theorems of Props/C08.v are about *)
Theorem gen_as_soc_percent_agrees_Q : forall r m : Q, as_soc_percent QN r m = G.as_soc_percent QN r m.
Proof. exact (gen_as_soc_percent_agrees QN lit_zero_QN). Qed.
Theorem gen_soc_from_battery_and_delta_agrees_Q : forall s e m : Q,
  soc_from_battery_and_delta QN s e m = G.soc_from_battery_and_delta QN s e m.
Proof. exact (gen_soc_from_battery_and_delta_agrees QN lit_zero_QN). Qed.
Theorem gen_update_soc_percent_agrees_Q : forall (sm : smodel QN) (st : state QN) (name : string) (delta cap : Q),
  update_soc_percent QN sm st name delta cap
  = (do start_soc <- get_custom_f64 QN sm st name;
     set_custom_f64 QN sm st name (G.update_soc_percent_value QN start_soc delta cap)).
Proof. exact (gen_update_soc_percent_agrees QN lit_zero_QN). Qed.
Theorem gen_update_from_query_agrees_Q : forall (v : vehicle QN) (q : qval Q),
  update_from_query QN v q =
  match v with
  | ICE r => Ok (ICE r)
  | BEV r cap _ bu =>
      do soc <- gen_query_soc QN (G.bev_query_soc_default QN) q;
      if G.bev_query_soc_in_range QN soc then Ok (BEV r cap (G.bev_starting_energy QN soc cap) bu) else Err e_build
  | PHEV cs cd cap _ bu =>
      do soc <- gen_query_soc QN (G.phev_query_soc_default QN) q;
      if G.phev_query_soc_in_range QN soc then Ok (PHEV cs cd cap (G.phev_starting_energy QN soc cap) bu) else Err e_build
  end.
Proof. exact (gen_update_from_query_agrees QN lit_zero_QN). Qed.

Check gen_soc_from_battery_and_delta_agrees :
  forall N : Num, lit_zero N -> forall s e m : N, soc_from_battery_and_delta N s e m = G.soc_from_battery_and_delta N s e m.

(* non-vacuity: the generated functions compute (Q): 50 % of 60 kWh minus 6 kWh is 40 %; regeneration is capped at 100;
   the generated BEV default is inside the generated range *)
Example gen_soc_example :
  Qeq_bool (G.update_soc_percent_value QN (lit 50 0) (lit 6 0) (lit 60 0)) (inject_Z 40) = true
  /\ Qeq_bool (G.update_soc_percent_value QN (lit 95 0) (lit (-12) 0) (lit 60 0)) (inject_Z 100) = true
  /\ match G.bev_query_soc_default QN with Some d => G.bev_query_soc_in_range QN d | None => false end = true.
Proof. repeat split; vm_compute; reflexivity. Qed.

End GenSoc.

Print Assumptions GenSoc.gen_as_soc_percent_agrees.
Print Assumptions GenSoc.gen_soc_from_battery_and_delta_agrees.
Print Assumptions GenSoc.gen_update_soc_percent_agrees.
Print Assumptions GenSoc.gen_soc_in_query_range_agrees.
Print Assumptions GenSoc.gen_starting_energy_agrees.
Print Assumptions GenSoc.gen_update_from_query_agrees.
Print Assumptions GenSoc.gen_as_soc_percent_agrees_Q.
Print Assumptions GenSoc.gen_soc_from_battery_and_delta_agrees_Q.
Print Assumptions GenSoc.gen_update_soc_percent_agrees_Q.
Print Assumptions GenSoc.gen_update_from_query_agrees_Q.
