(* Agreement between the hand-written state model (Model/StateModel.v) and the definitions REGENERATED from the Rust
   source on every run (Gen/StateFeature.v, written by translator/tr_statefeature.py from
   routee-compass-core/src/model/state/{custom_feature_format, state_feature, update_operation}.rs and
   model/traversal/state/state_variable.rs).

   Every theorem is for ALL inputs.  The source writes the boolean codes as the literals `1.0` / `0.0` and compares with
   `StateVar::ZERO = StateVar(0.0)` / `0.0`; the model writes `one` / `zero`.  [lits N] says that the numeric record reads
   those two literals as its one and zero; it holds for the exact rationals by computation ([lits_QN]), the instance all
   theorems of Props/C11.v are about (the [_Q] corollaries have no hypothesis).  The casts `<int> as f64`,
   `<f64> as i64`, `<f64> as u64` of the generated functions are instantiated with the model's [of_int] and its
   saturating truncations.

   These are proof obligations of property C11 (checks/c11.py lists this file): a changed accepted variant, error
   variant, cast, literal, comparison, equality rule, feature-type string or update operation in the Rust source changes
   Gen/StateFeature.v and one of them stops compiling.                                                             *)
From Coq Require Import ZArith QArith Qround List String Bool.
From RC Require Import Base.Num Base.Res Model.Units Model.CompactMap Model.StateModel Gen.StateFeature.
Import ListNotations.

Module GenStateFeature.
Import Units SM.
Module G := StateFeature.

(* ---- the variant-for-variant correspondence of the enums (both directions are total matches) ---- *)
Definition to_gen_fmt {A} (f : fmt A) : G.CustomFeatureFormat A :=
  match f with
  | FFloat i => G.CustomFeatureFormat_FloatingPoint i
  | FSigned i => G.CustomFeatureFormat_SignedInteger i
  | FUnsigned i => G.CustomFeatureFormat_UnsignedInteger i
  | FBool b => G.CustomFeatureFormat_Boolean b
  end.
Definition of_gen_fmt {A} (f : G.CustomFeatureFormat A) : fmt A :=
  match f with
  | G.CustomFeatureFormat_FloatingPoint i => FFloat i
  | G.CustomFeatureFormat_SignedInteger i => FSigned i
  | G.CustomFeatureFormat_UnsignedInteger i => FUnsigned i
  | G.CustomFeatureFormat_Boolean b => FBool b
  end.
Notation gfeature A := (G.StateFeature A dist_unit time_unit energy_unit).
Definition to_gen_feature {A} (f : feature A) : gfeature A :=
  match f with
  | FDistance u i => G.StateFeature_Distance u i
  | FTime u i => G.StateFeature_Time u i
  | FEnergy u i => G.StateFeature_Energy u i
  | FCustom ty un fm => G.StateFeature_Custom ty un (to_gen_fmt fm)
  end.
Definition of_gen_feature {A} (f : gfeature A) : feature A :=
  match f with
  | G.StateFeature_Distance u i => FDistance u i
  | G.StateFeature_Time u i => FTime u i
  | G.StateFeature_Energy u i => FEnergy u i
  | G.StateFeature_Custom ty un fm => FCustom ty un (of_gen_fmt fm)
  end.
Definition of_gen_op (o : G.UpdateOperation) : unit := match o with G.UpdateOperation_Replace => tt end.

Theorem gen_fmt_same_variants : forall A, (forall f : fmt A, of_gen_fmt (to_gen_fmt f) = f)
  /\ (forall g : G.CustomFeatureFormat A, to_gen_fmt (of_gen_fmt g) = g).
Proof. intros A. split; intros []; reflexivity. Qed.
Theorem gen_feature_same_variants : forall A, (forall f : feature A, of_gen_feature (to_gen_feature f) = f)
  /\ (forall g : gfeature A, to_gen_feature (of_gen_feature g) = g).
Proof.
  intros A. split.
  - intros [u i|u i|u i|ty un fm]; cbn [to_gen_feature of_gen_feature]; try reflexivity.
    destruct (gen_fmt_same_variants A) as [H _]. rewrite H. reflexivity.
  - intros [u i|u i|u i|ty un fm]; cbn [to_gen_feature of_gen_feature]; try reflexivity.
    destruct (gen_fmt_same_variants A) as [_ H]. rewrite H. reflexivity.
Qed.
(* UpdateOperation has the single variant Replace *)
Theorem gen_update_operation_single : forall o : G.UpdateOperation, o = G.UpdateOperation_Replace.
Proof. intros []. reflexivity. Qed.

(* ---- functions that involve no literal: any numeric record ---- *)
Theorem gen_feature_type_agrees : forall (N : Num) (f : feature N),
  feature_type f = G.feat_get_feature_type N dist_unit time_unit energy_unit (to_gen_feature f).
Proof. intros N []; reflexivity. Qed.
Theorem gen_feature_eqb_agrees : forall (N : Num) (a b : feature N),
  feature_eqb a b = G.feat_eq N dist_unit time_unit energy_unit (to_gen_feature a) (to_gen_feature b).
Proof. intros N [] []; reflexivity. Qed.

Definition lits (N : Num) : Prop := lit (n:=N) 0 0 = zero /\ lit (n:=N) 1 0 = one.
Lemma lits_QN : lits QN.
Proof. split; reflexivity. Qed.

Section Agree.
  Variable N : Num.
  Variable trunc : N -> Z.
  Variable of_int : Z -> N.
  (* Rust's saturating float -> integer casts, as the model writes them *)
  Definition cast_i64 (x : N) : Z := clamp i64_min i64_max (trunc x).
  Definition cast_u64 (x : N) : Z := clamp 0 u64_max (trunc x).
  Notation GF f := (f N dist_unit time_unit energy_unit).

  Theorem gen_encode_f64_agrees : forall (f : fmt N) (x : N), encode_f64 N f x = G.fmt_encode_f64 N (to_gen_fmt f) x.
  Proof. intros [] x; reflexivity. Qed.
  Theorem gen_encode_i64_agrees : forall (f : fmt N) (z : Z), encode_i64 N of_int f z = G.fmt_encode_i64 N of_int (to_gen_fmt f) z.
  Proof. intros [] z; reflexivity. Qed.
  Theorem gen_encode_u64_agrees : forall (f : fmt N) (z : Z), encode_u64 N of_int f z = G.fmt_encode_u64 N of_int (to_gen_fmt f) z.
  Proof. intros [] z; reflexivity. Qed.
  Theorem gen_decode_f64_agrees : forall (f : fmt N) (x : N), decode_f64 N f x = G.fmt_decode_f64 N (to_gen_fmt f) x.
  Proof. intros [] x; reflexivity. Qed.
  Theorem gen_decode_i64_agrees : forall (f : fmt N) (x : N), decode_i64 N trunc f x = G.fmt_decode_i64 N cast_i64 (to_gen_fmt f) x.
  Proof. intros [] x; reflexivity. Qed.
  Theorem gen_get_units_agree : forall f : feature N,
    get_distance_unit N f = GF G.feat_get_distance_unit (to_gen_feature f)
    /\ get_time_unit N f = GF G.feat_get_time_unit (to_gen_feature f)
    /\ get_energy_unit N f = GF G.feat_get_energy_unit (to_gen_feature f).
  Proof. intros []; repeat split; reflexivity. Qed.
  Theorem gen_get_custom_feature_format_agrees : forall f : feature N,
    get_custom_feature_format N f
    = match GF G.feat_get_custom_feature_format (to_gen_feature f) with
      | Ok g => Ok (of_gen_fmt g) | Err c => Err c | Panic w => Panic w | OutOfFuel => OutOfFuel
      end.
  Proof.
    intros [u i|u i|u i|ty un fm]; cbn [get_custom_feature_format to_gen_feature G.feat_get_custom_feature_format]; try reflexivity.
    destruct (gen_fmt_same_variants N) as [H _]. rewrite H. reflexivity.
  Qed.

  (* StateModel::update_state applies UpdateOperation::Replace (the only variant) to (previous value, new value) *)
  Theorem gen_update_state_agrees : forall (sm : smodel N) (st : list N) (name : string) (x : N),
    update_state N sm st name x =
    match CM.get_index String.eqb sm name with
    | None => Err err_unknown
    | Some i => match nth_error st i with
                | Some prev => Ok (set_nth st i (G.op_perform_operation N G.UpdateOperation_Replace prev x))
                | None => Err err_index
                end
    end.
  Proof. intros. reflexivity. Qed.

  (* ---- functions that mention 0.0 / 1.0 ---- *)
  Hypothesis HL : lits N.

  Theorem gen_encode_bool_agrees : forall (f : fmt N) (b : bool), encode_bool N f b = G.fmt_encode_bool N (to_gen_fmt f) b.
  Proof. destruct HL as [H0 H1]. intros [] b; cbn [encode_bool to_gen_fmt G.fmt_encode_bool]; try reflexivity. rewrite H0, H1. destruct b; reflexivity. Qed.
  Theorem gen_decode_u64_agrees : forall (f : fmt N) (x : N), decode_u64 N trunc f x = G.fmt_decode_u64 N cast_u64 (to_gen_fmt f) x.
  Proof. destruct HL as [H0 _]. intros [] x; cbn [decode_u64 to_gen_fmt G.fmt_decode_u64]; try reflexivity. rewrite H0. reflexivity. Qed.
  Theorem gen_decode_bool_agrees : forall (f : fmt N) (x : N), decode_bool N f x = G.fmt_decode_bool N (to_gen_fmt f) x.
  Proof.
    destruct HL as [H0 _]. intros [] x; cbn [decode_bool to_gen_fmt G.fmt_decode_bool]; try reflexivity.
    rewrite H0. destruct (eqb x zero); reflexivity.
  Qed.
  Theorem gen_fmt_initial_agrees : forall f : fmt N, fmt_initial N of_int f = G.fmt_initial N of_int (to_gen_fmt f).
  Proof.
    intros f. destruct f as [i|i|i|b]; cbn [fmt_initial to_gen_fmt G.fmt_initial].
    - apply (gen_encode_f64_agrees (FFloat i)).
    - apply (gen_encode_i64_agrees (FSigned i)).
    - apply (gen_encode_u64_agrees (FUnsigned i)).
    - apply (gen_encode_bool_agrees (FBool b)).
  Qed.
  Theorem gen_get_initial_agrees : forall f : feature N,
    get_initial N of_int f = G.feat_get_initial N dist_unit time_unit energy_unit of_int (to_gen_feature f).
  Proof.
    intros [u i|u i|u i|ty un fm]; cbn [get_initial to_gen_feature G.feat_get_initial]; try reflexivity.
    apply gen_fmt_initial_agrees.
  Qed.
End Agree.

(* the instance the theorems of Props/C11.v are about *)
Theorem gen_get_initial_agrees_Q : forall (of_int : Z -> Q) (f : feature QN),
  get_initial QN of_int f = G.feat_get_initial QN dist_unit time_unit energy_unit of_int (to_gen_feature f).
Proof. intros of_int. exact (gen_get_initial_agrees QN of_int lits_QN). Qed.
Theorem gen_encode_bool_agrees_Q : forall (f : fmt QN) (b : bool), encode_bool QN f b = G.fmt_encode_bool QN (to_gen_fmt f) b.
Proof. exact (gen_encode_bool_agrees QN lits_QN). Qed.
Theorem gen_decode_u64_agrees_Q : forall (trunc : Q -> Z) (f : fmt QN) (x : Q),
  decode_u64 QN trunc f x = G.fmt_decode_u64 QN (cast_u64 QN trunc) (to_gen_fmt f) x.
Proof. intros trunc. exact (gen_decode_u64_agrees QN trunc lits_QN). Qed.
Theorem gen_decode_bool_agrees_Q : forall (f : fmt QN) (x : Q), decode_bool QN f x = G.fmt_decode_bool QN (to_gen_fmt f) x.
Proof. exact (gen_decode_bool_agrees QN lits_QN). Qed.

Check gen_feature_eqb_agrees : forall (N : Num) (a b : feature N),
  feature_eqb a b = G.feat_eq N dist_unit time_unit energy_unit (to_gen_feature a) (to_gen_feature b).
Check gen_decode_u64_agrees : forall (N : Num) (trunc : N -> Z), lits N -> forall (f : fmt N) (x : N),
  decode_u64 N trunc f x = G.fmt_decode_u64 N (cast_u64 N trunc) (to_gen_fmt f) x.

(* non-vacuity, through the GENERATED definitions in Q: a boolean feature starts at 1, a negative value does not decode
   as u64, custom features are equal only with the same type and unit, a distance equals any distance *)
Example gen_statefeature_example :
  G.fmt_initial QN inject_Z (G.CustomFeatureFormat_Boolean true) = Ok 1%Q
  /\ G.fmt_decode_u64 QN (fun q => Qfloor q) (G.CustomFeatureFormat_UnsignedInteger 0%Z) (-1)%Q = Err "ValueError"%string
  /\ G.feat_eq QN dist_unit time_unit energy_unit
       (G.StateFeature_Custom "soc"%string "percent"%string (G.CustomFeatureFormat_FloatingPoint 0%Q))
       (G.StateFeature_Custom "soc"%string "kwh"%string (G.CustomFeatureFormat_FloatingPoint 0%Q)) = false
  /\ G.feat_eq QN dist_unit time_unit energy_unit (G.StateFeature_Distance Meters 0%Q) (G.StateFeature_Distance Miles 5%Q) = true.
Proof. repeat split; vm_compute; reflexivity. Qed.

End GenStateFeature.

Print Assumptions GenStateFeature.gen_fmt_same_variants.
Print Assumptions GenStateFeature.gen_feature_same_variants.
Print Assumptions GenStateFeature.gen_update_operation_single.
Print Assumptions GenStateFeature.gen_feature_type_agrees.
Print Assumptions GenStateFeature.gen_feature_eqb_agrees.
Print Assumptions GenStateFeature.gen_encode_f64_agrees.
Print Assumptions GenStateFeature.gen_encode_i64_agrees.
Print Assumptions GenStateFeature.gen_encode_u64_agrees.
Print Assumptions GenStateFeature.gen_encode_bool_agrees.
Print Assumptions GenStateFeature.gen_decode_f64_agrees.
Print Assumptions GenStateFeature.gen_decode_i64_agrees.
Print Assumptions GenStateFeature.gen_decode_u64_agrees.
Print Assumptions GenStateFeature.gen_decode_bool_agrees.
Print Assumptions GenStateFeature.gen_fmt_initial_agrees.
Print Assumptions GenStateFeature.gen_get_initial_agrees.
Print Assumptions GenStateFeature.gen_get_units_agree.
Print Assumptions GenStateFeature.gen_get_custom_feature_format_agrees.
Print Assumptions GenStateFeature.gen_update_state_agrees.
Print Assumptions GenStateFeature.gen_get_initial_agrees_Q.
Print Assumptions GenStateFeature.gen_encode_bool_agrees_Q.
Print Assumptions GenStateFeature.gen_decode_u64_agrees_Q.
Print Assumptions GenStateFeature.gen_decode_bool_agrees_Q.
