(* Agreement between the hand-written termination model (Model/Termination.v) and the definitions REGENERATED from the
   Rust source on every run (Gen/TerminationModel.v, written by translator/tr_termination.py from
   routee-compass-core/src/model/termination/termination_model.rs).

   Every theorem is for ALL models (any nesting of Combined), clocks, solution sizes and iteration counts.  The
   generated functions take the clock reading of the call and the two counters as binary naturals; the model takes a
   clock (a function of the iteration count) and unary counters: [ck it], [N.of_nat size], [N.of_nat it].
   `Duration::hhmmss` and `Display` of integers are instantiated with the model's [hhmmss] and [show_N], the text of an
   error with the model's convention ([model_err_text]).

   These are proof obligations of property C10 (checks/c10.py lists this file): a changed comparison operator or
   operand, frequency test, fold seed or combination, message template, separator, or error variant in the Rust source
   changes Gen/TerminationModel.v and one of them stops compiling.                                               *)
From Coq Require Import NArith ZArith List Arith Bool String Ascii.
From RC Require Import Base.Show Base.Res Model.Termination Proofs.Termination Gen.TerminationModel.
Import ListNotations.
Local Open Scope string_scope.

Module GenTermination.
Import TM.
Module G := TerminationModel.

(* ---- the variant-for-variant correspondence (both directions are total matches) ---- *)
Fixpoint to_gen (t : term) : G.TerminationModel :=
  match t with
  | Runtime l f => G.TerminationModel_QueryRuntimeLimit l f
  | Size l => G.TerminationModel_SolutionSizeLimit l
  | Iter l => G.TerminationModel_IterationsLimit l
  | Combined ms => G.TerminationModel_Combined (map to_gen ms)
  end.
Fixpoint of_gen (g : G.TerminationModel) : term :=
  match g with
  | G.TerminationModel_QueryRuntimeLimit l f => Runtime l f
  | G.TerminationModel_SolutionSizeLimit l => Size l
  | G.TerminationModel_IterationsLimit l => Iter l
  | G.TerminationModel_Combined ms => Combined (map of_gen ms)
  end.
Theorem gen_term_same_variants : forall t, of_gen (to_gen t) = t.
Proof.
  induction t as [l f|l|l|ms IH] using term_ind'; cbn [to_gen of_gen]; try reflexivity.
  f_equal. rewrite map_map. induction IH as [|x r Hx _ IHr]; [reflexivity|]. cbn [map]. rewrite Hx, IHr. reflexivity.
Qed.

(* TerminationModelError::QueryTerminated(msg) / RuntimeError(..) as the model writes error classes *)
Definition model_err_text (variant : string) (msg : option string) : string :=
  match msg with
  | Some m => if String.eqb variant "QueryTerminated" then "terminated: " ++ m else "termination: " ++ variant
  | None => if String.eqb variant "RuntimeError" then "termination: unable to explain termination" else "termination: " ++ variant
  end.

Section Agree.
  Variable ck : clock.
  Variable size it : nat.
  Notation gts g := (G.terminate_search g (ck it) (N.of_nat size) (N.of_nat it)).
  Notation gex g := (G.explain_termination hhmmss show_N g (ck it) (N.of_nat size) (N.of_nat it)).

  (* the model's inner loop of Combined is the generated try_fold *)
  Lemma go_try_fold : forall (l : list term) (acc : bool),
    Forall (fun m => terminate_search m ck size it = gts (to_gen m)) l ->
    (fix go (l : list term) (acc : bool) : res bool :=
       match l with
       | [] => Ok acc
       | m :: r => do b <- terminate_search m ck size it; go r (acc || b)
       end) l acc
    = G.try_fold (fun acc m => rmap (fun r => acc || r) (gts m)) (map to_gen l) acc.
  Proof.
    intros l acc H. revert acc. induction H as [|m r Hm _ IH]; intros acc; [reflexivity|].
    cbn [map G.try_fold]. rewrite <- Hm. unfold rmap.
    destruct (terminate_search m ck size it) as [b| | |]; cbn [bind]; try reflexivity. apply IH.
  Qed.

  Theorem gen_terminate_search_agrees : forall t : term, terminate_search t ck size it = gts (to_gen t).
  Proof.
    induction t as [l f|l|l|ms IH] using term_ind'; cbn [terminate_search to_gen G.terminate_search]; try reflexivity.
    - unfold G.u64_rem. destruct (N.eqb f 0); reflexivity.
    - apply go_try_fold. exact IH.
  Qed.

  Lemma unwrap_same : forall r : res bool, unwrap_or_false r = G.unwrap_or r false.
  Proof. intros []; reflexivity. Qed.

  Lemma go_filter_map : forall l : list term,
    Forall (fun m => explain m ck size it = gex (to_gen m)) l ->
    (fix go (l : list term) : res (list string) :=
       match l with
       | [] => Ok []
       | m :: r =>
           do e <- explain m ck size it;
           do rest <- go r;
           Ok (match e with Some s => s :: rest | None => rest end)
       end) l
    = G.filter_map_res (fun m => gex m) (map to_gen l).
  Proof.
    intros l H. induction H as [|m r Hm _ IH]; [reflexivity|].
    cbn [map G.filter_map_res]. rewrite <- Hm, <- IH. reflexivity.
  Qed.

  Theorem gen_explain_agrees : forall t : term, explain t ck size it = gex (to_gen t).
  Proof.
    induction t as [l f|l|l|ms IH] using term_ind'.
    - cbn [explain G.explain_termination to_gen]. rewrite unwrap_same, (gen_terminate_search_agrees (Runtime l f)). cbn [to_gen].
      destruct (G.unwrap_or (gts (G.TerminationModel_QueryRuntimeLimit l f)) false) as [[]| | |]; reflexivity.
    - cbn [explain G.explain_termination to_gen]. rewrite unwrap_same, (gen_terminate_search_agrees (Size l)). cbn [to_gen].
      destruct (G.unwrap_or (gts (G.TerminationModel_SolutionSizeLimit l)) false) as [[]| | |]; reflexivity.
    - cbn [explain G.explain_termination to_gen]. rewrite unwrap_same, (gen_terminate_search_agrees (Iter l)). cbn [to_gen].
      destruct (G.unwrap_or (gts (G.TerminationModel_IterationsLimit l)) false) as [[]| | |]; reflexivity.
    - 
      cbn [to_gen]. cbn [explain G.explain_termination]. rewrite unwrap_same.
      rewrite (gen_terminate_search_agrees (Combined ms)). cbn [to_gen].
      destruct (G.unwrap_or (gts (G.TerminationModel_Combined (map to_gen ms))) false) as [c| | |]; cbn [bind]; try reflexivity.
      rewrite (go_filter_map ms IH). reflexivity.
  Qed.

  Theorem gen_test_agrees : forall t : term,
    test t ck size it = G.test hhmmss show_N model_err_text (to_gen t) (ck it) (N.of_nat size) (N.of_nat it).
  Proof.
    intros t. unfold test, G.test. rewrite gen_terminate_search_agrees.
    destruct (gts (to_gen t)) as [[]| | |]; cbn [bind]; try reflexivity.
    rewrite gen_explain_agrees. destruct (gex (to_gen t)) as [[msg|]| | |]; reflexivity.
  Qed.
End Agree.

Check gen_terminate_search_agrees : forall (ck : clock) (size it : nat) (t : term),
  terminate_search t ck size it = G.terminate_search (to_gen t) (ck it) (N.of_nat size) (N.of_nat it).
Check gen_test_agrees : forall (ck : clock) (size it : nat) (t : term),
  test t ck size it = G.test hhmmss show_N model_err_text (to_gen t) (ck it) (N.of_nat size) (N.of_nat it).

(* non-vacuity, through the GENERATED functions: an iteration limit of 3 lets iterations 0..2 pass and stops the 4th
   test with the generated message; a runtime limit checked every 5 iterations ignores the clock in between; a zero
   frequency panics *)
Example gen_termination_example :
  G.test hhmmss show_N model_err_text (G.TerminationModel_IterationsLimit 3) 0 0 2 = Ok tt
  /\ G.test hhmmss show_N model_err_text (G.TerminationModel_IterationsLimit 3) 0 0 3
     = Err "terminated: exceeded iteration limit of 3"
  /\ G.terminate_search (G.TerminationModel_QueryRuntimeLimit 1000 5) 2000 0 4 = Ok false
  /\ G.terminate_search (G.TerminationModel_QueryRuntimeLimit 1000 5) 2000 0 5 = Ok true
  /\ G.terminate_search (G.TerminationModel_Combined [G.TerminationModel_SolutionSizeLimit 9; G.TerminationModel_QueryRuntimeLimit 1 0]) 0 0 0
     = Panic "attempt to calculate the remainder with a divisor of zero".
Proof. repeat split; vm_compute; reflexivity. Qed.

End GenTermination.

Print Assumptions GenTermination.gen_term_same_variants.
Print Assumptions GenTermination.gen_terminate_search_agrees.
Print Assumptions GenTermination.gen_explain_agrees.
Print Assumptions GenTermination.gen_test_agrees.
