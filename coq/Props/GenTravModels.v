(* Agreement between the hand-written traversal models (Model/Traversal.v: traverse_edge, tm_state_features, get_speed)
   and the definitions REGENERATED from the Rust source on every run (Gen/TraversalModels.v, written by
   translator/tr_travmodels.py from routee-compass-core/src/model/traversal/default/{distance_traversal_model,
   speed_traversal_model, speed_traversal_engine}.rs and unit/{time, distance, internal_float}.rs).

   Every theorem is for ALL inputs and every numeric record.  The generated functions are parametric in the unit types,
   BASE_DISTANCE_UNIT, the conversion, Time::create, the state model's add_distance / add_time and the error-class text;
   they are instantiated with Model/Units.v and Model/StateOps.v (the state-model reading Model/Traversal.v is written
   against).  State features are generated with the constructors of Gen/StateFeature.v; [ops_feature] reads them as
   Model/StateOps.v's features.  The source writes the initial values as Time::ZERO / Distance::ZERO = 0.0, the model
   writes [zero]: [lit_zero N] as in Props/GenSoc.v, with a hypothesis-free corollary for the rationals.

   These are proof obligations of property C03 (checks/c03.py lists this file): a changed conversion direction, lookup,
   Time::create argument order, order or target of the add_* calls, feature name, feature list or initial value in the
   Rust source changes Gen/TraversalModels.v and one of them stops compiling.                                    *)
From Coq Require Import ZArith QArith List String Bool.
From RC Require Import Base.Num Base.Res Model.Units Model.StateOps Model.Traversal Gen.StateFeature Gen.TraversalModels.
Import ListNotations.
Local Open Scope string_scope.

Module GenTravModels.
Import Units StateOps Traversal.
Module G := TraversalModels.
Module GF := StateFeature.

Definition lit_zero (N : Num) : Prop := lit (n:=N) 0 0 = zero.
Lemma lit_zero_QN : lit_zero QN.
Proof. reflexivity. Qed.

(* the feature names *)
Theorem gen_feature_names_agree :
  distance_name = G.DistanceTraversalModel_DISTANCE /\ distance_name = G.SpeedTraversalModel_DISTANCE
  /\ time_name = G.SpeedTraversalModel_TIME.
Proof. repeat split; reflexivity. Qed.

Section Agree.
  Variable N : Num.
  (* TraversalModelError::<variant> as the model writes error classes: the variant's name *)
  Definition model_err_class (variant : string) : string := variant.

  Theorem gen_get_speed_agrees : forall (table : list N) (e : nat),
    get_speed N table e = G.get_speed N model_err_class table e.
  Proof. intros table e. unfold get_speed, G.get_speed. destruct (nth_error table e); reflexivity. Qed.

  Notation g_distance_traverse :=
    (G.distance_traverse_edge N dist_unit base_distance_unit (convert_distance N) (list N) (smodel N) (add_distance N)).
  Notation g_speed_traverse :=
    (G.speed_traverse_edge N dist_unit time_unit speed_unit base_distance_unit (convert_distance N) (create_time N)
       (list N) (smodel N) (add_distance N) (add_time N) model_err_class).

  Theorem gen_traverse_edge_agrees : forall (tm : tmodel N) (sm : smodel N) (eid : nat) (e : edge N) (st : list N),
    traverse_edge N tm sm eid e st =
    match tm with
    | TMDistance du => g_distance_traverse du eid (e_dist e) st sm
    | TMSpeed en => g_speed_traverse (sp_table en) (sp_su en) (sp_tu en) (sp_du en) (sp_max en) eid (e_dist e) st sm
    end.
  Proof.
    intros [du|en] sm eid e st; cbn [traverse_edge]; unfold G.distance_traverse_edge, G.speed_traverse_edge.
    - change G.DistanceTraversalModel_DISTANCE with distance_name. destruct (add_distance N sm st distance_name _ du); reflexivity.
    - rewrite <- gen_get_speed_agrees. destruct (get_speed N (sp_table en) eid) as [speed| | |]; cbn [bind]; try reflexivity.
      destruct (create_time N speed (sp_su en) _ (sp_du en) (sp_tu en)) as [t| | |]; cbn [bind]; try reflexivity.
      change G.SpeedTraversalModel_TIME with time_name. change G.SpeedTraversalModel_DISTANCE with distance_name.
      destruct (add_time N sm st time_name t (sp_tu en)) as [st1| | |]; cbn [bind]; try reflexivity.
      destruct (add_distance N sm st1 distance_name _ (sp_du en)); reflexivity.
  Qed.

  (* a generated state feature read as a feature of Model/StateOps.v (custom features do not occur here) *)
  Definition ops_feature (g : GF.StateFeature N dist_unit time_unit energy_unit) : option (feature N) :=
    match g with
    | GF.StateFeature_Distance u i => Some (FDistance u i)
    | GF.StateFeature_Time u i => Some (FTime u i)
    | GF.StateFeature_Energy u i => Some (FEnergy u i)
    | GF.StateFeature_Custom _ _ _ => None
    end.
  Definition gen_features (tm : tmodel N) : list (string * GF.StateFeature N dist_unit time_unit energy_unit) :=
    match tm with
    | TMDistance du => G.distance_state_features N dist_unit time_unit energy_unit du
    | TMSpeed en => G.speed_state_features N dist_unit time_unit speed_unit energy_unit (sp_table en) (sp_su en) (sp_tu en) (sp_du en) (sp_max en)
    end.

  Hypothesis HZ : lit_zero N.
  Theorem gen_state_features_agree : forall tm : tmodel N,
    map (fun nf => (fst nf, Some (snd nf))) (tm_state_features N tm)
    = map (fun ng => (fst ng, ops_feature (snd ng))) (gen_features tm).
  Proof.
    intros [du|en]; cbn [tm_state_features gen_features]; unfold G.distance_state_features, G.speed_state_features; cbn [map fst snd ops_feature].
    - reflexivity.
    - rewrite HZ. reflexivity.
  Qed.
End Agree.

Theorem gen_state_features_agree_Q : forall tm : tmodel QN,
  map (fun nf => (fst nf, Some (snd nf))) (tm_state_features QN tm)
  = map (fun ng => (fst ng, ops_feature QN (snd ng))) (gen_features QN tm).
Proof. exact (gen_state_features_agree QN lit_zero_QN). Qed.

Check gen_traverse_edge_agrees.
Check gen_get_speed_agrees : forall (N : Num) (table : list N) (e : nat), get_speed N table e = G.get_speed N model_err_class table e.

(* non-vacuity, through the GENERATED definitions in Q: the speed model adds 1000 m / (10 m/s) = 100 s and 1000 m to a
   (time, distance) state; an edge without a speed row is an error; the speed model declares time before distance *)
Example gen_travmodels_example :
  let sm := [("time", FTime Seconds 0%Q); ("distance", FDistance Meters 0%Q)] in
  match G.speed_traverse_edge QN dist_unit time_unit speed_unit base_distance_unit (convert_distance QN) (create_time QN)
          (list Q) (smodel QN) (add_distance QN) (add_time QN) model_err_class
          [10%Q] MetersPerSecond Seconds Meters 10%Q 0%nat 1000%Q [0%Q; 0%Q] sm with
  | Ok [t; d] => Qeq_bool t 100 && Qeq_bool d 1000
  | _ => false
  end = true
  /\ G.get_speed QN model_err_class [60%Q] 3%nat = Err "TraversalModelFailure"
  /\ map fst (G.speed_state_features QN dist_unit time_unit speed_unit energy_unit [] KilometersPerHour Minutes Kilometers 1%Q)
     = ["time"; "distance"].
Proof. repeat split; vm_compute; reflexivity. Qed.

End GenTravModels.

Print Assumptions GenTravModels.gen_feature_names_agree.
Print Assumptions GenTravModels.gen_get_speed_agrees.
Print Assumptions GenTravModels.gen_traverse_edge_agrees.
Print Assumptions GenTravModels.gen_state_features_agree.
Print Assumptions GenTravModels.gen_state_features_agree_Q.
