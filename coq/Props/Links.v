(* LINKS between the property developments: theorems that several Props/Cxx.v state RELATIVE to a premise another
   property proves, with the composition itself proved here.  Only statements: each theorem is closed by [exact] of a
   lemma of Proofs/Link*.v, pinned by [Check], given a non-vacuity [Example], and followed by Print Assumptions.

   L1 (C03 <- C02, C04, C01)  C03 characterises the states along a route under the premise [chain] (every hop was computed
        from the state and previous edge its predecessor left).  For the routes RETURNED BY Search.run_vertex_oriented the
        premise holds under C02's hypotheses (Dijkstra over an abstract cost algebra; A-star over Q with a consistent
        estimate): the route is [route_fold (traverse d) None init] of its own edge ids.  Instantiated with the traversal
        model of Model/Traversal.v this gives "distance = sum of lengths, time = sum of length / speed + turn delays" for
        the route a search returns, as one closed statement about the two models together.
   L2 (C13 <- C01, C02, C03)  single-via k-shortest paths over that search: route 0 is least among all permitted walks,
        every returned route (forward half and re-oriented reverse half) is the fold along its own edges.
   L3 (C05 <- C02, C01)       destination-less Dijkstra: the cost of the TREE PATH to v (fold of the branch costs along the
        parent chain) equals the label of v and is least among all permitted walks; every tree vertex has such a path.
   L4 (C10 with C01, C05)     a limited search that returns Ok returns what the unlimited search returns, and that is a
        walk from the origin that reaches the destination (through permitted edges under C05's hypotheses).

   Reading guide: [route_fold trav prev st es] is the left fold of the traversal function along the edge ids es,
   access then traversal, the previous edge being the route's previous edge (prev for the first hop) - literally
   Ksp.retraverse / C03's [walk].  [route_end prev st r] = (last edge, last state) of r, (prev, st) when r is empty. *)
From Coq Require Import ZArith QArith List Arith Bool String Lia Permutation.
From stdpp Require Import gmap.
From RC Require Import Base.Num Base.Res Model.Units Model.StateOps Model.Traversal Model.TraversalSpec Model.Search
  Model.SearchSpec Model.SearchRun Model.Ksp Model.KspSpec Model.KspRun Model.Reach Model.Termination
  Proofs.TraversalWalk Proofs.Traversal Proofs.SearchRoute Proofs.ReachInv Proofs.ReachCost Proofs.KspConcrete
  Proofs.Optimal Proofs.OptimalCore Proofs.OptimalInst
  Proofs.LinkChain Proofs.LinkTraversal Proofs.LinkKsp Proofs.LinkKspModel Proofs.LinkReach Proofs.LinkExample.
Import ListNotations.
Import Search SearchSpec Optimal OptimalCore OptimalInst LinkChain.

(* ================================================================== L1, generic *)

(* what "is the fold" gives per hop: the k-th reported edge is the k-th edge, the first k hops are the fold along the
   first k edges, and the k-th hop's (access cost, traversal cost, state) are what [trav] returned for that edge from the
   (last edge, last state) of the first k hops; the first k+1 hops end in the k-th hop's edge and state *)
Theorem link_fold_kth : forall (C St : Type) (trav : nat -> option nat -> St -> res (C * C * St)) es prev st r k et,
  route_fold trav prev st es = Ok r -> nth_error r k = Some et ->
  nth_error es k = Some (et_edge et)
  /\ route_fold trav prev st (firstn k es) = Ok (firstn k r)
  /\ trav (et_edge et) (fst (route_end prev st (firstn k r))) (snd (route_end prev st (firstn k r)))
     = Ok (et_access et, et_trav et, et_state et)
  /\ route_end prev st (firstn (S k) r) = (Some (et_edge et), et_state et).
Proof. exact @route_fold_nth. Qed.

(* Dijkstra (estimate equivalent to zero), abstract ordered costs, every graph, both directions, every fuel: the returned
   route - and the tree path to EVERY vertex of the returned tree - is the fold of [traverse d] from (None, init) *)
Theorem link_dijkstra_route_is_fold :
  forall (C St : Type) (clt : C -> C -> bool) (cadd : C -> C -> C) (czero : C) (cfloor : C -> C),
    cost_algebra clt cadd czero -> (forall x, ceq clt (cadd x czero) x) ->
  forall (g : graph) (frontier : nat -> St -> option nat -> res bool)
         (traverse : dir -> nat -> option nat -> St -> res (C * C * St)) (estimate : nat -> nat -> St -> res C)
         (init_state : res St) (terminate : nat -> nat -> option string) (d : dir) (source : nat) (target : option nat)
         (c : nat -> C) (ok : nat -> bool),
    (forall e st prev b, frontier e st prev = Ok b -> b = ok e) ->
    (forall e prev st ac tc st', traverse d e prev st = Ok (ac, tc, st') -> ceq clt (cfloor (cadd ac tc)) (c e)) ->
    (forall a e, ok e = true -> cle clt a (cadd a (c e))) ->
    (forall v t st h, target = Some t -> estimate v t st = Ok h -> ceq clt h czero) ->
  forall fuel t res, target = Some t ->
    run_vertex_oriented clt cadd czero cfloor g frontier traverse estimate init_state terminate fuel d source target = Ok res ->
    exists tree r, r_trees res = [tree] /\ r_routes res = [r]
      /\ (forall init, init_state = Ok init ->
            route_fold (traverse d) None init (map et_edge r) = Ok r
            /\ forall v rv, vertex_oriented_route source v tree = Ok rv ->
                 route_fold (traverse d) None init (map et_edge rv) = Ok rv)
      /\ (t <> source -> exists init, init_state = Ok init).
Proof. exact @dijkstra_route_is_fold. Qed.

(* the same for the tree alone (with or without a destination) *)
Theorem link_dijkstra_tree_route_fold :
  forall (C St : Type) (clt : C -> C -> bool) (cadd : C -> C -> C) (czero : C) (cfloor : C -> C),
    cost_algebra clt cadd czero -> (forall x, ceq clt (cadd x czero) x) ->
  forall g frontier traverse estimate (init_state : res St) terminate d source target (c : nat -> C) ok,
    (forall e st prev b, frontier e st prev = Ok b -> b = ok e) ->
    (forall e prev st ac tc st', traverse d e prev st = Ok (ac, tc, st') -> ceq clt (cfloor (cadd ac tc)) (c e)) ->
    (forall a e, ok e = true -> cle clt a (cadd a (c e))) ->
    (forall v t st h, target = Some t -> estimate v t st = Ok h -> ceq clt h czero) ->
  forall fuel tree it init v r,
    run_a_star clt cadd czero cfloor g frontier traverse estimate init_state terminate fuel d source target = Ok (tree, it) ->
    init_state = Ok init -> vertex_oriented_route source v tree = Ok r ->
    route_fold (traverse d) None init (map et_edge r) = Ok r.
Proof. exact @dijkstra_tree_route_fold. Qed.

(* A-star over Q: estimate = w * h, h consistent in the search direction on permitted edges, 0 <= w <= 1 *)
Theorem link_astar_route_is_fold :
  forall (St : Type) (cfloor : Q -> Q) (g : graph) (frontier : nat -> St -> option nat -> res bool)
         (traverse : dir -> nat -> option nat -> St -> res (Q * Q * St)) (estimate : nat -> nat -> St -> res Q)
         (init_state : res St) (terminate : nat -> nat -> option string) (d : dir) (source t : nat)
         (c : nat -> Q) (ok : nat -> bool) (h : nat -> Q) (w : Q),
    (forall e st prev b, frontier e st prev = Ok b -> b = ok e) ->
    (forall e prev st ac tc st', traverse d e prev st = Ok (ac, tc, st') -> cfloor (ac + tc) == c e)%Q ->
    (forall e, ok e = true -> 0 <= c e)%Q ->
    (0 <= w /\ w <= 1)%Q ->
    (forall v st x, estimate v t st = Ok x -> x == w * h v)%Q ->
    (forall e ed, get_edge g e = Some ed -> ok e = true -> h (term_vertex d ed) <= c e + h (key_vertex d ed))%Q ->
  forall fuel res,
    run_vertex_oriented Qltb Qplus 0%Q cfloor g frontier traverse estimate init_state terminate fuel d source (Some t) = Ok res ->
    exists tree r, r_trees res = [tree] /\ r_routes res = [r]
      /\ (forall init, init_state = Ok init ->
            route_fold (traverse d) None init (map et_edge r) = Ok r
            /\ forall v rv, vertex_oriented_route source v tree = Ok rv ->
                 route_fold (traverse d) None init (map et_edge rv) = Ok rv)
      /\ (t <> source -> exists init, init_state = Ok init).
Proof. exact @astar_w_route_is_fold. Qed.

(* the one proof behind both: any priority F v x = cadd x (hv v) with (edge) and (reflect), any queue whose pop returns
   some entry of minimal priority (C02's c02_generic_optimal has the same hypotheses) *)
Definition link_generic_route_is_fold := @route_is_fold.
Definition link_generic_tree_chain := @run_a_star_chain.

(* ================================================================== L1, on the traversal model of Model/Traversal.v *)
Import Units StateOps Traversal TSpec LinkTraversal.
Notation tstep := RC.Proofs.Traversal.step.

(* a fold of [trav_of inst d] IS C03's walk (run_forward / run_reverse) and meets C03's premise [chain] *)
Theorem link_fold_is_c03_walk : forall (inst : instance Q) d es prev st r,
  route_fold (trav_of inst d) prev st es = Ok r ->
  walk QN (tstep inst (tdir d)) prev st es = Ok (map conv r)
  /\ RC.Proofs.TraversalWalk.chain QN (tstep inst (tdir d)) prev st (map conv r)
  /\ (tstep inst (tdir Search.Forward) = forward_traversal QN inst /\ tstep inst (tdir Search.Reverse) = reverse_traversal QN inst).
Proof.
  intros inst d es prev st r H. split; [exact (fold_is_walk inst d es prev st r H)|].
  split; [exact (fold_is_chain inst d es prev st r H) | split; reflexivity].
Qed.

(* the route returned by a Dijkstra search over the traversal model reports the true sums: for every hop k,
   distance = d0 + (sum of the lengths of the first k+1 edges) * Kd,
   time     = t0 + (sum of length / table speed) * Kt + (sum of the delays of the turns actually taken) * Kdelay,
   every other feature as declared; the first hop carries no access cost; and the whole route is C03's walk, so every
   theorem of Props/C03.v (monotone, cost = delta, summary = last state) applies to it *)
Theorem link_dijkstra_route_true_sums :
  forall (inst : instance Q) i_d i_t fu_d fu_t d0 t0, configured inst i_d i_t fu_d fu_t d0 t0 ->
  forall (d : Search.dir) (cfloor : Q -> Q) (frontier : nat -> list Q -> option nat -> res bool)
         (estimate : nat -> nat -> list Q -> res Q) (terminate : nat -> nat -> option string) (source t : nat)
         (c : nat -> Q) (ok : nat -> bool),
    (forall e st prev b, frontier e st prev = Ok b -> b = ok e) ->
    (forall e prev st et, tstep inst (tdir d) e prev st = Ok et -> cfloor (et_access et + et_trav et) == c e)%Q ->
    (forall e, ok e = true -> 0 <= c e)%Q ->
    (forall v st x, estimate v t st = Ok x -> x == 0)%Q ->
  forall fuel res,
    Search.run_vertex_oriented Qltb Qplus 0%Q cfloor (sgraph inst) frontier (trav_of inst) estimate
      (Ok (initial_state (i_sm inst))) terminate fuel d source (Some t) = Ok res ->
    exists r, Search.r_routes res = [r]
      /\ walk QN (tstep inst (tdir d)) None (initial_state (i_sm inst)) (map Search.et_edge r) = Ok (map conv r)
      /\ forall k et, nth_error r k = Some et ->
           (slot (Search.et_state et) i_d == d0 + sum_len inst (firstn (S k) (map Search.et_edge r)) * Kd inst fu_d
            /\ slot (Search.et_state et) i_t
               == t0 + sum_len_over_speed inst (firstn (S k) (map Search.et_edge r)) * Kt inst fu_t
                     + sum_delay inst (tdir d) None (firstn (S k) (map Search.et_edge r)) * Kdelay inst fu_t)%Q
           /\ (forall j, j <> i_d -> j <> i_t -> slot (Search.et_state et) j = slot (initial_state (i_sm inst)) j)
           /\ (k = 0%nat -> Search.et_access et = 0%Q).
Proof.
  intros inst i_d i_t fu_d fu_t d0 t0 Hcfg d cfloor frontier estimate terminate source t c ok Hf Hl Hp He fuel res H.
  destruct (dijkstra_route_sums inst i_d i_t fu_d fu_t d0 t0 Hcfg d cfloor frontier estimate terminate source t c ok
              Hf Hl Hp He fuel res H) as (r & Hr & Hw & Hs).
  exists r. split; [exact Hr|]. split; [exact Hw|]. intros k et Hk. destruct (Hs k et Hk) as (H1 & H2 & H3 & H4). auto.
Qed.

Theorem link_astar_route_true_sums :
  forall (inst : instance Q) i_d i_t fu_d fu_t d0 t0, configured inst i_d i_t fu_d fu_t d0 t0 ->
  forall (d : Search.dir) (cfloor : Q -> Q) (frontier : nat -> list Q -> option nat -> res bool)
         (estimate : nat -> nat -> list Q -> res Q) (terminate : nat -> nat -> option string) (source t : nat)
         (c : nat -> Q) (ok : nat -> bool) (h : nat -> Q) (w : Q),
    (forall e st prev b, frontier e st prev = Ok b -> b = ok e) ->
    (forall e prev st et, tstep inst (tdir d) e prev st = Ok et -> cfloor (et_access et + et_trav et) == c e)%Q ->
    (forall e, ok e = true -> 0 <= c e)%Q ->
    (0 <= w /\ w <= 1)%Q ->
    (forall v st x, estimate v t st = Ok x -> x == w * h v)%Q ->
    (forall e ed, Search.get_edge (sgraph inst) e = Some ed -> ok e = true ->
       h (Search.term_vertex d ed) <= c e + h (Search.key_vertex d ed))%Q ->
  forall fuel res,
    Search.run_vertex_oriented Qltb Qplus 0%Q cfloor (sgraph inst) frontier (trav_of inst) estimate
      (Ok (initial_state (i_sm inst))) terminate fuel d source (Some t) = Ok res ->
    exists r, Search.r_routes res = [r]
      /\ walk QN (tstep inst (tdir d)) None (initial_state (i_sm inst)) (map Search.et_edge r) = Ok (map conv r)
      /\ forall k et, nth_error r k = Some et ->
           (slot (Search.et_state et) i_d == d0 + sum_len inst (firstn (S k) (map Search.et_edge r)) * Kd inst fu_d
            /\ slot (Search.et_state et) i_t
               == t0 + sum_len_over_speed inst (firstn (S k) (map Search.et_edge r)) * Kt inst fu_t
                     + sum_delay inst (tdir d) None (firstn (S k) (map Search.et_edge r)) * Kdelay inst fu_t)%Q
           /\ (forall j, j <> i_d -> j <> i_t -> slot (Search.et_state et) j = slot (initial_state (i_sm inst)) j)
           /\ (k = 0%nat -> Search.et_access et = 0%Q).
Proof.
  intros inst i_d i_t fu_d fu_t d0 t0 Hcfg d cfloor frontier estimate terminate source t c ok h w Hf Hl Hp Hw0 He Hc fuel res H.
  destruct (astar_route_sums inst i_d i_t fu_d fu_t d0 t0 Hcfg d cfloor frontier estimate terminate source t c ok
              Hf Hl Hp h w Hw0 He Hc fuel res H) as (r & Hr & Hw & Hs).
  exists r. split; [exact Hr|]. split; [exact Hw|]. intros k et Hk. destruct (Hs k et Hk) as (H1 & H2 & H3 & H4). auto.
Qed.

(* ================================================================== L2: single-via over Search.run_vertex_oriented *)
Import Ksp LinkKsp.

(* route 0 of the single-via driver has least accumulated cost among ALL permitted walks from s to t *)
Theorem link_sv_first_least :
  forall (C St : Type) (clt : C -> C -> bool) (cadd : C -> C -> C) (czero : C) (cfloor : C -> C),
    cost_algebra clt cadd czero -> (forall x, ceq clt (cadd x czero) x) ->
  forall (g : Search.graph) (frontier : nat -> St -> option nat -> res bool)
         (traverse : Search.dir -> nat -> option nat -> St -> res (C * C * St)) (estimate : nat -> nat -> St -> res C)
         (init_state : res St) (terminate : nat -> nat -> option string) (c : nat -> C) (ok : nat -> bool) (fuel : nat)
         (sim : list nat -> list nat -> res bool) (pick : list (nat * C) -> option (nat * C * list (nat * C))),
    (forall q v c0 q', pick q = Some (v, c0, q') -> Permutation q ((v, c0) :: q')) ->
    (forall e st prev b, frontier e st prev = Ok b -> b = ok e) ->
    (forall d e prev st ac tc st', traverse d e prev st = Ok (ac, tc, st') -> ceq clt (cfloor (cadd ac tc)) (c e)) ->
    (forall a e, cle clt a (cadd a (c e))) ->
    (forall v t st h, estimate v t st = Ok h -> ceq clt h czero) ->
  forall k term s t r, 1 <= k ->
    sv_run cadd cfloor g (traverse Search.Forward) init_state
      (usearch clt cadd czero cfloor g frontier traverse estimate init_state terminate fuel) sim pick k term s t = Ok r ->
    exists r0, nth_error (Search.r_routes r) 0 = Some r0
      /\ permitted_walk g Search.Forward ok s (map Search.et_edge r0) t
      /\ ceq clt (OptimalInst.route_cost cadd czero cfloor r0) (path_cost cadd czero c (map Search.et_edge r0))
      /\ forall P, permitted_walk g Search.Forward ok s P t -> cle clt (OptimalInst.route_cost cadd czero cfloor r0) (path_cost cadd czero c P).
Proof. exact @sv_first_least. Qed.

(* EVERY returned route (forward-tree half ++ re-oriented reverse half) is the fold of the forward traversal along its
   own edge ids from the initial state *)
Theorem link_sv_routes_fold :
  forall (C St : Type) (clt : C -> C -> bool) (cadd : C -> C -> C) (czero : C) (cfloor : C -> C),
    cost_algebra clt cadd czero -> (forall x, ceq clt (cadd x czero) x) ->
  forall (g : Search.graph) (frontier : nat -> St -> option nat -> res bool)
         (traverse : Search.dir -> nat -> option nat -> St -> res (C * C * St)) (estimate : nat -> nat -> St -> res C)
         (init_state : res St) (terminate : nat -> nat -> option string) (c : nat -> C) (ok : nat -> bool) (fuel : nat)
         (sim : list nat -> list nat -> res bool) (pick : list (nat * C) -> option (nat * C * list (nat * C))),
    (forall e st prev b, frontier e st prev = Ok b -> b = ok e) ->
    (forall d e prev st ac tc st', traverse d e prev st = Ok (ac, tc, st') -> ceq clt (cfloor (cadd ac tc)) (c e)) ->
    (forall a e, cle clt a (cadd a (c e))) ->
    (forall v t st h, estimate v t st = Ok h -> ceq clt h czero) ->
  forall k term s t r,
    sv_run cadd cfloor g (traverse Search.Forward) init_state
      (usearch clt cadd czero cfloor g frontier traverse estimate init_state terminate fuel) sim pick k term s t = Ok r ->
    (s <> t -> exists init, init_state = Ok init)
    /\ forall init, init_state = Ok init -> forall x, In x (Search.r_routes r) ->
         route_fold (traverse Search.Forward) None init (map Search.et_edge x) = Ok x.
Proof. exact @sv_routes_fold. Qed.

(* ---- L2 for the executable model of the C13 correspondence stream over exact rationals (KR.run QN), worlds without turn
        costs / turn restrictions, underlying Dijkstra: c e = pos (cost table e), ok e = e not forbidden ---- *)
Theorem link_sv_model_first_least : forall fuel (w : SR.world QN),
    SR.w_turn QN w = [] -> SR.w_fturn QN w = [] ->
  forall (q : KR.kq QN), KR.kq_alg QN q = KSingleVia -> KR.kq_under QN q = SR.ADijkstra QN -> KR.kq_wf QN q = None ->
  forall k s t (r : Search.sresult Q Q),
    KR.kq_source QN q = s -> KR.kq_target QN q = Some t -> ksp_query_k (KR.kq_k QN q) (KR.kq_qk QN q) = Ok k -> 1 <= k ->
    KR.run QN cos_ge_Q fuel w q = Ok r ->
    exists r0, nth_error (Search.r_routes r) 0 = Some r0
      /\ permitted_walk (SR.graph_of QN w) Search.Forward (LinkKspModel.okw w) s (map Search.et_edge r0) t
      /\ (OptimalInst.route_cost Qplus 0 (SR.pos QN) r0 == path_cost Qplus 0 (LinkKspModel.cw w) (map Search.et_edge r0))%Q
      /\ forall P, permitted_walk (SR.graph_of QN w) Search.Forward (LinkKspModel.okw w) s P t ->
           (OptimalInst.route_cost Qplus 0 (SR.pos QN) r0 <= path_cost Qplus 0 (LinkKspModel.cw w) P)%Q.
Proof. exact LinkKspModel.sv_model_first_least. Qed.

Theorem link_sv_model_routes_fold : forall fuel (w : SR.world QN),
    SR.w_turn QN w = [] -> SR.w_fturn QN w = [] ->
  forall (q : KR.kq QN), KR.kq_alg QN q = KSingleVia -> KR.kq_under QN q = SR.ADijkstra QN -> KR.kq_wf QN q = None ->
  forall k s t (r : Search.sresult Q Q),
    KR.kq_source QN q = s -> KR.kq_target QN q = Some t -> ksp_query_k (KR.kq_k QN q) (KR.kq_qk QN q) = Ok k ->
    KR.run QN cos_ge_Q fuel w q = Ok r ->
    forall x, In x (Search.r_routes r) ->
      route_fold (SR.traverse QN w Search.Forward) None (SR.w_init QN w) (map Search.et_edge x) = Ok x.
Proof. exact LinkKspModel.sv_model_routes_fold. Qed.

(* ================================================================== L3: tree path cost = label = least *)
Import LinkReach.

Theorem link_tree_path_cost_is_least_label :
  forall (C St : Type) (clt : C -> C -> bool) (cadd : C -> C -> C) (czero : C) (cfloor : C -> C),
    cost_algebra clt cadd czero -> (forall x, ceq clt (cadd x czero) x) ->
  forall (g : Search.graph) (frontier : nat -> St -> option nat -> res bool)
         (traverse : Search.dir -> nat -> option nat -> St -> res (C * C * St)) (estimate : nat -> nat -> St -> res C)
         (init_state : res St) (terminate : nat -> nat -> option string) (d : Search.dir) (source : nat)
         (c : nat -> C) (ok : nat -> bool),
    (forall e st prev b, frontier e st prev = Ok b -> b = ok e) ->
    (forall e prev st ac tc st', traverse d e prev st = Ok (ac, tc, st') -> ceq clt (cfloor (cadd ac tc)) (c e)) ->
    (forall a e, ok e = true -> cle clt a (cadd a (c e))) ->
  forall fuel s,
    Search.run_a_star_state clt cadd czero cfloor g frontier traverse estimate init_state terminate fuel d source None = Ok s ->
    forall v r, Search.vertex_oriented_route source v (Search.s_tree s) = Ok r ->
      exists l, Search.s_g s !! v = Some l
        /\ Reach.pwalk ok d g source (map Search.et_edge r) v
        /\ ceq clt (OptimalInst.route_cost cadd czero cfloor r) l
        /\ ceq clt (ReachCostP.wcostC cadd c (map Search.et_edge r) czero) l
        /\ forall es, Reach.pwalk ok d g source es v -> cle clt l (ReachCostP.wcostC cadd c es czero).
Proof. exact @tree_path_cost_is_least_label. Qed.

(* with the hypothesis C01 and C05 carry (adding the cost of any traversed edge never decreases a label): every vertex of
   the returned tree has a tree path, a chained walk without a repeated edge, with exactly that cost *)
Theorem link_tree_paths_exist_and_are_least :
  forall (C St : Type) (clt : C -> C -> bool) (cadd : C -> C -> C) (czero : C) (cfloor : C -> C),
    cost_algebra clt cadd czero -> (forall x, ceq clt (cadd x czero) x) ->
  forall (g : Search.graph) (frontier : nat -> St -> option nat -> res bool)
         (traverse : Search.dir -> nat -> option nat -> St -> res (C * C * St)) (estimate : nat -> nat -> St -> res C)
         (init_state : res St) (terminate : nat -> nat -> option string) (d : Search.dir) (source : nat)
         (c : nat -> C) (ok : nat -> bool),
    (forall e st prev b, frontier e st prev = Ok b -> b = ok e) ->
    (forall e prev st ac tc st', traverse d e prev st = Ok (ac, tc, st') -> ceq clt (cfloor (cadd ac tc)) (c e)) ->
    (forall a e, ok e = true -> cle clt a (cadd a (c e))) ->
    (forall dd e last st ac tc st' gc, traverse dd e last st = Ok (ac, tc, st') -> cle clt gc (cadd gc (cfloor (cadd ac tc)))) ->
  forall fuel s,
    Search.run_a_star_state clt cadd czero cfloor g frontier traverse estimate init_state terminate fuel d source None = Ok s ->
    forall v, is_Some (Search.s_tree s !! v) ->
      exists r l, Search.vertex_oriented_route source v (Search.s_tree s) = Ok r
        /\ route_ok g d source v (map Search.et_edge r)
        /\ Search.s_g s !! v = Some l
        /\ Reach.pwalk ok d g source (map Search.et_edge r) v
        /\ ceq clt (OptimalInst.route_cost cadd czero cfloor r) l
        /\ ceq clt (ReachCostP.wcostC cadd c (map Search.et_edge r) czero) l
        /\ forall es, Reach.pwalk ok d g source es v -> cle clt l (ReachCostP.wcostC cadd c es czero).
Proof. exact @tree_paths_exist_and_are_least. Qed.

(* ================================================================== L4: a limited run that returns *)
Theorem link_limited_ok_is_unlimited_walk :
  forall (C St : Type) (clt : C -> C -> bool) (cadd : C -> C -> C) (czero : C) (cfloor : C -> C) (g : Search.graph)
         (frontier : nat -> St -> option nat -> res bool) (traverse : Search.dir -> nat -> option nat -> St -> res (C * C * St))
         (estimate : nat -> nat -> St -> res C) (init_state : res St) (cle : C -> C -> Prop), PreOrder cle ->
    (forall a b, clt a b = true -> cle a b) -> (forall a b, clt a b = true -> cle b a -> False) ->
    (forall d e last st ac tc st' gc, traverse d e last st = Ok (ac, tc, st') -> cle gc (cadd gc (cfloor (cadd ac tc)))) ->
  forall t ck fuel d s tg r, TM.wf t = true -> tg <> s ->
    Search.run_vertex_oriented clt cadd czero cfloor g frontier traverse estimate init_state (TM.to_search t ck) fuel d s (Some tg) = Ok r ->
    Search.run_vertex_oriented clt cadd czero cfloor g frontier traverse estimate init_state TM.unlimited fuel d s (Some tg) = Ok r
    /\ exists tr route, Search.r_trees r = [tr] /\ Search.r_routes r = [route]
         /\ tree_ok g d s (SearchRoute.triples_of tr) /\ is_Some (tr !! tg)
         /\ route_ok g d s tg (map Search.et_edge route)
         /\ (forall e ed, In e (map Search.et_edge route) -> Search.get_edge g e = Some ed ->
               Search.key_vertex d ed <> s /\ Search.term_vertex d ed <> tg).
Proof. exact @limited_ok_is_unlimited_walk. Qed.

Theorem link_limited_ok_reaches_destination :
  forall (C St : Type) (clt : C -> C -> bool) (cadd : C -> C -> C) (czero : C) (cfloor : C -> C) (g : Search.graph)
         (frontier : nat -> St -> option nat -> res bool) (traverse : Search.dir -> nat -> option nat -> St -> res (C * C * St))
         (estimate : nat -> nat -> St -> res C) (init_state : res St) (cle : C -> C -> Prop), PreOrder cle ->
    (forall a b, clt a b = true -> cle a b) -> (forall a b, clt a b = true -> cle b a -> False) ->
    (forall d e last st ac tc st' gc, traverse d e last st = Ok (ac, tc, st') -> cle gc (cadd gc (cfloor (cadd ac tc)))) ->
  forall ok : nat -> bool,
    ReachInvP.wf_graph g ->
    (forall e st prev, frontier e st prev = Ok (ok e)) ->
    (forall d e prev st, exists x, traverse d e prev st = Ok x) ->
    (forall a b st, a < Search.nverts g -> b < Search.nverts g -> exists c0, estimate a b st = Ok c0) ->
    (exists i0, init_state = Ok i0) ->
  forall t ck fuel d s tg r, TM.wf t = true -> tg <> s -> s < Search.nverts g -> tg < Search.nverts g ->
    Search.run_vertex_oriented clt cadd czero cfloor g frontier traverse estimate init_state (TM.to_search t ck) fuel d s (Some tg) = Ok r ->
    Search.run_vertex_oriented clt cadd czero cfloor g frontier traverse estimate init_state TM.unlimited fuel d s (Some tg) = Ok r
    /\ Reach.reachable ok d g s tg
    /\ exists route, Search.r_routes r = [route] /\ route <> []
         /\ Reach.pwalk ok d g s (map Search.et_edge route) tg
         /\ route_ok g d s tg (map Search.et_edge route).
Proof. exact @limited_ok_reaches_destination. Qed.

(* ================================================================== statement pins *)
Check link_fold_kth : forall (C St : Type) (trav : nat -> option nat -> St -> res (C * C * St)) es prev st r k et,
  route_fold trav prev st es = Ok r -> nth_error r k = Some et ->
  nth_error es k = Some (Search.et_edge et)
  /\ route_fold trav prev st (firstn k es) = Ok (firstn k r)
  /\ trav (Search.et_edge et) (fst (route_end prev st (firstn k r))) (snd (route_end prev st (firstn k r)))
     = Ok (Search.et_access et, Search.et_trav et, Search.et_state et)
  /\ route_end prev st (firstn (S k) r) = (Some (Search.et_edge et), Search.et_state et).
Check link_dijkstra_route_is_fold :
  forall (C St : Type) (clt : C -> C -> bool) (cadd : C -> C -> C) (czero : C) (cfloor : C -> C),
    cost_algebra clt cadd czero -> (forall x, ceq clt (cadd x czero) x) ->
  forall (g : Search.graph) (frontier : nat -> St -> option nat -> res bool)
         (traverse : Search.dir -> nat -> option nat -> St -> res (C * C * St)) (estimate : nat -> nat -> St -> res C)
         (init_state : res St) (terminate : nat -> nat -> option string) (d : Search.dir) (source : nat) (target : option nat)
         (c : nat -> C) (ok : nat -> bool),
    (forall e st prev b, frontier e st prev = Ok b -> b = ok e) ->
    (forall e prev st ac tc st', traverse d e prev st = Ok (ac, tc, st') -> ceq clt (cfloor (cadd ac tc)) (c e)) ->
    (forall a e, ok e = true -> cle clt a (cadd a (c e))) ->
    (forall v t st h, target = Some t -> estimate v t st = Ok h -> ceq clt h czero) ->
  forall fuel t res, target = Some t ->
    Search.run_vertex_oriented clt cadd czero cfloor g frontier traverse estimate init_state terminate fuel d source target = Ok res ->
    exists tree r, Search.r_trees res = [tree] /\ Search.r_routes res = [r]
      /\ (forall init, init_state = Ok init ->
            route_fold (traverse d) None init (map Search.et_edge r) = Ok r
            /\ forall v rv, Search.vertex_oriented_route source v tree = Ok rv ->
                 route_fold (traverse d) None init (map Search.et_edge rv) = Ok rv)
      /\ (t <> source -> exists init, init_state = Ok init).
Check @link_generic_route_is_fold :
  forall (C St : Type) (clt : C -> C -> bool) (cadd : C -> C -> C) (czero : C) (cfloor : C -> C),
    cost_algebra clt cadd czero ->
  forall g (frontier : nat -> St -> option nat -> res bool) traverse estimate init_state terminate d source target
         (c : nat -> C) (ok : nat -> bool) (hv : nat -> C),
    (forall e st prev b, frontier e st prev = Ok b -> b = ok e) ->
    (forall e prev st ac tc st', traverse d e prev st = Ok (ac, tc, st') -> ceq clt (cfloor (cadd ac tc)) (c e)) ->
    (forall a e, ok e = true -> cle clt a (cadd a (c e))) ->
    (forall v st h, hof czero estimate target v st = Ok h -> ceq clt h (hv v)) ->
    (forall e ed x, Search.get_edge g e = Some ed -> ok e = true ->
        cle clt (F cadd hv (Search.term_vertex d ed) x) (F cadd hv (Search.key_vertex d ed) (cadd x (c e)))) ->
    (forall v x y, cle clt (F cadd hv v x) (F cadd hv v y) -> cle clt x y) ->
  forall pop : list (nat * C) -> option (nat * C * list (nat * C)),
    (forall q, pop q = None -> q = []) ->
    (forall q v p q', List.NoDup (map fst q) -> pop q = Some (v, p, q') ->
        In (v, p) q /\ (forall v' p', In (v', p') q -> cle clt p p') /\ List.NoDup (map fst q')
        /\ (forall x, In x q' <-> In x q /\ fst x <> v)) ->
  forall fuel t res, target = Some t ->
    run_vertex_oriented_with clt cadd czero cfloor g frontier traverse estimate init_state terminate d source target pop fuel = Ok res ->
    exists tree r, Search.r_trees res = [tree] /\ Search.r_routes res = [r]
      /\ (forall init, init_state = Ok init ->
            route_fold (traverse d) None init (map Search.et_edge r) = Ok r
            /\ forall v rv, Search.vertex_oriented_route source v tree = Ok rv ->
                 route_fold (traverse d) None init (map Search.et_edge rv) = Ok rv)
      /\ (t <> source -> exists init, init_state = Ok init).
Check link_dijkstra_route_true_sums.
Check link_sv_first_least.
Check link_sv_routes_fold.
Check link_sv_model_first_least.
Check link_sv_model_routes_fold.
Check link_tree_path_cost_is_least_label.
Check link_limited_ok_is_unlimited_walk.

(* ================================================================== non-vacuity *)
(* L1/L3/L4 generic: natural-number costs on the decrease-key diamond of Props/C02.v; the state counts the accumulated
   cost and the hops that had a previous edge.  The hypotheses hold, the searches return, the conclusions are visible. *)
Example link_hypotheses_nonvacuous :
  (cost_algebra Nat.ltb Nat.add 0 /\ (forall x, ceq Nat.ltb (x + 0) x))
  /\ (forall e st prev b, ExN.front e st prev = Ok b -> b = ExN.okx e)
  /\ (forall d e prev st ac tc st', ExN.trav d e prev st = Ok (ac, tc, st') -> ceq Nat.ltb (ExN.idf (ac + tc)) (ExN.cost e))
  /\ (forall a e, cle Nat.ltb a (a + ExN.cost e))
  /\ (forall v t st h, ExN.est v t st = Ok h -> ceq Nat.ltb h 0)
  /\ (forall d e last st ac tc st' gc, ExN.trav d e last st = Ok (ac, tc, st') -> gc <= gc + ExN.idf (ac + tc)).
Proof. exact (conj ExN.nat_algebra (conj ExN.hyp_front (conj ExN.hyp_trav (conj ExN.hyp_infl (conj ExN.hyp_est ExN.hyp_c01))))). Qed.

Example link_l1_nonvacuous : exists res r, ExN.run ExN.unl Search.Forward 0 (Some 3) = Ok res /\ Search.r_routes res = [r]
    /\ map Search.et_edge r = [0; 2; 3] /\ map Search.et_state r = [(1, 0); (2, 1); (3, 2)]
    /\ route_fold (ExN.trav Search.Forward) None (0, 0) (map Search.et_edge r) = Ok r.
Proof. exact ExN.l1_run. Qed.

(* L1 on the traversal model: two lanes with lengths, speeds, headings, turn delays, a per-edge fee as the objective: the
   hypotheses of link_dijkstra_route_true_sums hold and Dijkstra returns the cheaper lane with positive distance and time *)
Example link_l1_traversal_nonvacuous :
  configured ExT.inst 2 1 Miles Seconds 0 0
  /\ (forall e st prev b, ExT.front e st prev = Ok b -> b = ExT.okx e)
  /\ (forall d e prev st et, tstep ExT.inst (tdir d) e prev st = Ok et -> (fun x : Q => x) (et_access et + et_trav et) == ExT.fee e)%Q
  /\ (forall e, ExT.okx e = true -> 0 <= ExT.fee e)%Q
  /\ (forall v st x, ExT.est v 3 st = Ok x -> x == 0)%Q
  /\ exists res r et, ExT.run = Ok res /\ Search.r_routes res = [r] /\ map Search.et_edge r = [2; 3]
       /\ nth_error r 1 = Some et /\ (0 < slot (Search.et_state et) 2)%Q /\ (0 < slot (Search.et_state et) 1)%Q.
Proof. exact (conj ExT.configured_inst (conj ExT.hyp_front (conj ExT.hyp_local (conj ExT.hyp_pos (conj ExT.hyp_est ExT.l1_run))))). Qed.

(* L2: two lanes, k = 2, AcceptAll: the shortest route and one alternative, with their states *)
Example link_l2_nonvacuous :
  (forall d e prev st ac tc st', ExN.trav2 d e prev st = Ok (ac, tc, st') -> ceq Nat.ltb (ExN.idf (ac + tc)) (ExN.cost2 e))
  /\ (forall a e, cle Nat.ltb a (a + ExN.cost2 e))
  /\ (forall q v c0 q', pop_min Nat.ltb q = Some (v, c0, q') -> Permutation q ((v, c0) :: q'))
  /\ exists r, ExN.sv 2 KExact 0 3 = Ok r
       /\ map (map Search.et_edge) (Search.r_routes r) = [[2; 3]; [0; 1]]
       /\ map (map Search.et_state) (Search.r_routes r) = [[(2, 0); (3, 1)]; [(1, 0); (5, 1)]].
Proof. exact (conj ExN.hyp_trav2 (conj ExN.hyp_infl2 (conj (KspConcrete.pop_min_perm Nat.ltb) ExN.l2_run))). Qed.

(* L2 on the stream's model: the two-lane world of Props/C13.v is in the class and returns three routes *)
Example link_l2_model_nonvacuous :
  (SR.w_turn QN ExK.w = [] /\ SR.w_fturn QN ExK.w = [] /\ KR.kq_alg QN ExK.q = KSingleVia /\ KR.kq_under QN ExK.q = SR.ADijkstra QN
   /\ KR.kq_wf QN ExK.q = None /\ ksp_query_k (KR.kq_k QN ExK.q) (KR.kq_qk QN ExK.q) = Ok 3)
  /\ exists r, KR.run QN cos_ge_Q 300 ExK.w ExK.q = Ok r
       /\ map (map (Search.et_edge (C:=Q) (St:=Q))) (Search.r_routes r) = [[0;1;2]; [3;4;5]; [6;7]].
Proof. exact (conj ExK.in_class ExK.l2_run). Qed.

(* L3: the destination-less run labels vertex 3 with 3; its tree path is [e0; e2; e3] of accumulated cost 3 *)
Example link_l3_nonvacuous : exists s r, ExN.run_state 0 = Ok s /\ is_Some (Search.s_tree s !! 3) /\ Search.s_g s !! 3 = Some 3
    /\ Search.vertex_oriented_route 0 3 (Search.s_tree s) = Ok r /\ map Search.et_edge r = [0; 2; 3]
    /\ OptimalInst.route_cost Nat.add 0 ExN.idf r = 3.
Proof. exact ExN.l3_run. Qed.

(* L4: a well-formed limit that does not fire *)
Example link_l4_nonvacuous : TM.wf (TM.Iter 9) = true
    /\ exists res, ExN.run (TM.to_search (TM.Iter 9) ExN.ck0) Search.Forward 0 (Some 3) = Ok res
                   /\ map (map Search.et_edge) (Search.r_routes res) = [[0; 2; 3]].
Proof. exact ExN.l4_run. Qed.

Print Assumptions link_fold_kth.
Print Assumptions link_dijkstra_route_is_fold.
Print Assumptions link_dijkstra_tree_route_fold.
Print Assumptions link_astar_route_is_fold.
Print Assumptions link_generic_route_is_fold.
Print Assumptions link_generic_tree_chain.
Print Assumptions link_fold_is_c03_walk.
Print Assumptions link_dijkstra_route_true_sums.
Print Assumptions link_astar_route_true_sums.
Print Assumptions link_sv_first_least.
Print Assumptions link_sv_routes_fold.
Print Assumptions link_sv_model_first_least.
Print Assumptions link_sv_model_routes_fold.
Print Assumptions link_tree_path_cost_is_least_label.
Print Assumptions link_tree_paths_exist_and_are_least.
Print Assumptions link_limited_ok_is_unlimited_walk.
Print Assumptions link_limited_ok_reaches_destination.
Print Assumptions link_hypotheses_nonvacuous.
Print Assumptions link_l1_nonvacuous.
Print Assumptions link_l1_traversal_nonvacuous.
Print Assumptions link_l2_nonvacuous.
Print Assumptions link_l2_model_nonvacuous.
Print Assumptions link_l3_nonvacuous.
Print Assumptions link_l4_nonvacuous.
