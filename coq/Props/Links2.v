(* LINKS 2 - C12's proviso on the per-query search, discharged for the modelled search algorithms.

   C12 (Props/C12.v, pipeline_total) proves that CompassApp::run never Panics and never runs OutOfFuel PROVIDED every
   component (input plugins, the per-query search, output plugins, sink) returns Ok or Err.  For the search that proviso
   was measured, not proved.  Here it is a theorem about the models of Model/Search.v and Model/Ksp.v:

   T1 search_never_crashes      Dijkstra / A-star (Search.run_vertex_oriented, re-opening included) and the edge-oriented
        wrapper around it, both directions: Ok or Err for every source, destination option (a vertex of the graph or
        not), estimate, frontier / traversal / termination model, with the fuel of Props/Termination.v.
   T2 single_via_never_crashes  Ksp.sv_run over those two searches: every k, similarity function that returns,
        termination criterion and pop order; the loop fuel |queue|+1 of the model is enough.
   T3 yens_k1_never_crashes, yens_crashes_only_in_K, yens_K_witnesses: Yen's driver (faithful, D-YEN included) returns
        outside K = (effective k >= 2); a crash implies K; inside K both crash kinds occur, for every fuel.
   T4 pipeline_total_modelled_search  C12's pipeline_total with search := the model's dispatch (query JSON ->
        a* | dijkstra | single-via | yens, vertex- or edge-oriented): for every batch, parallelism, persistence policy,
        benign input / output plugins and sink, on a graph with edge-local costs, the call never Panics and never runs
        OutOfFuel, provided no query that REACHES the search (after the input plugins) is in K; for a*, dijkstra and
        single-via that proviso is empty.  pipeline_K_witness: it cannot be dropped for Yens.

   "benign" = [crashes r = false] (Base/Res.v): Ok or Err, never Panic, never OutOfFuel.
   Hypotheses on the search configuration (Section Config): wf_graph g; [le a b := clt b a = false] is a total preorder
   (Hasym, Hletrans); edge-local costs that never decrease a label (Hloc, Hinfl: exactly Props/Termination.v's);
   frontier / traverse / estimate / init_state benign; fuel >= fuel_bound g = 1 + (|E|+1)^(|V|-1).

   Only statements: each theorem is closed by a lemma of Proofs/Link2*.v (a few lines of glue), pinned by [Check],
   given a non-vacuity [Example] (Proofs/Link2Example.v, vm_compute on concrete networks / batches), Print Assumptions. *)
From Coq Require Import ZArith QArith List Arith Bool String Lia.
From stdpp Require Import gmap.
From RC Require Import Base.Res Base.Num Base.Json Model.Search Model.Ksp Model.Pipeline Model.FrontierReopen
  Proofs.ReachInv Proofs.ReachCost Proofs.TermReopen Proofs.KspYen Proofs.Pipeline Proofs.PipelineAnswers
  Proofs.Link2Search Proofs.Link2Ksp Proofs.Link2Pipeline Proofs.Link2Example.
From RC Require Props.C12.
Import ListNotations.
Import Search ReachInvP TermReopenP Link2SearchP Link2KspP Link2PipelineP Link2ExampleP.
Local Open Scope nat_scope.

(* ================================================================== T1: Dijkstra / A-star *)
Section T1.
  Context {C St : Type}.
  Variable clt : C -> C -> bool.
  Variable cadd : C -> C -> C.
  Variable czero : C.
  Variable cfloor : C -> C.
  Variable g : graph.
  Variable frontier : nat -> St -> option nat -> res bool.
  Variable traverse : dir -> nat -> option nat -> St -> res (C * C * St).
  Variable estimate : nat -> nat -> St -> res C.       (* already multiplied by the weight factor; ANY function *)
  Variable init_state : res St.
  Variable terminate : nat -> nat -> option string.    (* ANY termination model *)
  Variable d : dir.
  Variable ecost : nat -> C.
  Hypothesis Hwf : wf_graph g.
  Hypothesis Hasym : forall a b, clt a b = true -> clt b a = false.
  Hypothesis Hletrans : forall a b c, clt b a = false -> clt c b = false -> clt c a = false.
  Hypothesis Hloc : forall e prev st ac tc st', traverse d e prev st = Ok (ac, tc, st') -> cfloor (cadd ac tc) = ecost e.
  Hypothesis Hinfl : forall e prev st ac tc st' a, traverse d e prev st = Ok (ac, tc, st') -> clt (cadd a (cfloor (cadd ac tc))) a = false.
  Hypothesis Hfr : forall e st prev, crashes (frontier e st prev) = false.
  Hypothesis Htr : forall e prev st, crashes (traverse d e prev st) = false.
  Hypothesis Hest : forall a b st, crashes (estimate a b st) = false.
  Hypothesis Hinit : crashes init_state = false.

  Notation vertex := (run_vertex_oriented clt cadd czero cfloor g frontier traverse estimate init_state terminate).

  (* the vertex-oriented search and the edge-oriented wrapper around it return Ok or Err *)
  Theorem search_never_crashes : forall fuel source target, fuel_bound g <= fuel ->
    crashes (vertex fuel d source target) = false
    /\ crashes (run_edge_oriented czero g traverse init_state d (vertex fuel d) source target) = false.
  Proof.
    intros fuel source target Hf.
    pose proof (run_vertex_oriented_never_crashes clt cadd czero cfloor g frontier traverse estimate init_state terminate d ecost
                  Hwf Hasym Hletrans Hloc Hinfl Hfr Htr Hest Hinit fuel) as Hv.
    split; [apply Hv, Hf|]. apply run_edge_oriented_never_crashes; auto.
  Qed.

  (* the search tree alone (run_a_star) *)
  Theorem a_star_never_crashes : forall fuel source target, fuel_bound g <= fuel ->
    crashes (run_a_star clt cadd czero cfloor g frontier traverse estimate init_state terminate fuel d source target) = false.
  Proof.
    exact (run_a_star_never_crashes clt cadd czero cfloor g frontier traverse estimate init_state terminate d ecost
             Hwf Hasym Hletrans Hloc Hinfl Hfr Htr Hest Hinit).
  Qed.
End T1.

(* two facts T1 rests on, of independent use *)
(* backtracking returns on ANY tree (no invariant of the search is needed): the visited-edge guard makes |tree|+1 steps enough *)
Theorem backtrack_never_crashes_on_any_tree : forall (C St : Type) source (tree : gmap nat (branch C St)) target,
  crashes (vertex_oriented_route source target tree) = false.
Proof. exact @backtrack_never_crashes. Qed.
(* the edge-oriented wrapper adds no failure mode to ANY vertex-oriented algorithm *)
Theorem edge_oriented_never_crashes_over_any_algorithm :
  forall (C St : Type) (czero : C) g (traverse : dir -> nat -> option nat -> St -> res (C * C * St)) init_state d
         (alg : nat -> option nat -> res (sresult C St)),
    (forall e prev st, crashes (traverse d e prev st) = false) -> crashes init_state = false ->
    forall source target, (forall s t, crashes (alg s t) = false) ->
      crashes (run_edge_oriented czero g traverse init_state d alg source target) = false.
Proof. exact @run_edge_oriented_never_crashes. Qed.

(* ================================================================== T2, T3: the k-shortest-paths drivers *)
Section T23.
  Context {C St : Type}.
  Variable clt : C -> C -> bool.
  Variable cadd : C -> C -> C.
  Variable czero : C.
  Variable cfloor : C -> C.
  Variable g : graph.
  Variable frontier : nat -> St -> option nat -> res bool.
  Variable traverse : dir -> nat -> option nat -> St -> res (C * C * St).
  Variable estimate : nat -> nat -> St -> res C.
  Variable init_state : res St.
  Variable terminate : nat -> nat -> option string.
  Variable ecost : dir -> nat -> C.                    (* the edge-local cost may depend on the direction *)
  Hypothesis Hwf : wf_graph g.
  Hypothesis Hasym : forall a b, clt a b = true -> clt b a = false.
  Hypothesis Hletrans : forall a b c, clt b a = false -> clt c b = false -> clt c a = false.
  Hypothesis Hloc : forall dd e prev st ac tc st', traverse dd e prev st = Ok (ac, tc, st') -> cfloor (cadd ac tc) = ecost dd e.
  Hypothesis Hinfl : forall dd e prev st ac tc st' a, traverse dd e prev st = Ok (ac, tc, st') -> clt (cadd a (cfloor (cadd ac tc))) a = false.
  Hypothesis Hfr : forall e st prev, crashes (frontier e st prev) = false.
  Hypothesis Htr : forall dd e prev st, crashes (traverse dd e prev st) = false.
  Hypothesis Hest : forall a b st, crashes (estimate a b st) = false.
  Hypothesis Hinit : crashes init_state = false.
  Variable fuel : nat.
  Hypothesis Hfuel : fuel_bound g <= fuel.

  (* underlying.run_vertex_oriented(a, Some(b), direction): T1's search *)
  Notation underlying := (under clt cadd czero cfloor g frontier traverse estimate init_state terminate fuel).

  Variable sim : list nat -> list nat -> res bool.                          (* ANY similarity function that returns *)
  Variable pick : list (nat * C) -> option (nat * C * list (nat * C)).      (* ANY pop order ... *)
  Hypothesis Hsim : forall a b, crashes (sim a b) = false.
  Hypothesis Hpick : forall q v c q', pick q = Some (v, c, q') -> List.length q' < List.length q.   (* ... that pops *)

  (* T2 *)
  Theorem single_via_never_crashes : forall k term s t,
    crashes (Ksp.sv_run cadd cfloor g (traverse Forward) init_state underlying sim pick k term s t) = false.
  Proof.
    exact (single_via_never_crashes clt cadd czero cfloor g frontier traverse estimate init_state terminate ecost
             Hwf Hasym Hletrans Hloc Hinfl Hfr Htr Hest Hinit fuel Hfuel sim pick Hsim Hpick).
  Qed.

  Variable spur_search : list nat -> nat -> nat -> res (sresult C St).      (* ARBITRARY: may panic, may hang *)

  (* T3: outside K no spur search is started and the `while` is not entered *)
  Theorem yens_k1_never_crashes : forall yfuel k term s t, 1 <= yfuel -> k < 2 ->
    crashes (Ksp.yens_run clt cadd czero cfloor g underlying spur_search sim yfuel k term s t) = false.
  Proof.
    intros yfuel k term s t Hy Hk.
    apply (yens_modelled_outside_K_never_crashes clt cadd czero cfloor g frontier traverse estimate init_state terminate ecost
             Hwf Hasym Hletrans Hloc Hinfl Hfr Htr Hest Hinit fuel Hfuel sim spur_search yfuel k term s t Hy). lia.
  Qed.
  (* ... the precise complement: a crash of Yen's driver puts the query in K *)
  Theorem yens_crashes_only_in_K : forall yfuel k term s t, 1 <= yfuel ->
    crashes (Ksp.yens_run clt cadd czero cfloor g underlying spur_search sim yfuel k term s t) = true -> 2 <= k.
  Proof.
    exact (yens_modelled_crashes_only_in_K clt cadd czero cfloor g frontier traverse estimate init_state terminate ecost
             Hwf Hasym Hletrans Hloc Hinfl Hfr Htr Hest Hinit fuel Hfuel sim spur_search).
  Qed.

  (* SearchAlgorithm::{KspSingleVia, Yens}::run_vertex_oriented (destination optional, k from the query or the
     configuration): never crashes outside K, crashes only inside *)
  Notation ksp := (Ksp.run_vertex_oriented clt cadd czero cfloor g (traverse Forward) init_state underlying spur_search sim pick).
  Theorem ksp_never_crashes_outside_K : forall alg yfuel k_cfg qk term s target, 1 <= yfuel -> ~ in_K alg k_cfg qk ->
    crashes (ksp alg yfuel k_cfg qk term s target) = false.
  Proof.
    exact (ksp_vertex_never_crashes clt cadd czero cfloor g frontier traverse estimate init_state terminate ecost
             Hwf Hasym Hletrans Hloc Hinfl Hfr Htr Hest Hinit fuel Hfuel sim pick Hsim Hpick spur_search).
  Qed.
  Theorem ksp_crashes_only_in_K : forall alg yfuel k_cfg qk term s target, 1 <= yfuel ->
    crashes (ksp alg yfuel k_cfg qk term s target) = true -> in_K alg k_cfg qk.
  Proof.
    exact (ksp_vertex_crashes_only_in_K clt cadd czero cfloor g frontier traverse estimate init_state terminate ecost
             Hwf Hasym Hletrans Hloc Hinfl Hfr Htr Hest Hinit fuel Hfuel sim pick Hsim Hpick spur_search).
  Qed.
End T23.

(* single-via over ANY underlying search: it returns whenever its two calls (forward s->t, reverse t->s) do *)
Theorem single_via_never_crashes_over_any_search :
  forall (C St : Type) cadd cfloor g (traverse_fwd : nat -> option nat -> St -> res (C * C * St)) init_state
         (search : dir -> nat -> nat -> res (sresult C St)) sim pick,
    (forall e prev st, crashes (traverse_fwd e prev st) = false) -> crashes init_state = false ->
    (forall a b, crashes (sim a b) = false) ->
    (forall q v c q', pick q = Some (v, c, q') -> List.length q' < List.length q) ->
    forall k term s t, crashes (search Forward s t) = false -> crashes (search Reverse t s) = false ->
      crashes (Ksp.sv_run cadd cfloor g traverse_fwd init_state search sim pick k term s t) = false.
Proof. exact @sv_run_never_crashes. Qed.
(* the configured similarity functions return: AcceptAll, EdgeIdCosine, DistanceCosine over any numeric instance *)
Theorem similarity_never_crashes : forall (N : Num) cos_ge (dist : nat -> res N), (forall e, crashes (dist e) = false) ->
  forall (f : Ksp.simfn N) a b, crashes (Ksp.test_similarity N cos_ge f dist a b) = false.
Proof. exact test_similarity_never_crashes. Qed.
(* every pop that permutes (C13's hypothesis) is a pop that shortens (the hypothesis used here) *)
Theorem pop_min_is_a_pop : forall (C : Type) (clt : C -> C -> bool) q v c q',
  Ksp.pop_min clt q = Some (v, c, q') -> List.length q' < List.length q.
Proof. exact @pop_min_shortens. Qed.

(* T3, the K-witnesses of C13 restated as crashes: with k = 2 a one-edge shortest route panics and a two-edge one never
   returns, for EVERY fuel - so "k >= 2" in yens_crashes_only_in_K cannot be improved *)
Theorem yens_K_witnesses :
  (forall fuel, crashes (yens_on w_diamond 2 0 1 (S fuel)) = true)
  /\ (forall fuel, crashes (yens_on w_diamond 2 0 3 fuel) = true).
Proof.
  split; intros fuel.
  - pose proof (yens_K_witness_panic fuel) as H. destruct (yens_on w_diamond 2 0 1 (S fuel)); try discriminate. reflexivity.
  - rewrite yens_K_witness_hang. reflexivity.
Qed.

(* ================================================================== T4: the pipeline over the model's dispatch *)
Section T4.
  Context {C St W : Type}.
  Variable clt : C -> C -> bool.
  Variable cadd : C -> C -> C.
  Variable czero : C.
  Variable cfloor : C -> C.
  Variable g : graph.
  Variable frontier : nat -> St -> option nat -> res bool.
  Variable traverse : dir -> nat -> option nat -> St -> res (C * C * St).
  Variable wfactor : PL.algorithm -> json -> res W.     (* the weight factor in force (algorithm, query "weight_factor") *)
  Variable estimate : W -> nat -> nat -> St -> res C.
  Variable init_state : res St.
  Variable terminate : nat -> nat -> option string.
  Variable spur_search : json -> list nat -> nat -> nat -> res (sresult C St).   (* Yen's spur searches: ARBITRARY *)
  Variable sim : list nat -> list nat -> res bool.
  Variable pick : list (nat * C) -> option (nat * C * list (nat * C)).
  Variable kterm : Ksp.kterm.
  Variable d : dir.
  Variable edge_oriented : bool.
  Variable fuel yfuel : nat.
  Variable ecost : dir -> nat -> C.
  Hypothesis Hwf : wf_graph g.
  Hypothesis Hasym : forall a b, clt a b = true -> clt b a = false.
  Hypothesis Hletrans : forall a b c, clt b a = false -> clt c b = false -> clt c a = false.
  Hypothesis Hloc : forall dd e prev st ac tc st', traverse dd e prev st = Ok (ac, tc, st') -> cfloor (cadd ac tc) = ecost dd e.
  Hypothesis Hinfl : forall dd e prev st ac tc st' a, traverse dd e prev st = Ok (ac, tc, st') -> clt (cadd a (cfloor (cadd ac tc))) a = false.
  Hypothesis Hfr : forall e st prev, crashes (frontier e st prev) = false.
  Hypothesis Htr : forall dd e prev st, crashes (traverse dd e prev st) = false.
  Hypothesis Hwfac : forall alg q, crashes (wfactor alg q) = false.
  Hypothesis Hest : forall w a b st, crashes (estimate w a b st) = false.
  Hypothesis Hinit : crashes init_state = false.
  Hypothesis Hsim : forall a b, crashes (sim a b) = false.
  Hypothesis Hpick : forall q v c q', pick q = Some (v, c, q') -> List.length q' < List.length q.
  Hypothesis Hfuel : fuel_bound g <= fuel.
  Hypothesis Hyfuel : 1 <= yfuel.

  (* SearchApp::run on one processed query: Proofs/Link2Pipeline.v's dispatch over Model/Search.v and Model/Ksp.v *)
  Notation model_search := (model_search clt cadd czero cfloor g frontier traverse wfactor estimate init_state terminate
                              spur_search sim pick kterm d edge_oriented fuel yfuel).
  Notation model_shortest := (model_shortest clt cadd czero cfloor g frontier traverse wfactor estimate init_state terminate
                                spur_search sim pick kterm d edge_oriented fuel yfuel).

  (* the search component: for EVERY query JSON outside C12's class K it returns Ok or Err; it crashes only inside *)
  Theorem modelled_search_never_crashes : forall alg q, PL.K_yens_k_ge_2 alg q = false -> crashes (model_search alg q) = false.
  Proof.
    exact (model_search_never_crashes clt cadd czero cfloor g frontier traverse wfactor estimate init_state terminate
             spur_search sim pick kterm d edge_oriented fuel yfuel ecost Hwf Hasym Hletrans Hloc Hinfl Hfr Htr Hwfac Hest Hinit
             Hsim Hpick Hfuel Hyfuel).
  Qed.
  Theorem modelled_search_crashes_only_in_K : forall alg q, crashes (model_search alg q) = true -> PL.K_yens_k_ge_2 alg q = true.
  Proof.
    exact (model_search_crashes_only_in_K clt cadd czero cfloor g frontier traverse wfactor estimate init_state terminate
             spur_search sim pick kterm d edge_oriented fuel yfuel ecost Hwf Hasym Hletrans Hloc Hinfl Hfr Htr Hwfac Hest Hinit
             Hsim Hpick Hfuel Hyfuel).
  Qed.

  Variable wo : PL.wops.
  Variable plugins : list PL.plugin.
  Variable oplugins : list (sresult C St -> json -> res json).
  Variable sink : json -> res json.
  Variables (par_app par_run : nat) (persist : bool).
  Hypothesis plugins_benign : forall p, In p plugins -> forall q, PL.pbenign (p q) = true.
  Hypothesis oplugins_benign : forall op, In op oplugins -> forall r out, crashes (op r out) = false.
  Hypothesis sink_benign : forall j, crashes (sink j) = false.

  (* T4.  [reaches plugins batch q'] : q' is one of the processed queries of the batch
     (exists q in batch, apply_input_plugins plugins q = SOk qs, q' in qs) *)
  Theorem pipeline_total_modelled_search : forall alg batch,
    (forall q', reaches plugins batch q' -> PL.K_yens_k_ge_2 alg q' = false) ->
    crashes (PL.run wo (sresult C St) plugins (model_search alg) oplugins sink par_app par_run persist batch) = false.
  Proof.
    exact (run_total_modelled_search clt cadd czero cfloor g frontier traverse wfactor estimate init_state terminate
             spur_search sim pick kterm d edge_oriented fuel yfuel ecost Hwf Hasym Hletrans Hloc Hinfl Hfr Htr Hwfac Hest Hinit
             Hsim Hpick Hfuel Hyfuel wo plugins oplugins sink par_app par_run persist plugins_benign oplugins_benign sink_benign).
  Qed.

  (* a*, dijkstra, single-via: EVERY batch - literally C12's pipeline_total with its search hypothesis discharged *)
  Theorem pipeline_total_modelled_search_every_batch : forall alg, (forall k0, alg <> PL.Yens k0) ->
    forall batch : list json,
    crashes (PL.run wo (sresult C St) plugins (model_search alg) oplugins sink par_app par_run persist batch) = false.
  Proof.
    intros alg Hny.
    apply (C12.pipeline_total wo (sresult C St) plugins (model_search alg) oplugins sink par_app par_run persist
             plugins_benign); [|exact oplugins_benign|exact sink_benign].
    intros q. apply modelled_search_never_crashes. destruct alg; try reflexivity. destruct (Hny k eq_refl).
  Qed.

  (* the same through C12's own search entry (Model/Pipeline.v's rendering of Yen's outer loops over an ARBITRARY spur
     component): its [shortest] component is the model's dispatch, C12's search_entry_outside_K does the rest *)
  Variable spur : json -> list PL.route -> option PL.route -> PL.route -> nat -> res (option PL.route).
  Variable oplugins' : list (list PL.route -> json -> res json).
  Hypothesis oplugins'_benign : forall op, In op oplugins' -> forall r out, crashes (op r out) = false.
  Theorem pipeline_total_search_entry_modelled : forall alg batch,
    (forall q', reaches plugins batch q' -> PL.K_yens_k_ge_2 alg q' = false) ->
    crashes (PL.run wo (list PL.route) plugins (PL.search_entry alg (model_shortest alg) spur yfuel) oplugins' sink
               par_app par_run persist batch) = false.
  Proof.
    exact (run_total_search_entry_modelled clt cadd czero cfloor g frontier traverse wfactor estimate init_state terminate
             spur_search sim pick kterm d edge_oriented fuel yfuel ecost Hwf Hasym Hletrans Hloc Hinfl Hfr Htr Hwfac Hest Hinit
             Hsim Hpick Hfuel Hyfuel wo plugins sink par_app par_run persist plugins_benign sink_benign spur oplugins'
             oplugins'_benign).
  Qed.
End T4.

(* what T4 rests on, for ANY search component: CompassApp::run consults the search on processed queries only ... *)
Theorem run_consults_search_on_processed_queries_only :
  forall wo R plugins (s1 s2 : json -> res R) oplugins sink par_app par_run persist batch,
    (forall q', reaches plugins batch q' -> s1 q' = s2 q') ->
    PL.run wo R plugins s1 oplugins sink par_app par_run persist batch
    = PL.run wo R plugins s2 oplugins sink par_app par_run persist batch.
Proof. exact run_ext. Qed.
(* ... so C12's pipeline_total needs the search to be benign on the queries of the batch only *)
Theorem pipeline_total_on_batch : forall wo R plugins (search : json -> res R) oplugins sink par_app par_run persist,
  (forall p, In p plugins -> forall q, PL.pbenign (p q) = true) ->
  (forall op, In op oplugins -> forall r out, crashes (op r out) = false) ->
  (forall j, crashes (sink j) = false) ->
  forall batch, (forall q', reaches plugins batch q' -> crashes (search q') = false) ->
    crashes (PL.run wo R plugins search oplugins sink par_app par_run persist batch) = false.
Proof. exact run_total_on_batch. Qed.
(* Model/Ksp.v's class (Yens, effective k >= 2) is Model/Pipeline.v's class K_yens_k_ge_2 *)
Theorem K_classes_agree : forall k0 q, in_K Ksp.KYens k0 (q_k q) <-> PL.K_yens_k_ge_2 (PL.Yens k0) q = true.
Proof. exact in_K_iff. Qed.

(* ================================================================== statement pins *)
Check @search_never_crashes :
  forall (C St : Type) (clt : C -> C -> bool) (cadd : C -> C -> C) (czero : C) (cfloor : C -> C) (g : graph)
         (frontier : nat -> St -> option nat -> res bool) (traverse : dir -> nat -> option nat -> St -> res (C * C * St))
         (estimate : nat -> nat -> St -> res C) (init_state : res St) (terminate : nat -> nat -> option string)
         (d : dir) (ecost : nat -> C),
    wf_graph g ->
    (forall a b, clt a b = true -> clt b a = false) ->
    (forall a b c, clt b a = false -> clt c b = false -> clt c a = false) ->
    (forall e prev st ac tc st', traverse d e prev st = Ok (ac, tc, st') -> cfloor (cadd ac tc) = ecost e) ->
    (forall e prev st ac tc st' a, traverse d e prev st = Ok (ac, tc, st') -> clt (cadd a (cfloor (cadd ac tc))) a = false) ->
    (forall e st prev, crashes (frontier e st prev) = false) ->
    (forall e prev st, crashes (traverse d e prev st) = false) ->
    (forall a b st, crashes (estimate a b st) = false) ->
    crashes init_state = false ->
    forall fuel source target, S (S (List.length (gedges g)) ^ (nverts g - 1)) <= fuel ->
      crashes (run_vertex_oriented clt cadd czero cfloor g frontier traverse estimate init_state terminate fuel d source target) = false
      /\ crashes (run_edge_oriented czero g traverse init_state d
                    (run_vertex_oriented clt cadd czero cfloor g frontier traverse estimate init_state terminate fuel d)
                    source target) = false.
Check @single_via_never_crashes :
  forall (C St : Type) (clt : C -> C -> bool) (cadd : C -> C -> C) (czero : C) (cfloor : C -> C) (g : graph)
         (frontier : nat -> St -> option nat -> res bool) (traverse : dir -> nat -> option nat -> St -> res (C * C * St))
         (estimate : nat -> nat -> St -> res C) (init_state : res St) (terminate : nat -> nat -> option string)
         (ecost : dir -> nat -> C),
    wf_graph g ->
    (forall a b, clt a b = true -> clt b a = false) ->
    (forall a b c, clt b a = false -> clt c b = false -> clt c a = false) ->
    (forall dd e prev st ac tc st', traverse dd e prev st = Ok (ac, tc, st') -> cfloor (cadd ac tc) = ecost dd e) ->
    (forall dd e prev st ac tc st' a, traverse dd e prev st = Ok (ac, tc, st') -> clt (cadd a (cfloor (cadd ac tc))) a = false) ->
    (forall e st prev, crashes (frontier e st prev) = false) ->
    (forall dd e prev st, crashes (traverse dd e prev st) = false) ->
    (forall a b st, crashes (estimate a b st) = false) ->
    crashes init_state = false ->
    forall fuel, S (S (List.length (gedges g)) ^ (nverts g - 1)) <= fuel ->
    forall (sim : list nat -> list nat -> res bool) (pick : list (nat * C) -> option (nat * C * list (nat * C))),
    (forall a b, crashes (sim a b) = false) ->
    (forall q v c q', pick q = Some (v, c, q') -> List.length q' < List.length q) ->
    forall k term s t,
      crashes (Ksp.sv_run cadd cfloor g (traverse Forward) init_state
                 (fun dd a b => run_vertex_oriented clt cadd czero cfloor g frontier traverse estimate init_state terminate fuel dd a (Some b))
                 sim pick k term s t) = false.
Check @yens_k1_never_crashes :
  forall (C St : Type) (clt : C -> C -> bool) (cadd : C -> C -> C) (czero : C) (cfloor : C -> C) (g : graph)
         (frontier : nat -> St -> option nat -> res bool) (traverse : dir -> nat -> option nat -> St -> res (C * C * St))
         (estimate : nat -> nat -> St -> res C) (init_state : res St) (terminate : nat -> nat -> option string)
         (ecost : dir -> nat -> C),
    wf_graph g ->
    (forall a b, clt a b = true -> clt b a = false) ->
    (forall a b c, clt b a = false -> clt c b = false -> clt c a = false) ->
    (forall dd e prev st ac tc st', traverse dd e prev st = Ok (ac, tc, st') -> cfloor (cadd ac tc) = ecost dd e) ->
    (forall dd e prev st ac tc st' a, traverse dd e prev st = Ok (ac, tc, st') -> clt (cadd a (cfloor (cadd ac tc))) a = false) ->
    (forall e st prev, crashes (frontier e st prev) = false) ->
    (forall dd e prev st, crashes (traverse dd e prev st) = false) ->
    (forall a b st, crashes (estimate a b st) = false) ->
    crashes init_state = false ->
    forall fuel, S (S (List.length (gedges g)) ^ (nverts g - 1)) <= fuel ->
    forall (sim : list nat -> list nat -> res bool) (spur_search : list nat -> nat -> nat -> res (sresult C St))
           yfuel k term s t, 1 <= yfuel -> k < 2 ->
      crashes (Ksp.yens_run clt cadd czero cfloor g
                 (fun dd a b => run_vertex_oriented clt cadd czero cfloor g frontier traverse estimate init_state terminate fuel dd a (Some b))
                 spur_search sim yfuel k term s t) = false.
Check @yens_crashes_only_in_K :
  forall (C St : Type) (clt : C -> C -> bool) (cadd : C -> C -> C) (czero : C) (cfloor : C -> C) (g : graph)
         (frontier : nat -> St -> option nat -> res bool) (traverse : dir -> nat -> option nat -> St -> res (C * C * St))
         (estimate : nat -> nat -> St -> res C) (init_state : res St) (terminate : nat -> nat -> option string)
         (ecost : dir -> nat -> C),
    wf_graph g ->
    (forall a b, clt a b = true -> clt b a = false) ->
    (forall a b c, clt b a = false -> clt c b = false -> clt c a = false) ->
    (forall dd e prev st ac tc st', traverse dd e prev st = Ok (ac, tc, st') -> cfloor (cadd ac tc) = ecost dd e) ->
    (forall dd e prev st ac tc st' a, traverse dd e prev st = Ok (ac, tc, st') -> clt (cadd a (cfloor (cadd ac tc))) a = false) ->
    (forall e st prev, crashes (frontier e st prev) = false) ->
    (forall dd e prev st, crashes (traverse dd e prev st) = false) ->
    (forall a b st, crashes (estimate a b st) = false) ->
    crashes init_state = false ->
    forall fuel, S (S (List.length (gedges g)) ^ (nverts g - 1)) <= fuel ->
    forall (sim : list nat -> list nat -> res bool) (spur_search : list nat -> nat -> nat -> res (sresult C St))
           yfuel k term s t, 1 <= yfuel ->
      crashes (Ksp.yens_run clt cadd czero cfloor g
                 (fun dd a b => run_vertex_oriented clt cadd czero cfloor g frontier traverse estimate init_state terminate fuel dd a (Some b))
                 spur_search sim yfuel k term s t) = true -> 2 <= k.
Check @pipeline_total_modelled_search :
  forall (C St W : Type) (clt : C -> C -> bool) (cadd : C -> C -> C) (czero : C) (cfloor : C -> C) (g : graph)
         (frontier : nat -> St -> option nat -> res bool) (traverse : dir -> nat -> option nat -> St -> res (C * C * St))
         (wfactor : PL.algorithm -> json -> res W) (estimate : W -> nat -> nat -> St -> res C) (init_state : res St)
         (terminate : nat -> nat -> option string) (spur_search : json -> list nat -> nat -> nat -> res (sresult C St))
         (sim : list nat -> list nat -> res bool) (pick : list (nat * C) -> option (nat * C * list (nat * C)))
         (kterm : Ksp.kterm) (d : dir) (edge_oriented : bool) (fuel yfuel : nat) (ecost : dir -> nat -> C),
    wf_graph g ->
    (forall a b, clt a b = true -> clt b a = false) ->
    (forall a b c, clt b a = false -> clt c b = false -> clt c a = false) ->
    (forall dd e prev st ac tc st', traverse dd e prev st = Ok (ac, tc, st') -> cfloor (cadd ac tc) = ecost dd e) ->
    (forall dd e prev st ac tc st' a, traverse dd e prev st = Ok (ac, tc, st') -> clt (cadd a (cfloor (cadd ac tc))) a = false) ->
    (forall e st prev, crashes (frontier e st prev) = false) ->
    (forall dd e prev st, crashes (traverse dd e prev st) = false) ->
    (forall alg q, crashes (wfactor alg q) = false) ->
    (forall w a b st, crashes (estimate w a b st) = false) ->
    crashes init_state = false ->
    (forall a b, crashes (sim a b) = false) ->
    (forall q v c q', pick q = Some (v, c, q') -> List.length q' < List.length q) ->
    S (S (List.length (gedges g)) ^ (nverts g - 1)) <= fuel -> 1 <= yfuel ->
    forall (wo : PL.wops) (plugins : list PL.plugin) (oplugins : list (sresult C St -> json -> res json))
           (sink : json -> res json) (par_app par_run : nat) (persist : bool),
    (forall p, In p plugins -> forall q, PL.pbenign (p q) = true) ->
    (forall op, In op oplugins -> forall r out, crashes (op r out) = false) ->
    (forall j, crashes (sink j) = false) ->
    forall (alg : PL.algorithm) (batch : list json),
    (forall q', (exists q qs, In q batch /\ PL.apply_input_plugins plugins q = PL.SOk qs /\ In q' qs) ->
                PL.K_yens_k_ge_2 alg q' = false) ->
    crashes (PL.run wo (sresult C St) plugins
               (Link2PipelineP.model_search clt cadd czero cfloor g frontier traverse wfactor estimate init_state terminate
                  spur_search sim pick kterm d edge_oriented fuel yfuel alg)
               oplugins sink par_app par_run persist batch) = false.

(* ================================================================== non-vacuity *)
(* T1 on the re-opening network of Props/Termination.v (turn-restriction frontier model, inconsistent estimate): the
   hypotheses hold, so every run with fuel >= 1297 returns; the runs shown: a route through a re-opened vertex, a
   destination / a source outside the graph, an unreachable destination, edge-oriented queries; and a run with less
   fuel IS cut off, so the fuel premise is not idle *)
Example search_never_crashes_nonvacuous :
  (forall fuel d source target, fuel_bound Reopen.g5 <= fuel ->
     crashes (Reopen.vertex fuel d source target) = false /\ crashes (Reopen.edge fuel d source target) = false)
  /\ fuel_bound Reopen.g5 = 1297
  /\ rmap (fun r => map (map (@et_edge nat nat)) (r_routes r)) (Reopen.vertex1 1297 Forward 0 (Some 4)) = Ok [[1; 2; 3; 4]]
  /\ Reopen.vertex 1297 Forward 0 (Some 9) = Err "nopath"%string
  /\ Reopen.vertex 1297 Forward 7 None = Err "graph: unknown vertex"%string
  /\ rmap (fun r => map (map (@et_edge nat nat)) (r_routes r)) (Reopen.edge 1297 Forward 1 (Some 4)) = Ok [[1; 2; 3; 4]]
  /\ crashes (Reopen.vertex1 5 Forward 0 (Some 4)) = true.
Proof.
  split; [intros fuel d source target Hf; split; [apply Reopen.vertex_instance, Hf|apply Reopen.edge_instance, Hf]|].
  destruct Reopen.vertex_runs as (H1&H2&H3&H4&_&H6). destruct Reopen.edge_runs as (E1&_). repeat split; assumption.
Qed.

(* T2 - T4 on the diamond 0>1>3, 0>2>3 (0>3 closed): the dispatch meets every hypothesis (cosine similarity over exact
   rationals, Ksp.pop_min, a query-dependent weight factor, an estimate that is not consistent and fails on unknown
   vertices); single-via returns both lanes, the query's own k = 1 one; Yen with effective k < 2 returns; malformed
   queries are Err *)
Example modelled_search_nonvacuous :
  (forall eo yfuel alg q, 1 <= yfuel -> PL.K_yens_k_ge_2 alg q = false -> crashes (Dia.search eo yfuel alg q) = false)
  /\ Dia.ids (Dia.search false 5 (PL.SingleVia 3) (Dia.vq 0 3 [])) = Ok [[0; 1]; [2; 3]]
  /\ Dia.ids (Dia.search false 5 (PL.SingleVia 3) (Dia.vq 0 3 [("k"%string, JInt 1)])) = Ok [[0; 1]]
  /\ Dia.ids (Dia.search false 5 PL.AStar (Dia.vq 0 3 [])) = Ok [[0; 1]]
  /\ Dia.ids (Dia.search false 5 (PL.Yens 1) (Dia.vq 0 3 [])) = Ok [[0; 1]]
  /\ Dia.ids (Dia.search false 5 (PL.Yens 7) (Dia.vq 0 3 [("k"%string, JInt 0)])) = Ok [[0; 1]]
  /\ Dia.search false 5 PL.AStar (Dia.vq 0 9 []) = Err "graph: unknown vertex"%string
  /\ Dia.ids (Dia.search true 5 (PL.SingleVia 2) (JObj [("origin_edge"%string, JInt 0); ("destination_edge"%string, JInt 1)])) = Ok [[0; 1]].
Proof.
  split; [exact Dia.search_instance|].
  destruct Dia.search_runs as (H1&H2&H3&_&H5&H6&H7&_&_&_&H11). repeat split; assumption.
Qed.
(* inside K the same dispatch crashes, for every Yen fuel; the query's own k puts a configured k = 1 into K *)
Example modelled_search_K_witness : forall yfuel, exists w,
  PL.K_yens_k_ge_2 (PL.Yens 1) (Dia.vq 0 1 [("k"%string, JInt 2)]) = true
  /\ Dia.search false (S yfuel) (PL.Yens 1) (Dia.vq 0 1 [("k"%string, JInt 2)]) = Panic w.
Proof. exact Dia.search_K_panics_k_from_query. Qed.

(* whole batches through CompassApp::run with the concrete plugins of C12's example [grid_search; inject; numeric
   weights]: single-via on a 5-element batch (one element expands to 3, three are answered with error responses) returns
   7 responses; Yens 1 on a batch whose processed queries all have effective k < 2 (premise proved) returns 6 *)
Example pipeline_total_modelled_search_nonvacuous :
  (forall p, In p ex_plugins -> forall q, PL.pbenign (p q) = true)
  /\ rmap (@List.length json) (Dia.run_on true 2 3 (PL.SingleVia 2) Dia.batch) = Ok 7
  /\ (forall q', reaches ex_plugins Dia.batch_yens q' -> PL.K_yens_k_ge_2 (PL.Yens 1) q' = false)
  /\ rmap (@List.length json) (Dia.run_on true 2 3 (PL.Yens 1) Dia.batch_yens) = Ok 6
  /\ (forall persist pa pr, crashes (Dia.run_on persist pa pr (PL.Yens 1) Dia.batch_yens) = false).
Proof.
  split; [intros p Hp; exact (concrete_benign zw p (ex_plugins_concrete p Hp))|].
  split; [exact Dia.batch_runs|]. split; [exact Dia.batch_yens_outside_K|]. split; [exact Dia.batch_yens_runs|].
  intros persist pa pr. unfold Dia.run_on, Dia.search.
  apply (pipeline_total_modelled_search Nat.ltb Nat.add 0 (fun c => c) Dia.dg Dia.dfrontier Dia.dtraverse Dia.dwfactor Dia.destimate
           Dia.dinit Dia.dterminate Dia.dspur Dia.dsim Dia.dpick Ksp.KExact Forward false (fuel_bound Dia.dg) 5 (fun _ => Dia.dcost)
           Dia.wf_dg ltb_asym ltb_letrans Dia.dloc Dia.dinfl);
    auto using Dia.dwfactor_ok, Dia.destimate_ok, Dia.dsim_ok, Dia.batch_yens_outside_K.
  - apply pop_min_shortens.
  - intros p Hp. exact (concrete_benign zw p (ex_plugins_concrete p Hp)).
  - intros op [].
Qed.
(* the premise cannot be dropped: one processed query inside K and the whole call panics *)
Example pipeline_K_witness : exists w, Dia.run_on true 2 3 (PL.Yens 1) [Dia.vq 0 1 [("k"%string, JInt 2)]] = Panic w.
Proof. exact Dia.batch_K_panics. Qed.

(* ================================================================== assumptions *)
Print Assumptions search_never_crashes.
Print Assumptions a_star_never_crashes.
Print Assumptions backtrack_never_crashes_on_any_tree.
Print Assumptions edge_oriented_never_crashes_over_any_algorithm.
Print Assumptions single_via_never_crashes.
Print Assumptions single_via_never_crashes_over_any_search.
Print Assumptions similarity_never_crashes.
Print Assumptions pop_min_is_a_pop.
Print Assumptions yens_k1_never_crashes.
Print Assumptions yens_crashes_only_in_K.
Print Assumptions yens_K_witnesses.
Print Assumptions ksp_never_crashes_outside_K.
Print Assumptions ksp_crashes_only_in_K.
Print Assumptions modelled_search_never_crashes.
Print Assumptions modelled_search_crashes_only_in_K.
Print Assumptions pipeline_total_modelled_search.
Print Assumptions pipeline_total_modelled_search_every_batch.
Print Assumptions pipeline_total_search_entry_modelled.
Print Assumptions run_consults_search_on_processed_queries_only.
Print Assumptions pipeline_total_on_batch.
Print Assumptions K_classes_agree.
Print Assumptions search_never_crashes_nonvacuous.
Print Assumptions modelled_search_nonvacuous.
Print Assumptions modelled_search_K_witness.
Print Assumptions pipeline_total_modelled_search_nonvacuous.
Print Assumptions pipeline_K_witness.
