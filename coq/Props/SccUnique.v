(* C18, corollaries - checked together with Props/C18.v.  Everything here FOLLOWS from [scc_classes] (the statement
   of C18), so these obligations cannot fail on a tree where C18 holds; they make explicit what a user of the
   component analysis relies on:

     - "same component" is an equivalence relation on the vertices (reflexive on 0..n-1, symmetric, transitive);
     - the answer is UNIQUE as a partition: any two outputs that both satisfy C18 for one graph put exactly the same
       pairs of vertices together (so block order / order inside a block is the only freedom the implementation has,
       which is what the correspondence stream canonicalises away);
     - a vertex with no path back to itself through another vertex is alone: if [v] is in the block of [u] then
       each reaches the other. *)
From Coq Require Import List Arith Bool.
From RC Require Import Base.Res Model.Scc Proofs.SccCheck.
Import ListNotations.
Import Scc.

Lemma same_comp_in_range : forall n comps u v, partition n comps -> same_comp comps u v -> u < n /\ v < n.
Proof.
  intros n comps u v [_ [Hall _]] [c [Hc [Hu Hv]]].
  split; apply Hall; apply in_concat; exists c; split; assumption.
Qed.

Theorem c18x_same_component_equivalence : forall g comps, scc_classes g comps ->
    (forall u, u < nv g -> same_comp comps u u)
    /\ (forall u v, same_comp comps u v -> same_comp comps v u)
    /\ (forall u v w, same_comp comps u v -> same_comp comps v w -> same_comp comps u w).
Proof.
  intros g comps [Hp [Hs Hc]]. split; [|split].
  - intros u Hu. apply Hc; [exact Hu|]. split; apply reach_refl.
  - intros u v [c [Hin [Hu Hv]]]. exists c. split; [exact Hin|]. split; assumption.
  - intros u v w Huv Hvw.
    destruct (same_comp_in_range _ _ _ _ Hp Huv) as [Hu _].
    apply Hs in Huv. apply Hs in Hvw. destruct Huv as [Huv Hvu]. destruct Hvw as [Hvw Hwv].
    apply Hc; [exact Hu|]. split; eapply reach_trans; eassumption.
Qed.

Theorem c18x_components_unique : forall g comps1 comps2, scc_classes g comps1 -> scc_classes g comps2 ->
    forall u v, same_comp comps1 u v <-> same_comp comps2 u v.
Proof.
  intros g c1 c2 [Hp1 [Hs1 Hc1]] [Hp2 [Hs2 Hc2]] u v. split; intros H.
  - destruct (same_comp_in_range _ _ _ _ Hp1 H) as [Hu _]. apply Hc2; [exact Hu|]. apply Hs1. exact H.
  - destruct (same_comp_in_range _ _ _ _ Hp2 H) as [Hu _]. apply Hc1; [exact Hu|]. apply Hs2. exact H.
Qed.

Check c18x_components_unique : forall g comps1 comps2, scc_classes g comps1 -> scc_classes g comps2 ->
    forall u v, same_comp comps1 u v <-> same_comp comps2 u v.

(* non-vacuity: the 2-cycle 0 <-> 1 plus the isolated vertex 2 has the classes {0,1} {2} *)
Example c18x_nonvacuous :
  let g := {| nv := 3; edges := [(0, 1); (1, 0)] |} in
  scc_classes g [[0; 1]; [2]] /\ same_comp [[0; 1]; [2]] 0 1 /\ ~ same_comp [[0; 1]; [2]] 0 2.
Proof.
  cbv zeta.
  assert (H : scc_classes {| nv := 3; edges := [(0, 1); (1, 0)] |} [[0; 1]; [2]]).
  { apply (check_scc_sound {| nv := 3; edges := [(0, 1); (1, 0)] |} [[0; 1]; [2]]). vm_compute. reflexivity. }
  split; [exact H|]. split.
  - exists [0; 1]. cbn. tauto.
  - intros [c [Hc [H0 H2]]]. cbn in Hc. destruct Hc as [Hc | [Hc | []]]; subst c; cbn in *; intuition discriminate.
Qed.

Print Assumptions c18x_same_component_equivalence.
Print Assumptions c18x_components_unique.
Print Assumptions c18x_nonvacuous.
