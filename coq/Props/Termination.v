(* TERMINATION of the search loop when vertices can be re-opened (A-star with an inconsistent estimate or a weight
   factor > 1): C05's `c05_answer_iff_partial` made total.

   The loop of Model/Search.v (run_loop / step / relax: run_a_star's `loop { pop; for edge in incident edges { .. } }`)
   ALWAYS terminates when costs are edge-local and never decrease a label, with the explicit fuel bound

        fuel_bound g = 1 + (|E| + 1) ^ (|V| - 1)          (>= 1 + the number of simple paths out of the source)

   for EVERY graph, direction, source, destination option, estimate function (consistent or not, any weight factor),
   frontier model (edge-local or not), termination model and queue policy (any [pop] that removes one entry; the
   model's pq_pop is one instance).  The estimate / frontier / traversal may fail (Err, Panic); they are only assumed
   not to be cut-off loops themselves.  No assumption links the estimate to the costs.

   Argument (Proofs/TermReopen.v): every label held in s_g is the cost of a SIMPLE path from the source found at
   labelling time (ghost list [hist], duplicate-free and prefix-closed); a relaxation replaces a label only by a
   strictly smaller one, whose path is simple (else a prefix, which is in hist, would already be cheaper than the
   label it replaces) and new (every path of hist to that vertex costs more); so the number of relabellings is at most
   the number of simple paths, each relabelling adds at most one queue entry, each iteration removes one.

   This file holds only statements closed by lemmas of Proofs/TermReopen*.v, pins, examples, Print Assumptions. *)
From Coq Require Import List Arith Bool String Lia.
From stdpp Require Import gmap.
From RC Require Import Base.Res Model.Search Model.Reach Model.FrontierReopen.
From RC Require Import Proofs.ReachSet Proofs.ReachInv Proofs.ReachCost Proofs.ReachTop Proofs.TermReopen Proofs.TermReopenTop.
Import ListNotations.
Import Search Reach ReachSetP ReachInvP TermReopenP TermReopenTopP.

(* the bound is explicit and depends on the graph only *)
Theorem term_fuel_bound : forall g, fuel_bound g = S (S (List.length (gedges g)) ^ (nverts g - 1)).
Proof. reflexivity. Qed.

(* ------------------------------------------------------------------ the loop: no assumption on estimate / frontier *)
Section Termination.
  Context {C St : Type}.
  Variable clt : C -> C -> bool.          (* Cost's strict comparison *)
  Variable cadd : C -> C -> C.
  Variable czero : C.
  Variable cfloor : C -> C.
  Variable g : graph.
  Variable frontier : nat -> St -> option nat -> res bool.
  Variable traverse : dir -> nat -> option nat -> St -> res (C * C * St).
  Variable estimate : nat -> nat -> St -> res C.      (* already multiplied by the weight factor *)
  Variable init_state : res St.
  Variable terminate : nat -> nat -> option string.
  Variable d : dir.
  Variable source : nat.
  Variable target : option nat.
  Variable ecost : nat -> C.
  Notation le := (ReachCostP.le clt).     (* le a b := clt b a = false *)

  Hypothesis Hwf : wf_graph g.
  Hypothesis Hsrc : source < nverts g.
  Hypothesis Htin : forall t, target = Some t -> t < nverts g.
  (* the cost order, as in C05 *)
  Hypothesis Hasym : forall a b, clt a b = true -> clt b a = false.
  Hypothesis Hletrans : forall a b c, le a b -> le b c -> le a c.
  (* edge-local costs that never decrease a label *)
  Hypothesis Hloc : forall e prev st ac tc st', traverse d e prev st = Ok (ac, tc, st') -> cfloor (cadd ac tc) = ecost e.
  Hypothesis Hinfl : forall e prev st ac tc st' a, traverse d e prev st = Ok (ac, tc, st') -> le a (cadd a (cfloor (cadd ac tc))).
  (* the parameters may fail but are not themselves cut-off loops *)
  Hypothesis Hfr_nf : forall e st prev, frontier e st prev <> OutOfFuel.
  Hypothesis Htr_nf : forall e prev st, traverse d e prev st <> OutOfFuel.
  Hypothesis Hest_nf : forall a b st, a < nverts g -> b < nverts g -> estimate a b st <> OutOfFuel.

  Notation run_loop := (run_loop clt cadd czero cfloor g frontier traverse estimate terminate).
  Notation run_loop_gen := (run_loop_gen clt cadd czero cfloor g frontier traverse estimate terminate d source target).
  Notation run_a_star := (run_a_star clt cadd czero cfloor g frontier traverse estimate init_state terminate).
  Notation run_a_star_state := (run_a_star_state clt cadd czero cfloor g frontier traverse estimate init_state terminate).
  Notation GI := (GI clt cadd czero g d source ecost).

  (* (1) the loop, started as run_a_star starts it, never exhausts fuel_bound g *)
  Theorem term_run_loop : forall init h0 fuel, fuel_bound g <= fuel ->
      run_loop fuel d source target init (mkS [(source, h0)] {[source := czero]} ∅ 0) <> OutOfFuel.
  Proof.
    exact (run_loop_init_terminates clt cadd czero cfloor g frontier traverse estimate terminate d source target ecost
             Hwf Hsrc Htin Hasym Hletrans Hloc Hinfl Hfr_nf Htr_nf Hest_nf).
  Qed.

  (* (1') ... whatever entry the queue hands out: the same loop with ANY pop that removes one entry *)
  Theorem term_run_loop_any_queue_policy : forall pop,
      (forall q v c q', pop q = Some (v, c, q') -> S (List.length q') = List.length q) ->
      forall init h0 fuel, fuel_bound g <= fuel ->
        run_loop_gen pop fuel init (mkS [(source, h0)] {[source := czero]} ∅ 0) <> OutOfFuel.
  Proof.
    exact (run_loop_gen_init_terminates clt cadd czero cfloor g frontier traverse estimate terminate d source target ecost
             Hwf Hsrc Htin Hasym Hletrans Hloc Hinfl Hfr_nf Htr_nf Hest_nf).
  Qed.
  (* the generalised loop is the model's loop when pop is the model's pq_pop *)
  Theorem term_run_loop_gen_is_run_loop : forall init fuel s,
      run_loop_gen (pq_pop clt) fuel init s = run_loop fuel d source target init s.
  Proof. exact (run_loop_gen_eq clt cadd czero cfloor g frontier traverse estimate terminate d source target). Qed.

  (* (1'') from any state satisfying the ghost invariant: the measure |queue| + (bound - |hist|) *)
  Theorem term_run_loop_measure : forall init fuel (s : sstate C St) hist, GI (s_g s) hist ->
      List.length (s_pq s) + path_bound g < fuel + List.length hist ->
      run_loop fuel d source target init s <> OutOfFuel.
  Proof.
    exact (run_loop_terminates clt cadd czero cfloor g frontier traverse estimate terminate d source target ecost
             Hwf Hsrc Htin Hasym Hletrans Hloc Hinfl Hfr_nf Htr_nf Hest_nf).
  Qed.
  Theorem term_hist_bound : forall gm hist, GI gm hist -> List.length hist <= path_bound g.
  Proof. exact (hist_bound clt cadd czero g d source ecost Hwf Hsrc). Qed.

  Hypothesis Hinit_nf : init_state <> OutOfFuel.

  (* (2) run_a_star never answers OutOfFuel *)
  Theorem term_run_a_star : forall fuel, fuel_bound g <= fuel -> run_a_star fuel d source target <> OutOfFuel.
  Proof.
    exact (run_a_star_terminates clt cadd czero cfloor g frontier traverse estimate init_state terminate d source target ecost
             Hwf Hsrc Htin Hasym Hletrans Hloc Hinfl Hfr_nf Htr_nf Hest_nf Hinit_nf).
  Qed.
  Theorem term_run_a_star_state : forall fuel, fuel_bound g <= fuel -> run_a_star_state fuel d source target <> OutOfFuel.
  Proof.
    exact (run_a_star_state_terminates clt cadd czero cfloor g frontier traverse estimate init_state terminate d source target ecost
             Hwf Hsrc Htin Hasym Hletrans Hloc Hinfl Hfr_nf Htr_nf Hest_nf Hinit_nf).
  Qed.

  (* (3) the ghost invariant read on the final state: every label is the cost of a simple path from the source
     (gpath v p: p lists edge ids, last edge first, from the source to v in the search direction) *)
  Theorem term_labels_are_simple_path_costs : forall fuel (s : sstate C St),
      run_a_star_state fuel d source target = Ok s ->
      forall v l, s_g s !! v = Some l ->
        exists p, gpath g d source v p /\ List.NoDup (pverts g d source p) /\ cost cadd czero ecost p = l.
  Proof.
    exact (final_labels_simple_paths clt cadd czero cfloor g frontier traverse estimate init_state terminate d source target ecost
             Hwf Hsrc Htin Hasym Hletrans Hloc Hinfl Hfr_nf Htr_nf Hest_nf Hinit_nf).
  Qed.
End Termination.

(* ------------------------------------------------------------------ C05's hypotheses: the two-sided statement is total *)
Section Total.
  Context {C St : Type}.
  Variable clt : C -> C -> bool.
  Variable cadd : C -> C -> C.
  Variable czero : C.
  Variable cfloor : C -> C.
  Variable g : graph.
  Variable frontier : nat -> St -> option nat -> res bool.
  Variable traverse : dir -> nat -> option nat -> St -> res (C * C * St).
  Variable estimate : nat -> nat -> St -> res C.
  Variable init_state : res St.
  Variable terminate : nat -> nat -> option string.
  Variable ok : nat -> bool.
  Variable ecost : nat -> C.
  Notation le := (ReachCostP.le clt).
  (* exactly the hypotheses of c05_answer_iff_partial ... *)
  Hypothesis Hwf : wf_graph g.
  Hypothesis Hfr : forall e st prev, frontier e st prev = Ok (ok e).
  Hypothesis Htr : forall d e prev st, exists r, traverse d e prev st = Ok r.
  Hypothesis Hest : forall a b st, a < nverts g -> b < nverts g -> exists c, estimate a b st = Ok c.
  Hypothesis Hinit : exists i0, init_state = Ok i0.
  Hypothesis Hasym : forall a b, clt a b = true -> clt b a = false.
  Hypothesis Hletrans : forall a b c, le a b -> le b c -> le a c.
  Hypothesis Hinfl : forall dd e prev st ac tc st' a, traverse dd e prev st = Ok (ac, tc, st') -> le a (cadd a (cfloor (cadd ac tc))).
  (* ... plus edge-local costs (the hypothesis of c05_tree_labels_least) *)
  Hypothesis Hloc : forall dd e prev st ac tc st', traverse dd e prev st = Ok (ac, tc, st') -> cfloor (cadd ac tc) = ecost e.
  Variable d : dir.
  Variable source : nat.
  Hypothesis Hsrc : source < nverts g.

  Notation run_a_star := (run_a_star clt cadd czero cfloor g frontier traverse estimate init_state terminate).
  Notation run_vertex_oriented := (run_vertex_oriented clt cadd czero cfloor g frontier traverse estimate init_state terminate).

  Theorem term_a_star_total : forall fuel target, (forall t, target = Some t -> t < nverts g) ->
      fuel_bound g <= fuel -> run_a_star fuel d source target <> OutOfFuel.
  Proof.
    exact (a_star_terminates clt cadd czero cfloor g frontier traverse estimate init_state terminate ok ecost
             Hwf Hfr Htr Hest Hinit Hasym Hletrans Hinfl Hloc d source Hsrc).
  Qed.

  (* loop and backtracking together *)
  Theorem term_run_vertex_oriented : forall fuel target, (forall t, target = Some t -> t < nverts g) ->
      fuel_bound g <= fuel -> run_vertex_oriented fuel d source target <> OutOfFuel.
  Proof.
    exact (vertex_oriented_terminates clt cadd czero cfloor g frontier traverse estimate init_state terminate ok ecost
             Hwf Hfr Htr Hest Hinit Hasym Hletrans Hinfl Hloc d source Hsrc).
  Qed.

  Hypothesis Hterm : forall a b, terminate a b = None.

  (* C05 (3d) without the fuel premise: any heuristic, any weight factor *)
  Theorem term_answer_iff : forall fuel t, t <> source -> t < nverts g -> fuel_bound g <= fuel ->
      ((exists r, run_vertex_oriented fuel d source (Some t) = Ok r) <-> reachable ok d g source t)
      /\ (run_vertex_oriented fuel d source (Some t) = Err "nopath"%string <-> ~ reachable ok d g source t).
  Proof.
    exact (answer_iff_total clt cadd czero cfloor g frontier traverse estimate init_state terminate ok ecost
             Hwf Hfr Htr Hest Hinit Hasym Hletrans Hinfl Hloc d source Hsrc Hterm).
  Qed.

  (* a destination-less search returns, and its tree covers every reachable vertex *)
  Theorem term_notarget_returns : forall fuel, fuel_bound g <= fuel ->
      exists tree it, run_vertex_oriented fuel d source None = Ok (mkR [tree] [] it)
        /\ forall v, reachable ok d g source v -> v = source \/ is_Some (tree !! v).
  Proof.
    exact (notarget_returns clt cadd czero cfloor g frontier traverse estimate init_state terminate ok ecost
             Hwf Hfr Htr Hest Hinit Hasym Hletrans Hinfl Hloc d source Hsrc Hterm).
  Qed.
End Total.

(* ------------------------------------------------------------------ statement pins *)
Check @term_run_a_star :
  forall (C St : Type) clt cadd czero cfloor g frontier traverse estimate init_state terminate d source target (ecost : nat -> C),
    wf_graph g -> source < nverts g -> (forall t, target = Some t -> t < nverts g) ->
    (forall a b, clt a b = true -> clt b a = false) ->
    (forall a b c, clt b a = false -> clt c b = false -> clt c a = false) ->
    (forall e prev st ac tc st', traverse d e prev st = Ok (ac, tc, st') -> cfloor (cadd ac tc) = ecost e) ->
    (forall e prev st ac tc st' a, traverse d e prev st = Ok (ac, tc, st') -> clt (cadd a (cfloor (cadd ac tc))) a = false) ->
    (forall e st prev, frontier e st prev <> OutOfFuel) ->
    (forall e prev st, traverse d e prev st <> OutOfFuel) ->
    (forall a b st, a < nverts g -> b < nverts g -> estimate a b st <> OutOfFuel) ->
    init_state <> OutOfFuel ->
    forall fuel, S (S (List.length (gedges g)) ^ (nverts g - 1)) <= fuel ->
      @run_a_star C St clt cadd czero cfloor g frontier traverse estimate init_state terminate fuel d source target <> OutOfFuel.
Check @term_run_loop_any_queue_policy :
  forall (C St : Type) clt cadd czero cfloor g frontier traverse estimate terminate d source target (ecost : nat -> C),
    wf_graph g -> source < nverts g -> (forall t, target = Some t -> t < nverts g) ->
    (forall a b, clt a b = true -> clt b a = false) ->
    (forall a b c, clt b a = false -> clt c b = false -> clt c a = false) ->
    (forall e prev st ac tc st', traverse d e prev st = Ok (ac, tc, st') -> cfloor (cadd ac tc) = ecost e) ->
    (forall e prev st ac tc st' a, traverse d e prev st = Ok (ac, tc, st') -> clt (cadd a (cfloor (cadd ac tc))) a = false) ->
    (forall e st prev, frontier e st prev <> OutOfFuel) ->
    (forall e prev st, traverse d e prev st <> OutOfFuel) ->
    (forall a b st, a < nverts g -> b < nverts g -> estimate a b st <> OutOfFuel) ->
    forall pop : list (nat * C) -> option (nat * C * list (nat * C)),
      (forall q v c q', pop q = Some (v, c, q') -> S (List.length q') = List.length q) ->
      forall (init : St) h0 fuel, S (S (List.length (gedges g)) ^ (nverts g - 1)) <= fuel ->
        @run_loop_gen C St clt cadd czero cfloor g frontier traverse estimate terminate d source target pop fuel init
          (mkS [(source, h0)] {[source := czero]} ∅ 0) <> OutOfFuel.
Check @term_run_vertex_oriented :
  forall (C St : Type) clt cadd czero cfloor g frontier traverse estimate init_state terminate ok (ecost : nat -> C),
    wf_graph g ->
    (forall e st prev, frontier e st prev = Ok (ok e)) ->
    (forall d e prev st, exists r, traverse d e prev st = Ok r) ->
    (forall a b st, a < nverts g -> b < nverts g -> exists c, estimate a b st = Ok c) ->
    (exists i0, init_state = Ok i0) ->
    (forall a b, clt a b = true -> clt b a = false) ->
    (forall a b c, clt b a = false -> clt c b = false -> clt c a = false) ->
    (forall dd e prev st ac tc st' a, traverse dd e prev st = Ok (ac, tc, st') -> clt (cadd a (cfloor (cadd ac tc))) a = false) ->
    (forall dd e prev st ac tc st', traverse dd e prev st = Ok (ac, tc, st') -> cfloor (cadd ac tc) = ecost e) ->
    forall d source, source < nverts g ->
    forall fuel target, (forall t, target = Some t -> t < nverts g) ->
      S (S (List.length (gedges g)) ^ (nverts g - 1)) <= fuel ->
      @run_vertex_oriented C St clt cadd czero cfloor g frontier traverse estimate init_state terminate fuel d source target <> OutOfFuel.
Check @term_answer_iff :
  forall (C St : Type) clt cadd czero cfloor g frontier traverse estimate init_state terminate ok (ecost : nat -> C),
    wf_graph g ->
    (forall e st prev, frontier e st prev = Ok (ok e)) ->
    (forall d e prev st, exists r, traverse d e prev st = Ok r) ->
    (forall a b st, a < nverts g -> b < nverts g -> exists c, estimate a b st = Ok c) ->
    (exists i0, init_state = Ok i0) ->
    (forall a b, clt a b = true -> clt b a = false) ->
    (forall a b c, clt b a = false -> clt c b = false -> clt c a = false) ->
    (forall dd e prev st ac tc st' a, traverse dd e prev st = Ok (ac, tc, st') -> clt (cadd a (cfloor (cadd ac tc))) a = false) ->
    (forall dd e prev st ac tc st', traverse dd e prev st = Ok (ac, tc, st') -> cfloor (cadd ac tc) = ecost e) ->
    forall d source, source < nverts g ->
    (forall a b, terminate a b = None) ->
    forall fuel t, t <> source -> t < nverts g -> S (S (List.length (gedges g)) ^ (nverts g - 1)) <= fuel ->
      ((exists r, @run_vertex_oriented C St clt cadd czero cfloor g frontier traverse estimate init_state terminate fuel d source (Some t) = Ok r)
         <-> reachable ok d g source t)
      /\ (@run_vertex_oriented C St clt cadd czero cfloor g frontier traverse estimate init_state terminate fuel d source (Some t)
            = Err "nopath"%string <-> ~ reachable ok d g source t).

(* ------------------------------------------------------------------ non-vacuity: a run that DOES re-open *)
Module TerminationExample.
  Import FrontierReopen.
  (* Model/FrontierReopen.v's D-REOPEN network: s=0 u=1 w=2 v=3 t=4; e0 s->u (10), e1 s->w (1), e2 w->u (1),
     e3 u->v (1), e4 v->t (100); inconsistent estimate h(w) = 50, 0 elsewhere: u is expanded with label 10, then
     re-labelled 2 through w and expanded again (and so is v when the turn is not restricted).  Witness.frontier is a turn restriction (NOT
     edge-local: the termination theorem does not care); frontier1 admits every edge (for term_answer_iff). *)
  Definition g5 := Witness.graph5.
  Definition frontier1 (e : nat) (st : nat) (prev : option nat) : res bool := Ok true.
  Definition a_star fr := @run_a_star nat nat Nat.ltb Nat.add 0 (fun c => c) g5 fr Witness.traverse Witness.estimate
                            Witness.init_state Witness.terminate.
  Definition vertex fr := @run_vertex_oriented nat nat Nat.ltb Nat.add 0 (fun c => c) g5 fr Witness.traverse Witness.estimate
                            Witness.init_state Witness.terminate.
  Definition reopens fr fuel := K_reopen Nat.ltb Nat.add 0 (fun c : nat => c) g5 fr Witness.traverse Witness.estimate
                                  Witness.init_state Witness.terminate fuel Forward 0 (Some 4).

  Lemma ltb_asym a b : Nat.ltb a b = true -> Nat.ltb b a = false.
  Proof. rewrite Nat.ltb_lt, Nat.ltb_ge. lia. Qed.
  Lemma ltb_letrans a b c : Nat.ltb b a = false -> Nat.ltb c b = false -> Nat.ltb c a = false.
  Proof. rewrite !Nat.ltb_ge. lia. Qed.
  Lemma wf_g5 : wf_graph g5.
  Proof. intros e Hin. simpl in Hin. repeat (destruct Hin as [<-|Hin]; [simpl; lia|]). destruct Hin. Qed.
  Lemma loc5 : forall dd e prev st ac tc st', Witness.traverse dd e prev st = Ok (ac, tc, st') -> (fun c : nat => c) (ac + tc) = Witness.cost e.
  Proof. intros dd e prev st ac tc st' [= <- <- _]. reflexivity. Qed.
  Lemma infl5 : forall dd e prev st ac tc st' a, Witness.traverse dd e prev st = Ok (ac, tc, st') -> Nat.ltb (a + (fun c : nat => c) (ac + tc)) a = false.
  Proof. intros. apply Nat.ltb_ge. lia. Qed.

  (* the hypotheses of term_run_a_star are met with the turn-restriction frontier model and the inconsistent
     estimate: the run terminates for every destination option and every fuel >= 1297 *)
  Example term_instance : forall fuel target, (forall t, target = Some t -> t < 5) -> fuel_bound g5 <= fuel ->
      a_star Witness.frontier fuel Forward 0 target <> OutOfFuel.
  Proof.
    intros fuel target Ht.
    apply (term_run_a_star Nat.ltb Nat.add 0 (fun c => c) g5 Witness.frontier Witness.traverse Witness.estimate Witness.init_state
             Witness.terminate Forward 0 target Witness.cost).
    - exact wf_g5.
    - simpl. lia.
    - exact Ht.
    - exact ltb_asym.
    - exact ltb_letrans.
    - apply loc5.
    - apply infl5.
    - intros e st [p|]; simpl; discriminate.
    - intros e prev st. unfold Witness.traverse. discriminate.
    - intros a b st _ _. unfold Witness.estimate. discriminate.
    - unfold Witness.init_state. discriminate.
  Qed.

  (* the run re-opens, needs MORE than Dijkstra's |V| + 1 iterations, and stays far below the bound *)
  Example term_reopens :
    fuel_bound g5 = 1297
    /\ reopens Witness.frontier (fuel_bound g5) = true /\ reopens frontier1 (fuel_bound g5) = true
    /\ rmap snd (a_star Witness.frontier (fuel_bound g5) Forward 0 (Some 4)) = Ok 5
    /\ rmap snd (a_star frontier1 (fuel_bound g5) Forward 0 (Some 4)) = Ok 6
    /\ a_star frontier1 (S (nverts g5)) Forward 0 (Some 4) = OutOfFuel
    /\ a_star frontier1 7 Forward 0 (Some 4) <> OutOfFuel.
  Proof. repeat (split; [vm_compute; reflexivity|]). vm_compute. discriminate. Qed.

  (* C05's equivalence, total, on the same network with the inconsistent estimate *)
  Example term_answer_iff_instance : forall fuel t, t <> 0 -> t < 5 -> fuel_bound g5 <= fuel ->
      ((exists r, vertex frontier1 fuel Forward 0 (Some t) = Ok r) <-> reachable (fun _ => true) Forward g5 0 t)
      /\ (vertex frontier1 fuel Forward 0 (Some t) = Err "nopath"%string <-> ~ reachable (fun _ => true) Forward g5 0 t).
  Proof.
    apply (term_answer_iff Nat.ltb Nat.add 0 (fun c => c) g5 frontier1 Witness.traverse Witness.estimate Witness.init_state
             Witness.terminate (fun _ => true) Witness.cost).
    - exact wf_g5.
    - reflexivity.
    - intros. eexists. reflexivity.
    - intros. eexists. reflexivity.
    - eexists. reflexivity.
    - exact ltb_asym.
    - exact ltb_letrans.
    - exact infl5.
    - exact loc5.
    - simpl. lia.
    - reflexivity.
  Qed.
  Example term_answer_both_sides :
    (exists r, vertex frontier1 (fuel_bound g5) Forward 0 (Some 4) = Ok r /\ map (map et_edge) (r_routes r) = [[1; 2; 3; 4]])
    /\ vertex frontier1 (fuel_bound g5) Reverse 0 (Some 4) = Err "nopath"%string.
  Proof. split; [eexists; split; vm_compute; reflexivity|vm_compute; reflexivity]. Qed.
End TerminationExample.

(* ------------------------------------------------------------------ assumptions *)
Print Assumptions term_fuel_bound.
Print Assumptions term_run_loop.
Print Assumptions term_run_loop_any_queue_policy.
Print Assumptions term_run_loop_gen_is_run_loop.
Print Assumptions term_run_loop_measure.
Print Assumptions term_hist_bound.
Print Assumptions term_run_a_star.
Print Assumptions term_run_a_star_state.
Print Assumptions term_labels_are_simple_path_costs.
Print Assumptions term_a_star_total.
Print Assumptions term_run_vertex_oriented.
Print Assumptions term_answer_iff.
Print Assumptions term_notarget_returns.
Print Assumptions TerminationExample.term_instance.
Print Assumptions TerminationExample.term_reopens.
Print Assumptions TerminationExample.term_answer_iff_instance.
Print Assumptions TerminationExample.term_answer_both_sides.
