(* C09, extension - order and path facts about the unit conversions, checked together with Props/C09.v.

   Like Props/C09.v all statements are about the exact-rational reading [QN] of Model/Units.v over the table
   Gen/UnitTables.v that the translator REGENERATES from the Rust unit files on every run.  They spell out what
   the rest of the system relies on when it compares converted quantities, for the five families to which C09
   attaches a physical factor (distance, time, speed, grade, weight):

     - every factor of every ordered pair is strictly positive, so a conversion is strictly monotone in both
       directions, keeps sign and zero, and is injective: comparing two costs or two limits gives the same answer
       in every unit;
     - converting through any intermediate unit agrees with the direct conversion to within 0.31 %
       (1.001^2 / 0.999 - 1), for all 125 + 64 + 27 + 27 + 27 triples and every magnitude and sign.

   Both are consequences of C09's own clauses (positive exact ratios, each table factor within 0.1 %), so these
   obligations cannot fail on a tree where C09 holds.  The energy family is left out on purpose: C09 does not pin
   its fuel equivalences, and they are three independent conventions that are not path-consistent (gasoline ->
   diesel -> kWh differs from the direct arm by 9 %; DESIGN.md section 4 C09).

   This file holds only theorem statements closed by lemmas of Proofs/UnitsOrder.v, pins, examples and
   Print Assumptions. *)
From Coq Require Import ZArith QArith Qabs String List Bool.
From RC Require Import Base.Num Base.Res Gen.UnitTables Model.Units Model.UnitsRun Proofs.Units Proofs.UnitsOrder.
Import ListNotations.
Import Units.
Local Open Scope Q_scope.

Theorem c09x_factors_positive :
  (forall u v, 0 < k_dist u v) /\ (forall u v, 0 < k_time u v) /\ (forall u v, 0 < k_speed u v)
  /\ (forall u v, 0 < k_grade u v) /\ (forall u v, 0 < k_weight u v).
Proof.
  repeat split.
  - exact k_dist_pos.  - exact k_time_pos.  - exact k_speed_pos.
  - exact k_grade_pos.  - exact k_weight_pos.
Qed.

Theorem c09x_convert_order_preserving :
  order_facts (convert_distance QN) /\ order_facts (convert_time QN) /\ order_facts (convert_speed QN)
  /\ order_facts (convert_grade QN) /\ order_facts (convert_weight QN).
Proof.
  split; [exact distance_order|]. split; [exact time_order|]. split; [exact speed_order|].
  split; [exact grade_order | exact weight_order].
Qed.

Theorem c09x_convert_via_within_0_31pct :
  via_facts (convert_distance QN) /\ via_facts (convert_time QN) /\ via_facts (convert_speed QN)
  /\ via_facts (convert_grade QN) /\ via_facts (convert_weight QN).
Proof.
  split; [exact distance_via|]. split; [exact time_via|]. split; [exact speed_via|].
  split; [exact grade_via | exact weight_via].
Qed.

(* ------------------------------------------------------------------ statement pins *)
Check c09x_convert_order_preserving :
  ((forall u v x y, x < y <-> convert_distance QN u v x < convert_distance QN u v y)
   /\ (forall u v x y, x <= y -> convert_distance QN u v x <= convert_distance QN u v y)
   /\ (forall u v x y, convert_distance QN u v x == convert_distance QN u v y -> x == y)
   /\ (forall u v x, (0 < x <-> 0 < convert_distance QN u v x) /\ (x < 0 <-> convert_distance QN u v x < 0)))
  /\ order_facts (convert_time QN) /\ order_facts (convert_speed QN)
  /\ order_facts (convert_grade QN) /\ order_facts (convert_weight QN).
Check c09x_convert_via_within_0_31pct :
  (forall u v w x, Qabs (convert_distance QN v w (convert_distance QN u v x) - convert_distance QN u w x)
                   <= (31 # 10000) * Qabs (convert_distance QN u w x))
  /\ via_facts (convert_time QN) /\ via_facts (convert_speed QN)
  /\ via_facts (convert_grade QN) /\ via_facts (convert_weight QN).

(* ------------------------------------------------------------------ non-vacuity *)
Example c09x_nonvacuous_order :
  convert_distance QN Miles Kilometers 1 < convert_distance QN Miles Kilometers 2
  /\ convert_distance QN Miles Kilometers (-2) < convert_distance QN Miles Kilometers (-1)
  /\ ~ convert_distance QN Kilometers Miles 5 == convert_distance QN Kilometers Miles 6.
Proof. exact ex_order. Qed.

Print Assumptions c09x_factors_positive.
Print Assumptions c09x_convert_order_preserving.
Print Assumptions c09x_convert_via_within_0_31pct.
Print Assumptions c09x_nonvacuous_order.
