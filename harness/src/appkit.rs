//! Shared helpers for streams that go through CompassApp (config TOML + generated network files): owned by the C12 work item.
