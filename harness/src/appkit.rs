//! Shared helpers for streams that go through the REAL `CompassApp` (config TOML + generated network
//! files on disk, no network access).  Owned by the C12 work item; C06 / C19 and others reuse it.
//!
//! Public API
//!   network   Net { coords, edges }                    vertices = index in `coords` (x = lon, y = lat),
//!                                                       edges = (src, dst, distance_m, speed_kph, road_class)
//!             Net::grid(w, h) / Net::line(n) / Net::diamond() / Net::yen_hang()   small deterministic networks
//!             Net::random(rng, n)                       random sparse digraph on a 0.01-degree grid
//!             write_network(dir, &Net) -> NetFiles      edges.csv, vertices.csv, speeds.txt, geometries.txt,
//!                                                       road_classes.txt, uuids.txt (absolute paths)
//!   config    InPlugin / OutPlugin / Alg / Traversal / AppCfg  -- a chosen plugin configuration, algorithm,
//!             orientation, parallelism, termination, response persistence and optional output file
//!             config_toml(&AppCfg, &NetFiles) -> String the TOML text (absolute data paths)
//!             build_app(&AppCfg, dir) -> Result<Arc<CompassApp>, String>   writes network + `compass.toml`
//!                                                       into `dir` and calls try_from_config_toml_string
//!             cfg_to_json / cfg_from_json               (case descriptions / replay)
//!   run       RunOutcome { Ok(responses) | Err(msg) | Panic(msg) | Hang }
//!             run_watchdog(&Arc<CompassApp>, queries, config_override, timeout_ms) -> RunOutcome
//!                 `app.run` on its own thread under catch_unwind; no answer within `timeout_ms` => Hang
//!                 (the thread is abandoned: call std::process::exit at the end of main)
//!             run_user_json(&Arc<CompassApp>, &user_json, override, timeout_ms) -> RunOutcome
//!                 what the CLI does: `get_queries()` then `run`
//!             call_watchdog(f, timeout_ms) -> Option<Result<T, String>>   the same for any closure; also gives up
//!                 (None) when the process grows by more than RUNAWAY_BYTES while waiting
//!   recorder  Recorder / wrap_input_plugins(&CompassApp, idxs) -> (CompassApp', log)
//!                 replaces chosen input plugins by recording proxies: every (input, result) pair of
//!                 `process` is logged (the plugin is then an ORACLE for a model that treats it as opaque)
//!   print     strip_wallclock(&Value) -> Value          removes runtimes / timestamps / memory sizes
//!             canon_response(&Value) -> String          sorted keys, wall-clock fields removed
//!             response_class(&Value) -> &'static str    "ok" | "err" | "bad" (not an object / no request)
use crate::*;
use routee_compass::app::compass::compass_app::CompassApp;
use routee_compass::app::compass::compass_json_extensions::CompassJsonExtensions;
use routee_compass::app::compass::config::compass_app_builder::CompassAppBuilder;
use routee_compass::plugin::input::input_plugin::InputPlugin;
use routee_compass::plugin::input::InputPluginError;
use serde_json::{json, Value};
use std::path::{Path, PathBuf};
use std::sync::{mpsc, Arc, Mutex};

// ------------------------------------------------------------------------------------------ network

#[derive(Clone, Debug)]
pub struct Net {
    pub coords: Vec<(f64, f64)>,
    /// (src, dst, distance in meters, speed in km/h, road class)
    pub edges: Vec<(usize, usize, f64, f64, u8)>,
}
impl Net {
    /// w x h grid, 0.01 degree spacing around (-105, 39.7), both directions on every street
    pub fn grid(w: usize, h: usize) -> Net {
        let mut coords = vec![];
        for j in 0..h {
            for i in 0..w {
                coords.push((-105.0 + 0.01 * i as f64, 39.7 + 0.01 * j as f64));
            }
        }
        let mut edges = vec![];
        let id = |i: usize, j: usize| j * w + i;
        for j in 0..h {
            for i in 0..w {
                if i + 1 < w {
                    edges.push((id(i, j), id(i + 1, j), 850.0, 40.0, 1));
                    edges.push((id(i + 1, j), id(i, j), 850.0, 40.0, 1));
                }
                if j + 1 < h {
                    edges.push((id(i, j), id(i, j + 1), 1110.0, 60.0, 2));
                    edges.push((id(i, j + 1), id(i, j), 1110.0, 60.0, 2));
                }
            }
        }
        Net { coords, edges }
    }
    /// one-way chain 0 -> 1 -> ... -> n-1 plus one isolated vertex n
    pub fn line(n: usize) -> Net {
        let coords = (0..=n).map(|i| (-105.0 + 0.01 * i as f64, 39.7)).collect();
        let edges = (0..n.saturating_sub(1)).map(|i| (i, i + 1, 850.0, 40.0, 1)).collect();
        Net { coords, edges }
    }
    /// 0->1->3 (1+1 km), 0->2->3 (2+2 km), 0->3 (10 km): the D-ACCEPTALL / D-YEN diamond
    pub fn diamond() -> Net {
        Net {
            coords: vec![(-105.0, 39.7), (-104.99, 39.71), (-104.99, 39.69), (-104.98, 39.7)],
            edges: vec![
                (0, 1, 1000.0, 40.0, 1),
                (1, 3, 1000.0, 40.0, 1),
                (0, 2, 2000.0, 40.0, 1),
                (2, 3, 2000.0, 40.0, 1),
                (0, 3, 10000.0, 40.0, 2),
            ],
        }
    }
    /// the 3-edge shortest path network on which Yen's k = 3 from 0 to 3 was observed not to return (D-YEN)
    pub fn yen_hang() -> Net {
        Net {
            coords: vec![(-105.0, 39.7), (-104.99, 39.7), (-104.98, 39.7), (-104.97, 39.7)],
            edges: vec![
                (0, 1, 1000.0, 40.0, 1),
                (1, 2, 1000.0, 40.0, 1),
                (2, 3, 1000.0, 40.0, 1),
                (0, 2, 5000.0, 40.0, 1),
                (1, 3, 5000.0, 40.0, 1),
                (0, 3, 20000.0, 40.0, 1),
            ],
        }
    }
    pub fn random(rng: &mut Rng, n: usize) -> Net {
        let n = n.max(2);
        let coords: Vec<(f64, f64)> =
            (0..n).map(|_| (-105.0 + 0.01 * rng.below(8) as f64, 39.7 + 0.01 * rng.below(8) as f64)).collect();
        let mut edges = vec![];
        for s in 0..n {
            let deg = rng.below(4) as usize;
            for _ in 0..deg {
                let d = rng.below(n as u64) as usize;
                edges.push((s, d, 100.0 * (1 + rng.below(40)) as f64, 10.0 * (1 + rng.below(12)) as f64, rng.below(4) as u8));
            }
        }
        if edges.is_empty() {
            edges.push((0, 1, 500.0, 30.0, 1));
        }
        Net { coords, edges }
    }
    pub fn to_json(&self) -> Value {
        json!({"coords": self.coords, "edges": self.edges})
    }
    pub fn from_json(v: &Value) -> Net {
        Net {
            coords: serde_json::from_value(v["coords"].clone()).unwrap(),
            edges: serde_json::from_value(v["edges"].clone()).unwrap(),
        }
    }
}

#[derive(Clone, Debug)]
pub struct NetFiles {
    pub dir: PathBuf,
    pub edges: String,
    pub vertices: String,
    pub speeds: String,
    pub geometries: String,
    pub road_classes: String,
    pub uuids: String,
}
fn abs(p: &Path) -> String {
    let p = if p.is_absolute() { p.to_path_buf() } else { std::env::current_dir().unwrap().join(p) };
    p.to_str().unwrap().to_string()
}
pub fn write_network(dir: &Path, net: &Net) -> NetFiles {
    std::fs::create_dir_all(dir).unwrap();
    let w = |name: &str, content: String| -> String {
        let p = dir.join(name);
        std::fs::write(&p, content).unwrap();
        abs(&p)
    };
    let mut e = String::from("edge_id,src_vertex_id,dst_vertex_id,distance\n");
    let mut sp = String::new();
    let mut ge = String::new();
    let mut rc = String::new();
    for (i, (s, d, dist, speed, class)) in net.edges.iter().enumerate() {
        e += &format!("{},{},{},{}\n", i, s, d, dist);
        sp += &format!("{}\n", speed);
        let (a, b) = (net.coords[*s], net.coords[*d]);
        ge += &format!("LINESTRING ({} {}, {} {})\n", a.0, a.1, b.0, b.1);
        rc += &format!("{}\n", class);
    }
    let mut v = String::from("vertex_id,x,y\n");
    let mut uu = String::new();
    for (i, (x, y)) in net.coords.iter().enumerate() {
        v += &format!("{},{},{}\n", i, x, y);
        uu += &format!("uuid-{}\n", i);
    }
    NetFiles {
        dir: dir.to_path_buf(),
        edges: w("edges.csv", e),
        vertices: w("vertices.csv", v),
        speeds: w("speeds.txt", sp),
        geometries: w("geometries.txt", ge),
        road_classes: w("road_classes.txt", rc),
        uuids: w("uuids.txt", uu),
    }
}

// ------------------------------------------------------------------------------------------ configuration

#[derive(Clone, Debug, PartialEq)]
pub enum InPlugin {
    GridSearch,
    /// `value` is the text given in the TOML (parsed by the plugin builder as JSON or kept as a string)
    Inject { key: String, value: String, json_format: bool, overwrite: Option<bool> },
    LbHaversine,
    /// custom numeric weight read from `column` (None: "query_weight_estimate")
    LbNumeric { column: Option<String> },
    /// custom categorical weight: mapping a -> 1.0, b -> 2.5 ; optional default
    LbCategorical { column: Option<String>, default: Option<f64> },
    VertexRtree { tolerance_m: Option<f64> },
    EdgeRtree { tolerance_m: Option<f64>, road_classes: bool },
    Debug,
}
#[derive(Clone, Debug, PartialEq)]
pub enum OutPlugin {
    Summary,
    /// route / tree formats: "wkt" "wkb" "json" "geo_json" "edge_id"
    Traversal { route: Option<String>, tree: Option<String> },
    Uuid,
}
#[derive(Clone, Debug, PartialEq)]
pub enum Alg {
    AStar,
    Dijkstra,
    KspSingleVia { k: usize, dijkstra: bool },
    Yens { k: usize, dijkstra: bool },
}
#[derive(Clone, Debug, PartialEq)]
pub enum Traversal {
    Distance,
    SpeedTable,
    /// energy model over the speed table with the repository's smartcore test vehicles: "Toyota_Camry" (ice),
    /// "Chevy_Bolt" (bev), "Chevy_Volt" (phev)
    Energy,
}
#[derive(Clone, Debug, PartialEq)]
pub enum Termination {
    Default,
    Iterations(u64),
    SolutionSize(u64),
    /// whole seconds (the config format is H:MM:SS), check frequency
    RuntimeS(u64, u64),
}
#[derive(Clone, Debug)]
pub struct AppCfg {
    pub net: Net,
    pub inputs: Vec<InPlugin>,
    pub outputs: Vec<OutPlugin>,
    pub alg: Alg,
    pub traversal: Traversal,
    pub edge_oriented: bool,
    pub parallelism: usize,
    pub termination: Termination,
    /// false = discard_response_from_memory
    pub persist: bool,
    /// Some(newline_delimited) = json file sink `responses.json` in the app directory
    pub out_file: Option<bool>,
}
impl AppCfg {
    pub fn basic(net: Net) -> AppCfg {
        AppCfg {
            net,
            inputs: vec![],
            outputs: vec![],
            alg: Alg::AStar,
            traversal: Traversal::SpeedTable,
            edge_oriented: false,
            parallelism: 2,
            termination: Termination::Default,
            persist: true,
            out_file: None,
        }
    }
}

fn toml_str(s: &str) -> String {
    format!("\"{}\"", s.replace('\\', "\\\\").replace('"', "\\\""))
}
fn alg_toml(a: &Alg) -> String {
    let under = |d: bool| if d { "{ type = \"dijkstra\" }" } else { "{ type = \"a*\" }" };
    match a {
        Alg::AStar => "type = \"a*\"\n".into(),
        Alg::Dijkstra => "type = \"dijkstra\"\n".into(),
        Alg::KspSingleVia { k, dijkstra } => format!("type = \"ksp_single_via\"\nk = {}\nunderlying = {}\n", k, under(*dijkstra)),
        Alg::Yens { k, dijkstra } => format!("type = \"yens\"\nk = {}\nunderlying = {}\n", k, under(*dijkstra)),
    }
}
const POWERTRAIN_TEST: &str = "/repo/rust/routee-compass-powertrain/src/routee/test";
/// directory of the powertrain test models in the repository under test (VERIF_REPO aware)
pub fn powertrain_test_dir() -> String {
    match std::env::var("VERIF_REPO") {
        Ok(r) if !r.is_empty() => format!("{}/rust/routee-compass-powertrain/src/routee/test", r.trim_end_matches('/')),
        _ => POWERTRAIN_TEST.to_string(),
    }
}
pub fn config_toml(c: &AppCfg, f: &NetFiles) -> String {
    let mut t = String::new();
    t += &format!("parallelism = {}\n", c.parallelism);
    t += &format!("search_orientation = \"{}\"\n", if c.edge_oriented { "edge" } else { "vertex" });
    t += &format!(
        "response_persistence_policy = \"{}\"\n",
        if c.persist { "persist_response_in_memory" } else { "discard_response_from_memory" }
    );
    match c.out_file {
        None => t += "[response_output_policy]\ntype = \"none\"\n",
        Some(nd) => {
            t += &format!(
                "[response_output_policy]\ntype = \"file\"\nfilename = {}\nformat = {{ type = \"json\", newline_delimited = {} }}\n",
                toml_str(&abs(&f.dir.join("responses.json"))),
                nd
            )
        }
    }
    t += &format!(
        "[graph]\nedge_list_input_file = {}\nvertex_list_input_file = {}\nverbose = false\n",
        toml_str(&f.edges),
        toml_str(&f.vertices)
    );
    t += "[algorithm]\n";
    t += &alg_toml(&c.alg);
    match c.traversal {
        Traversal::Distance => {
            t += "[traversal]\ntype = \"distance\"\ndistance_unit = \"kilometers\"\n";
            t += "[cost]\ncost_aggregation = \"sum\"\n[cost.weights]\ndistance = 1\n[cost.vehicle_rates.distance]\ntype = \"raw\"\n";
        }
        Traversal::SpeedTable => {
            t += &format!(
                "[traversal]\ntype = \"speed_table\"\nspeed_table_input_file = {}\nspeed_unit = \"kilometers_per_hour\"\noutput_time_unit = \"minutes\"\n",
                toml_str(&f.speeds)
            );
            t += "[cost]\ncost_aggregation = \"sum\"\n[cost.weights]\ndistance = 0\ntime = 1\n[cost.vehicle_rates.time]\ntype = \"raw\"\n[cost.vehicle_rates.distance]\ntype = \"raw\"\n";
        }
        Traversal::Energy => {
            t += "[traversal]\ntype = \"energy_model\"\ntime_unit = \"minutes\"\ndistance_unit = \"miles\"\ngrade_table_grade_unit = \"decimal\"\n";
            t += &format!(
                "[traversal.time_model]\ntype = \"speed_table\"\nspeed_table_input_file = {}\nspeed_unit = \"kilometers_per_hour\"\noutput_time_unit = \"minutes\"\n",
                toml_str(&f.speeds)
            );
            t += &format!(
                "[[traversal.vehicles]]\nname = \"Toyota_Camry\"\ntype = \"ice\"\nmodel_input_file = {}\nmodel_type = \"smartcore\"\nspeed_unit = \"miles_per_hour\"\ngrade_unit = \"decimal\"\nenergy_rate_unit = \"gallons_gasoline_per_mile\"\nideal_energy_rate = 0.02857143\nreal_world_energy_adjustment = 1.166\n",
                toml_str(&format!("{}/Toyota_Camry.bin", powertrain_test_dir()))
            );
            t += &format!(
                "[[traversal.vehicles]]\nname = \"Chevy_Bolt\"\ntype = \"bev\"\nmodel_input_file = {}\nmodel_type = \"smartcore\"\nspeed_unit = \"miles_per_hour\"\ngrade_unit = \"decimal\"\nenergy_rate_unit = \"kilowatt_hours_per_mile\"\nideal_energy_rate = 0.2\nreal_world_energy_adjustment = 1.3958\nbattery_capacity = 60\nbattery_capacity_unit = \"kilowatt_hours\"\n",
                toml_str(&format!("{}/2017_CHEVROLET_Bolt.bin", powertrain_test_dir()))
            );
            t += &format!(
                "[[traversal.vehicles]]\nname = \"Chevy_Volt\"\ntype = \"phev\"\nbattery_capacity = 12\nbattery_capacity_unit = \"kilowatt_hours\"\n[traversal.vehicles.charge_depleting]\nname = \"Chevy_Volt_Charge_Depleting\"\nmodel_input_file = {}\nmodel_type = \"smartcore\"\nspeed_unit = \"miles_per_hour\"\ngrade_unit = \"decimal\"\nenergy_rate_unit = \"kilowatt_hours_per_mile\"\nideal_energy_rate = 0.2\nreal_world_energy_adjustment = 1.3958\n[traversal.vehicles.charge_sustaining]\nname = \"Chevy_Volt_Charge_Sustaining\"\nmodel_input_file = {}\nmodel_type = \"smartcore\"\nspeed_unit = \"miles_per_hour\"\ngrade_unit = \"decimal\"\nenergy_rate_unit = \"gallons_gasoline_per_mile\"\nideal_energy_rate = 0.02\nreal_world_energy_adjustment = 1.1252\n",
                toml_str(&format!("{}/2016_CHEVROLET_Volt_Charge_Depleting.bin", powertrain_test_dir())),
                toml_str(&format!("{}/2016_CHEVROLET_Volt_Charge_Sustaining.bin", powertrain_test_dir()))
            );
            t += "[cost]\ncost_aggregation = \"sum\"\nignore_unknown_user_provided_weights = true\n[cost.weights]\ndistance = 1\ntime = 1\nenergy_liquid = 1\nenergy_electric = 1\n[cost.vehicle_rates.time]\ntype = \"raw\"\n[cost.vehicle_rates.distance]\ntype = \"raw\"\n[cost.vehicle_rates.energy_liquid]\ntype = \"raw\"\n[cost.vehicle_rates.energy_electric]\ntype = \"raw\"\n";
        }
    }
    t += "[access]\ntype = \"no_access_model\"\n[frontier]\ntype = \"no_restriction\"\n";
    match c.termination {
        Termination::Default => {}
        Termination::Iterations(n) => t += &format!("[termination]\ntype = \"iterations\"\nlimit = {}\n", n),
        Termination::SolutionSize(n) => t += &format!("[termination]\ntype = \"solution_size\"\nlimit = {}\n", n),
        Termination::RuntimeS(secs, freq) => {
            t += &format!(
                "[termination]\ntype = \"query_runtime\"\nlimit = \"{}:{:02}:{:02}\"\nfrequency = {}\n",
                secs / 3600,
                (secs / 60) % 60,
                secs % 60,
                freq
            )
        }
    }
    let tol = |x: &Option<f64>| match x {
        None => String::new(),
        Some(m) => format!(", distance_tolerance = {:?}, distance_unit = \"meters\"", m),
    };
    let ins: Vec<String> = c
        .inputs
        .iter()
        .map(|p| match p {
            InPlugin::GridSearch => "{ type = \"grid_search\" }".to_string(),
            InPlugin::Debug => "{ type = \"debug\" }".to_string(),
            InPlugin::Inject { key, value, json_format, overwrite } => format!(
                "{{ type = \"inject\", key = {}, value = {}, format = \"{}\"{} }}",
                toml_str(key),
                toml_str(value),
                if *json_format { "json" } else { "string" },
                match overwrite {
                    None => String::new(),
                    Some(b) => format!(", overwrite = {}", b),
                }
            ),
            InPlugin::LbHaversine => "{ type = \"load_balancer\", weight_heuristic = { type = \"haversine\" } }".to_string(),
            InPlugin::LbNumeric { column } => format!(
                "{{ type = \"load_balancer\", weight_heuristic = {{ type = \"custom\", custom_weight_type = {{ type = \"numeric\"{} }} }} }}",
                match column {
                    None => String::new(),
                    Some(c) => format!(", column_name = {}", toml_str(c)),
                }
            ),
            InPlugin::LbCategorical { column, default } => format!(
                "{{ type = \"load_balancer\", weight_heuristic = {{ type = \"custom\", custom_weight_type = {{ type = \"categorical\"{}{}, mapping = {{ a = 1.0, b = 2.5 }} }} }} }}",
                match column {
                    None => String::new(),
                    Some(c) => format!(", column_name = {}", toml_str(c)),
                },
                match default {
                    None => String::new(),
                    Some(d) => format!(", default = {:?}", d),
                }
            ),
            InPlugin::VertexRtree { tolerance_m } => {
                format!("{{ type = \"vertex_rtree\", vertices_input_file = {}{} }}", toml_str(&f.vertices), tol(tolerance_m))
            }
            InPlugin::EdgeRtree { tolerance_m, road_classes } => format!(
                "{{ type = \"edge_rtree\", geometry_input_file = {}{}{} }}",
                toml_str(&f.geometries),
                if *road_classes { format!(", road_class_input_file = {}", toml_str(&f.road_classes)) } else { String::new() },
                tol(tolerance_m)
            ),
        })
        .collect();
    let outs: Vec<String> = c
        .outputs
        .iter()
        .map(|p| match p {
            OutPlugin::Summary => "{ type = \"summary\" }".to_string(),
            OutPlugin::Uuid => format!("{{ type = \"uuid\", uuid_input_file = {} }}", toml_str(&f.uuids)),
            OutPlugin::Traversal { route, tree } => format!(
                "{{ type = \"traversal\", geometry_input_file = {}{}{} }}",
                toml_str(&f.geometries),
                route.as_ref().map(|r| format!(", route = \"{}\"", r)).unwrap_or_default(),
                tree.as_ref().map(|r| format!(", tree = \"{}\"", r)).unwrap_or_default()
            ),
        })
        .collect();
    t += &format!("[plugin]\ninput_plugins = [\n  {}\n]\noutput_plugins = [\n  {}\n]\n", ins.join(",\n  "), outs.join(",\n  "));
    t
}

/// writes the network and `compass.toml` into `dir` and builds the real application from them
pub fn build_app(c: &AppCfg, dir: &Path) -> Result<Arc<CompassApp>, String> {
    let files = write_network(dir, &c.net);
    let toml = config_toml(c, &files);
    let conf_path = dir.join("compass.toml");
    std::fs::write(&conf_path, &toml).map_err(|e| e.to_string())?;
    let out = dir.join("responses.json");
    let _ = std::fs::remove_file(&out);
    let conf = abs(&conf_path);
    match catch(move || CompassApp::try_from_config_toml_string(toml, conf, &CompassAppBuilder::default())) {
        Ok(Ok(app)) => Ok(Arc::new(app)),
        Ok(Err(e)) => Err(format!("build error: {}", e)),
        Err(p) => Err(format!("build panic: {}", p)),
    }
}

// ---- case descriptions
fn in_to_json(p: &InPlugin) -> Value {
    match p {
        InPlugin::GridSearch => json!({"t": "grid_search"}),
        InPlugin::Debug => json!({"t": "debug"}),
        InPlugin::Inject { key, value, json_format, overwrite } => json!({"t": "inject", "key": key, "value": value, "json": json_format, "overwrite": overwrite}),
        InPlugin::LbHaversine => json!({"t": "lb_haversine"}),
        InPlugin::LbNumeric { column } => json!({"t": "lb_numeric", "column": column}),
        InPlugin::LbCategorical { column, default } => json!({"t": "lb_categorical", "column": column, "default": default}),
        InPlugin::VertexRtree { tolerance_m } => json!({"t": "vertex_rtree", "tol": tolerance_m}),
        InPlugin::EdgeRtree { tolerance_m, road_classes } => json!({"t": "edge_rtree", "tol": tolerance_m, "rc": road_classes}),
    }
}
fn in_from_json(v: &Value) -> InPlugin {
    let s = |k: &str| v[k].as_str().map(|x| x.to_string());
    match v["t"].as_str().unwrap() {
        "grid_search" => InPlugin::GridSearch,
        "debug" => InPlugin::Debug,
        "inject" => InPlugin::Inject { key: s("key").unwrap(), value: s("value").unwrap(), json_format: v["json"].as_bool().unwrap(), overwrite: v["overwrite"].as_bool() },
        "lb_haversine" => InPlugin::LbHaversine,
        "lb_numeric" => InPlugin::LbNumeric { column: s("column") },
        "lb_categorical" => InPlugin::LbCategorical { column: s("column"), default: v["default"].as_f64() },
        "vertex_rtree" => InPlugin::VertexRtree { tolerance_m: v["tol"].as_f64() },
        "edge_rtree" => InPlugin::EdgeRtree { tolerance_m: v["tol"].as_f64(), road_classes: v["rc"].as_bool().unwrap_or(false) },
        o => panic!("unknown input plugin {}", o),
    }
}
pub fn cfg_to_json(c: &AppCfg) -> Value {
    json!({
        "net": c.net.to_json(),
        "inputs": c.inputs.iter().map(in_to_json).collect::<Vec<_>>(),
        "outputs": c.outputs.iter().map(|o| match o {
            OutPlugin::Summary => json!({"t": "summary"}),
            OutPlugin::Uuid => json!({"t": "uuid"}),
            OutPlugin::Traversal { route, tree } => json!({"t": "traversal", "route": route, "tree": tree}),
        }).collect::<Vec<_>>(),
        "alg": match &c.alg {
            Alg::AStar => json!({"t": "a*"}),
            Alg::Dijkstra => json!({"t": "dijkstra"}),
            Alg::KspSingleVia { k, dijkstra } => json!({"t": "ksp_single_via", "k": k, "dijkstra": dijkstra}),
            Alg::Yens { k, dijkstra } => json!({"t": "yens", "k": k, "dijkstra": dijkstra}),
        },
        "traversal": match c.traversal { Traversal::Distance => "distance", Traversal::SpeedTable => "speed_table", Traversal::Energy => "energy" },
        "edge_oriented": c.edge_oriented,
        "parallelism": c.parallelism,
        "termination": match c.termination {
            Termination::Default => json!(null),
            Termination::Iterations(n) => json!({"iterations": n}),
            Termination::SolutionSize(n) => json!({"solution_size": n}),
            Termination::RuntimeS(s, f) => json!({"runtime_s": s, "frequency": f}),
        },
        "persist": c.persist,
        "out_file": c.out_file,
    })
}
pub fn cfg_from_json(v: &Value) -> AppCfg {
    let a = &v["alg"];
    let t = &v["termination"];
    AppCfg {
        net: Net::from_json(&v["net"]),
        inputs: v["inputs"].as_array().unwrap().iter().map(in_from_json).collect(),
        outputs: v["outputs"]
            .as_array()
            .unwrap()
            .iter()
            .map(|o| match o["t"].as_str().unwrap() {
                "summary" => OutPlugin::Summary,
                "uuid" => OutPlugin::Uuid,
                _ => OutPlugin::Traversal { route: o["route"].as_str().map(|s| s.to_string()), tree: o["tree"].as_str().map(|s| s.to_string()) },
            })
            .collect(),
        alg: match a["t"].as_str().unwrap() {
            "a*" => Alg::AStar,
            "dijkstra" => Alg::Dijkstra,
            "ksp_single_via" => Alg::KspSingleVia { k: a["k"].as_u64().unwrap() as usize, dijkstra: a["dijkstra"].as_bool().unwrap() },
            _ => Alg::Yens { k: a["k"].as_u64().unwrap() as usize, dijkstra: a["dijkstra"].as_bool().unwrap() },
        },
        traversal: match v["traversal"].as_str().unwrap() {
            "distance" => Traversal::Distance,
            "energy" => Traversal::Energy,
            _ => Traversal::SpeedTable,
        },
        edge_oriented: v["edge_oriented"].as_bool().unwrap(),
        parallelism: v["parallelism"].as_u64().unwrap() as usize,
        termination: if let Some(n) = t["iterations"].as_u64() {
            Termination::Iterations(n)
        } else if let Some(n) = t["solution_size"].as_u64() {
            Termination::SolutionSize(n)
        } else if let Some(s) = t["runtime_s"].as_u64() {
            Termination::RuntimeS(s, t["frequency"].as_u64().unwrap_or(1))
        } else {
            Termination::Default
        },
        persist: v["persist"].as_bool().unwrap(),
        out_file: v["out_file"].as_bool(),
    }
}

// ------------------------------------------------------------------------------------------ running

#[derive(Clone, Debug)]
pub enum RunOutcome {
    Ok(Vec<Value>),
    Err(String),
    Panic(String),
    Hang,
}
impl RunOutcome {
    pub fn class(&self) -> String {
        match self {
            RunOutcome::Ok(v) => format!("Ok {}", v.len()),
            RunOutcome::Err(_) => "Err".into(),
            RunOutcome::Panic(_) => "Panic".into(),
            RunOutcome::Hang => "Hang".into(),
        }
    }
}

/// resident set size of this process in bytes (Linux), 0 when unknown
pub fn rss_bytes() -> u64 {
    std::fs::read_to_string("/proc/self/statm")
        .ok()
        .and_then(|s| s.split_whitespace().nth(1).and_then(|x| x.parse::<u64>().ok()))
        .map(|pages| pages * 4096)
        .unwrap_or(0)
}
/// memory the watched call may add to the process before it is declared runaway (a call that "runs without
/// bound" usually also allocates without bound: do not wait for the whole timeout then)
pub const RUNAWAY_BYTES: u64 = 1 << 31;
/// runs `f` on its own thread under catch_unwind; None = no answer within `timeout_ms`, or the process grew by
/// more than RUNAWAY_BYTES while waiting (the thread is abandoned: finish quickly and exit the process)
pub fn call_watchdog<T: Send + 'static>(f: impl FnOnce() -> T + Send + 'static, timeout_ms: u64) -> Option<Result<T, String>> {
    let (tx, rx) = mpsc::channel();
    let base = rss_bytes();
    let _ = std::thread::Builder::new().stack_size(64 << 20).spawn(move || {
        let r = catch(std::panic::AssertUnwindSafe(f));
        let _ = tx.send(r);
    });
    let start = std::time::Instant::now();
    loop {
        match rx.recv_timeout(std::time::Duration::from_millis(25)) {
            Ok(r) => return Some(r),
            Err(mpsc::RecvTimeoutError::Disconnected) => return None,
            Err(mpsc::RecvTimeoutError::Timeout) => {
                if start.elapsed().as_millis() as u64 >= timeout_ms || rss_bytes().saturating_sub(base) > RUNAWAY_BYTES {
                    return None;
                }
            }
        }
    }
}

pub fn run_watchdog(app: &Arc<CompassApp>, queries: Vec<Value>, config_override: Option<Value>, timeout_ms: u64) -> RunOutcome {
    let app = app.clone();
    match call_watchdog(move || app.run(queries, config_override.as_ref()).map_err(|e| e.to_string()), timeout_ms) {
        None => RunOutcome::Hang,
        Some(Err(p)) => RunOutcome::Panic(p),
        Some(Ok(Err(e))) => RunOutcome::Err(e),
        Some(Ok(Ok(v))) => RunOutcome::Ok(v),
    }
}

/// the command line's path: `user_json.get_queries()` then `run`
pub fn run_user_json(app: &Arc<CompassApp>, user_json: &Value, config_override: Option<Value>, timeout_ms: u64) -> RunOutcome {
    let uj = user_json.clone();
    match catch(move || uj.get_queries().map_err(|e| e.to_string())) {
        Err(p) => RunOutcome::Panic(p),
        Ok(Err(e)) => RunOutcome::Err(e),
        Ok(Ok(qs)) => run_watchdog(app, qs, config_override, timeout_ms),
    }
}

// ------------------------------------------------------------------------------------------ recording proxies

/// one observed call of an input plugin: the value before, the value after (also when the call failed:
/// plugins work in place and may have modified the query before failing), the error message if any
#[derive(Clone, Debug)]
pub struct PluginCall {
    pub idx: usize,
    pub before: Value,
    pub after: Value,
    pub error: Option<String>,
}
pub type PluginLog = Arc<Mutex<Vec<PluginCall>>>;
pub struct Recorder {
    pub idx: usize,
    pub inner: Arc<dyn InputPlugin>,
    pub log: PluginLog,
}
impl InputPlugin for Recorder {
    fn process(&self, input: &mut Value) -> Result<(), InputPluginError> {
        let before = input.clone();
        let r = self.inner.process(input);
        let call = PluginCall { idx: self.idx, before, after: input.clone(), error: r.as_ref().err().map(|e| e.to_string()) };
        if let Ok(mut l) = self.log.lock() {
            l.push(call);
        }
        r
    }
}
/// a copy of the application whose input plugins at positions `idxs` are recording proxies
pub fn wrap_input_plugins(app: Arc<CompassApp>, idxs: &[usize]) -> (Arc<CompassApp>, PluginLog) {
    let log: PluginLog = Arc::new(Mutex::new(vec![]));
    let app = match Arc::try_unwrap(app) {
        Ok(a) => a,
        Err(_) => panic!("wrap_input_plugins needs the only reference to the app"),
    };
    let plugins: Vec<Arc<dyn InputPlugin>> = app
        .input_plugins
        .iter()
        .enumerate()
        .map(|(i, p)| {
            if idxs.contains(&i) {
                let r: Arc<dyn InputPlugin> = Arc::new(Recorder { idx: i, inner: p.clone(), log: log.clone() });
                r
            } else {
                p.clone()
            }
        })
        .collect();
    // (field assignment instead of struct-update syntax: still compiles when CompassApp gains a
    // private field, e.g. in a seeded worktree)
    let mut app2 = app;
    app2.input_plugins = plugins;
    (Arc::new(app2), log)
}

// ------------------------------------------------------------------------------------------ canonical printing

const WALLCLOCK: [&str; 5] =
    ["search_executed_time", "search_runtime", "output_plugin_executed_time", "search_result_size_mib", "route_runtime"];
pub fn strip_wallclock(v: &Value) -> Value {
    match v {
        Value::Object(m) => {
            let mut o = serde_json::Map::new();
            for (k, x) in m {
                if !WALLCLOCK.contains(&k.as_str()) {
                    o.insert(k.clone(), strip_wallclock(x));
                }
            }
            Value::Object(o)
        }
        Value::Array(a) => Value::Array(a.iter().map(strip_wallclock).collect()),
        o => o.clone(),
    }
}
pub fn canon_response(v: &Value) -> String {
    show_json(&strip_wallclock(v), true)
}
/// "err": object with `error` and `request`; "ok": object with `request` and no `error`; else "bad"
pub fn response_class(v: &Value) -> &'static str {
    match v {
        Value::Object(m) if m.contains_key("request") => {
            if m.contains_key("error") {
                "err"
            } else {
                "ok"
            }
        }
        _ => "bad",
    }
}
