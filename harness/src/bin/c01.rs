//! C01 harness: stream `walk` -- graph searches on the real routee_compass_core code
//! (SearchAlgorithm::{Dijkstra, AStarAlgorithm}.run_vertex_oriented / run_edge_oriented, forward and reverse),
//! compared with the model (M: status, iterations, trees, routes, bit-exact costs and states) and judged by the
//! verified checkers evaluated in Coq on the implementation's output (S).  `probe` prints the boundary cases.
use serde_json::json;
use verif_harness::searchkit::*;
use verif_harness::*;

const DETAIL: u8 = 1;
const WATCHDOG_MS: u64 = 4000;
const MAX_HANGS: usize = 6;
/// Yen's with k >= 2 may not return (known finding K_yens_k_ge_2): short watchdog, small budget, never an alarm here
const KSP_WATCHDOG_MS: u64 = 1000;
const KSP_MAX_HANGS: usize = 6;

struct Ctx {
    st: Stream,
    hangs: usize,
    ksp_hangs: usize,
}

fn alg_name(a: &Alg) -> String {
    match a {
        Alg::Dijkstra => "dijkstra".to_string(),
        Alg::AStar(None) => "astar(default)".to_string(),
        Alg::AStar(Some(x)) => format!("astar({})", x),
    }
}

/// long_route family: the route is judged through summary facts against the closed form SR.line_S_long prints
fn add_long_case(cx: &mut Ctx, n: usize, shape: LongShape, dir: Dir, orient: Orient, astar: bool, fam: &str) {
    let id = cx.st.next_id();
    let (w, q) = long_case(n, shape, dir, orient, astar);
    let o = run_query_watchdog(&w, &q, 60_000);
    let line = show_long_summary(&w, &q, &o);
    let st = &mut cx.st;
    st.count(&format!("family:{}", fam));
    st.count(&format!("long_n:{}", n));
    st.count(&format!("long:{}/{:?}/{:?}/{}", shape.name(), dir, orient, if astar { "astar" } else { "dijkstra" }));
    if n >= 1000 {
        st.mark_nontrivial(&format!("long|{}|{}|{:?}|{:?}|{}", n, shape.name(), dir, orient, astar));
    }
    let desc = json!({"id": id, "family": fam, "long": {"n": n, "shape": shape.name(), "astar": astar}, "query": query_to_json(&q),
                      "impl_short": line.chars().take(200).collect::<String>()});
    st.case(vec![term_const("M", id, "NOMODEL"), term_s_long(id, n, shape, dir)], vec![format!("I {} {}", id, line)], desc);
}

/// Yen's k-shortest paths over `under`: no model line (NOMODEL), judged by S only -- chain clause for EVERY returned
/// route, tree clause for the returned tree; a panic / timeout is "no result" (counted, not judged)
fn add_ksp_case(cx: &mut Ctx, family: &str, w: &World, k: usize, under: &Alg, s: usize, t: usize) {
    if cx.ksp_hangs >= KSP_MAX_HANGS {
        return;
    }
    let id = cx.st.next_id();
    let o = run_yens_watchdog(w, k, under, s, t, KSP_WATCHDOG_MS);
    if o.status == "Hang" {
        cx.ksp_hangs += 1;
    }
    let st = &mut cx.st;
    st.count(&format!("family:{}", family));
    st.count(&format!("ksp_k:{}", k));
    st.count(&format!("ksp_underlying:{}", alg_name(under)));
    let (line, s_term) = if o.is_ok() {
        let maxlen = o.routes.iter().map(|r| r.len()).max().unwrap_or(0);
        st.count(&format!("ksp_routes_returned:{}", o.routes.len().min(6)));
        st.count(&format!("ksp_longest_route_edges:{}", maxlen.min(8)));
        let mut repeats = false;
        for r in &o.routes {
            let mut seen = std::collections::HashSet::new();
            if !r.iter().all(|h| seen.insert(h.edge)) {
                repeats = true;
            }
        }
        if repeats {
            st.count("ksp_some_route_repeats_an_edge(not judged here)");
        }
        if o.routes.len() >= 2 {
            st.mark_nontrivial(&format!("ksp|{}|{}|{}|{}|{}", world_to_json(w), k, alg_name(under), s, t));
        }
        (show_outcome(&o, DETAIL), term_s_ksp(id, w, s, t, &o, NumKind::F, DETAIL))
    } else {
        let payload = if o.status == "Panic" || o.status == "Hang" {
            st.count(&format!("k_class_no_result:{}", o.status));
            "k_class_no_result".to_string()
        } else {
            st.count(&format!("ksp_status:{}", o.status));
            o.status.clone()
        };
        (payload.clone(), term_const("S", id, &payload))
    };
    let under_json = query_to_json(&Query { alg: *under, dir: Dir::Forward, orient: Orient::Vertex, source: s, target: Some(t), query_wf: None });
    let desc = json!({"id": id, "family": family, "world": world_to_json(w), "query": under_json,
                      "ksp": {"k": k}, "impl_short": show_outcome(&o, 0).chars().take(200).collect::<String>()});
    st.case(vec![term_const("M", id, "NOMODEL"), s_term], vec![format!("I {} {}", id, line)], desc);
}

fn route_len(o: &Outcome) -> usize {
    o.routes.iter().map(|r| r.len()).max().unwrap_or(0)
}

fn add_case(cx: &mut Ctx, family: &str, w: &World, q: &Query, extra: serde_json::Value) {
    // every hang costs WATCHDOG_MS and leaves a spinning thread behind: after MAX_HANGS the stream stops growing
    if cx.hangs >= MAX_HANGS {
        return;
    }
    let id = cx.st.next_id();
    let o = run_query_watchdog(w, q, WATCHDOG_MS);
    if o.status == "Hang" {
        cx.hangs += 1;
    }
    let terms = vec![term_m(id, w, q, NumKind::F, DETAIL), term_s(id, w, q, &o, NumKind::F, DETAIL)];
    let line = format!("I {} {}", id, show_outcome(&o, DETAIL));
    let desc = json!({"id": id, "family": family, "world": world_to_json(w), "query": query_to_json(q), "extra": extra,
                      "impl_short": show_outcome(&o, 0).chars().take(200).collect::<String>()});
    let st = &mut cx.st;
    st.count(&format!("family:{}", family));
    st.count(&format!("status:{}", o.status));
    st.count(&format!("orient:{:?}", q.orient));
    st.count(&format!("dir:{:?}", q.dir));
    st.count(&format!(
        "alg:{}",
        match q.alg {
            Alg::Dijkstra => "dijkstra".to_string(),
            Alg::AStar(None) => "astar(default)".to_string(),
            Alg::AStar(Some(x)) => format!("astar({})", x),
        }
    ));
    st.count(&format!("target:{}", if q.target.is_some() { "some" } else { "none" }));
    st.count(&format!("n:{}", (w.n + 7) / 8 * 8));
    st.count(&format!("m:{}", (w.edges.len() + 15) / 16 * 16));
    let rl = route_len(&o);
    st.count(&format!("route_edges:{}", if rl > 6 { "7+".to_string() } else { rl.to_string() }));
    let ts = o.trees.iter().map(|t| t.len()).max().unwrap_or(0);
    st.count(&format!("tree_size:{}", (ts + 3) / 4 * 4));
    if !w.forbid.is_empty() || !w.fturn.is_empty() {
        st.count("has_frontier_table");
    }
    if q.query_wf.is_some() {
        st.count("query_weight_factor");
    }
    if reopened_and_target_popped_first(w, q) {
        st.count("reopened_and_target_popped_first");
    }
    // non-trivial: a route of >= 2 edges, or a tree of >= 3 entries, or a specific error outcome
    if rl >= 2 || ts >= 3 || !(o.is_ok()) {
        st.mark_nontrivial(&format!("{}|{}", world_to_json(w), query_to_json(q)));
    }
    st.case(terms, vec![line], desc);
}

fn main() {
    silence_panics();
    let a = parse_args();
    if a.stream == "probe" {
        for (name, w, q) in boundary_cases().into_iter().chain(absorption_cases()).chain(reopen_cases()) {
            let o = run_query_watchdog(&w, &q, WATCHDOG_MS);
            println!("{:40} {:?} {:?} {:?} s={} t={:?} :: {}", name, q.alg, q.dir, q.orient, q.source, q.target, show_outcome(&o, 0));
        }
        std::process::exit(0);
    }
    let mut cx = Ctx { st: Stream::new(&a.out, "walk", HEADER, a.shards), hangs: 0, ksp_hangs: 0 };
    if let Some(p) = &a.replay {
        cx.st.full = true;
        let v: serde_json::Value = serde_json::from_str(&std::fs::read_to_string(p).unwrap()).unwrap();
        // {"case": c} replays one case, {"cases": [c, ...]} several (the corpus)
        let cases: Vec<serde_json::Value> = match v.get("cases") {
            Some(cs) => cs.as_array().unwrap().clone(),
            None => vec![v["case"].clone()],
        };
        let fam_of = |case: &serde_json::Value| case.get("corpus").and_then(|x| x.as_str()).map(|x| format!("corpus:{}", x)).unwrap_or("replay".to_string());
        for case in &cases {
            let fam = fam_of(case);
            if let Some(l) = case.get("long") {
                let q = query_from_json(&case["query"]);
                add_long_case(&mut cx, l["n"].as_u64().unwrap() as usize, LongShape::from_name(l["shape"].as_str().unwrap_or("plain")), q.dir, q.orient, l["astar"].as_bool().unwrap_or(false), &fam);
                continue;
            }
            let w = world_from_json(&case["world"]);
            let q = query_from_json(&case["query"]);
            if let Some(k) = case.get("ksp").and_then(|x| x.get("k")).and_then(|x| x.as_u64()) {
                add_ksp_case(&mut cx, &fam, &w, k as usize, &q.alg, q.source, q.target.unwrap());
            } else {
                add_case(&mut cx, &fam, &w, &q, json!({}));
            }
        }
        cx.st.finish();
        std::process::exit(0);
    }
    // ---- deterministic boundary families first ----
    for (name, w, q) in boundary_cases() {
        add_case(&mut cx, &name, &w, &q, json!({}));
    }
    for (name, w, q) in absorption_cases() {
        add_case(&mut cx, &name, &w, &q, json!({}));
    }
    for (name, w, q) in reopen_cases() {
        add_case(&mut cx, &name, &w, &q, json!({}));
    }
    // long routes: every shape / direction / orientation on a 50-edge chain, then 65k+ edge chains (the route buffer
    // of the backtrack is where a 16-bit bound would bite); `long=all` (thorough tier) runs the full grid
    let dirs = [Dir::Forward, Dir::Reverse];
    let orients = [Orient::Vertex, Orient::Edge];
    let shapes = [LongShape::Plain, LongShape::RevIds, LongShape::Branch];
    for sh in shapes {
        for d in dirs {
            for or in orients {
                add_long_case(&mut cx, 50, sh, d, or, sh == LongShape::RevIds, "long_route_small");
            }
        }
    }
    if a.extra.iter().any(|x| x == "long=all") {
        for sh in shapes {
            for d in dirs {
                for or in orients {
                    for astar in [false, true] {
                        add_long_case(&mut cx, 70_000, sh, d, or, astar, "long_route");
                    }
                }
            }
        }
        for n in [65_534usize, 65_535, 65_536, 65_537, 200_000] {
            for d in dirs {
                for or in orients {
                    for astar in [false, true] {
                        add_long_case(&mut cx, n, LongShape::Plain, d, or, astar, "long_route");
                    }
                }
            }
        }
    } else {
        add_long_case(&mut cx, 65_536, LongShape::Plain, Dir::Forward, Orient::Vertex, false, "long_route");
        add_long_case(&mut cx, 70_000, LongShape::Branch, Dir::Reverse, Orient::Vertex, true, "long_route");
        add_long_case(&mut cx, 70_000, LongShape::RevIds, Dir::Forward, Orient::Edge, false, "long_route");
    }
    for (name, w, k, under, s, t) in ksp_cases() {
        add_ksp_case(&mut cx, &name, &w, k, &under, s, t);
    }
    // ---- random worlds ----
    let mut rng = Rng::new(a.seed);
    while cx.st.next_id() < a.n && cx.hangs < MAX_HANGS {
        let mut r = rng.fork();
        let fam = match r.below(10) {
            0..=4 => CostFamily::TieFree,
            5..=7 => CostFamily::TieRich,
            _ => CostFamily::LongHaul,
        };
        if r.chance(1, 8) {
            // Yen's k-shortest paths on a chain-with-detours network, k in 2..4, over Dijkstra / A*
            let (mut w, s, t) = gen_ksp_world(&mut r);
            let under = *r.pick(&[Alg::Dijkstra, Alg::Dijkstra, Alg::AStar(None), Alg::AStar(Some(0.5)), Alg::AStar(Some(3.0))]);
            let hk = *r.pick(&[HKind::Zero, HKind::Exact, HKind::Admissible, HKind::Wild]);
            gen_heuristic(&mut r, &mut w, Dir::Forward, Some(t), hk);
            let k = r.range(2, 4) as usize;
            add_ksp_case(&mut cx, "random_ksp_yens", &w, k, &under, s, t);
            continue;
        }
        let (mut w, flags) = gen_world(&mut r, fam);
        // a few queries per world (the graph is the expensive part to vary, the query the cheap one)
        let k = 1 + r.below(3);
        for _ in 0..k {
            if cx.st.next_id() >= a.n || cx.hangs >= MAX_HANGS {
                break;
            }
            let (q, hk) = gen_query(&mut r, &mut w);
            // one query in seven is biased towards re-opening a vertex that already has a child (the world keeps the
            // gadget for the following queries of the same world, which is harmless)
            if r.chance(1, 7) && add_reopen_gadget(&mut r, &mut w, &q) {
                cx.st.count("reopen_gadget_grafted");
            }
            let family = match fam {
                CostFamily::TieFree => "random_tie_free",
                CostFamily::TieRich => "random_tie_rich",
                CostFamily::LongHaul => "random_long_haul",
            };
            for f in &flags {
                cx.st.count(&format!("forced:{}", f));
            }
            cx.st.count(&format!("heuristic:{:?}", hk));
            add_case(&mut cx, family, &w, &q, json!({"flags": flags, "heuristic": format!("{:?}", hk)}));
        }
    }
    cx.st.finish();
    // abandoned watchdog threads (if any) die here
    std::process::exit(0);
}
