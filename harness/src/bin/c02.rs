//! C02 harness: the returned route has least total cost under the query's own objective.
//!
//! stream `opt`   table-driven worlds (searchkit) on the REAL search code: random digraphs, tie-free dyadic and
//!                tie-rich integer cost tables, Dijkstra and A* with consistent heuristic tables and weight factors
//!                {0, 1/2, 1}, forward / reverse, vertex / edge orientation, destination-less Dijkstra trees.
//!                I = route edge list + its cost re-computed from the raw table (exact rational) | tree labels,
//!                M = the model's run (OR.line_M), S = verified optimality certificate check in Coq (OR.line_S).
//!                A third family (inconsistent heuristics, factor 3) makes no claim (S = unspecified) and only
//!                records whether A* and Dijkstra differ.
//! stream `real`  the REAL DistanceTraversalModel / SpeedTraversalModel and CostModel, built by the REAL
//!                CompassApp from a TOML configuration and overridden from the query through the REAL
//!                CostModelService (SearchApp::build_search_instance); vertices on a 1/8-degree grid, edge lengths
//!                >= ceil(max(implementation haversine, independent f64 great-circle)) + 1 m.
//!                I = cost of every edge traversed alone + weighted estimate of every vertex (bit-exact floats),
//!                M = the objective model (OR.rline_M);
//!                J = "dj=<route>:OK as=<route>:OK", S = certificate check of both routes over the per-edge costs of a
//!                cost model built DIRECTLY (CostModel::new) from the weights / rates / aggregation that are in force
//!                by the specification (query's when present, else configured), tolerance 1e-9 relative.
//! `probe`        prints a few cases.
use routee_compass::app::compass::compass_app::CompassApp;
use routee_compass::app::compass::config::compass_app_builder::CompassAppBuilder;
use routee_compass::app::compass::config::cost_model::cost_model_service::CostModelService;
use routee_compass_core::algorithm::search::direction::Direction;
use routee_compass_core::algorithm::search::edge_traversal::EdgeTraversal;
use routee_compass_core::algorithm::search::search_algorithm::SearchAlgorithm;
use routee_compass_core::algorithm::search::search_instance::SearchInstance;
use routee_compass_core::model::cost::cost_aggregation::CostAggregation;
use routee_compass_core::model::cost::cost_model::CostModel;
use routee_compass_core::model::cost::network::network_cost_rate::NetworkCostRate;
use routee_compass_core::model::cost::vehicle::vehicle_cost_rate::VehicleCostRate;
use routee_compass_core::model::network::{EdgeId, VertexId};
use routee_compass_core::model::traversal::default::speed_traversal_engine::SpeedTraversalEngine;
use routee_compass_core::model::unit::as_f64::AsF64;
use routee_compass_core::model::unit::{DistanceUnit, SpeedUnit, TimeUnit};
use routee_compass_core::model::unit::Cost;
use routee_compass_core::util::geo::haversine;
use serde_json::{json, Value};
use std::collections::HashMap;
use std::path::{Path, PathBuf};
use std::sync::Arc;
use verif_harness::searchkit::*;
use verif_harness::*;

const WATCHDOG_MS: u64 = 4000;
const BIG: f64 = 1073741824.0; // 2^30: the heuristic of a vertex that cannot reach the target

// ------------------------------------------------------------------------------------------ exact rationals

/// reduced "n/d" of a finite double, as Show.show_Q prints Qred
fn show_q(x: f64) -> String {
    assert!(x.is_finite());
    if x == 0.0 {
        return "0/1".into();
    }
    let bits = x.to_bits();
    let neg = (bits >> 63) == 1;
    let e = ((bits >> 52) & 0x7ff) as i64;
    let f = bits & ((1u64 << 52) - 1);
    let (mut m, mut ex) = if e == 0 { (f as u128, -1074i64) } else { ((f | (1u64 << 52)) as u128, e - 1075) };
    while m % 2 == 0 && ex < 0 {
        m /= 2;
        ex += 1;
    }
    let sign = if neg { "-" } else { "" };
    if ex >= 0 {
        assert!(ex < 60);
        format!("{}{}/1", sign, m << ex)
    } else {
        assert!(-ex < 120);
        format!("{}{}/{}", sign, m, 1u128 << (-ex))
    }
}

// ------------------------------------------------------------------------------------------ stream opt

const OPT_HEADER: &str = "From Coq Require Import ZArith QArith List String Floats.\nFrom RC Require Import Base.Show Base.Num Model.Search Model.SearchRun Model.ObjectiveRun.\nImport ListNotations.\nOpen Scope nat_scope.";

fn eff_wf(q: &Query) -> f64 {
    match q.query_wf {
        Some(x) => x,
        None => match q.alg {
            Alg::Dijkstra => 0.0,
            Alg::AStar(None) => 1.0,
            Alg::AStar(Some(x)) => x,
        },
    }
}

/// vertex pair of the vertex-oriented search behind a query (None: unknown ids)
fn endpoints(w: &World, q: &Query) -> Option<(usize, Option<usize>)> {
    match q.orient {
        Orient::Vertex => Some((q.source, q.target)),
        Orient::Edge => {
            let e1 = w.edges.get(q.source)?;
            let b1 = if q.dir == Dir::Forward { e1.1 } else { e1.0 };
            match q.target {
                None => Some((b1, None)),
                Some(te) => {
                    let e2 = w.edges.get(te)?;
                    let a2 = if q.dir == Dir::Forward { e2.0 } else { e2.1 };
                    Some((b1, Some(a2)))
                }
            }
        }
    }
}

fn inner(q: &Query, r: &[usize]) -> Vec<usize> {
    match q.orient {
        Orient::Vertex => r.to_vec(),
        Orient::Edge => {
            if r.len() >= 2 {
                r[1..r.len() - 1].to_vec()
            } else {
                vec![]
            }
        }
    }
}

fn table_cost(w: &World, es: &[usize]) -> f64 {
    es.iter().fold(0.0, |a, e| a + w.cost[*e])
}

/// same text as OR.payload
fn opt_payload(w: &World, q: &Query, o: &Outcome) -> String {
    if !o.is_ok() {
        return o.status.clone();
    }
    match q.target {
        Some(_) => match o.routes.first() {
            Some(r) => {
                let es: Vec<usize> = r.iter().map(|h| h.edge).collect();
                format!("Ok it={} r={} c={}", o.iters, show_list(&es, |e| e.to_string()), show_q(table_cost(w, &inner(q, &es))))
            }
            None => "Ok noroute".into(),
        },
        None => match o.trees.first() {
            Some(t) => format!("Ok labels={}", show_list(t, |b| format!("{}:{}", b.v, show_q(b.state)))),
            None => "Ok notree".into(),
        },
    }
}

#[derive(Clone, Copy, Debug, PartialEq)]
enum HK {
    Zero,
    Exact,
    Half,
    Admissible,
    Wild,
}

/// heuristic table for (dir, target vertex): consistent kinds give BIG (resp. BIG/2) to vertices that cannot reach it
fn make_heuristic(rng: &mut Rng, w: &mut World, dir: Dir, tv: Option<usize>, k: HK) {
    let kind = match k {
        HK::Zero => HKind::Zero,
        HK::Exact => HKind::Exact,
        HK::Half => HKind::Half,
        HK::Admissible => HKind::Admissible,
        HK::Wild => HKind::Wild,
    };
    gen_heuristic(rng, w, dir, tv, kind);
    if let Some(t) = tv {
        if t < w.n && (k == HK::Exact || k == HK::Half) {
            let d = true_dist(w, dir, t);
            for v in 0..w.n {
                if d[v].is_none() {
                    w.h[v] = if k == HK::Exact { BIG } else { BIG / 2.0 };
                }
            }
        }
    }
}

struct OptCtx {
    st: Stream,
    hangs: usize,
}

fn add_opt_case(cx: &mut OptCtx, family: &str, w: &World, q: &Query, hk: &str, consistent_kind: bool) {
    if cx.hangs >= 6 {
        return;
    }
    let id = cx.st.next_id();
    let o = run_query_watchdog(w, q, WATCHDOG_MS);
    if o.status == "Hang" {
        cx.hangs += 1;
    }
    let wf = eff_wf(q);
    let h_zero = w.h.iter().all(|x| *x == 0.0);
    // the property's hypothesis: consistent heuristic and factor in [0,1] (a zero estimate is consistent with any factor)
    let claim = (consistent_kind && (0.0..=1.0).contains(&wf)) || h_zero || wf == 0.0 || q.target.is_none();
    // weighted heuristic as exact rationals (exact for the generated tables: dyadic x {0, 1/2, 1, 3})
    let hq: Vec<f64> = (0..w.n).map(|v| if q.target.is_none() { 0.0 } else { w.h.get(v).copied().unwrap_or(0.0) * wf }).collect();
    let wt = coq_world(w, NumKind::F);
    let qt = coq_query(q, NumKind::F);
    let cq = coq_list(&w.cost, |c| coq_q(*c));
    let terms = vec![
        format!("OR.line_M {} {}%Z {} {} {}", default_fuel(w), id, wt, cq, qt),
        format!("OR.line_S {}%Z {} {} {} {} {} {}", id, wt, cq, coq_list(&hq, |c| coq_q(*c)), qt, coq_outcome(&o, NumKind::F), coq_bool(claim)),
    ];
    let payload = opt_payload(w, q, &o);
    let line = format!("I {} {}", id, payload);
    // the no-claim family only records whether A* and Dijkstra report different route costs
    let mut differs = Value::Null;
    if !claim && o.is_ok() && q.target.is_some() {
        let mut qd = q.clone();
        qd.alg = Alg::Dijkstra;
        qd.query_wf = None;
        let od = run_query_watchdog(w, &qd, WATCHDOG_MS);
        let ca = o.routes.first().map(|r| table_cost(w, &inner(q, &r.iter().map(|h| h.edge).collect::<Vec<_>>())));
        let cd = od.routes.first().map(|r| table_cost(w, &inner(q, &r.iter().map(|h| h.edge).collect::<Vec<_>>())));
        let d = ca != cd;
        differs = json!(d);
        cx.st.count(if d { "noclaim:astar_differs_from_dijkstra" } else { "noclaim:astar_equals_dijkstra" });
    }
    let desc = json!({"id": id, "family": family, "world": world_to_json(w), "query": query_to_json(q), "heuristic": hk,
                      "consistent_kind": consistent_kind, "claim": claim, "noclaim_differs": differs,
                      "impl_short": payload.chars().take(200).collect::<String>()});
    let st = &mut cx.st;
    st.count(&format!("family:{}", family));
    st.count(&format!("status:{}", o.status));
    st.count(&format!("orient:{:?}", q.orient));
    st.count(&format!("dir:{:?}", q.dir));
    st.count(&format!("wf:{}", wf));
    st.count(&format!("heuristic:{}", hk));
    st.count(&format!("claim:{}", claim));
    st.count(&format!("target:{}", if q.target.is_some() { "some" } else { "none" }));
    st.count(&format!("n:{}", (w.n + 7) / 8 * 8));
    let rl = o.routes.first().map(|r| r.len()).unwrap_or(0);
    st.count(&format!("route_edges:{}", if rl > 6 { "7+".to_string() } else { rl.to_string() }));
    if !w.forbid.is_empty() {
        st.count("has_forbidden_edges");
    }
    // non-trivial: a claim is made and the route has >= 2 edges (or a tree of >= 3 labels, or "no path")
    let ts = o.trees.first().map(|t| t.len()).unwrap_or(0);
    if claim && (rl >= 2 || (q.target.is_none() && ts >= 3) || o.status == "nopath") {
        st.mark_nontrivial(&format!("{}|{}", world_to_json(w), query_to_json(q)));
    }
    st.case(terms, vec![line], desc);
}

fn opt_boundary() -> Vec<(String, World, Query, &'static str, bool)> {
    let mut out = vec![];
    // the searchkit boundary families that are edge-local (no turn tables, no failing models, no limits, zero heuristic)
    for (name, w, q) in boundary_cases() {
        if w.fturn.is_empty() && w.ferr.is_empty() && w.terr.is_empty() && w.turn.is_empty() && w.term == Term::Unlimited && w.h.iter().all(|x| *x == 0.0) && w.init == 0.0 {
            let known = match q.orient {
                Orient::Vertex => q.source < w.n && q.target.map_or(true, |t| t < w.n && t != q.source),
                Orient::Edge => q.source < w.edges.len() && q.target.map_or(true, |t| t < w.edges.len() && t != q.source),
            };
            // destination-less searches are compared by labels (vertex orientation, pure Dijkstra only)
            let tree_ok = q.target.is_some() || (q.orient == Orient::Vertex);
            if known && tree_ok {
                out.push((format!("b:{}", name), w, q, "Zero", true));
            }
        }
    }
    // the D-REOPEN network without its turn restriction, consistent and exact heuristics, both factors
    let edges = vec![(0usize, 1usize), (0, 2), (2, 1), (1, 3), (3, 4)];
    let cost = vec![10.0, 1.0, 1.0, 1.0, 1000000.0];
    for (wf, alg) in [(0.0, Alg::Dijkstra), (1.0, Alg::AStar(None)), (0.5, Alg::AStar(Some(0.5)))] {
        let _ = wf;
        let mut w = World::new(5, edges.clone(), cost.clone());
        w.h = true_dist(&w, Dir::Forward, 4).iter().map(|d| d.unwrap_or(BIG)).collect();
        out.push(("b:reopen_network_exact_h".into(), w, Query { alg, dir: Dir::Forward, orient: Orient::Vertex, source: 0, target: Some(4), query_wf: None }, "Exact", true));
    }
    // a heuristic that is admissible but not consistent: 0 -> 1 -> 3 (1 + 1), 0 -> 2 -> 3 (1 + 3), h = [2, 0, 3, 0]: no claim
    let mut w = World::new(4, vec![(0, 1), (1, 3), (0, 2), (2, 3)], vec![1.0, 1.0, 1.0, 3.0]);
    w.h = vec![2.0, 0.0, 3.0, 0.0];
    out.push(("b:inconsistent_h".into(), w.clone(), Query { alg: Alg::AStar(None), dir: Dir::Forward, orient: Orient::Vertex, source: 0, target: Some(3), query_wf: None }, "Admissible", false));
    // inadmissible through the factor: consistent table, factor 3 (from the algorithm, and from the query on Dijkstra)
    let mut w3 = World::new(4, vec![(0, 1), (1, 3), (0, 3), (3, 2)], vec![1.0, 1.0, 2.5, 1.0]);
    w3.h = vec![2.0, 1.0, BIG, 0.0];
    out.push(("b:factor3".into(), w3.clone(), Query { alg: Alg::AStar(Some(3.0)), dir: Dir::Forward, orient: Orient::Vertex, source: 0, target: Some(3), query_wf: None }, "Exact", true));
    out.push(("b:dijkstra_query_factor3".into(), w3.clone(), Query { alg: Alg::Dijkstra, dir: Dir::Forward, orient: Orient::Vertex, source: 0, target: Some(3), query_wf: Some(3.0) }, "Exact", true));
    out.push(("b:dijkstra_query_factor1".into(), w3, Query { alg: Alg::Dijkstra, dir: Dir::Forward, orient: Orient::Vertex, source: 0, target: Some(3), query_wf: Some(1.0) }, "Exact", true));
    out
}

fn hk_name(k: HK) -> &'static str {
    match k {
        HK::Zero => "Zero",
        HK::Exact => "Exact",
        HK::Half => "Half",
        HK::Admissible => "Admissible",
        HK::Wild => "Wild",
    }
}

fn gen_opt_case(r: &mut Rng, w: &mut World) -> (Query, HK, bool) {
    let orient = if r.chance(1, 4) && w.edges.len() >= 2 { Orient::Edge } else { Orient::Vertex };
    let dir = if r.chance(1, 2) { Dir::Forward } else { Dir::Reverse };
    let dom = match orient {
        Orient::Vertex => w.n,
        Orient::Edge => w.edges.len(),
    };
    let source = r.below(dom as u64) as usize;
    let tree = orient == Orient::Vertex && r.chance(1, 8);
    let target = if tree {
        None
    } else {
        let mut t = r.below(dom as u64) as usize;
        if t == source {
            t = (t + 1) % dom;
        }
        // three quarters of the vertex queries go to a destination that can be reached
        if orient == Orient::Vertex && r.chance(3, 4) {
            let back = if dir == Dir::Forward { Dir::Reverse } else { Dir::Forward };
            let from_source = true_dist(w, back, source);
            let reach: Vec<usize> = (0..w.n).filter(|v| *v != source && from_source[*v].is_some()).collect();
            if !reach.is_empty() {
                t = *r.pick(&reach);
            }
        }
        Some(t)
    };
    let noclaim = !tree && r.chance(1, 4);
    let (alg, hk, query_wf) = if tree {
        (Alg::Dijkstra, HK::Zero, None)
    } else if noclaim {
        // inconsistent / inadmissible heuristic tables, or a factor above 1
        match r.below(3) {
            0 => (Alg::AStar(Some(*r.pick(&[0.5, 1.0]))), *r.pick(&[HK::Admissible, HK::Wild]), None),
            1 => (Alg::AStar(Some(3.0)), *r.pick(&[HK::Exact, HK::Half]), None),
            _ => (Alg::Dijkstra, HK::Exact, Some(3.0)),
        }
    } else {
        let hk = *r.pick(&[HK::Zero, HK::Exact, HK::Exact, HK::Half, HK::Half]);
        match r.below(6) {
            0 => (Alg::Dijkstra, hk, None),
            1 => (Alg::AStar(None), hk, None),
            2 => (Alg::AStar(Some(0.0)), hk, None),
            3 => (Alg::AStar(Some(0.5)), hk, None),
            4 => (Alg::AStar(Some(1.0)), hk, None),
            // the query's weight_factor replaces the algorithm's (also Dijkstra's)
            _ => (*r.pick(&[Alg::Dijkstra, Alg::AStar(Some(3.0)), Alg::AStar(None)]), hk, Some(*r.pick(&[0.0, 0.5, 1.0]))),
        }
    };
    let q = Query { alg, dir, orient, source, target, query_wf };
    let tv = endpoints(w, &q).and_then(|(_, t)| t);
    make_heuristic(r, w, dir, tv, hk);
    let consistent_kind = matches!(hk, HK::Zero | HK::Exact | HK::Half);
    (q, hk, consistent_kind)
}

fn run_opt(a: &Args) {
    let mut cx = OptCtx { st: Stream::new(&a.out, "opt", OPT_HEADER, a.shards), hangs: 0 };
    if let Some(p) = &a.replay {
        cx.st.full = true;
        let v: Value = serde_json::from_str(&std::fs::read_to_string(p).unwrap()).unwrap();
        let cases: Vec<Value> = match v.get("cases") {
            Some(cs) => cs.as_array().unwrap().clone(),
            None => vec![v["case"].clone()],
        };
        for case in &cases {
            let w = world_from_json(&case["world"]);
            let q = query_from_json(&case["query"]);
            let fam = case.get("corpus").and_then(|x| x.as_str()).map(|x| format!("corpus:{}", x)).unwrap_or("replay".to_string());
            add_opt_case(&mut cx, &fam, &w, &q, case["heuristic"].as_str().unwrap_or("?"), case["consistent_kind"].as_bool().unwrap_or(false));
        }
        cx.st.finish();
        std::process::exit(0);
    }
    for (name, w, q, hk, ck) in opt_boundary() {
        add_opt_case(&mut cx, &name, &w, &q, hk, ck);
    }
    let mut rng = Rng::new(a.seed ^ 0xC02);
    while cx.st.next_id() < a.n && cx.hangs < 6 {
        let mut r = rng.fork();
        let fam = if r.chance(1, 2) { CostFamily::TieFree } else { CostFamily::TieRich };
        let (mut w, flags) = gen_world(&mut r, fam);
        // the property is about edge-local objectives: no turn restrictions, no failing models
        w.fturn.clear();
        w.ferr.clear();
        let k = 1 + r.below(3);
        for _ in 0..k {
            if cx.st.next_id() >= a.n {
                break;
            }
            let (q, hk, ck) = gen_opt_case(&mut r, &mut w);
            for f in &flags {
                cx.st.count(&format!("forced:{}", f));
            }
            // (searchkit has further cost families for other properties; this stream draws only these two)
            let family = match fam {
                CostFamily::TieFree => "random_tie_free",
                _ => "random_tie_rich",
            };
            add_opt_case(&mut cx, family, &w, &q, hk_name(hk), ck);
        }
    }
    cx.st.finish();
}

// ------------------------------------------------------------------------------------------ stream real

const REAL_HEADER: &str = "From Coq Require Import ZArith QArith List String Floats.\nFrom RC Require Import Base.Show Base.Num Base.Res Model.Units Model.Cost Model.Objective Model.Search Model.SearchRun Model.ObjectiveRun.\nImport ListNotations.\nOpen Scope nat_scope.";

const DIST_UNITS: [&str; 5] = ["meters", "kilometers", "miles", "inches", "feet"];
const TIME_UNITS: [&str; 4] = ["hours", "minutes", "seconds", "milliseconds"];
const SPEED_UNITS: [&str; 3] = ["kilometers_per_hour", "miles_per_hour", "meters_per_second"];

fn coq_dist(u: &str) -> &'static str {
    match u {
        "meters" => "RC.Model.Units.Units.Meters",
        "kilometers" => "RC.Model.Units.Units.Kilometers",
        "miles" => "RC.Model.Units.Units.Miles",
        "inches" => "RC.Model.Units.Units.Inches",
        "feet" => "RC.Model.Units.Units.Feet",
        _ => panic!("distance unit {}", u),
    }
}
fn coq_time(u: &str) -> &'static str {
    match u {
        "hours" => "RC.Model.Units.Units.Hours",
        "minutes" => "RC.Model.Units.Units.Minutes",
        "seconds" => "RC.Model.Units.Units.Seconds",
        "milliseconds" => "RC.Model.Units.Units.Milliseconds",
        _ => panic!("time unit {}", u),
    }
}
fn coq_speed(u: &str) -> &'static str {
    match u {
        "kilometers_per_hour" => "RC.Model.Units.Units.KilometersPerHour",
        "miles_per_hour" => "RC.Model.Units.Units.MilesPerHour",
        "meters_per_second" => "RC.Model.Units.Units.MetersPerSecond",
        _ => panic!("speed unit {}", u),
    }
}

/// a vehicle rate of the case: None = not mentioned (VehicleCostRate::Zero by default in CostModel::new)
#[derive(Clone, Debug, PartialEq)]
enum Rate {
    Raw,
    Factor(f64),
    Zero,
    Offset(f64),
    /// applied one after the other, in order (VehicleCostRate::Combined)
    Combined(Vec<Rate>),
}
fn rate_json(r: &Rate) -> Value {
    match r {
        Rate::Raw => json!({"type": "raw"}),
        Rate::Factor(f) => json!({"type": "factor", "factor": f}),
        Rate::Zero => json!({"type": "zero"}),
        Rate::Offset(o) => json!({"type": "offset", "offset": o}),
        // (not the serde form of the repository - that one cannot be read back; case descriptions only)
        Rate::Combined(l) => json!({"type": "combined", "chain": l.iter().map(rate_json).collect::<Vec<_>>()}),
    }
}
fn rate_from_json(v: &Value) -> Rate {
    match v["type"].as_str().unwrap() {
        "raw" => Rate::Raw,
        "zero" => Rate::Zero,
        "offset" => Rate::Offset(v["offset"].as_f64().unwrap()),
        "combined" => Rate::Combined(v["chain"].as_array().unwrap().iter().map(rate_from_json).collect()),
        _ => Rate::Factor(v["factor"].as_f64().unwrap()),
    }
}
fn rate_real(r: &Rate) -> VehicleCostRate {
    match r {
        Rate::Raw => VehicleCostRate::Raw,
        Rate::Factor(f) => VehicleCostRate::Factor { factor: *f },
        Rate::Zero => VehicleCostRate::Zero,
        Rate::Offset(o) => VehicleCostRate::Offset { offset: *o },
        Rate::Combined(l) => VehicleCostRate::Combined(l.iter().map(rate_real).collect()),
    }
}
fn rate_coq(r: &Rate) -> String {
    match r {
        Rate::Raw => "RC.Model.Cost.Cost.VRaw".into(),
        Rate::Factor(f) => format!("(RC.Model.Cost.Cost.VFactor {})", coq_f64(*f)),
        Rate::Zero => "RC.Model.Cost.Cost.VZero".into(),
        Rate::Offset(o) => format!("(RC.Model.Cost.Cost.VOffset {})", coq_f64(*o)),
        Rate::Combined(l) => format!("(RC.Model.Cost.Cost.VCombined {})", coq_list(l, rate_coq)),
    }
}
/// Combined cannot be written in a configuration file or a query (internally tagged enum with a sequence payload):
/// the TOML carries a placeholder and run_real installs the real rate in the cost model service
fn rate_toml(r: &Rate) -> String {
    match r {
        Rate::Raw | Rate::Combined(_) => "{ type = \"raw\" }".into(),
        Rate::Factor(f) => format!("{{ type = \"factor\", factor = {:?} }}", f),
        Rate::Zero => "{ type = \"zero\" }".into(),
        Rate::Offset(o) => format!("{{ type = \"offset\", offset = {:?} }}", o),
    }
}
fn rate_has(r: &Rate, p: &dyn Fn(&Rate) -> bool) -> bool {
    p(r) || matches!(r, Rate::Combined(l) if l.iter().any(|x| rate_has(x, p)))
}

type Assoc<T> = Vec<(String, T)>;

#[derive(Clone, Debug)]
struct RealCase {
    family: String,
    /// (lon, lat) in degrees, multiples of 1/8
    coords: Vec<(f64, f64)>,
    /// (src, dst, length in meters, speed in `su`)
    edges: Vec<(usize, usize, f64, f64)>,
    speed_model: bool,
    du: Option<String>,
    tu: Option<String>,
    su: String,
    /// unit of the state features (distance model: [state] section; speed model: query state_features override or None)
    fdu: Option<String>,
    ftu: Option<String>,
    cfg_w: Assoc<f64>,
    cfg_v: Assoc<Rate>,
    /// per-edge surcharges on one feature: (feature, [(edge, cost)])
    cfg_n: Option<(String, Vec<(usize, f64)>)>,
    cfg_mul: bool,
    q_w: Option<Assoc<f64>>,
    q_v: Option<Assoc<Rate>>,
    q_mul: Option<bool>,
    alg_wf: Option<f64>,
    q_wf: Option<f64>,
    reverse: bool,
    s: usize,
    t: usize,
    /// the network satisfies len >= great-circle (else A* makes no claim)
    metric: bool,
    /// queries run on the SAME application instance before the measured one (CompassApp::run, one at a time): each
    /// an object with optional "weights" / "vehicle_rates" / "cost_aggregation" overrides (empty = a plain query)
    warm: Vec<Value>,
}

fn assoc_json<T>(a: &Assoc<T>, f: impl Fn(&T) -> Value) -> Value {
    Value::Object(a.iter().map(|(k, v)| (k.clone(), f(v))).collect())
}
fn assoc_from<T>(v: &Value, f: impl Fn(&Value) -> T) -> Assoc<T> {
    v.as_object().map(|m| m.iter().map(|(k, x)| (k.clone(), f(x))).collect()).unwrap_or_default()
}
fn case_to_json(c: &RealCase) -> Value {
    json!({
        "family": c.family, "coords": c.coords, "edges": c.edges, "speed_model": c.speed_model, "du": c.du, "tu": c.tu, "su": c.su,
        "fdu": c.fdu, "ftu": c.ftu,
        "cfg_w": assoc_json(&c.cfg_w, |x| json!(x)), "cfg_v": assoc_json(&c.cfg_v, rate_json),
        "cfg_n": c.cfg_n.as_ref().map(|(n, l)| json!({"feature": n, "lookup": l})), "cfg_mul": c.cfg_mul,
        "q_w": c.q_w.as_ref().map(|a| assoc_json(a, |x| json!(x))), "q_v": c.q_v.as_ref().map(|a| assoc_json(a, rate_json)),
        "q_mul": c.q_mul, "alg_wf": c.alg_wf, "q_wf": c.q_wf, "reverse": c.reverse, "s": c.s, "t": c.t, "metric": c.metric, "warm": c.warm,
    })
}
fn case_from_json(v: &Value) -> RealCase {
    let os = |k: &str| v[k].as_str().map(|x| x.to_string());
    RealCase {
        family: os("family").unwrap_or("replay".into()),
        coords: v["coords"].as_array().unwrap().iter().map(|p| (p[0].as_f64().unwrap(), p[1].as_f64().unwrap())).collect(),
        edges: v["edges"].as_array().unwrap().iter().map(|e| (e[0].as_u64().unwrap() as usize, e[1].as_u64().unwrap() as usize, e[2].as_f64().unwrap(), e[3].as_f64().unwrap())).collect(),
        speed_model: v["speed_model"].as_bool().unwrap(),
        du: os("du"),
        tu: os("tu"),
        su: os("su").unwrap(),
        fdu: os("fdu"),
        ftu: os("ftu"),
        cfg_w: assoc_from(&v["cfg_w"], |x| x.as_f64().unwrap()),
        cfg_v: assoc_from(&v["cfg_v"], rate_from_json),
        cfg_n: if v["cfg_n"].is_null() { None } else { Some((v["cfg_n"]["feature"].as_str().unwrap().to_string(), v["cfg_n"]["lookup"].as_array().unwrap().iter().map(|p| (p[0].as_u64().unwrap() as usize, p[1].as_f64().unwrap())).collect())) },
        cfg_mul: v["cfg_mul"].as_bool().unwrap_or(false),
        q_w: if v["q_w"].is_null() { None } else { Some(assoc_from(&v["q_w"], |x| x.as_f64().unwrap())) },
        q_v: if v["q_v"].is_null() { None } else { Some(assoc_from(&v["q_v"], rate_from_json)) },
        q_mul: v["q_mul"].as_bool(),
        alg_wf: v["alg_wf"].as_f64(),
        q_wf: v["q_wf"].as_f64(),
        reverse: v["reverse"].as_bool().unwrap_or(false),
        s: v["s"].as_u64().unwrap() as usize,
        t: v["t"].as_u64().unwrap() as usize,
        metric: v["metric"].as_bool().unwrap_or(true),
        warm: v["warm"].as_array().cloned().unwrap_or_default(),
    }
}

/// independent great-circle distance in double precision (haversine formula, mean Earth radius 6 371 000 m)
fn great_circle_f64(a: (f64, f64), b: (f64, f64)) -> f64 {
    let (lat1, lat2) = (a.1.to_radians(), b.1.to_radians());
    let dlat = lat2 - lat1;
    let dlon = (b.0 - a.0).to_radians();
    let h = (dlat / 2.0).sin().powi(2) + lat1.cos() * lat2.cos() * (dlon / 2.0).sin().powi(2);
    2.0 * 6371000.0 * h.sqrt().min(1.0).asin()
}
fn impl_gc(a: (f64, f64), b: (f64, f64)) -> f64 {
    let ca = geo::coord! {x: a.0 as f32, y: a.1 as f32};
    let cb = geo::coord! {x: b.0 as f32, y: b.1 as f32};
    haversine::coord_distance_meters(&ca, &cb).map(|d| d.as_f64()).unwrap_or(f64::NAN)
}
/// a length that makes the edge metrically consistent: >= ceil(max(implementation, independent)) + 1 m
fn metric_len(a: (f64, f64), b: (f64, f64), stretch: f64) -> f64 {
    (impl_gc(a, b).max(great_circle_f64(a, b)) * stretch).ceil() + 1.0
}

fn write_files(dir: &Path, c: &RealCase) -> (String, String, String) {
    std::fs::create_dir_all(dir).unwrap();
    let mut e = String::from("edge_id,src_vertex_id,dst_vertex_id,distance\n");
    let mut sp = String::new();
    for (i, (s, d, len, speed)) in c.edges.iter().enumerate() {
        e += &format!("{},{},{},{:?}\n", i, s, d, len);
        sp += &format!("{:?}\n", speed);
    }
    let mut v = String::from("vertex_id,x,y\n");
    for (i, (x, y)) in c.coords.iter().enumerate() {
        v += &format!("{},{:?},{:?}\n", i, x, y);
    }
    let p = |n: &str, s: String| -> String {
        let f = dir.join(n);
        std::fs::write(&f, s).unwrap();
        f.to_str().unwrap().to_string()
    };
    let mut ge = String::new();
    for (s, d, _, _) in c.edges.iter() {
        let (a, b) = (c.coords[*s], c.coords[*d]);
        ge += &format!("LINESTRING ({:?} {:?}, {:?} {:?})\n", a.0, a.1, b.0, b.1);
    }
    p("geoms.txt", ge);
    (p("edges.csv", e), p("vertices.csv", v), p("speeds.txt", sp))
}

fn toml_of(c: &RealCase, files: &(String, String, String)) -> String {
    let mut t = String::new();
    t += "parallelism = 1\nsearch_orientation = \"vertex\"\nresponse_persistence_policy = \"persist_response_in_memory\"\n[response_output_policy]\ntype = \"none\"\n";
    t += &format!("[graph]\nedge_list_input_file = {:?}\nvertex_list_input_file = {:?}\nverbose = false\n", files.0, files.1);
    t += "[algorithm]\ntype = \"a*\"\n";
    if let Some(w) = c.alg_wf {
        t += &format!("weight_factor = {:?}\n", w);
    }
    if !c.speed_model {
        t += &format!("[state]\ndistance = {{ distance_unit = {:?}, initial = 0.0 }}\n", c.fdu.clone().unwrap_or("meters".into()));
        t += "[traversal]\ntype = \"distance\"\n";
        if let Some(u) = &c.du {
            t += &format!("distance_unit = {:?}\n", u);
        }
    } else {
        t += &format!("[traversal]\ntype = \"speed_table\"\nspeed_table_input_file = {:?}\nspeed_unit = {:?}\n", files.2, c.su);
        if let Some(u) = &c.du {
            t += &format!("distance_unit = {:?}\n", u);
        }
        if let Some(u) = &c.tu {
            t += &format!("time_unit = {:?}\n", u);
        }
    }
    t += "[access]\ntype = \"no_access_model\"\n[frontier]\ntype = \"no_restriction\"\n";
    t += &format!("[cost]\ncost_aggregation = \"{}\"\n", if c.cfg_mul { "mul" } else { "sum" });
    t += "[cost.weights]\n";
    for (k, v) in &c.cfg_w {
        t += &format!("{} = {:?}\n", k, v);
    }
    t += "[cost.vehicle_rates]\n";
    for (k, v) in &c.cfg_v {
        t += &format!("{} = {}\n", k, rate_toml(v));
    }
    // per-edge surcharge tables cannot be written in a configuration file (NetworkCostRate::EdgeLookup does not
    // deserialise: internally tagged enum + integer-keyed map); run_real installs them in the cost model service
    t += "[cost.network_rates]\n";
    if c.warm.is_empty() {
        t += "[plugin]\ninput_plugins = []\noutput_plugins = []\n";
    } else {
        // application-level sequences read the route (edge ids), its cost and the cost-model echo from the responses
        let geoms = Path::new(&files.0).with_file_name("geoms.txt");
        t += &format!("[plugin]\ninput_plugins = []\noutput_plugins = [ {{ type = \"traversal\", route = \"edge_id\", geometry_input_file = {:?} }} ]\n", geoms.to_str().unwrap());
    }
    t
}

fn query_of(c: &RealCase, with_wf: bool) -> Value {
    let mut q = json!({"origin_vertex": c.s, "destination_vertex": c.t});
    if let Some(w) = &c.q_w {
        q["weights"] = assoc_json(w, |x| json!(x));
    }
    if let Some(v) = &c.q_v {
        q["vehicle_rates"] = assoc_json(v, rate_json);
    }
    if let Some(m) = c.q_mul {
        q["cost_aggregation"] = json!(if m { "mul" } else { "sum" });
    }
    if c.speed_model && (c.fdu.is_some() || c.ftu.is_some()) {
        let mut sf = serde_json::Map::new();
        if let Some(u) = &c.fdu {
            sf.insert("distance".into(), json!({"distance_unit": u, "initial": 0.0}));
        }
        if let Some(u) = &c.ftu {
            sf.insert("time".into(), json!({"time_unit": u, "initial": 0.0}));
        }
        q["state_features"] = Value::Object(sf);
    }
    if with_wf {
        if let Some(w) = c.q_wf {
            q["weight_factor"] = json!(w);
        }
    }
    q
}

struct RealRun {
    i_payload: String,
    j_payload: String,
    m_term: String,
    s_term: String,
    as_claim: bool,
    dj_status: String,
    as_status: String,
    routes_differ: bool,
    hist: Vec<String>,
}

fn route_of(r: Result<routee_compass_core::algorithm::search::search_algorithm_result::SearchAlgorithmResult, routee_compass_core::algorithm::search::search_error::SearchError>) -> (String, Vec<usize>) {
    match r {
        Err(e) => (classify_error(&e), vec![]),
        Ok(res) => match res.routes.first() {
            Some(rt) => ("Ok".into(), rt.iter().map(|et| et.edge_id.0).collect()),
            None => ("noroute".into(), vec![]),
        },
    }
}
fn unit_name<T: serde::Serialize>(u: &T) -> String {
    serde_json::to_value(u).ok().and_then(|v| v.as_str().map(|s| s.to_string())).unwrap_or_default()
}

fn run_real(c: &RealCase, id: usize, work: &Path) -> Result<RealRun, String> {
    let dir = work.join(format!("c{}", id));
    let files = write_files(&dir, c);
    let toml = toml_of(c, &files);
    let conf = dir.join("compass.toml");
    std::fs::write(&conf, &toml).map_err(|e| e.to_string())?;
    let conf_s = conf.to_str().unwrap().to_string();
    let build_app = || -> Result<CompassApp, String> {
        let (t2, c2) = (toml.clone(), conf_s.clone());
        match catch(move || CompassApp::try_from_config_toml_string(t2, c2, &CompassAppBuilder::default())) {
            Ok(Ok(app)) => Ok(app),
            Ok(Err(e)) => Err(format!("build error: {}", e)),
            Err(p) => Err(format!("build panic: {}", p)),
        }
    };
    let app: CompassApp = build_app()?;
    let q_as = query_of(c, true);
    let q_dj = query_of(c, false);
    // ---- application-level sequence: the warm-up queries and then the measured one go through CompassApp::run on this
    //      ONE instance, one at a time; every response must be what the same query gets alone on a fresh instance
    let mut seq_note = "seq=OK".to_string();
    let mut seq_kinds: Vec<String> = vec![];
    if !c.warm.is_empty() {
        let mut plain = c.clone();
        plain.q_w = None;
        plain.q_v = None;
        plain.q_mul = None;
        let base = query_of(&plain, true);
        let mut all: Vec<Value> = c
            .warm
            .iter()
            .map(|o| {
                let mut q = base.clone();
                if let Some(m) = o.as_object() {
                    for (k, v) in m {
                        q[k.as_str()] = v.clone();
                    }
                }
                q
            })
            .collect();
        all.push(q_as.clone());
        let digest = |r: Result<Vec<Value>, String>| -> String {
            match r {
                Err(e) => format!("run-error:{}", e.chars().take(60).collect::<String>()),
                Ok(v) => match v.first() {
                    None => "no-response".into(),
                    Some(x) => match x.get("route") {
                        Some(rt) => show_json(&json!({"path": rt["path"], "cost": rt["cost"], "cost_model": rt["cost_model"]}), true),
                        None => format!("error:{}", x.get("error").map(|e| e.to_string()).unwrap_or_default().chars().take(60).collect::<String>()),
                    },
                },
            }
        };
        for (i, q) in all.iter().enumerate() {
            let q1 = q.clone();
            let in_seq = digest(catch(std::panic::AssertUnwindSafe(|| app.run(vec![q1], None).map_err(|e| e.to_string()))).unwrap_or_else(|p| Err(format!("panic {}", p))));
            let fresh = build_app()?;
            let q2 = q.clone();
            let alone = digest(catch(std::panic::AssertUnwindSafe(|| fresh.run(vec![q2], None).map_err(|e| e.to_string()))).unwrap_or_else(|p| Err(format!("panic {}", p))));
            seq_kinds.push(format!("seq_response:{}", if alone.starts_with('{') { "route" } else { "error" }));
            if in_seq != alone && seq_note == "seq=OK" {
                let short = |x: &str| -> String {
                    // the part that matters: path and total cost
                    let p = x.find("path:").map(|k| x[k..].chars().take(40).collect::<String>()).unwrap_or_else(|| x.chars().take(40).collect());
                    p.replace(' ', "")
                };
                seq_note = format!("seq=DIFF(query#{}of{}:alone<{}>in-sequence<{}>)", i + 1, all.len(), short(&alone), short(&in_seq));
            }
        }
    }
    // the REAL CostModelService / traversal service / state model assemble the instance for this query
    let si0: SearchInstance = app.search_app.build_search_instance(&q_as).map_err(|e| format!("instance: {}", e))?;
    let nrates: HashMap<String, NetworkCostRate> = match &c.cfg_n {
        None => HashMap::new(),
        Some((f, l)) => HashMap::from([(f.clone(), NetworkCostRate::EdgeLookup { lookup: l.iter().map(|(e, x)| (EdgeId(*e), Cost::new(*x))).collect() })]),
    };
    let has_combined = c.cfg_v.iter().any(|(_, r)| rate_has(r, &|x| matches!(x, Rate::Combined(_))));
    let si: SearchInstance = if c.cfg_n.is_none() && !has_combined {
        si0
    } else {
        // the REAL CostModelService::build, on a copy of the configured service that carries the surcharge table
        let svc0 = &app.search_app.cost_model_service;
        let svc = CostModelService {
            vehicle_rates: if has_combined { Arc::new(c.cfg_v.iter().map(|(k, v)| (k.clone(), rate_real(v))).collect::<HashMap<_, _>>()) } else { svc0.vehicle_rates.clone() },
            network_rates: if c.cfg_n.is_some() { Arc::new(nrates.clone()) } else { svc0.network_rates.clone() },
            weights: svc0.weights.clone(),
            cost_aggregation: svc0.cost_aggregation,
            ignore_unknown_weights: svc0.ignore_unknown_weights,
        };
        let cm = svc.build(&q_as, si0.state_model.clone()).map_err(|e| format!("service build: {}", e))?;
        SearchInstance {
            directed_graph: si0.directed_graph.clone(),
            state_model: si0.state_model.clone(),
            traversal_model: si0.traversal_model.clone(),
            access_model: si0.access_model.clone(),
            cost_model: Arc::new(cm),
            frontier_model: si0.frontier_model.clone(),
            termination_model: si0.termination_model.clone(),
        }
    };
    let init = si.state_model.initial_state().map_err(|e| e.to_string())?;
    let dir_r = if c.reverse { Direction::Reverse } else { Direction::Forward };
    // state model layout
    let mut feats: Vec<(String, usize)> = si.state_model.indexed_iter().map(|(i, (n, _))| (n.clone(), i)).collect();
    feats.sort_by_key(|x| x.1);
    let names: Vec<String> = feats.iter().map(|x| x.0.clone()).collect();
    let slot = |n: &str| names.iter().position(|x| x == n);
    let mut funit_d: String = "meters".into();
    let mut funit_t: Option<String> = None;
    for (n, feat) in si.state_model.iter() {
        if n == "distance" {
            if let Ok(u) = feat.get_distance_unit() {
                funit_d = unit_name(&u);
            }
        }
        if n == "time" {
            if let Ok(u) = feat.get_time_unit() {
                funit_t = Some(unit_name(&u));
            }
        }
    }
    // ---- I: every edge traversed alone from the initial state; weighted estimate of every vertex
    let wf_eff = c.q_wf.or(c.alg_wf).unwrap_or(1.0);
    let show_r = |r: Result<f64, String>| match r {
        Ok(x) => show_f64(x),
        Err(_) => "Err".to_string(),
    };
    let m = c.edges.len();
    let ec: Vec<String> = (0..m).map(|e| show_r(EdgeTraversal::forward_traversal(EdgeId(e), None, &init, &si).map(|et| et.total_cost().as_f64()).map_err(|e| e.to_string()))).collect();
    let est_vals: Vec<Result<f64, String>> = (0..c.coords.len())
        .map(|v| si.estimate_traversal_cost(VertexId(v), VertexId(c.t), &init).map(|x| Cost::new(x.as_f64() * Cost::new(wf_eff).as_f64()).as_f64()).map_err(|e| e.to_string()))
        .collect();
    let est: Vec<String> = est_vals.iter().map(|r| show_r(r.clone())).collect();
    let i_payload = format!("ec={} est={}", show_list(&ec, |s| s.clone()), show_list(&est, |s| s.clone()));
    // the REAL SpeedTraversalEngine built from the same table and units: its free-flow bound
    let engine_max: Option<f64> = if c.speed_model {
        let su: SpeedUnit = serde_json::from_value(json!(c.su)).map_err(|e| e.to_string())?;
        let du: Option<DistanceUnit> = match &c.du {
            Some(u) => Some(serde_json::from_value(json!(u)).map_err(|e| e.to_string())?),
            None => None,
        };
        let tu: Option<TimeUnit> = match &c.tu {
            Some(u) => Some(serde_json::from_value(json!(u)).map_err(|e| e.to_string())?),
            None => None,
        };
        Some(SpeedTraversalEngine::new(&PathBuf::from(&files.2), su, du, tu).map_err(|e| format!("engine: {}", e))?.max_speed.as_f64())
    } else {
        None
    };
    // ---- the searches: Dijkstra (no weight factor in its query) and the configured A* with the query as given
    let dj = route_of(SearchAlgorithm::Dijkstra.run_vertex_oriented(VertexId(c.s), Some(VertexId(c.t)), &q_dj, &dir_r, &si));
    let ast = route_of(app.search_app.search_algorithm.run_vertex_oriented(VertexId(c.s), Some(VertexId(c.t)), &q_as, &dir_r, &si));
    // ---- edge-locality measured on the implementation: the last edge of Dijkstra's route, traversed from the states
    //      reached after 0, 10 and all hops of that route, must cost the same (within rounding)
    let (loc_edge, loc_route, loc_pos): (usize, Vec<usize>, Vec<usize>) = if dj.0 == "Ok" && dj.1.len() >= 2 {
        let k = dj.1.len();
        (*dj.1.last().unwrap(), dj.1.clone(), vec![0, k.min(10), k])
    } else {
        (0, vec![], vec![])
    };
    let mut loc_vals: Vec<Result<f64, String>> = vec![];
    for k in &loc_pos {
        let mut st = init.clone();
        let mut prev: Option<EdgeId> = None;
        let mut err: Option<String> = None;
        for e in loc_route.iter().take(*k) {
            match EdgeTraversal::forward_traversal(EdgeId(*e), prev, &st, &si) {
                Ok(et) => {
                    st = et.result_state.clone();
                    prev = Some(EdgeId(*e));
                }
                Err(x) => {
                    err = Some(x.to_string());
                    break;
                }
            }
        }
        loc_vals.push(match err {
            Some(x) => Err(x),
            None => EdgeTraversal::forward_traversal(EdgeId(loc_edge), None, &st, &si).map(|et| et.total_cost().as_f64()).map_err(|e| e.to_string()),
        });
    }
    let i_payload = format!("{} loc={} mx={}", i_payload, show_list(&loc_vals, |r| show_r(r.clone())), engine_max.map(show_f64).unwrap_or("-".into()));
    // ---- the objective in force by the specification: the query's weights / rates / aggregation when present, else the
    //      configured ones (the S line prices the routes with the OBJECTIVE MODEL built from exactly these)
    let eff_v: &Assoc<Rate> = c.q_v.as_ref().unwrap_or(&c.cfg_v);
    let eff_mul = c.q_mul.unwrap_or(c.cfg_mul);
    // ---- oracle hygiene and the metric hypothesis (A* claims only on metrically consistent networks)
    let mut hist = vec![];
    let mut hygiene = true;
    let mut metric_ok = true;
    for (s, d, len, _) in &c.edges {
        let (gi, gf) = (impl_gc(c.coords[*s], c.coords[*d]), great_circle_f64(c.coords[*s], c.coords[*d]));
        if !((gi - gf).abs() <= 0.005 * gf.max(1.0)) {
            hygiene = false;
        }
        // the property's hypothesis is about the TRUE great-circle distance (the independent value; the implementation's
        // must agree with it - hygiene - and is never used to decide whether a claim is made): length >= distance, with
        // half a metre for the f32 noise of the estimate.  The triangle inequality then holds by itself.
        // (vertices at one and the same position: both distances are exactly 0, any length >= 0 will do)
        if !(*len >= gf && (*len >= gf + 0.5 || gf == 0.0)) {
            metric_ok = false;
        }
    }
    // the estimate reads the distance of every vertex to the target: the same hygiene bound there
    for v in 0..c.coords.len() {
        let (gi, gf) = (impl_gc(c.coords[v], c.coords[c.t]), great_circle_f64(c.coords[v], c.coords[c.t]));
        if !((gi - gf).abs() <= 0.005 * gf.max(1.0)) {
            hygiene = false;
        }
    }
    let sum_agg = !eff_mul;
    // Offset rates are outside the A* claim (as in the property's own list of rate shapes)
    let no_offset = !eff_v.iter().any(|(_, r)| rate_has(r, &|x| matches!(x, Rate::Offset(_))));
    let as_claim = metric_ok && sum_agg && no_offset && (0.0..=1.0).contains(&wf_eff);
    hist.extend(seq_kinds.iter().cloned());
    hist.push(format!("sequence_len:{}", if c.warm.is_empty() { 0 } else { c.warm.len() + 1 }));
    hist.push(format!("combined_rates:{}", has_combined));
    hist.push(format!("table_above_soft_max:{}", c.speed_model && c.edges.iter().any(|e| e.3 > match c.su.as_str() { "meters_per_second" => 33.528, "miles_per_hour" => 75.0, _ => 120.675 })));
    hist.push(format!("crosses_antimeridian:{}", c.coords.iter().any(|p| p.0 > 179.0) && c.coords.iter().any(|p| p.0 < -179.0)));
    hist.push(format!("surcharge_without_vehicle_rate:{}", match &c.cfg_n { Some((f, _)) => !eff_v.iter().any(|(k, r)| k == f && *r != Rate::Zero), None => false }));
    hist.push(format!("metric_ok:{}", metric_ok));
    hist.push(format!("as_claim:{}", as_claim));
    let show_rt = |tag: &str, r: &(String, Vec<usize>)| {
        if r.0 == "Ok" {
            format!("{}={}:OK", tag, show_list(&r.1, |e| e.to_string()))
        } else {
            format!("{}={}", tag, r.0)
        }
    };
    let mut j_payload = format!("{} {}", show_rt("dj", &dj), if as_claim { show_rt("as", &ast) } else { "as=noclaim".to_string() });
    j_payload += &format!(" loc=OK {} mx=OK {}", if as_claim { "adm=OK" } else { "adm=noclaim" }, seq_note);
    if !hygiene {
        j_payload += " HYGIENE-FAIL(implementation haversine differs from the independent great-circle distance by more than 0.5 %)";
    }
    // ---- Coq terms
    let f = |x: f64| coq_f64(x);
    let speeds: Vec<f64> = c.edges.iter().map(|e| e.3).collect();
    let tm = if !c.speed_model {
        format!(
            "(Ok (RC.Model.Objective.Objective.TDistance (RC.Model.Objective.Objective.mkD {} {} {})))",
            coq_dist(c.du.as_deref().unwrap_or("meters")),
            slot("distance").unwrap_or(99),
            coq_dist(&funit_d)
        )
    } else {
        format!(
            "(OR.mk_speed FN {} {} {} {} {} {} {} {})",
            coq_list(&speeds, |x| f(*x)),
            coq_speed(&c.su),
            coq_opt(&c.du, |u| coq_dist(u).to_string()),
            coq_opt(&c.tu, |u| coq_time(u).to_string()),
            slot("distance").unwrap_or(99),
            coq_dist(&funit_d),
            slot("time").unwrap_or(99),
            coq_time(funit_t.as_deref().unwrap_or("seconds"))
        )
    };
    let coq_w = |a: &Assoc<f64>| coq_list(a, |(k, v)| format!("({}, {})", coq_string(k), f(*v)));
    let coq_v = |a: &Assoc<Rate>| coq_list(a, |(k, v)| format!("({}, {})", coq_string(k), rate_coq(v)));
    let coq_n = match &c.cfg_n {
        None => "[]".to_string(),
        Some((ft, l)) => format!("[({}, RC.Model.Cost.Cost.NEdge {})]", coq_string(ft), coq_list(l, |(e, x)| format!("({}, {})", coq_z(*e as i128), f(*x)))),
    };
    let agg = |m: bool| if m { "RC.Model.Cost.Cost.AMul" } else { "RC.Model.Cost.Cost.ASum" };
    let gct: Vec<f64> = (0..c.coords.len()).map(|v| impl_gc(c.coords[v], c.coords[c.t])).collect();
    let lens: Vec<f64> = c.edges.iter().map(|e| e.2).collect();
    let w_term = format!(
        "(OR.mkRW FN {} {} {} {} {} {} {} {} {} true {} {} {} {})",
        coq_list(&names, |n| coq_string(n)),
        coq_list(&init, |x| f(x.0)),
        tm,
        coq_list(&lens, |x| f(*x)),
        coq_list(&gct, |x| f(*x)),
        coq_w(&c.cfg_w),
        coq_v(&c.cfg_v),
        coq_n,
        agg(c.cfg_mul),
        coq_opt(&c.q_w, |a| coq_w(a)),
        coq_opt(&c.q_v, |a| coq_v(a)),
        coq_opt(&c.q_mul, |m| agg(*m).to_string()),
        f(wf_eff)
    );
    let m_term = format!("OR.rline_M FN {}%Z {}", id, w_term);
    let m_term = format!("{} {} {} {}", m_term, loc_edge, coq_list(&loc_route, |e| e.to_string()), coq_list(&loc_pos, |e| e.to_string()));
    let rr = |r: &(String, Vec<usize>)| format!("({}, {})", coq_string(&r.0), coq_list(&r.1, |e| e.to_string()));
    let est_ok: Vec<f64> = if est_vals.iter().all(|r| r.is_ok()) { est_vals.iter().map(|r| *r.as_ref().unwrap()).collect() } else { vec![] };
    let s_term = format!(
        "OR.rline_S {}%Z {} {} {} {} {} {} {} {} {} {} {} {} {}",
        id,
        w_term,
        c.coords.len(),
        coq_list(&c.edges, |e| format!("({}, {})", e.0, e.1)),
        if c.reverse { "Search.Reverse" } else { "Search.Forward" },
        c.s,
        c.t,
        rr(&dj),
        rr(&ast),
        coq_bool(as_claim),
        coq_list(&loc_vals.iter().filter_map(|r| r.clone().ok()).collect::<Vec<f64>>(), |x| coq_q(*x)),
        coq_list(&est_ok, |x| coq_q(*x)),
        coq_opt(&engine_max, |x| coq_q(*x)),
        coq_list(&speeds, |x| coq_q(*x))
    );
    let _ = std::fs::remove_dir_all(&dir);
    Ok(RealRun { i_payload, j_payload, m_term, s_term, as_claim, dj_status: dj.0.clone(), as_status: ast.0.clone(), routes_differ: dj.1 != ast.1, hist })
}

fn add_real_case(st: &mut Stream, c: &RealCase, work: &Path) {
    let id = st.next_id();
    let cc = c.clone();
    let wk = work.to_path_buf();
    let r = match catch(move || run_real(&cc, id, &wk)) {
        Ok(r) => r,
        Err(p) => Err(format!("panic: {}", p)),
    };
    let desc_base = case_to_json(c);
    match r {
        Err(e) => {
            // the application could not be built or a model failed: nothing is claimed, the case is recorded
            st.count(&format!("setup_error:{}", e.chars().take(40).collect::<String>()));
            let mut d = desc_base;
            d["id"] = json!(id);
            d["setup_error"] = json!(e);
            st.case(vec![format!("Show.line \"M\" {}%Z \"setup-error\"", id), format!("Show.line \"S\" {}%Z \"setup-error\"", id)], vec![format!("I {} setup-error", id), format!("J {} setup-error", id)], d);
        }
        Ok(r) => {
            st.count(&format!("family:{}", c.family));
            st.count(&format!("model:{}", if c.speed_model { "speed_table" } else { "distance" }));
            st.count(&format!("du:{}", c.du.clone().unwrap_or("default".into())));
            st.count(&format!("fdu:{}", c.fdu.clone().unwrap_or("default".into())));
            if c.speed_model {
                st.count(&format!("tu:{}", c.tu.clone().unwrap_or("default".into())));
                st.count(&format!("ftu:{}", c.ftu.clone().unwrap_or("default".into())));
                st.count(&format!("su:{}", c.su));
            }
            st.count(&format!("query_weights:{}", c.q_w.is_some()));
            st.count(&format!("query_rates:{}", c.q_v.is_some()));
            st.count(&format!("query_aggregation:{}", c.q_mul.is_some()));
            st.count(&format!("network_rates:{}", c.cfg_n.is_some()));
            st.count(&format!("wf:{}", c.q_wf.or(c.alg_wf).unwrap_or(1.0)));
            st.count(&format!("dir:{}", if c.reverse { "reverse" } else { "forward" }));
            st.count(&format!("dj:{}", r.dj_status));
            st.count(&format!("as:{}", r.as_status));
            st.count(&format!("routes_differ:{}", r.routes_differ));
            for h in &r.hist {
                st.count(h);
            }
            let mut d = desc_base;
            d["id"] = json!(id);
            d["j"] = json!(r.j_payload.chars().take(200).collect::<String>());
            // non-trivial: both searches found a route of >= 2 edges and A* is inside the hypothesis
            if r.as_claim && r.dj_status == "Ok" && r.j_payload.matches(',').count() >= 2 {
                st.mark_nontrivial(&d.to_string());
            }
            st.case(vec![r.m_term, r.s_term], vec![format!("I {} {}", id, r.i_payload), format!("J {} {}", id, r.j_payload)], d);
        }
    }
}

fn q8(rng: &mut Rng, lo: i64, hi: i64) -> f64 {
    rng.range(lo * 8, hi * 8) as f64 / 8.0
}

/// random objective: weights (non-negative, positive sum), rates (raw / factor >= 0), optional per-edge surcharges
fn gen_objective(r: &mut Rng, c: &mut RealCase) {
    let feats: Vec<&str> = if c.speed_model { vec!["distance", "time"] } else { vec!["distance"] };
    let wvals = [0.0, 0.5, 1.0, 2.0, 0.25];
    let gen_w = |r: &mut Rng| -> Assoc<f64> {
        loop {
            let a: Assoc<f64> = feats.iter().map(|f| (f.to_string(), *r.pick(&wvals))).collect();
            if a.iter().map(|x| x.1).sum::<f64>() > 0.0 {
                return a;
            }
        }
    };
    let gen_v = |r: &mut Rng| -> Assoc<Rate> {
        feats
            .iter()
            .map(|f| (f.to_string(), match r.below(4) {
                0 => Rate::Factor(*r.pick(&[0.5, 2.0, 0.125, 3.0])),
                _ => Rate::Raw,
            }))
            .collect()
    };
    c.cfg_w = gen_w(r);
    c.cfg_v = gen_v(r);
    // a fifth of the configured objectives carry a Combined chain of 2-3 non-identity mappings on one feature
    // (factors; a quarter of them with a non-negative offset, which takes A* out of the claim)
    if r.chance(1, 5) {
        let k = r.below(feats.len() as u64) as usize;
        let fs = [0.5, 2.0, 0.125, 3.0, 0.01, 8.0];
        let mut chain = vec![Rate::Factor(*r.pick(&fs)), Rate::Factor(*r.pick(&fs))];
        if r.chance(1, 2) {
            chain.push(Rate::Factor(*r.pick(&fs)));
        }
        if r.chance(1, 4) {
            let at = r.below(chain.len() as u64 + 1) as usize;
            chain.insert(at, Rate::Offset(*r.pick(&[0.5, 2.0, 16.0])));
        }
        c.cfg_v[k].1 = Rate::Combined(chain);
    }
    if r.chance(1, 3) {
        c.q_w = Some(gen_w(r));
    }
    if r.chance(1, 4) {
        c.q_v = Some(gen_v(r));
    }
    if r.chance(1, 6) {
        c.q_mul = Some(false);
    }
    if r.chance(1, 4) {
        let f = r.pick(&feats).to_string();
        let mut l = vec![];
        for e in 0..c.edges.len() {
            if r.chance(1, 4) {
                l.push((e, *r.pick(&[0.5, 4.0, 64.0, 1024.0])));
            }
        }
        if !l.is_empty() {
            // a third of the surcharge tables hang on a feature without a vehicle rate (absent, or Zero)
            if r.chance(1, 3) && c.cfg_w.iter().any(|(k, x)| *k == f && *x > 0.0) && c.cfg_w.iter().any(|(k, x)| *k != f && *x > 0.0) {
                if r.chance(1, 2) {
                    c.cfg_v.retain(|(k, _)| *k != f);
                } else {
                    for (k, v) in c.cfg_v.iter_mut() {
                        if *k == f {
                            *v = Rate::Zero;
                        }
                    }
                }
            }
            c.cfg_n = Some((f, l));
        }
    }
}

fn gen_units(r: &mut Rng, c: &mut RealCase) {
    let opt = |r: &mut Rng, xs: &[&str]| if r.chance(1, 5) { None } else { Some(r.pick(xs).to_string()) };
    // the distance unit is always given: config.default.toml carries `[traversal] distance_unit = "kilometers"`, which
    // the configuration merge would otherwise hand to either traversal model
    c.du = Some(r.pick(&DIST_UNITS[..]).to_string());
    c.su = r.pick(&SPEED_UNITS[..]).to_string();
    if c.speed_model {
        c.tu = opt(r, &TIME_UNITS[..]);
        c.fdu = if r.chance(1, 2) { Some(r.pick(&DIST_UNITS[..]).to_string()) } else { None };
        c.ftu = if r.chance(1, 2) { Some(r.pick(&TIME_UNITS[..]).to_string()) } else { None };
    } else {
        c.fdu = Some(r.pick(&DIST_UNITS[..]).to_string());
    }
}

fn blank_case(family: &str) -> RealCase {
    RealCase {
        family: family.into(),
        coords: vec![],
        edges: vec![],
        speed_model: true,
        du: Some("meters".into()),
        tu: None,
        su: "kilometers_per_hour".into(),
        fdu: None,
        ftu: None,
        cfg_w: vec![],
        cfg_v: vec![],
        cfg_n: None,
        cfg_mul: false,
        q_w: None,
        q_v: None,
        q_mul: None,
        alg_wf: None,
        q_wf: None,
        reverse: false,
        s: 0,
        t: 0,
        metric: true,
        warm: vec![],
    }
}

/// random network on the 1/8-degree grid; speeds in `su` from a small set; lengths metric (or not)
fn gen_network(r: &mut Rng, c: &mut RealCase, metric: bool) {
    let n = r.range(4, 14) as usize;
    // a tenth of the random networks straddle the 180th meridian
    let (lon0, lat0) = if r.chance(1, 10) { (179.625, q8(r, -55, 55)) } else { (q8(r, -120, 100), q8(r, -55, 55)) };
    let mut coords: Vec<(f64, f64)> = vec![];
    while coords.len() < n {
        let lon = lon0 + r.range(0, 6) as f64 / 8.0;
        let p = (if lon > 180.0 { lon - 360.0 } else { lon }, lat0 + r.range(0, 6) as f64 / 8.0);
        if !coords.contains(&p) {
            coords.push(p);
        }
    }
    let speeds: Vec<f64> = match c.su.as_str() {
        // (rows well above SpeedUnit::max_american_highway_speed = 33.528 m/s, 75 mph, 120.675 kph in every unit)
        "meters_per_second" => vec![5.0, 10.0, 15.0, 25.0, 33.0, 45.0, 56.0],
        "miles_per_hour" => vec![15.0, 25.0, 35.0, 55.0, 70.0, 90.0, 125.0],
        _ => vec![20.0, 30.0, 50.0, 80.0, 120.0, 160.0, 200.0],
    };
    let mut edges = vec![];
    for u in 0..n {
        let deg = r.range(1, 3);
        for _ in 0..deg {
            let v = r.below(n as u64) as usize;
            if v == u {
                continue;
            }
            let stretch = *r.pick(&[1.0, 1.0, 1.125, 1.5, 2.0]);
            let len = if metric { metric_len(coords[u], coords[v], stretch) } else { (impl_gc(coords[u], coords[v]) * *r.pick(&[0.25, 0.5, 1.0])).ceil().max(1.0) };
            let sp = *r.pick(&speeds);
            edges.push((u, v, len, sp));
            if r.chance(1, 2) {
                edges.push((v, u, len, *r.pick(&speeds)));
            }
        }
    }
    c.coords = coords;
    c.edges = edges;
    c.metric = metric;
    c.s = r.below(n as u64) as usize;
    c.t = (c.s + 1 + r.below(n as u64 - 1) as usize) % n;
}

/// a slow direct road and a fast detour: distance-optimal and time-optimal routes differ
fn two_route_network(c: &mut RealCase) {
    // 0 = origin, 3 = destination, 1 on the straight line, 2 off the line
    c.coords = vec![(10.0, 45.0), (10.25, 45.0), (10.25, 45.25), (10.5, 45.0)];
    let mk = |a: usize, b: usize, stretch: f64, sp: f64, c: &RealCase| (a, b, metric_len(c.coords[a], c.coords[b], stretch), sp);
    c.edges = vec![mk(0, 1, 1.0, 20.0, c), mk(1, 3, 1.0, 20.0, c), mk(0, 2, 1.0, 120.0, c), mk(2, 3, 1.0, 120.0, c), mk(3, 0, 1.0, 50.0, c)];
    c.s = 0;
    c.t = 3;
    c.su = "kilometers_per_hour".into();
}

/// mostly very slow streets and one fast two-edge detour: with an estimate at the MEAN table speed the detour's
/// middle vertex looks hopeless and the slow direct road wins; at the maximum speed the estimate stays admissible
fn highway_network(c: &mut RealCase, extra_slow: usize, direct_speed: f64) {
    c.coords = vec![(20.0, 50.0), (20.5, 50.0), (20.25, 50.125)];
    let mut far: Vec<(f64, f64)> = vec![];
    for i in 0..extra_slow {
        far.push((21.0 + (i % 4) as f64 / 8.0, 50.0 + (i / 4) as f64 / 8.0));
    }
    c.coords.extend(far);
    let mk = |a: usize, b: usize, sp: f64, c: &RealCase| (a, b, metric_len(c.coords[a], c.coords[b], 1.0), sp);
    let mut es = vec![mk(0, 1, direct_speed, c), mk(0, 2, 120.0, c), mk(2, 1, 120.0, c)];
    for i in 0..extra_slow {
        let a = 3 + i;
        let b = 3 + (i + 1) % extra_slow;
        if a != b {
            es.push(mk(a, b, 5.0, c));
        }
    }
    c.edges = es;
    c.s = 0;
    c.t = 1;
    c.su = "kilometers_per_hour".into();
}

/// a network that straddles the 180th meridian: origin 0 and destination 1 at longitude 179.875, the best route goes
/// through vertex 2 at longitude -179.875 (a quarter of a degree away, on the other side), the alternative through vertex
/// 3 stays on the destination's side but is stretched x 2.  Lengths come from the INDEPENDENT great-circle distance only.
fn antimeridian_network(c: &mut RealCase, lat: f64, reverse: bool) {
    c.coords = vec![(179.875, lat), (179.875, lat + 0.25), (-179.875, lat + 0.125), (179.75, lat + 0.125), (-179.75, lat + 0.125)];
    let mk = |a: usize, b: usize, stretch: f64, c: &RealCase| (a, b, (great_circle_f64(c.coords[a], c.coords[b]) * stretch).ceil() + 2.0, 50.0);
    let mut es = vec![];
    for (a, b, st) in [(0usize, 2usize, 1.0), (2, 1, 1.0), (0, 3, 2.0), (3, 1, 2.0), (2, 4, 1.0), (4, 2, 1.0)] {
        es.push(mk(a, b, st, c));
        es.push(mk(b, a, st, c));
    }
    c.edges = es;
    c.s = 0;
    c.t = 1;
    c.su = "kilometers_per_hour".into();
    c.reverse = reverse;
    if reverse {
        std::mem::swap(&mut c.s, &mut c.t);
    }
}

/// highway_network with table rows far above the "soft maximum" of the speed unit: detour at `fast`, direct road at
/// 0.65 x fast, side streets slow.  The detour is optimal (45.2/fast against 54.9/fast) and stays so for A* only if the
/// estimate is taken at the table's true maximum: at any bound below fast/1.43 the detour vertex looks worse than the
/// direct road.
fn fast_highway_network(c: &mut RealCase, su: &str, reverse: bool) {
    let fast = match su {
        "meters_per_second" => 56.0,
        "miles_per_hour" => 125.0,
        _ => 200.0,
    };
    highway_network(c, 4, (0.65f64 * fast).round());
    for e in c.edges.iter_mut() {
        if e.3 == 120.0 {
            e.3 = fast;
        } else if e.3 == 5.0 {
            e.3 = (fast / 40.0).round();
        }
    }
    c.su = su.to_string();
    c.reverse = reverse;
    if reverse {
        std::mem::swap(&mut c.s, &mut c.t);
    }
}

/// a chain of `hops` edges (one long edge next to the search origin, then short ones) against a single direct edge that
/// is `permille_x10`/10000 longer than the chain's total: the chain must win, by a margin far above rounding and far below
/// what a hop-dependent (non edge-local) cost would add
fn chain_network(c: &mut RealCase, hops: usize, short: f64, delta: f64, speed: f64) {
    let o = (12.0, 47.0);
    let d = (12.125, 47.0);
    // the long edge is the first one met by the search: forward from vertex 0, reverse from vertex `hops`
    let big_first_forward = !c.reverse;
    let mut coords = vec![];
    for v in 0..=hops {
        let at_origin = if big_first_forward { v == 0 } else { v < hops };
        coords.push(if at_origin { o } else { d });
    }
    c.coords = coords;
    let big = metric_len(o, d, 1.0);
    let mut edges = vec![];
    let mut total = 0.0;
    for i in 0..hops {
        let is_big = if big_first_forward { i == 0 } else { i == hops - 1 };
        let len = if is_big { big } else { short };
        total += len;
        edges.push((i, i + 1, len, speed));
    }
    edges.push((0, hops, (total * (1.0 + delta)).ceil(), speed));
    // decoys: a way back and a dead end
    edges.push((hops, 0, big, speed));
    edges.push((1, 0, big, speed));
    c.edges = edges;
    c.metric = true;
    if c.reverse {
        c.s = hops;
        c.t = 0;
    } else {
        c.s = 0;
        c.t = hops;
    }
}

fn chain_cases() -> Vec<RealCase> {
    let mut out = vec![];
    // distance model: every (model unit, state feature unit) pair
    let mut k = 0usize;
    for du in DIST_UNITS.iter() {
        for fdu in DIST_UNITS.iter() {
            let mut c = blank_case("chain_vs_direct");
            c.speed_model = false;
            c.du = Some(du.to_string());
            c.fdu = Some(fdu.to_string());
            c.reverse = k % 3 == 2;
            c.cfg_w = vec![("distance".to_string(), 1.0)];
            c.cfg_v = vec![("distance".to_string(), if k % 2 == 0 { Rate::Raw } else { Rate::Factor(0.5) })];
            chain_network(&mut c, [40, 20, 60][k % 3], [100.0, 25.0, 200.0][k % 3], [0.0025, 0.0005, 0.005][k % 3], 50.0);
            out.push(c);
            k += 1;
        }
    }
    // speed model: engine units against overridden state feature units, miles on either side
    for (du, fdu, tu, ftu, wd, wt) in [
        ("meters", "miles", "seconds", "hours", 1.0, 0.0),
        ("miles", "kilometers", "minutes", "seconds", 1.0, 0.0),
        ("kilometers", "miles", "hours", "minutes", 0.0, 1.0),
        ("miles", "meters", "milliseconds", "hours", 0.0, 1.0),
        ("feet", "miles", "minutes", "milliseconds", 1.0, 1.0),
        ("miles", "inches", "seconds", "minutes", 0.5, 2.0),
    ] {
        let mut c = blank_case("chain_vs_direct");
        c.du = Some(du.into());
        c.fdu = Some(fdu.into());
        c.tu = Some(tu.into());
        c.ftu = Some(ftu.into());
        c.reverse = k % 2 == 1;
        c.cfg_w = vec![("distance".to_string(), wd), ("time".to_string(), wt)];
        c.cfg_v = vec![("distance".to_string(), Rate::Raw), ("time".to_string(), Rate::Raw)];
        chain_network(&mut c, 40, 100.0, 0.0025, 50.0);
        out.push(c);
        k += 1;
    }
    out
}

fn real_boundary() -> Vec<RealCase> {
    let mut out = vec![];
    let w = |d: f64, t: f64| -> Assoc<f64> { vec![("distance".to_string(), d), ("time".to_string(), t)] };
    let raw = || -> Assoc<Rate> { vec![("distance".to_string(), Rate::Raw), ("time".to_string(), Rate::Raw)] };
    // (ii) query-time overrides: configured for distance, the query asks for time (and the other way round, and none)
    for (name, cw, qw) in [
        ("override_distance_to_time", w(1.0, 0.0), Some(w(0.0, 1.0))),
        ("override_time_to_distance", w(0.0, 1.0), Some(w(1.0, 0.0))),
        ("override_none_distance", w(1.0, 0.0), None),
        ("override_none_time", w(0.0, 1.0), None),
        ("override_blend", w(1.0, 1.0), Some(w(0.25, 2.0))),
    ] {
        for reverse in [false, true] {
            let mut c = blank_case(name);
            two_route_network(&mut c);
            c.du = Some("kilometers".into());
            c.tu = Some("minutes".into());
            c.cfg_w = cw.clone();
            c.cfg_v = raw();
            c.q_w = qw.clone();
            c.reverse = reverse;
            if reverse {
                std::mem::swap(&mut c.s, &mut c.t);
            }
            out.push(c);
        }
    }
    // query vehicle rates / aggregation override
    {
        let mut c = blank_case("override_rates");
        two_route_network(&mut c);
        c.cfg_w = w(1.0, 1.0);
        c.cfg_v = vec![("distance".to_string(), Rate::Raw), ("time".to_string(), Rate::Zero)];
        c.q_v = Some(vec![("distance".to_string(), Rate::Zero), ("time".to_string(), Rate::Factor(2.0))]);
        out.push(c);
        let mut c = blank_case("override_aggregation_sum");
        two_route_network(&mut c);
        c.cfg_w = w(1.0, 1.0);
        c.cfg_v = raw();
        c.cfg_mul = true;
        c.q_mul = Some(false);
        out.push(c);
    }
    // query weight factor: the estimate must be multiplied by the factor in force (0, 1/2, 1) - and 3 makes no claim
    for (name, awf, qwf) in [("factor_query_0", None, Some(0.0)), ("factor_query_half", Some(1.0), Some(0.5)), ("factor_config_half", Some(0.5), None), ("factor_query_3", None, Some(3.0))] {
        let mut c = blank_case(name);
        highway_network(&mut c, 6, 30.0);
        c.cfg_w = w(0.0, 1.0);
        c.cfg_v = raw();
        c.alg_wf = awf;
        c.q_wf = qwf;
        out.push(c);
    }
    // the factor in force is the query's: configured 3 (inadmissible on this network), the query says 1 / 0.5 / 0
    for qwf in [1.0, 0.5, 0.0] {
        let mut c = blank_case("factor_config3_query");
        highway_network(&mut c, 4, 60.0);
        c.cfg_w = w(0.0, 1.0);
        c.cfg_v = raw();
        c.alg_wf = Some(3.0);
        c.q_wf = Some(qwf);
        out.push(c);
    }
    // Dijkstra on a NON-metric network (every length a quarter of the great-circle distance): the estimate is inadmissible
    // there, A* makes no claim, Dijkstra (factor 0, from the algorithm or from the query) must still be optimal
    for qwf in [None, Some(0.0)] {
        let mut c = blank_case("dijkstra_nonmetric");
        highway_network(&mut c, 4, 60.0);
        for e in c.edges.iter_mut() {
            e.2 = (e.2 / 4.0).ceil();
        }
        c.metric = false;
        c.cfg_w = w(0.0, 1.0);
        c.cfg_v = raw();
        c.q_wf = qwf;
        out.push(c);
    }
    // the estimate must use the MAXIMUM table speed
    for k in [4usize, 8, 12] {
        for (du, tu) in [(Some("kilometers"), Some("hours")), (Some("meters"), None), (Some("miles"), Some("minutes"))] {
            let mut c = blank_case("highway_max_speed");
            highway_network(&mut c, k, 30.0);
            c.du = du.map(|s| s.to_string());
            c.tu = tu.map(|s| s.to_string());
            c.cfg_w = w(0.0, 1.0);
            c.cfg_v = raw();
            out.push(c);
        }
    }
    // distance model, every model unit x a different feature unit
    for (i, du) in DIST_UNITS.iter().enumerate() {
        let mut c = blank_case("distance_units");
        two_route_network(&mut c);
        c.speed_model = false;
        c.du = Some(du.to_string());
        c.fdu = Some(DIST_UNITS[(i + 2) % 5].to_string());
        c.cfg_w = vec![("distance".to_string(), 1.0)];
        c.cfg_v = vec![("distance".to_string(), Rate::Factor(0.5))];
        out.push(c);
    }
    // per-edge surcharge tables, forward and reverse: the surcharge of an edge is charged to THAT edge wherever it lies
    // on the route (next to the origin, next to the destination), so the slightly longer surcharge-free route must win
    for (name, sur_edge) in [("surcharge_first_edge", 0usize), ("surcharge_last_edge", 1usize)] {
        for reverse in [false, true] {
            for speed_model in [false, true] {
                let mut c = blank_case(name);
                two_route_network(&mut c);
                // same speed everywhere: route 0-1-3 is shorter and faster, but carries the surcharge
                for e in c.edges.iter_mut() {
                    e.3 = 50.0;
                }
                c.speed_model = speed_model;
                c.fdu = Some("meters".into());
                c.cfg_w = if speed_model { w(1.0, 1.0) } else { vec![("distance".to_string(), 1.0)] };
                c.cfg_v = if speed_model { raw() } else { vec![("distance".to_string(), Rate::Raw)] };
                c.cfg_n = Some(("distance".to_string(), vec![(sur_edge, 65536.0)]));
                c.reverse = reverse;
                if reverse {
                    std::mem::swap(&mut c.s, &mut c.t);
                }
                out.push(c);
            }
        }
    }
    // a surcharge table on a weighted feature that has NO vehicle rate (absent in the configuration, Zero, or left out by
    // the query's own vehicle_rates map): the surcharge is still charged
    for (name, cv, qv) in [
        ("surcharge_feature_without_rate", vec![("time".to_string(), Rate::Raw)], None),
        ("surcharge_feature_zero_rate", vec![("distance".to_string(), Rate::Zero), ("time".to_string(), Rate::Raw)], None),
        ("surcharge_rate_dropped_by_query", raw(), Some(vec![("time".to_string(), Rate::Factor(2.0))])),
    ] {
        for reverse in [false, true] {
            for sur_edge in [0usize, 1usize] {
                let mut c = blank_case(name);
                two_route_network(&mut c);
                for e in c.edges.iter_mut() {
                    e.3 = 50.0;
                }
                c.du = Some("kilometers".into());
                c.tu = Some("minutes".into());
                c.cfg_w = w(1.0, 1.0);
                c.cfg_v = cv.clone();
                c.q_v = qv.clone();
                c.cfg_n = Some(("distance".to_string(), vec![(sur_edge, 500.0)]));
                c.reverse = reverse;
                if reverse {
                    std::mem::swap(&mut c.s, &mut c.t);
                }
                out.push(c);
            }
        }
    }
    // a zero-length connector (toll gate between two vertices at one position) carrying a per-edge surcharge, and the same
    // with a 1 mm connector: the surcharge is charged to the edge although the distance feature does not move over it
    for (name, gate_len) in [("surcharge_zero_length_edge", 0.0), ("surcharge_one_millimetre_edge", 0.001)] {
        for gate_first in [true, false] {
            for reverse in [false, true] {
                let mut c = blank_case(name);
                let (a, b) = ((30.0, 10.0), (30.125, 10.0));
                let l = metric_len(a, b, 1.0);
                c.speed_model = false;
                c.du = Some("meters".into());
                c.fdu = Some("meters".into());
                if gate_first {
                    // 0 -gate-> 1 (both at a) -> 2 (at b), against 0 -> 2 thirty metres longer
                    c.coords = vec![a, a, b];
                    c.edges = vec![(0, 1, gate_len, 50.0), (1, 2, l, 50.0), (0, 2, l + 30.0, 50.0), (2, 0, l, 50.0)];
                } else {
                    c.coords = vec![a, b, b];
                    c.edges = vec![(1, 2, gate_len, 50.0), (0, 1, l, 50.0), (0, 2, l + 30.0, 50.0), (2, 0, l, 50.0)];
                }
                c.cfg_w = vec![("distance".to_string(), 1.0)];
                c.cfg_v = vec![("distance".to_string(), Rate::Raw)];
                c.cfg_n = Some(("distance".to_string(), vec![(0, 50.0)]));
                c.s = 0;
                c.t = 2;
                c.reverse = reverse;
                if reverse {
                    std::mem::swap(&mut c.s, &mut c.t);
                }
                out.push(c);
            }
        }
    }
    // objectives so small that every edge costs less than Cost::MIN_COST (1e-10) but more than 0: such costs pass through
    // unchanged (only non-positive costs are floored), so three 1.2 m hops still beat one longer edge
    for (name, speed_model, wd, wt, direct) in [
        ("tiny_costs_distance_1e-12", false, 1e-12, 0.0, 150.0),
        ("tiny_costs_distance_1e-12_all_below_floor", false, 1e-12, 0.0, 50.0),
        ("tiny_costs_distance_1e-14", false, 1e-14, 0.0, 150.0),
        ("tiny_costs_time_hours_1e-6", true, 0.0, 1e-6, 6.0),
        ("tiny_costs_blend", true, 1e-13, 1e-7, 6.0),
    ] {
        for reverse in [false, true] {
            let mut c = blank_case(name);
            let a = (-70.0, -33.0);
            c.coords = vec![a, a, a, a];
            c.edges = vec![(0, 1, 1.2, 50.0), (1, 2, 1.2, 50.0), (2, 3, 1.2, 50.0), (0, 3, direct, 50.0), (3, 0, 1.2, 50.0)];
            c.speed_model = speed_model;
            c.du = Some("meters".into());
            c.fdu = Some("meters".into());
            if speed_model {
                c.tu = Some("hours".into());
                c.cfg_w = w(wd, wt);
                c.cfg_v = raw();
            } else {
                c.cfg_w = vec![("distance".to_string(), wd)];
                c.cfg_v = vec![("distance".to_string(), Rate::Raw)];
            }
            c.s = 0;
            c.t = 3;
            c.reverse = reverse;
            if reverse {
                std::mem::swap(&mut c.s, &mut c.t);
            }
            out.push(c);
        }
    }
    // across the 180th meridian: the great-circle estimate is periodic in longitude
    for (speed_model, wf, reverse, lat) in [
        (false, None, false, -17.0),
        (false, Some(0.5), true, -17.0),
        (true, None, true, 65.0),
        (true, Some(0.5), false, 65.0),
        (true, None, false, 0.0),
        (false, None, true, 0.0),
    ] {
        let mut c = blank_case("antimeridian");
        antimeridian_network(&mut c, lat, reverse);
        c.speed_model = speed_model;
        c.du = Some("kilometers".into());
        c.fdu = Some("kilometers".into());
        c.tu = Some("minutes".into());
        c.cfg_w = if speed_model { w(0.0, 1.0) } else { vec![("distance".to_string(), 1.0)] };
        c.cfg_v = if speed_model { raw() } else { vec![("distance".to_string(), Rate::Raw)] };
        c.alg_wf = wf;
        out.push(c);
    }
    // speed tables with rows far above 75 mph / 120.675 kph / 33.528 m/s, in every speed unit: the estimate must be taken at
    // the table's own maximum (and the engine's max_speed must BE that maximum)
    for su in SPEED_UNITS.iter() {
        for (du, tu, reverse) in [("kilometers", Some("minutes"), false), ("miles", Some("hours"), true), ("meters", None, false)] {
            let mut c = blank_case("fast_highway");
            fast_highway_network(&mut c, su, reverse);
            c.du = Some(du.into());
            c.tu = tu.map(|s| s.to_string());
            c.cfg_w = w(0.0, 1.0);
            c.cfg_v = raw();
            out.push(c);
        }
    }
    // Combined vehicle rates: a chain is applied one mapping after the other.  distance x 0.01 x 8 against time raw: the
    // fast detour wins; with the last mapping alone (x 8) the short slow road would
    for (name, chain, tw) in [
        ("combined_two_factors", vec![Rate::Factor(0.01), Rate::Factor(8.0)], 1.0),
        ("combined_three_factors", vec![Rate::Factor(0.5), Rate::Factor(0.02), Rate::Factor(8.0)], 1.0),
        ("combined_with_offset", vec![Rate::Factor(0.01), Rate::Offset(2.0), Rate::Factor(8.0)], 1.0),
        ("combined_time_chain", vec![Rate::Factor(8.0), Rate::Factor(0.01)], 0.0),
    ] {
        for reverse in [false, true] {
            let mut c = blank_case(name);
            two_route_network(&mut c);
            c.du = Some("kilometers".into());
            c.tu = Some("minutes".into());
            if tw > 0.0 {
                c.cfg_w = w(1.0, tw);
                c.cfg_v = vec![("distance".to_string(), Rate::Combined(chain.clone())), ("time".to_string(), Rate::Raw)];
            } else {
                // the chain on time (x 8 x 0.01), distance raw: the short slow road wins; with x 0.01 alone as well, with x 8
                // alone (first mapping only) the detour would
                c.cfg_w = w(1.0, 1.0);
                c.cfg_v = vec![("distance".to_string(), Rate::Raw), ("time".to_string(), Rate::Combined(chain.clone()))];
            }
            c.reverse = reverse;
            if reverse {
                std::mem::swap(&mut c.s, &mut c.t);
            }
            out.push(c);
        }
    }
    {
        let mut c = blank_case("combined_distance_model");
        two_route_network(&mut c);
        c.speed_model = false;
        c.fdu = Some("miles".into());
        c.cfg_w = vec![("distance".to_string(), 1.0)];
        c.cfg_v = vec![("distance".to_string(), Rate::Combined(vec![Rate::Factor(0.621371), Rate::Factor(0.655)]))];
        out.push(c);
    }
    // sequences on ONE application instance: a query with its own weights / rates / aggregation must not leak into the
    // plain queries after it (nor the other way round)
    let to_dist = json!({"weights": {"distance": 1.0, "time": 0.0}});
    let v_rates = json!({"vehicle_rates": {"distance": {"type": "factor", "factor": 100.0}, "time": {"type": "raw"}}});
    let to_mul = json!({"cost_aggregation": "mul"});
    for (name, cw, warm, qw, reverse) in [
        ("sequence_override_first", w(0.0, 1.0), vec![to_dist.clone()], None, false),
        ("sequence_override_first", w(0.0, 1.0), vec![to_dist.clone()], None, true),
        ("sequence_override_then_two_plain", w(0.0, 1.0), vec![to_dist.clone(), json!({})], None, false),
        ("sequence_plain_then_override", w(0.0, 1.0), vec![json!({}), to_dist.clone()], None, false),
        ("sequence_rates_override_first", w(1.0, 1.0), vec![v_rates.clone()], None, false),
        ("sequence_aggregation_override_first", w(1.0, 1.0), vec![to_mul.clone()], None, false),
        ("sequence_plain_then_own_weights", w(0.0, 1.0), vec![json!({})], Some(w(1.0, 0.0)), false),
        ("sequence_override_then_own_weights", w(0.0, 1.0), vec![to_dist.clone(), json!({})], Some(w(0.5, 0.5)), true),
    ] {
        let mut c = blank_case(name);
        two_route_network(&mut c);
        c.du = Some("kilometers".into());
        c.tu = Some("minutes".into());
        c.cfg_w = cw;
        c.cfg_v = raw();
        c.q_w = qw;
        c.warm = warm;
        c.reverse = reverse;
        if reverse {
            std::mem::swap(&mut c.s, &mut c.t);
        }
        out.push(c);
    }
    // many hops against few hops, every unit pair (edge-locality: the accumulator must not leak into an edge's cost)
    out.extend(chain_cases());
    // outside the hypothesis: product aggregation (A* makes no claim, Dijkstra still does)
    {
        let mut c = blank_case("mul_aggregation");
        two_route_network(&mut c);
        c.cfg_w = w(1.0, 1.0);
        c.cfg_v = raw();
        c.cfg_mul = true;
        out.push(c);
    }
    out
}

fn run_real_stream(a: &Args) {
    let mut st = Stream::new(&a.out, "real", REAL_HEADER, a.shards);
    let work = a.out.join("work");
    if let Some(p) = &a.replay {
        st.full = true;
        let v: Value = serde_json::from_str(&std::fs::read_to_string(p).unwrap()).unwrap();
        let cases: Vec<Value> = match v.get("cases") {
            Some(cs) => cs.as_array().unwrap().clone(),
            None => vec![v["case"].clone()],
        };
        for case in &cases {
            add_real_case(&mut st, &case_from_json(case), &work);
        }
        st.finish();
        return;
    }
    for c in real_boundary() {
        if st.next_id() >= a.n {
            break;
        }
        add_real_case(&mut st, &c, &work);
    }
    let mut rng = Rng::new(a.seed ^ 0x2EA1);
    while st.next_id() < a.n {
        let mut r = rng.fork();
        let metric = !r.chance(1, 8);
        let chain = r.chance(1, 5);
        let mut c = blank_case(if chain { "random_chain_vs_direct" } else if metric { "random_metric" } else { "random_nonmetric" });
        c.speed_model = r.chance(2, 3);
        gen_units(&mut r, &mut c);
        c.reverse = r.chance(1, 3);
        if chain {
            // the state features always get their own unit here, different units on both sides most of the time
            c.fdu = Some(r.pick(&DIST_UNITS[..]).to_string());
            if c.speed_model {
                c.ftu = Some(r.pick(&TIME_UNITS[..]).to_string());
            }
            let hops = r.range(20, 60) as usize;
            let short = r.range(20, 300) as f64;
            let delta = r.range(5, 50) as f64 / 10000.0;
            let speed = match c.su.as_str() {
                "meters_per_second" => 15.0,
                "miles_per_hour" => 35.0,
                _ => 50.0,
            };
            chain_network(&mut c, hops, short, delta, speed);
        } else {
            gen_network(&mut r, &mut c, metric);
        }
        gen_objective(&mut r, &mut c);
        if chain {
            // per-edge surcharges would dominate the 0.05-0.5 % margin
            c.cfg_n = None;
        }
        // an eighth of the random cases are the last query of a sequence on one application instance
        if c.cfg_n.is_none() && !c.cfg_v.iter().any(|(_, x)| matches!(x, Rate::Combined(_))) && r.chance(1, 8) {
            c.family = "random_sequence".into();
            let k = r.range(1, 3);
            let at = r.below(k as u64) as i64;
            for i in 0..k {
                if i == at || r.chance(1, 4) {
                    let mut probe = c.clone();
                    gen_objective(&mut r, &mut probe);
                    let mut o = serde_json::Map::new();
                    match r.below(3) {
                        0 => {
                            o.insert("weights".into(), assoc_json(&probe.cfg_w, |x| json!(x)));
                        }
                        1 => {
                            let simple: Assoc<Rate> = probe.cfg_v.iter().map(|(k, v)| (k.clone(), if matches!(v, Rate::Combined(_)) { Rate::Factor(3.0) } else { v.clone() })).collect();
                            o.insert("vehicle_rates".into(), assoc_json(&simple, rate_json));
                        }
                        _ => {
                            o.insert("weights".into(), assoc_json(&probe.cfg_w, |x| json!(x)));
                            o.insert("cost_aggregation".into(), json!("sum"));
                        }
                    }
                    c.warm.push(Value::Object(o));
                } else {
                    c.warm.push(json!({}));
                }
            }
        }
        match r.below(6) {
            0 => c.alg_wf = Some(0.5),
            1 => c.q_wf = Some(*r.pick(&[0.0, 0.5, 1.0])),
            2 => {
                c.alg_wf = Some(3.0);
                c.q_wf = Some(1.0)
            }
            _ => {}
        }
        add_real_case(&mut st, &c, &work);
    }
    st.finish();
    let _ = std::fs::remove_dir_all(&work);
}

fn main() {
    silence_panics();
    let a = parse_args();
    match a.stream.as_str() {
        "opt" => run_opt(&a),
        "real" => run_real_stream(&a),
        "probe" => {
            let work: PathBuf = std::env::temp_dir().join("C02").join("probe");
            for c in real_boundary() {
                match run_real(&c, 0, &work) {
                    Ok(r) => println!("{:28} rev={} {}  | routes_differ={} {:?}", c.family, c.reverse, r.j_payload, r.routes_differ, r.hist),
                    Err(e) => println!("{:28} ERROR {}", c.family, e),
                }
            }
            for (name, w, q, hk, ck) in opt_boundary() {
                let o = run_query_watchdog(&w, &q, WATCHDOG_MS);
                println!("{:44} {:?} {:?} {:?} wf={} h={} ck={} :: {}", name, q.alg, q.dir, q.orient, eff_wf(&q), hk, ck, opt_payload(&w, &q, &o));
            }
        }
        _ => {
            eprintln!("unknown stream {}", a.stream);
            std::process::exit(2);
        }
    }
    std::process::exit(0);
}
