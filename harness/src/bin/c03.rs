//! C03 harness: reported state and costs along a route are the true sums (stream `walk`).
//!
//! Every case builds the REAL objects of routee-compass from a table-driven configuration:
//!   Graph (public fields, adjacency filled as the edge loader does),
//!   StateModel::try_from(json) of the configured features,
//!   DistanceTraversalBuilder / SpeedLookupBuilder (speed table FILE written under --out) -> TraversalModelService,
//!   NoAccessModel / TurnDelayAccessModelBuilder (edge-heading CSV FILE + turn-delay table) -> AccessModelService,
//!   CostModelService (weights, vehicle rates, network rates, aggregation),
//!   SearchApp::new(..).build_search_instance(query)   (query carries the optional `state_features` override)
//! and then runs one operation on the resulting SearchInstance:
//!   forward   EdgeTraversal::forward_traversal edge after edge along an edge sequence (1-30 edges) from
//!             StateModel::initial_state, exactly as reorient_reverse_route and the tree branch construction call it
//!   reverse   EdgeTraversal::reverse_traversal edge after edge (sequence listed from the destination backwards)
//!   via       both, then bidirectional_ops::reorient_reverse_route(fwd, rev)
//!   search    a real SearchAlgorithm (Dijkstra, A*, single-via KSP) run_vertex_oriented on the same instance; every
//!             returned route is printed and re-traversed by the model
//! The route summary is taken from the real TraversalPlugin::process (`route.traversal_summary`, and `route.path`
//! is checked against the EdgeTraversals here).
//! I line: every EdgeTraversal{edge_id, access_cost, traversal_cost, result_state} as exact float bits + summary.
//! M line: Model/Traversal.v in binary64 (bit for bit).  S line: the property judged in exact rationals on the
//! implementation's floats (Model/TraversalRun.v `judge`).
use routee_compass::app::compass::config::access_model::turn_delay_access_model_builder::TurnDelayAccessModelBuilder;
use routee_compass::app::compass::config::cost_model::cost_model_service::CostModelService;
use routee_compass::app::compass::config::traversal_model::distance_traversal_builder::DistanceTraversalBuilder;
use routee_compass::app::compass::config::traversal_model::speed_lookup_builder::SpeedLookupBuilder;
use routee_compass::app::search::search_app::SearchApp;
use routee_compass::app::search::search_app_result::SearchAppResult;
use routee_compass::plugin::output::default::traversal::plugin::TraversalPlugin;
use routee_compass::plugin::output::default::traversal::traversal_output_format::TraversalOutputFormat;
use routee_compass::plugin::output::output_plugin::OutputPlugin;
use routee_compass_core::algorithm::search::a_star::bidirectional_ops;
use routee_compass_core::algorithm::search::direction::Direction;
use routee_compass_core::algorithm::search::edge_traversal::EdgeTraversal;
use routee_compass_core::algorithm::search::search_algorithm::SearchAlgorithm;
use routee_compass_core::algorithm::search::search_error::SearchError;
use routee_compass_core::algorithm::search::search_instance::SearchInstance;
use routee_compass_core::model::access::access_model_builder::AccessModelBuilder;
use routee_compass_core::model::access::access_model_error::AccessModelError;
use routee_compass_core::model::access::access_model_service::AccessModelService;
use routee_compass_core::model::access::default::no_access_model::NoAccessModel;
use routee_compass_core::model::access::default::turn_delays::edge_heading::EdgeHeading;
use routee_compass_core::model::access::default::turn_delays::turn::Turn;
use routee_compass_core::model::cost::cost_aggregation::CostAggregation;
use routee_compass_core::model::cost::cost_model_error::CostModelError;
use routee_compass_core::model::cost::network::network_cost_rate::NetworkCostRate;
use routee_compass_core::model::cost::vehicle::vehicle_cost_rate::VehicleCostRate;
use routee_compass_core::model::frontier::default::no_restriction::NoRestriction;
use routee_compass_core::model::network::network_error::NetworkError;
use routee_compass_core::model::network::{Edge, EdgeId, Graph, Vertex, VertexId};
use routee_compass_core::model::state::custom_feature_format::CustomFeatureFormat;
use routee_compass_core::model::state::state_feature::StateFeature;
use routee_compass_core::model::state::state_model::StateModel;
use routee_compass_core::model::state::state_model_error::StateModelError;
use routee_compass_core::model::termination::termination_model::TerminationModel;
use routee_compass_core::model::traversal::state::state_variable::StateVar;
use routee_compass_core::model::traversal::traversal_model_builder::TraversalModelBuilder;
use routee_compass_core::model::traversal::traversal_model_error::TraversalModelError;
use routee_compass_core::model::unit::as_f64::AsF64;
use routee_compass_core::model::unit::*;
use routee_compass_core::util::compact_ordered_hash_map::CompactOrderedHashMap;
use serde_json::{json, Value};
use std::collections::HashMap;
use std::panic::AssertUnwindSafe;
use std::path::{Path, PathBuf};
use std::sync::Arc;
use verif_harness::*;

const DIST: [&str; 5] = ["Meters", "Kilometers", "Miles", "Inches", "Feet"];
const TIME: [&str; 4] = ["Hours", "Minutes", "Seconds", "Milliseconds"];
const SPEED: [&str; 3] = ["KilometersPerHour", "MilesPerHour", "MetersPerSecond"];
const ENERGY: [&str; 3] = ["GallonsGasoline", "GallonsDiesel", "KilowattHours"];
const TURNS: [&str; 8] = ["NoTurn", "SlightRight", "SlightLeft", "Right", "Left", "SharpRight", "SharpLeft", "UTurn"];

fn snake(id: &str) -> String {
    let mut s = String::new();
    for (i, c) in id.chars().enumerate() {
        if c.is_ascii_uppercase() {
            if i > 0 {
                s.push('_');
            }
            s.push(c.to_ascii_lowercase());
        } else {
            s.push(c);
        }
    }
    s
}
fn unit<T: serde::de::DeserializeOwned>(id: &str) -> T {
    serde_json::from_value(Value::String(snake(id))).unwrap_or_else(|e| panic!("unit {}: {}", id, e))
}
fn turn_snake(id: &str) -> String {
    if id == "UTurn" {
        "u_turn".into()
    } else {
        snake(id)
    }
}

// ------------------------------------------------------------------------------------------ case

#[derive(Clone, Debug)]
enum Feat {
    Distance(String, f64),
    Time(String, f64),
    Energy(String, f64),
    /// type+unit tag, initial
    Custom(String, f64),
}
#[derive(Clone, Debug)]
enum Tm {
    Dist(String),
    Speed { table: Vec<f64>, su: String, du: Option<String>, tu: Option<String> },
}
#[derive(Clone, Debug)]
enum Am {
    None,
    Turn { headings: Vec<(i64, Option<i64>)>, table: Vec<(String, f64)>, unit: String, fname: String },
}
#[derive(Clone, Debug)]
enum VRate {
    Zero,
    Raw,
    Factor(f64),
    Offset(f64),
    /// applied one after the other, in order (VehicleCostRate::Combined; may be nested)
    Combined(Vec<VRate>),
}
fn vrate_json(r: &VRate) -> Value {
    match r {
        VRate::Zero => json!(["zero"]),
        VRate::Raw => json!(["raw"]),
        VRate::Factor(f) => json!(["factor", fb(*f), f]),
        VRate::Offset(o) => json!(["offset", fb(*o), o]),
        VRate::Combined(l) => json!(["combined", l.iter().map(vrate_json).collect::<Vec<_>>()]),
    }
}
fn vrate_from(v: &Value) -> VRate {
    match v[0].as_str().unwrap() {
        "zero" => VRate::Zero,
        "raw" => VRate::Raw,
        "factor" => VRate::Factor(bf(&v[1])),
        "offset" => VRate::Offset(bf(&v[1])),
        _ => VRate::Combined(v[1].as_array().unwrap().iter().map(vrate_from).collect()),
    }
}
fn vrate_coq(r: &VRate) -> String {
    match r {
        VRate::Zero => "Cost.VZero".to_string(),
        VRate::Raw => "Cost.VRaw".to_string(),
        VRate::Factor(f) => format!("(Cost.VFactor {})", cnum(*f)),
        VRate::Offset(o) => format!("(Cost.VOffset {})", cnum(*o)),
        VRate::Combined(l) => format!("(Cost.VCombined {})", coq_list(l, vrate_coq)),
    }
}
fn vrate_real(r: &VRate) -> VehicleCostRate {
    match r {
        VRate::Zero => VehicleCostRate::Zero,
        VRate::Raw => VehicleCostRate::Raw,
        VRate::Factor(f) => VehicleCostRate::Factor { factor: *f },
        VRate::Offset(o) => VehicleCostRate::Offset { offset: *o },
        VRate::Combined(l) => VehicleCostRate::Combined(l.iter().map(vrate_real).collect()),
    }
}
#[derive(Clone, Debug)]
enum NRate {
    Edge(Vec<(usize, f64)>),
    EdgeEdge(Vec<(usize, usize, f64)>),
}
#[derive(Clone, Debug)]
struct CostCfg {
    weights: Vec<(String, f64)>,
    vrates: Vec<(String, VRate)>,
    nrates: Vec<(String, NRate)>,
    mul: bool,
}
#[derive(Clone, Debug)]
enum Op {
    Forward(Vec<usize>),
    Reverse(Vec<usize>),
    Via(Vec<usize>, Vec<usize>),
    /// algorithm ("dijkstra" | "astar" | "via2" | "via3" | "via4"), origin, destination (vertex ids, or edge ids for an
    /// edge-oriented search), edge-oriented
    Search(String, usize, usize, bool),
}
#[derive(Clone, Debug)]
struct Case {
    nv: usize,
    edges: Vec<(usize, usize, f64)>,
    features: Vec<(String, Feat)>,
    user: Vec<(String, Feat)>,
    tm: Tm,
    am: Am,
    cost: CostCfg,
    op: Op,
    /// render the route with the real output plugin as well (route.traversal_summary, route.path)
    summary: bool,
}

// ---- JSON (floats as bit patterns) ----
fn fb(x: f64) -> Value {
    Value::String(format!("{:#018x}", x.to_bits()))
}
fn bf(v: &Value) -> f64 {
    f64::from_bits(u64::from_str_radix(v.as_str().unwrap().trim_start_matches("0x"), 16).unwrap())
}
fn us(v: &Value) -> usize {
    v.as_u64().unwrap() as usize
}
fn feat_json(f: &Feat) -> Value {
    match f {
        Feat::Distance(u, i) => json!(["distance", u, fb(*i)]),
        Feat::Time(u, i) => json!(["time", u, fb(*i)]),
        Feat::Energy(u, i) => json!(["energy", u, fb(*i)]),
        Feat::Custom(t, i) => json!(["custom", t, fb(*i)]),
    }
}
fn feat_from(v: &Value) -> Feat {
    let u = v[1].as_str().unwrap().to_string();
    match v[0].as_str().unwrap() {
        "distance" => Feat::Distance(u, bf(&v[2])),
        "time" => Feat::Time(u, bf(&v[2])),
        "energy" => Feat::Energy(u, bf(&v[2])),
        _ => Feat::Custom(u, bf(&v[2])),
    }
}
fn case_json(c: &Case) -> Value {
    let feats = |l: &Vec<(String, Feat)>| Value::Array(l.iter().map(|(n, f)| json!([n, feat_json(f)])).collect());
    json!({
        "nv": c.nv,
        "edges": c.edges.iter().map(|(s, d, l)| json!([s, d, fb(*l), l])).collect::<Vec<_>>(),
        "features": feats(&c.features), "user": feats(&c.user),
        "tm": match &c.tm {
            Tm::Dist(u) => json!({"kind": "distance", "du": u}),
            Tm::Speed { table, su, du, tu } => json!({"kind": "speed", "table": table.iter().map(|x| fb(*x)).collect::<Vec<_>>(),
                "table_decimal": table, "su": su, "du": du, "tu": tu}),
        },
        "am": match &c.am {
            Am::None => json!({"kind": "none"}),
            Am::Turn { headings, table, unit, fname } => json!({"kind": "turn", "headings": headings,
                "table": table.iter().map(|(t, d)| json!([t, fb(*d), d])).collect::<Vec<_>>(), "unit": unit, "fname": fname}),
        },
        "cost": {
            "weights": c.cost.weights.iter().map(|(n, w)| json!([n, fb(*w), w])).collect::<Vec<_>>(),
            "vrates": c.cost.vrates.iter().map(|(n, r)| json!([n, vrate_json(r)])).collect::<Vec<_>>(),
            "nrates": c.cost.nrates.iter().map(|(n, r)| match r {
                NRate::Edge(l) => json!([n, "edge", l.iter().map(|(e, x)| json!([e, fb(*x)])).collect::<Vec<_>>()]),
                NRate::EdgeEdge(l) => json!([n, "edge_edge", l.iter().map(|(a, b, x)| json!([a, b, fb(*x)])).collect::<Vec<_>>()]) }).collect::<Vec<_>>(),
            "mul": c.cost.mul,
        },
        "op": match &c.op {
            Op::Forward(es) => json!({"kind": "forward", "es": es}),
            Op::Reverse(es) => json!({"kind": "reverse", "es": es}),
            Op::Via(f, r) => json!({"kind": "via", "fwd": f, "rev": r}),
            Op::Search(a, s, d, eo) => json!({"kind": "search", "alg": a, "src": s, "dst": d, "edge_oriented": eo}),
        },
        "summary": c.summary,
    })
}
fn case_from(v: &Value) -> Case {
    let feats = |x: &Value| -> Vec<(String, Feat)> {
        x.as_array().unwrap().iter().map(|p| (p[0].as_str().unwrap().to_string(), feat_from(&p[1]))).collect()
    };
    let ost = |x: &Value| x.as_str().map(|s| s.to_string());
    let usv = |x: &Value| -> Vec<usize> { x.as_array().unwrap().iter().map(us).collect() };
    Case {
        nv: us(&v["nv"]),
        edges: v["edges"].as_array().unwrap().iter().map(|e| (us(&e[0]), us(&e[1]), bf(&e[2]))).collect(),
        features: feats(&v["features"]),
        user: feats(&v["user"]),
        tm: if v["tm"]["kind"] == "distance" {
            Tm::Dist(v["tm"]["du"].as_str().unwrap().into())
        } else {
            Tm::Speed {
                table: v["tm"]["table"].as_array().unwrap().iter().map(bf).collect(),
                su: v["tm"]["su"].as_str().unwrap().into(),
                du: ost(&v["tm"]["du"]),
                tu: ost(&v["tm"]["tu"]),
            }
        },
        am: if v["am"]["kind"] == "none" {
            Am::None
        } else {
            Am::Turn {
                headings: v["am"]["headings"].as_array().unwrap().iter().map(|h| (h[0].as_i64().unwrap(), h[1].as_i64())).collect(),
                table: v["am"]["table"].as_array().unwrap().iter().map(|t| (t[0].as_str().unwrap().to_string(), bf(&t[1]))).collect(),
                unit: v["am"]["unit"].as_str().unwrap().into(),
                fname: v["am"]["fname"].as_str().unwrap().into(),
            }
        },
        cost: CostCfg {
            weights: v["cost"]["weights"].as_array().unwrap().iter().map(|w| (w[0].as_str().unwrap().to_string(), bf(&w[1]))).collect(),
            vrates: v["cost"]["vrates"].as_array().unwrap().iter().map(|r| {
                let n = r[0].as_str().unwrap().to_string();
                // [name, [kind, ..]] ; older corpus files: [name, kind, bits, value]
                match r[1].as_str() {
                    None => (n, vrate_from(&r[1])),
                    Some("zero") => (n, VRate::Zero),
                    Some("raw") => (n, VRate::Raw),
                    Some("factor") => (n, VRate::Factor(bf(&r[2]))),
                    Some(_) => (n, VRate::Offset(bf(&r[2]))),
                }
            }).collect(),
            nrates: v["cost"]["nrates"].as_array().unwrap().iter().map(|r| {
                let n = r[0].as_str().unwrap().to_string();
                if r[1] == "edge" {
                    (n, NRate::Edge(r[2].as_array().unwrap().iter().map(|x| (us(&x[0]), bf(&x[1]))).collect()))
                } else {
                    (n, NRate::EdgeEdge(r[2].as_array().unwrap().iter().map(|x| (us(&x[0]), us(&x[1]), bf(&x[2]))).collect()))
                }
            }).collect(),
            mul: v["cost"]["mul"].as_bool().unwrap(),
        },
        op: match v["op"]["kind"].as_str().unwrap() {
            "forward" => Op::Forward(usv(&v["op"]["es"])),
            "reverse" => Op::Reverse(usv(&v["op"]["es"])),
            "via" => Op::Via(usv(&v["op"]["fwd"]), usv(&v["op"]["rev"])),
            _ => Op::Search(v["op"]["alg"].as_str().unwrap().into(), us(&v["op"]["src"]), us(&v["op"]["dst"]), v["op"]["edge_oriented"].as_bool().unwrap_or(false)),
        },
        summary: v["summary"].as_bool().unwrap_or(true),
    }
}

// ---- Gallina ----
fn cnum(x: f64) -> String {
    format!("(c {})", coq_f64(x))
}
fn coq_feat(f: &Feat) -> String {
    match f {
        Feat::Distance(u, i) => format!("StateOps.FDistance Units.{} {}", u, cnum(*i)),
        Feat::Time(u, i) => format!("StateOps.FTime Units.{} {}", u, cnum(*i)),
        Feat::Energy(u, i) => format!("StateOps.FEnergy Units.{} {}", u, cnum(*i)),
        Feat::Custom(t, i) => format!("StateOps.FCustom {} {}", coq_string(t), cnum(*i)),
    }
}
fn coq_feats(l: &[(String, Feat)]) -> String {
    coq_list(l, |(n, f)| format!("({}, {})", coq_string(n), coq_feat(f)))
}
fn coq_nats(l: &[usize]) -> String {
    coq_list(l, |e| coq_nat(*e))
}
fn coq_case(c: &Case, op: &str) -> String {
    let tm = match &c.tm {
        Tm::Dist(u) => format!("(TR.TDist Units.{})", u),
        Tm::Speed { table, su, du, tu } => format!(
            "(TR.TSpeed {} Units.{} {} {})",
            coq_list(table, |x| cnum(*x)),
            su,
            coq_opt(du, |u| format!("Units.{}", u)),
            coq_opt(tu, |u| format!("Units.{}", u))
        ),
    };
    let am = match &c.am {
        Am::None => "TR.ANone".to_string(),
        Am::Turn { headings, table, unit, fname } => format!(
            "(TR.ATurn {} {} Units.{} {})",
            coq_list(headings, |(a, d)| format!("Traversal.Build_heading {} {}", coq_z(*a as i128), coq_opt(d, |x| coq_z(*x as i128)))),
            coq_list(table, |(t, d)| format!("(Traversal.{}, {})", t, cnum(*d))),
            unit,
            coq_string(fname)
        ),
    };
    let cost = format!(
        "(TR.Build_cost_cfg {} {} {} {})",
        coq_list(&c.cost.weights, |(n, w)| format!("({}, {})", coq_string(n), cnum(*w))),
        coq_list(&c.cost.vrates, |(n, r)| format!(
            "({}, {})",
            coq_string(n),
            vrate_coq(r)
        )),
        coq_list(&c.cost.nrates, |(n, r)| format!(
            "({}, {})",
            coq_string(n),
            match r {
                NRate::Edge(l) => format!("Cost.NEdge {}", coq_list(l, |(e, x)| format!("({}, {})", coq_z(*e as i128), cnum(*x)))),
                NRate::EdgeEdge(l) => format!(
                    "Cost.NEdgeEdge {}",
                    coq_list(l, |(a, b, x)| format!("(({}, {}), {})", coq_z(*a as i128), coq_z(*b as i128), cnum(*x)))
                ),
            }
        )),
        if c.cost.mul { "Cost.AMul" } else { "Cost.ASum" }
    );
    format!(
        "(fun (A : Type) (c : float -> A) => TR.Build_case_t {} {} {} {} {} {} {} {} {})",
        coq_nat(c.nv),
        coq_list(&c.edges, |(s, d, l)| format!("({}, {}, {})", coq_nat(*s), coq_nat(*d), cnum(*l))),
        coq_feats(&c.features),
        coq_feats(&c.user),
        tm,
        am,
        cost,
        op,
        coq_bool(c.summary)
    )
}

// ------------------------------------------------------------------------------------------ implementation side

type Route = Result<Vec<EdgeTraversal>, String>;
enum Summ {
    None,
    Some(Vec<(String, f64)>),
    Panic,
}
struct Outcome {
    build_err: Option<String>,
    init: Vec<f64>,
    routes: Vec<(String, Route)>,
    summary: Summ,
    /// for Op::Search: the edge sequences the search returned (edge-oriented frame: the edges between the end edges)
    found: Vec<Vec<usize>>,
    /// for Op::Search: one response with (possibly) several routes, each with its own summary
    multi: bool,
    sums: Vec<Summ>,
    /// edge-oriented search between two edges that are neither equal nor adjacent: (source, target)
    frame: Option<(usize, usize)>,
    /// whether the routes were rendered by the output plugin
    rendered: bool,
}

fn state_class(e: &StateModelError) -> String {
    match e {
        StateModelError::UnknownStateVariableName(_, _) => "UnknownStateVariableName",
        StateModelError::UnexpectedFeatureUnit(_, _) => "UnexpectedFeatureUnit",
        StateModelError::RuntimeError(_) => "RuntimeError",
        StateModelError::InvalidStateVariableIndex(_, _) => "InvalidStateVariableIndex",
        StateModelError::BuildError(_) => "BuildError",
        _ => "StateOther",
    }
    .to_string()
}
fn classify(e: &SearchError) -> String {
    match e {
        SearchError::NetworkFailure { source } => match source {
            NetworkError::EdgeNotFound(_) => "EdgeNotFound".into(),
            NetworkError::VertexNotFound(_) => "VertexNotFound".into(),
            _ => "NetworkOther".into(),
        },
        SearchError::TraversalModelFailure { source } => match source {
            TraversalModelError::TraversalModelFailure(_) => "TraversalModelFailure".into(),
            TraversalModelError::UnitsFailure { source } => match source {
                UnitError::TimeFromSpeedAndDistanceError(_, _, _, _) => "TimeFromSpeedAndDistanceError".into(),
                _ => "UnitsOther".into(),
            },
            TraversalModelError::StateError { source } => state_class(source),
            TraversalModelError::BuildError(_) => "BuildError".into(),
            _ => "TraversalOther".into(),
        },
        SearchError::AccessModelFailure { source } => match source {
            AccessModelError::RuntimeError { .. } => "AccessRuntimeError".into(),
            AccessModelError::StateError { source } => state_class(source),
            AccessModelError::BuildError(_) => "BuildError".into(),
        },
        SearchError::StateFailure { source } => state_class(source),
        SearchError::CostFailure { source } => match source {
            CostModelError::StateIndexOutOfBounds(_, _) => "StateIndexOutOfBounds".into(),
            _ => "CostOther".into(),
        },
        SearchError::BuildError(m) => {
            if m.contains("sum of state variable coefficients must be non-zero") {
                "InvalidCostVariables".into()
            } else {
                "BuildError".into()
            }
        }
        SearchError::NoPathExistsBetweenVertices(_, _) | SearchError::NoPathExistsBetweenEdges(_, _) => "nopath".into(),
        _ => "SearchOther".into(),
    }
}

fn build_graph(nv: usize, edges: &[(usize, usize, f64)]) -> Graph {
    let vertices: Vec<Vertex> = (0..nv).map(|i| Vertex::new(i, 0.0, 0.0)).collect();
    let es: Vec<Edge> = edges.iter().enumerate().map(|(i, (s, d, l))| Edge::new(i, *s, *d, *l)).collect();
    let mut adj = vec![CompactOrderedHashMap::empty(); nv];
    let mut rev = vec![CompactOrderedHashMap::empty(); nv];
    for e in &es {
        if let Some(m) = adj.get_mut(e.src_vertex_id.0) {
            m.insert(e.edge_id, e.dst_vertex_id);
        }
        if let Some(m) = rev.get_mut(e.dst_vertex_id.0) {
            m.insert(e.edge_id, e.src_vertex_id);
        }
    }
    Graph { adj: adj.into_boxed_slice(), rev: rev.into_boxed_slice(), edges: es.into_boxed_slice(), vertices: vertices.into_boxed_slice() }
}

fn to_feature(f: &Feat) -> StateFeature {
    match f {
        Feat::Distance(u, i) => StateFeature::Distance { distance_unit: unit(u), initial: Distance::new(*i) },
        Feat::Time(u, i) => StateFeature::Time { time_unit: unit(u), initial: Time::new(*i) },
        Feat::Energy(u, i) => StateFeature::Energy { energy_unit: unit(u), initial: Energy::new(*i) },
        Feat::Custom(t, i) => StateFeature::Custom {
            r#type: t.clone(),
            unit: t.clone(),
            format: CustomFeatureFormat::FloatingPoint { initial: ordered_float::OrderedFloat(*i) },
        },
    }
}
fn features_json(l: &[(String, Feat)]) -> Value {
    let mut m = serde_json::Map::new();
    for (n, f) in l {
        m.insert(n.clone(), serde_json::to_value(to_feature(f)).unwrap());
    }
    Value::Object(m)
}

fn build_instance(c: &Case, dir: &Path) -> Result<SearchInstance, String> {
    std::fs::create_dir_all(dir).unwrap();
    let tms = match &c.tm {
        Tm::Dist(u) => DistanceTraversalBuilder {}.build(&json!({"distance_unit": snake(u)})).map_err(|_| "BuildError".to_string())?,
        Tm::Speed { table, su, du, tu } => {
            let p = dir.join("speeds.txt");
            // Rust prints the shortest decimal that parses back to the same binary64
            std::fs::write(&p, table.iter().map(|x| format!("{:?}", x)).collect::<Vec<_>>().join("\n") + if table.is_empty() { "" } else { "\n" }).unwrap();
            let mut params = json!({"speed_table_input_file": p.to_str().unwrap(), "speed_unit": snake(su)});
            if let Some(u) = du {
                params["distance_unit"] = json!(snake(u));
            }
            if let Some(u) = tu {
                params["time_unit"] = json!(snake(u));
            }
            SpeedLookupBuilder {}.build(&params).map_err(|_| "BuildError".to_string())?
        }
    };
    let ams: Arc<dyn AccessModelService> = match &c.am {
        Am::None => Arc::new(NoAccessModel {}),
        Am::Turn { headings, table, unit: u, fname } => {
            let p = dir.join("headings.csv");
            let mut s = String::from("arrival_heading,departure_heading\n");
            for (a, d) in headings {
                s += &format!("{},{}\n", a, d.map(|x| x.to_string()).unwrap_or_default());
            }
            std::fs::write(&p, s).unwrap();
            let mut t = serde_json::Map::new();
            for (k, v) in table {
                t.insert(turn_snake(k), json!(v));
            }
            let params = json!({"edge_heading_input_file": p.to_str().unwrap(),
                "turn_delay_model": {"type": "tabular_discrete", "table": t, "time_unit": snake(u)},
                "time_feature_name": fname});
            TurnDelayAccessModelBuilder {}.build(&params).map_err(|e| format!("BuildError:{}", e))?
        }
    };
    let sm = StateModel::try_from(&features_json(&c.features)).map_err(|_| "BuildError".to_string())?;
    let vr = vrate_real;
    let nr = |r: &NRate| match r {
        NRate::Edge(l) => NetworkCostRate::EdgeLookup { lookup: l.iter().map(|(e, x)| (EdgeId(*e), Cost::new(*x))).collect() },
        NRate::EdgeEdge(l) => NetworkCostRate::EdgeEdgeLookup { lookup: l.iter().map(|(a, b, x)| ((EdgeId(*a), EdgeId(*b)), Cost::new(*x))).collect() },
    };
    let cms = CostModelService {
        vehicle_rates: Arc::new(c.cost.vrates.iter().map(|(n, r)| (n.clone(), vr(r))).collect::<HashMap<_, _>>()),
        network_rates: Arc::new(c.cost.nrates.iter().map(|(n, r)| (n.clone(), nr(r))).collect::<HashMap<_, _>>()),
        weights: Arc::new(c.cost.weights.iter().cloned().collect::<HashMap<_, _>>()),
        cost_aggregation: if c.cost.mul { CostAggregation::Mul } else { CostAggregation::Sum },
        ignore_unknown_weights: false,
    };
    let app = SearchApp::new(
        SearchAlgorithm::Dijkstra,
        build_graph(c.nv, &c.edges),
        Arc::new(sm),
        tms,
        ams,
        cms,
        Arc::new(NoRestriction {}),
        TerminationModel::IterationsLimit { limit: u64::MAX },
    );
    let query = if c.user.is_empty() { json!({}) } else { json!({"state_features": features_json(&c.user)}) };
    app.build_search_instance(&query).map_err(|e| classify(&e))
}

fn clone_si(si: &SearchInstance) -> SearchInstance {
    SearchInstance {
        directed_graph: si.directed_graph.clone(),
        state_model: si.state_model.clone(),
        traversal_model: si.traversal_model.clone(),
        access_model: si.access_model.clone(),
        cost_model: si.cost_model.clone(),
        frontier_model: si.frontier_model.clone(),
        termination_model: si.termination_model.clone(),
    }
}

fn walk(si: &SearchInstance, init: &[StateVar], es: &[usize], forward: bool) -> Route {
    let r = catch(AssertUnwindSafe(|| -> Result<Vec<EdgeTraversal>, SearchError> {
        let mut out: Vec<EdgeTraversal> = vec![];
        let mut st = init.to_vec();
        let mut other: Option<EdgeId> = None;
        for e in es {
            let et = if forward {
                EdgeTraversal::forward_traversal(EdgeId(*e), other, &st, si)?
            } else {
                EdgeTraversal::reverse_traversal(EdgeId(*e), other, &st, si)?
            };
            st = et.result_state.clone();
            other = Some(EdgeId(*e));
            out.push(et);
        }
        Ok(out)
    }));
    match r {
        Err(_) => Err("Panic".into()),
        Ok(Err(e)) => Err(format!("Err {}", classify(&e))),
        Ok(Ok(v)) => Ok(v),
    }
}

/// route.traversal_summary through the real output plugin; route.path (json format) must carry the same numbers
fn summary(c: &Case, plugin: &TraversalPlugin, si: &SearchInstance, route: &[EdgeTraversal]) -> Summ {
    if !c.summary {
        return Summ::None;
    }
    match catch(AssertUnwindSafe(|| summary_inner(plugin, si, route))) {
        Err(_) => Summ::Panic,
        Ok(None) => Summ::None,
        Ok(Some(kv)) => Summ::Some(kv),
    }
}
fn summary_inner(plugin: &TraversalPlugin, si: &SearchInstance, route: &[EdgeTraversal]) -> Option<Vec<(String, f64)>> {
    if route.is_empty() {
        // construct_route_output refuses an empty route: the plugin returns an error, no summary
        return None;
    }
    let res = SearchAppResult {
        routes: vec![route.to_vec()],
        trees: vec![],
        search_executed_time: String::new(),
        search_runtime: std::time::Duration::ZERO,
        iterations: 0,
    };
    let mut out = json!({});
    plugin.process(&mut out, &Ok((res, clone_si(si)))).ok()?;
    let r = out.get("route")?;
    let path = r.get("path")?.as_array()?;
    let mut same = path.len() == route.len();
    for (j, et) in path.iter().zip(route.iter()) {
        let st: Vec<f64> = j["result_state"].as_array()?.iter().map(|x| x.as_f64().unwrap_or(f64::NAN)).collect();
        same = same
            && j["edge_id"].as_u64() == Some(et.edge_id.0 as u64)
            && j["access_cost"].as_f64().map(f64::to_bits) == Some(et.access_cost.as_f64().to_bits())
            && j["traversal_cost"].as_f64().map(f64::to_bits) == Some(et.traversal_cost.as_f64().to_bits())
            && st.len() == et.result_state.len()
            && st.iter().zip(et.result_state.iter()).all(|(a, b)| a.to_bits() == b.0.to_bits());
    }
    let mut kv: Vec<(String, f64)> = r.get("traversal_summary")?.as_object()?.iter().map(|(k, v)| (k.clone(), v.as_f64().unwrap_or(f64::NAN))).collect();
    if !same {
        kv.push(("PATH-MISMATCH".into(), 0.0));
    }
    kv.sort_by(|a, b| a.0.as_bytes().cmp(b.0.as_bytes()));
    Some(kv)
}

/// every route of ONE result rendered by ONE call of the output plugin: `route` is an object (one route) or an array
fn summaries_multi(plugin: &TraversalPlugin, si: &SearchInstance, routes: &[Vec<EdgeTraversal>]) -> Vec<Summ> {
    let rs: Vec<Vec<EdgeTraversal>> = routes.to_vec();
    let r = catch(AssertUnwindSafe(|| -> Option<Vec<Summ>> {
        let res = SearchAppResult { routes: rs.clone(), trees: vec![], search_executed_time: String::new(), search_runtime: std::time::Duration::ZERO, iterations: 0 };
        let mut out = json!({});
        plugin.process(&mut out, &Ok((res, clone_si(si)))).ok()?;
        let v = out.get("route")?;
        let objs: Vec<&Value> = match v {
            Value::Array(a) => a.iter().collect(),
            Value::Object(_) => vec![v],
            _ => vec![],
        };
        if objs.len() != rs.len() {
            return None;
        }
        Some(
            objs.iter()
                .zip(rs.iter())
                .map(|(r, route)| {
                    let path = r.get("path").and_then(|p| p.as_array()).cloned().unwrap_or_default();
                    let mut same = path.len() == route.len();
                    for (j, et) in path.iter().zip(route.iter()) {
                        let st: Vec<f64> = j["result_state"].as_array().map(|a| a.iter().map(|x| x.as_f64().unwrap_or(f64::NAN)).collect()).unwrap_or_default();
                        same = same
                            && j["edge_id"].as_u64() == Some(et.edge_id.0 as u64)
                            && j["access_cost"].as_f64().map(f64::to_bits) == Some(et.access_cost.as_f64().to_bits())
                            && j["traversal_cost"].as_f64().map(f64::to_bits) == Some(et.traversal_cost.as_f64().to_bits())
                            && st.len() == et.result_state.len()
                            && st.iter().zip(et.result_state.iter()).all(|(a, b)| a.to_bits() == b.0.to_bits());
                    }
                    let mut kv: Vec<(String, f64)> = r.get("traversal_summary").and_then(|x| x.as_object()).map(|m| m.iter().map(|(k, v)| (k.clone(), v.as_f64().unwrap_or(f64::NAN))).collect()).unwrap_or_default();
                    if !same {
                        kv.push(("PATH-MISMATCH".into(), 0.0));
                    }
                    kv.sort_by(|a, b| a.0.as_bytes().cmp(b.0.as_bytes()));
                    Summ::Some(kv)
                })
                .collect(),
        )
    }));
    match r {
        Err(_) => routes.iter().map(|_| Summ::Panic).collect(),
        Ok(None) => routes.iter().map(|_| Summ::None).collect(),
        Ok(Some(v)) => v,
    }
}

fn run_impl(c: &Case, dir: &Path, plugin: &TraversalPlugin) -> Outcome {
    let mut o = Outcome { build_err: None, init: vec![], routes: vec![], summary: Summ::None, found: vec![], multi: false, sums: vec![], frame: None, rendered: false };
    let si = match catch(AssertUnwindSafe(|| build_instance(c, dir))) {
        Err(_) => {
            o.build_err = Some("Panic".into());
            return o;
        }
        Ok(Err(cls)) => {
            o.build_err = Some(cls);
            return o;
        }
        Ok(Ok(si)) => si,
    };
    let init = match si.state_model.initial_state() {
        Ok(s) => s,
        Err(_) => {
            o.build_err = Some("InitialState".into());
            return o;
        }
    };
    o.init = init.iter().map(|x| x.0).collect();
    match &c.op {
        Op::Forward(es) => {
            let r = walk(&si, &init, es, true);
            if let Ok(route) = &r {
                o.summary = summary(c, plugin, &si, route);
            }
            o.routes.push(("route".into(), r));
        }
        Op::Reverse(es) => o.routes.push(("rroute".into(), walk(&si, &init, es, false))),
        Op::Via(f, rv) => {
            let rf = walk(&si, &init, f, true);
            let rr = walk(&si, &init, rv, false);
            if let (Ok(lf), Ok(lr)) = (&rf, &rr) {
                let v = match catch(AssertUnwindSafe(|| bidirectional_ops::reorient_reverse_route(lf, lr, &si))) {
                    Err(_) => Err("Panic".to_string()),
                    Ok(Err(e)) => Err(format!("Err {}", classify(&e))),
                    Ok(Ok(v)) => Ok(v),
                };
                if let Ok(lv) = &v {
                    let mut whole = lf.clone();
                    whole.extend(lv.iter().cloned());
                    o.summary = summary(c, plugin, &si, &whole);
                }
                o.routes.push(("fwd".into(), rf));
                o.routes.push(("rev".into(), rr));
                o.routes.push(("via".into(), v));
            } else {
                o.routes.push(("fwd".into(), rf));
                o.routes.push(("rev".into(), rr));
            }
        }
        Op::Search(alg, s, d, eo) => {
            o.multi = true;
            let via = |k: usize, astar: bool| SearchAlgorithm::KspSingleVia {
                k,
                underlying: Box::new(if astar { SearchAlgorithm::AStarAlgorithm { weight_factor: None } } else { SearchAlgorithm::Dijkstra }),
                similarity: None,
                termination: None,
            };
            let a = match alg.as_str() {
                "dijkstra" => SearchAlgorithm::Dijkstra,
                "astar" => SearchAlgorithm::AStarAlgorithm { weight_factor: None },
                "via2" => via(2, false),
                "via3" => via(3, true),
                _ => via(4, false),
            };
            let r = catch(AssertUnwindSafe(|| {
                if *eo {
                    a.run_edge_oriented(EdgeId(*s), Some(EdgeId(*d)), &json!({}), &Direction::Forward, &si)
                } else {
                    a.run_vertex_oriented(VertexId(*s), Some(VertexId(*d)), &json!({}), &Direction::Forward, &si)
                }
            }));
            // edge-oriented between two edges that are neither equal nor adjacent: every route is framed by the two
            // zero-cost end edges; equal edges give no route, adjacent edges the plain two-edge route
            let framed = *eo && s != d && c.edges.get(*s).map(|e| e.1) != c.edges.get(*d).map(|e| e.0);
            if framed {
                o.frame = Some((*s, *d));
            }
            match r {
                Err(_) => o.routes.push(("r0".into(), Err("Panic".into()))),
                Ok(Err(e)) => o.routes.push(("r0".into(), Err(format!("Err {}", classify(&e))))),
                Ok(Ok(res)) => {
                    for (k, route) in res.routes.iter().enumerate() {
                        let ids: Vec<usize> = route.iter().map(|et| et.edge_id.0).collect();
                        o.found.push(if framed && ids.len() >= 2 { ids[1..ids.len() - 1].to_vec() } else { ids });
                        o.routes.push((format!("r{}", k), Ok(route.clone())));
                    }
                    // the output plugin refuses a result with an empty route as a whole
                    o.rendered = c.summary && !res.routes.is_empty() && res.routes.iter().all(|r| !r.is_empty());
                    o.sums = if o.rendered { summaries_multi(plugin, &si, &res.routes) } else { res.routes.iter().map(|_| Summ::None).collect() };
                }
            }
        }
    }
    o
}

fn show_route(r: &Route) -> String {
    match r {
        Err(s) => s.clone(),
        Ok(l) => show_list(l, |et| {
            format!(
                "{}:{}:{}:{}",
                et.edge_id.0,
                show_f64(et.access_cost.as_f64()),
                show_f64(et.traversal_cost.as_f64()),
                show_list(&et.result_state, |x| show_f64(x.0))
            )
        }),
    }
}
fn show_summary(s: &Summ) -> String {
    match s {
        Summ::None => "None".into(),
        Summ::Panic => "Panic".into(),
        Summ::Some(kv) => format!("{{{}}}", kv.iter().map(|(k, v)| format!("{}:{}", k, show_f64(*v))).collect::<Vec<_>>().join(",")),
    }
}
fn totals(r: &Route) -> Vec<f64> {
    match r {
        Ok(l) => l.iter().map(|et| et.total_cost().as_f64()).collect(),
        Err(_) => vec![],
    }
}
fn show_outcome(o: &Outcome) -> String {
    if let Some(b) = &o.build_err {
        return format!("BuildErr {}", b);
    }
    let routes = o.routes.iter().map(|(n, r)| format!("{}={}/{}", n, show_route(r), show_list(&totals(r), |x| show_f64(*x)))).collect::<Vec<_>>().join(" ");
    if o.multi {
        format!("{} sums={}", routes, show_list(&o.sums, show_summary))
    } else {
        format!("{} sum={}", routes, show_summary(&o.summary))
    }
}
fn coq_route(r: &Route) -> String {
    match r {
        Err(s) if s == "Panic" => "(Panic \"\"%string)".into(),
        Err(s) => format!("(Err {})", coq_string(s.trim_start_matches("Err "))),
        Ok(l) => format!(
            "(Ok {})",
            coq_list(l, |et| format!(
                "Traversal.Build_etrav {} {} {} {}",
                coq_nat(et.edge_id.0),
                coq_f64(et.access_cost.as_f64()),
                coq_f64(et.traversal_cost.as_f64()),
                coq_list(&et.result_state, |x| coq_f64(x.0))
            ))
        ),
    }
}
fn coq_outcome(o: &Outcome) -> String {
    if let Some(b) = &o.build_err {
        return format!("(TR.OBuildErr {})", coq_string(b));
    }
    let summ = |s: &Summ| match s {
        Summ::None => "(Err \"none\"%string)".to_string(),
        Summ::Panic => "(Panic \"\"%string)".to_string(),
        Summ::Some(kv) => format!("(Ok {})", coq_list(kv, |(k, v)| format!("({}, {})", coq_string(k), coq_f64(*v)))),
    };
    format!(
        "({} {} {} {})",
        if o.multi { "TR.OMultiRoutes" } else { "TR.ORoutes" },
        coq_list(&o.routes, |(n, r)| format!("({}, {})", coq_string(n), coq_route(r))),
        coq_list(&o.routes, |(_, r)| coq_list(&totals(r), |x| coq_f64(*x))),
        if o.multi { coq_list(&o.sums, summ) } else { summ(&o.summary) }
    )
}

// ------------------------------------------------------------------------------------------ statistics

fn turn_class(a: i64) -> &'static str {
    match a {
        -180..=-160 | 160..=180 => "UTurn",
        -159..=-135 => "SharpLeft",
        -134..=-45 => "Left",
        -44..=-20 => "SlightLeft",
        -19..=19 => "NoTurn",
        20..=44 => "SlightRight",
        45..=134 => "Right",
        135..=159 => "SharpRight",
        _ => "OutOfRange",
    }
}

fn add_case(st: &mut Stream, c: Case, family: &str, dir: &Path, plugin: &TraversalPlugin) {
    let id = st.next_id();
    let mut o = run_impl(&c, dir, plugin);
    // a search that finds no path returns nothing: nothing to judge (the model prints no route either)
    let nopath = o.multi && !o.routes.is_empty() && o.routes.iter().all(|(_, r)| matches!(r, Err(s) if s == "Err nopath"));
    if nopath {
        st.count("status:Err nopath");
        o.routes.clear();
        o.sums.clear();
    }
    // the operation the model runs: a real search is re-traversed along the routes it returned
    let op = match &c.op {
        Op::Forward(es) => format!("(TR.OForward {})", coq_nats(es)),
        Op::Reverse(es) => format!("(TR.OReverse {})", coq_nats(es)),
        Op::Via(f, r) => format!("(TR.OVia {} {})", coq_nats(f), coq_nats(r)),
        Op::Search(_, _, _, _) => match o.frame {
            Some((s, d)) => format!("(TR.OEdge {} {} {})", coq_nat(s), coq_nat(d), coq_list(&o.found, |es| coq_nats(es))),
            None => format!("(TR.OMulti {})", coq_list(&o.found, |es| coq_nats(es))),
        },
    };
    // a search result is rendered by the output plugin only as a whole (not at all when it has an empty route)
    let mut cc = c.clone();
    if o.multi {
        cc.summary = o.rendered;
    }
    let gen = coq_case(&cc, &op);
    let terms = vec![
        format!("TR.line_M {} {}", id, gen),
        format!("TR.line_S {} {} {} {}", id, gen, coq_list(&o.init, |x| coq_f64(*x)), coq_outcome(&o)),
    ];
    let mut payload = show_outcome(&o);
    if let Op::Search(_, _, _, _) = &c.op {
        // no path between the two vertices: nothing is returned, nothing to judge (the model prints no route either);
        // any other failure of the search is shown and makes the case differ
        if o.routes.iter().any(|(_, r)| r.is_err()) {
            payload = if o.routes.iter().all(|(_, r)| matches!(r, Err(s) if s == "Err nopath")) { " sums=[]".to_string() } else { format!("search-failed {}", payload) };
        }
    }
    // ---- histogram
    st.count(&format!("family:{}", family));
    let (opname, lens): (&str, Vec<usize>) = match &c.op {
        Op::Forward(es) => ("forward", vec![es.len()]),
        Op::Reverse(es) => ("reverse", vec![es.len()]),
        Op::Via(f, r) => ("via", vec![f.len() + r.len()]),
        Op::Search(a, _, _, eo) => (
            match (a.starts_with("via"), *eo) {
                (true, true) => "search-ksp-edge-oriented",
                (true, false) => "search-ksp",
                (false, true) => "search-edge-oriented",
                (false, false) => "search",
            },
            o.found.iter().map(|r| r.len()).collect(),
        ),
    };
    st.count(&format!("op:{}", opname));
    if o.multi {
        let oks: Vec<&Vec<EdgeTraversal>> = o.routes.iter().filter_map(|(_, r)| r.as_ref().ok()).collect();
        st.count(&format!("routes_in_result:{}", oks.len().min(5)));
        let ends: std::collections::BTreeSet<Vec<u64>> = oks.iter().filter_map(|r| r.last().map(|et| et.result_state.iter().map(|x| x.0.to_bits()).collect())).collect();
        if ends.len() >= 2 {
            st.count("routes_end_in_different_states");
        }
        if o.frame.is_some() && !oks.is_empty() {
            st.count("framed_by_zero_cost_end_edges");
        }
    }
    for l in &lens {
        st.count(&format!("route_edges:{}", if *l == 0 { "0".to_string() } else if *l <= 1 { "1".into() } else if *l <= 5 { "2-5".into() } else if *l <= 15 { "6-15".into() } else { "16-30".into() }));
    }
    let (mdu, mtu) = match &c.tm {
        Tm::Dist(u) => {
            st.count("tm:distance");
            (u.clone(), None)
        }
        Tm::Speed { su, du, tu, .. } => {
            st.count("tm:speed");
            st.count(&format!("speed_unit:{}", su));
            (du.clone().unwrap_or("Meters".into()), Some(tu.clone().unwrap_or("Seconds".into())))
        }
    };
    st.count(&format!("model_du:{}", mdu));
    if let Some(t) = &mtu {
        st.count(&format!("model_tu:{}", t));
    }
    // effective feature units: configured, replaced by the speed model's, replaced by the query's
    let mut fud: Option<String> = None;
    let mut fut: Option<String> = None;
    for (n, f) in c.features.iter() {
        match (n.as_str(), f) {
            ("distance", Feat::Distance(u, _)) => fud = Some(u.clone()),
            ("time", Feat::Time(u, _)) => fut = Some(u.clone()),
            _ => {}
        }
    }
    if let Tm::Speed { .. } = &c.tm {
        fud = Some(mdu.clone());
        fut = mtu.clone();
    }
    for (n, f) in c.user.iter() {
        match (n.as_str(), f) {
            ("distance", Feat::Distance(u, _)) => fud = Some(u.clone()),
            ("time", Feat::Time(u, _)) => fut = Some(u.clone()),
            _ => {}
        }
    }
    let mut unit_differs = false;
    if let Some(u) = &fud {
        st.count(&format!("feature_du:{}", u));
        if *u != mdu {
            st.count("distance_unit_differs");
            unit_differs = true;
        }
    }
    if let (Some(u), Some(m)) = (&fut, &mtu) {
        st.count(&format!("feature_tu:{}", u));
        if u != m {
            st.count("time_unit_differs");
            unit_differs = true;
        }
    }
    let mut delayed_turn = false;
    let mut turns_taken: Vec<Value> = vec![];
    if let Am::Turn { headings, table, unit: du, .. } = &c.am {
        st.count("am:turn_delay");
        st.count(&format!("delay_unit:{}", du));
        if fut.as_ref().map(|u| u != du).unwrap_or(false) {
            st.count("delay_unit_differs");
            unit_differs = true;
        }
        let seqs: Vec<(Vec<usize>, bool)> = match &c.op {
            Op::Forward(es) => vec![(es.clone(), true)],
            Op::Reverse(es) => vec![(es.clone(), false)],
            Op::Via(f, r) => {
                let mut whole = f.clone();
                whole.extend(r.iter().rev());
                vec![(whole, true)]
            }
            Op::Search(_, _, _, _) => o.found.iter().map(|r| (r.clone(), true)).collect(),
        };
        for (es, fwd) in seqs {
            for w in es.windows(2) {
                let (a, b) = if fwd { (w[0], w[1]) } else { (w[1], w[0]) };
                if let (Some(ha), Some(hb)) = (headings.get(a), headings.get(b)) {
                    let raw = hb.0 - ha.1.unwrap_or(ha.0);
                    if raw.abs() > 180 {
                        st.count("heading_wraparound");
                    }
                    let ang = if raw > 180 { raw - 360 } else if raw < -180 { raw + 360 } else { raw };
                    let cls = turn_class(ang);
                    if turns_taken.len() < 6 {
                        turns_taken.push(json!({"from_heading": ha.1.unwrap_or(ha.0), "to_heading": hb.0, "difference": ang}));
                    }
                    st.count(&format!("turn:{}", cls));
                    if table.iter().any(|(t, d)| t == cls && *d != 0.0) {
                        delayed_turn = true;
                    }
                    if ang == 0 {
                        st.count("turn:exactly_straight");
                    }
                }
            }
        }
    } else {
        st.count("am:none");
    }
    st.count(if c.cost.mul { "cost_agg:mul" } else { "cost_agg:sum" });
    if !c.cost.nrates.is_empty() {
        st.count("cost:network_rates");
    }
    if c.cost.vrates.iter().any(|(_, r)| matches!(r, VRate::Combined(_))) {
        st.count("cost:combined_vehicle_rate");
    }
    if c.cost.vrates.iter().any(|(_, r)| !matches!(r, VRate::Raw)) || c.cost.weights.iter().any(|(_, w)| *w != 1.0) {
        st.count("cost:weighted_or_rated");
    } else {
        st.count("cost:unit");
    }
    if !c.user.is_empty() {
        st.count("query_state_features");
    }
    if let Some(b) = &o.build_err {
        st.count(&format!("status:BuildErr {}", b));
    }
    let mut all_ok = o.build_err.is_none() && !o.routes.is_empty();
    for (_, r) in &o.routes {
        match r {
            Ok(_) => st.count("status:Ok"),
            Err(s) => {
                all_ok = false;
                st.count(&format!("status:{}", s))
            }
        }
    }
    let desc = json!({"id": id, "family": family, "turns": turns_taken, "case": case_json(&c)});
    if all_ok && lens.iter().any(|l| *l >= 2) && (unit_differs || delayed_turn) {
        st.mark_nontrivial(&case_json(&c).to_string());
        st.count("nontrivial");
    }
    st.case(terms, vec![format!("I {} {}", id, payload)], desc);
}

// ------------------------------------------------------------------------------------------ generators

fn nice(r: &mut Rng, lo: f64, hi: f64) -> f64 {
    // multiples of 1/8 (few mantissa bits) or arbitrary binary64 values
    let x = lo + (hi - lo) * r.unit_f64();
    if r.chance(1, 2) {
        ((x * 8.0).round() / 8.0).max(0.125)
    } else {
        x
    }
}
fn unit_cost(names: &[&str]) -> CostCfg {
    CostCfg {
        weights: names.iter().map(|n| (n.to_string(), 1.0)).collect(),
        vrates: names.iter().map(|n| (n.to_string(), VRate::Raw)).collect(),
        nrates: vec![],
        mul: false,
    }
}
fn std_features(du: &str, tu: &str) -> Vec<(String, Feat)> {
    vec![("distance".into(), Feat::Distance(du.into(), 0.0)), ("time".into(), Feat::Time(tu.into(), 0.0))]
}
fn line_graph(n_edges: usize, len: impl Fn(usize) -> f64) -> (usize, Vec<(usize, usize, f64)>) {
    (n_edges + 1, (0..n_edges).map(|i| (i, i + 1, len(i))).collect())
}
fn full_table(base: f64) -> Vec<(String, f64)> {
    // every class, "no_turn" included, has its own non-zero delay (a junction costs time even straight through)
    TURNS.iter().enumerate().map(|(i, t)| (t.to_string(), base * (i as f64 + 0.5))).collect()
}
fn delay_base(u: &str) -> f64 {
    match u {
        "Hours" => 1.0 / 1024.0,
        "Minutes" => 1.0 / 16.0,
        "Seconds" => 2.0,
        _ => 2048.0,
    }
}

fn boundary(st: &mut Stream, n: usize, dir: &Path, plugin: &TraversalPlugin) {
    // B1: speed model, every model unit combination (5 x 4 x 3); feature units = the model's (the app's default) and,
    //     through the query's state_features, rotating (quick) or every (thorough) feature unit combination
    let full = n >= 3000;
    let mut k = 0usize;
    for (a, du) in DIST.iter().enumerate() {
        for (b, tu) in TIME.iter().enumerate() {
            for (s, su) in SPEED.iter().enumerate() {
                let (nv, edges) = line_graph(4, |i| 100.0 + 250.5 * i as f64);
                let table = vec![10.0, 27.5, 13.25, 55.0];
                let fus: Vec<(usize, usize)> = if full {
                    (0..5).flat_map(|x| (0..4).map(move |y| (x, y))).collect()
                } else {
                    vec![((a + s + 1) % 5, (b + s + 1) % 4)]
                };
                for (x, y) in fus {
                    let hs: Vec<(i64, Option<i64>)> = vec![(0, None), (90, Some(100)), (350, None), (10, Some(200))];
                    let dunit = TIME[(k + 1) % 4];
                    let c = Case {
                        nv,
                        edges: edges.clone(),
                        features: std_features("Meters", "Seconds"),
                        user: vec![("distance".into(), Feat::Distance(DIST[x].into(), 0.0)), ("time".into(), Feat::Time(TIME[y].into(), 0.0))],
                        tm: Tm::Speed { table: table.clone(), su: su.to_string(), du: Some(du.to_string()), tu: Some(tu.to_string()) },
                        am: Am::Turn { headings: hs, table: full_table(delay_base(dunit)), unit: dunit.into(), fname: "time".into() },
                        cost: unit_cost(&["distance", "time"]),
                        op: Op::Forward(vec![0, 1, 2, 3]),
                        summary: true,
                    };
                    add_case(st, c, "units_speed_model", dir, plugin);
                    k += 1;
                }
                // same model units, no query override: the feature takes the model's unit
                let c = Case {
                    nv,
                    edges: edges.clone(),
                    features: std_features("Miles", "Hours"),
                    user: vec![],
                    tm: Tm::Speed { table, su: su.to_string(), du: if a == 0 && b == 2 { None } else { Some(du.to_string()) }, tu: if a == 0 && b == 2 { None } else { Some(tu.to_string()) } },
                    am: Am::None,
                    cost: unit_cost(&["distance", "time"]),
                    op: Op::Forward(vec![0, 1, 2, 3]),
                    summary: true,
                };
                add_case(st, c, "units_speed_model_default", dir, plugin);
            }
        }
    }
    // B2: distance model, 5 model units x 5 feature units; B6: the unit-drift witness (30 x 1609.344 m, km -> miles)
    for du in DIST.iter() {
        for fu in DIST.iter() {
            let (nv, edges) = line_graph(3, |i| 1609.344 * (i + 1) as f64);
            let c = Case {
                nv,
                edges,
                features: vec![("distance".into(), Feat::Distance(fu.to_string(), 0.0))],
                user: vec![],
                tm: Tm::Dist(du.to_string()),
                am: Am::None,
                cost: unit_cost(&["distance"]),
                op: Op::Forward(vec![0, 1, 2]),
                summary: true,
            };
            add_case(st, c, "units_distance_model", dir, plugin);
        }
    }
    {
        let c = Case {
            nv: 1,
            edges: vec![(0, 0, 1609.344)],
            features: vec![("distance".into(), Feat::Distance("Miles".into(), 0.0))],
            user: vec![],
            tm: Tm::Dist("Kilometers".into()),
            am: Am::None,
            cost: unit_cost(&["distance"]),
            op: Op::Forward(vec![0; 30]),
            summary: true,
        };
        add_case(st, c, "unit_drift_witness", dir, plugin);
    }
    // B3: every boundary of the turn classes, wrap-arounds, both orientations, every delay unit
    let angles: [i64; 23] = [-180, -179, -160, -159, -135, -134, -45, -44, -20, -19, -1, 0, 1, 19, 20, 44, 45, 134, 135, 159, 160, 179, 180];
    let mut k = 0usize;
    for h0 in [0i64, 10, 90, 180, 270, 350, 359] {
        for a in angles.iter() {
            let h1 = (h0 + a).rem_euclid(360);
            let dunit = TIME[k % 4];
            let funit = TIME[(k / 4) % 4];
            let (nv, edges) = line_graph(2, |i| 300.0 + i as f64);
            let c = Case {
                nv,
                edges,
                features: std_features("Meters", funit),
                user: vec![],
                tm: Tm::Dist("Meters".into()),
                am: Am::Turn {
                    headings: if k % 2 == 0 { vec![(h0, None), (h1, None)] } else { vec![(77, Some(h0)), (h1, Some(5))] },
                    table: full_table(delay_base(dunit)),
                    unit: dunit.into(),
                    fname: "time".into(),
                },
                cost: unit_cost(&["distance", "time"]),
                op: if k % 3 == 2 { Op::Reverse(vec![1, 0]) } else { Op::Forward(vec![0, 1]) },
                summary: true,
            };
            add_case(st, c, "turn_boundaries", dir, plugin);
            k += 1;
        }
    }
    // B4: failure modes
    let base = |tm: Tm, am: Am, feats: Vec<(String, Feat)>, edges: Vec<(usize, usize, f64)>, nv: usize, op: Op| Case {
        nv,
        edges,
        features: feats,
        user: vec![],
        tm,
        am,
        cost: unit_cost(&["distance"]),
        op,
        summary: true,
    };
    let sp = |table: Vec<f64>| Tm::Speed { table, su: "KilometersPerHour".into(), du: None, tu: None };
    let e3 = vec![(0, 1, 100.0), (1, 2, 200.0), (2, 0, 300.0)];
    let turn = |hs: Vec<(i64, Option<i64>)>, table: Vec<(String, f64)>, fname: &str| Am::Turn { headings: hs, table, unit: "Seconds".into(), fname: fname.into() };
    let h3 = vec![(0, None), (90, None), (200, None)];
    let cases = vec![
        ("err_missing_table_entry", base(Tm::Dist("Meters".into()), turn(h3.clone(), full_table(1.0).into_iter().filter(|(t, _)| t != "Right").collect(), "time"), std_features("Meters", "Seconds"), e3.clone(), 3, Op::Forward(vec![0, 1, 2]))),
        ("err_angle_out_of_range", base(Tm::Dist("Meters".into()), turn(vec![(0, None), (700, None), (-500, None)], full_table(1.0), "time"), std_features("Meters", "Seconds"), e3.clone(), 3, Op::Forward(vec![0, 1, 2]))),
        ("err_angle_out_of_range", base(Tm::Dist("Meters".into()), turn(vec![(0, None), (90, None), (-500, None)], full_table(1.0), "time"), std_features("Meters", "Seconds"), e3.clone(), 3, Op::Forward(vec![0, 1, 2]))),
        ("panic_i16_overflow", base(Tm::Dist("Meters".into()), turn(vec![(32767, None), (-32768, None), (0, None)], full_table(1.0), "time"), std_features("Meters", "Seconds"), e3.clone(), 3, Op::Forward(vec![0, 1]))),
        ("panic_i16_overflow", base(Tm::Dist("Meters".into()), turn(vec![(-30000, Some(-32000)), (20000, None), (0, None)], full_table(1.0), "time"), std_features("Meters", "Seconds"), e3.clone(), 3, Op::Forward(vec![0, 1]))),
        ("err_missing_heading", base(Tm::Dist("Meters".into()), turn(vec![(0, None), (90, None)], full_table(1.0), "time"), std_features("Meters", "Seconds"), e3.clone(), 3, Op::Forward(vec![0, 1, 2]))),
        ("err_speed_table_short", base(sp(vec![10.0, 20.0]), Am::None, std_features("Meters", "Seconds"), e3.clone(), 3, Op::Forward(vec![0, 1, 2]))),
        ("err_zero_length_edge", base(sp(vec![10.0, 20.0, 30.0]), Am::None, std_features("Meters", "Seconds"), vec![(0, 1, 100.0), (1, 2, 0.0), (2, 0, 300.0)], 3, Op::Forward(vec![0, 1, 2]))),
        ("err_zero_speed", base(sp(vec![10.0, 0.0, 30.0]), Am::None, std_features("Meters", "Seconds"), e3.clone(), 3, Op::Forward(vec![0, 1, 2]))),
        ("err_negative_length_edge", base(sp(vec![10.0, 20.0, 30.0]), Am::None, std_features("Meters", "Seconds"), vec![(0, 1, 100.0), (1, 2, -5.0), (2, 0, 300.0)], 3, Op::Reverse(vec![2, 1, 0]))),
        ("builderr_speed_table_all_zero", base(sp(vec![0.0, 0.0, 0.0]), Am::None, std_features("Meters", "Seconds"), e3.clone(), 3, Op::Forward(vec![0]))),
        ("builderr_speed_table_empty", base(sp(vec![]), Am::None, std_features("Meters", "Seconds"), e3.clone(), 3, Op::Forward(vec![0]))),
        ("err_time_feature_missing", base(Tm::Dist("Meters".into()), turn(h3.clone(), full_table(1.0), "time"), vec![("distance".into(), Feat::Distance("Meters".into(), 0.0))], e3.clone(), 3, Op::Forward(vec![0, 1, 2]))),
        ("err_delay_feature_unknown", base(Tm::Dist("Meters".into()), turn(h3.clone(), full_table(1.0), "delay"), std_features("Meters", "Seconds"), e3.clone(), 3, Op::Forward(vec![0, 1, 2]))),
        ("err_distance_feature_wrong_kind", base(Tm::Dist("Meters".into()), Am::None, vec![("distance".into(), Feat::Time("Seconds".into(), 0.0))], e3.clone(), 3, Op::Forward(vec![0, 1]))),
        ("builderr_feature_kind_overwritten", base(sp(vec![10.0, 20.0, 30.0]), Am::None, vec![("distance".into(), Feat::Time("Seconds".into(), 0.0)), ("time".into(), Feat::Time("Seconds".into(), 0.0))], e3.clone(), 3, Op::Forward(vec![0, 1]))),
        ("err_edge_not_found", base(Tm::Dist("Meters".into()), Am::None, std_features("Meters", "Seconds"), e3.clone(), 3, Op::Forward(vec![0, 7]))),
        ("err_vertex_not_found", base(Tm::Dist("Meters".into()), Am::None, std_features("Meters", "Seconds"), vec![(0, 1, 100.0), (1, 9, 200.0)], 3, Op::Forward(vec![0, 1]))),
        ("err_prev_vertex_not_found", base(Tm::Dist("Meters".into()), Am::None, std_features("Meters", "Seconds"), vec![(0, 1, 100.0), (9, 1, 200.0)], 3, Op::Reverse(vec![0, 1]))),
        ("empty_route", base(Tm::Dist("Meters".into()), Am::None, std_features("Meters", "Seconds"), e3.clone(), 3, Op::Forward(vec![]))),
        ("via_empty_forward_half", base(sp(vec![10.0, 20.0, 30.0]), turn(h3.clone(), full_table(1.5), "time"), std_features("Meters", "Seconds"), e3.clone(), 3, Op::Via(vec![], vec![2, 1, 0]))),
        ("via_empty_reverse_half", base(sp(vec![10.0, 20.0, 30.0]), turn(h3.clone(), full_table(1.5), "time"), std_features("Meters", "Seconds"), e3.clone(), 3, Op::Via(vec![0, 1, 2], vec![]))),
        ("via_small", base(sp(vec![10.0, 20.0, 30.0]), turn(h3.clone(), full_table(1.5), "time"), std_features("Meters", "Seconds"), e3.clone(), 3, Op::Via(vec![0, 1], vec![1, 0, 2]))),
    ];
    for (fam, c) in cases {
        add_case(st, c, fam, dir, plugin);
    }
    // Combined vehicle rates: the members are applied in the listed order (offset before factor != factor before offset)
    for (k, chain) in [
        vec![VRate::Offset(25.0), VRate::Factor(0.01)],
        vec![VRate::Factor(0.01), VRate::Offset(25.0)],
        vec![VRate::Offset(25.0), VRate::Zero],
        vec![VRate::Offset(4.0), VRate::Combined(vec![VRate::Factor(0.5), VRate::Offset(3.0), VRate::Factor(2.0)])],
        vec![],
    ]
    .into_iter()
    .enumerate()
    {
        let mut c = base(sp(vec![10.0, 20.0, 30.0]), turn(h3.clone(), full_table(1.5), "time"), std_features("Meters", "Seconds"), e3.clone(), 3, if k % 2 == 0 { Op::Forward(vec![0, 1, 2]) } else { Op::Via(vec![0], vec![2, 1]) });
        c.cost.weights = vec![("distance".into(), 2.0), ("time".into(), 1.0)];
        c.cost.vrates = vec![("distance".into(), VRate::Combined(chain.clone())), ("time".into(), if k == 3 { VRate::Combined(vec![VRate::Offset(1.0), VRate::Factor(0.5)]) } else { VRate::Factor(0.5) })];
        add_case(st, c, "combined_vehicle_rate", dir, plugin);
    }
    // collinear edges: the headings of consecutive edges are exactly equal and "no_turn" has its own delay
    for (k, hs) in [vec![(90, None), (90, None), (90, None)], vec![(10, Some(200)), (200, Some(359)), (359, None)], vec![(0, None), (0, Some(180)), (180, None)]].into_iter().enumerate() {
        let c = base(if k == 1 { sp(vec![10.0, 20.0, 30.0]) } else { Tm::Dist("Meters".into()) }, turn(hs, full_table(2.5), "time"), std_features("Meters", if k == 2 { "Minutes" } else { "Seconds" }), e3.clone(), 3, if k == 2 { Op::Reverse(vec![2, 1, 0]) } else { Op::Forward(vec![0, 1, 2]) });
        add_case(st, c, "straight_through", dir, plugin);
    }
    // weights summing to zero: the cost model cannot be built
    {
        let mut c = base(Tm::Dist("Meters".into()), Am::None, std_features("Meters", "Seconds"), e3.clone(), 3, Op::Forward(vec![0]));
        c.cost.weights = vec![("distance".into(), 0.0)];
        add_case(st, c, "builderr_zero_weights", dir, plugin);
    }
    // B5: declared initial state: configured non-zero, and overridden by the query (value and unit)
    for (i, (init_d, init_t)) in [(12.5, 3.0), (0.0, 100.0), (1000.0, 0.0), (-4.0, -2.5)].iter().enumerate() {
        let (nv, edges) = line_graph(3, |i| 120.0 * (i + 1) as f64);
        let mut c = Case {
            nv,
            edges,
            features: vec![
                ("soc".into(), Feat::Custom("soc_percent".into(), 55.5)),
                ("time".into(), Feat::Time("Minutes".into(), *init_t)),
                ("energy".into(), Feat::Energy(ENERGY[i % 3].into(), 7.0)),
                ("distance".into(), Feat::Distance("Feet".into(), *init_d)),
            ],
            user: vec![],
            tm: Tm::Dist("Kilometers".into()),
            am: Am::Turn { headings: vec![(0, None), (100, None), (290, None)], table: full_table(3.0), unit: "Seconds".into(), fname: "time".into() },
            cost: unit_cost(&["distance", "time", "energy", "soc"]),
            op: Op::Forward(vec![0, 1, 2]),
            summary: true,
        };
        add_case(st, c.clone(), "initial_state_configured", dir, plugin);
        c.tm = Tm::Speed { table: vec![30.0, 40.0, 50.0], su: "MilesPerHour".into(), du: Some("Miles".into()), tu: Some("Hours".into()) };
        add_case(st, c.clone(), "initial_state_reset_by_speed_model", dir, plugin);
        c.user = vec![("time".into(), Feat::Time("Seconds".into(), *init_t)), ("distance".into(), Feat::Distance("Kilometers".into(), *init_d))];
        add_case(st, c, "initial_state_from_query", dir, plugin);
    }
}

fn gen_walk(r: &mut Rng, nv: usize, edges: &[(usize, usize, f64)], len: usize) -> Vec<usize> {
    let mut out = vec![];
    if edges.is_empty() || len == 0 {
        return out;
    }
    let mut e = r.below(edges.len() as u64) as usize;
    out.push(e);
    while out.len() < len {
        let at = edges[e].1;
        let nexts: Vec<usize> = (0..edges.len()).filter(|i| edges[*i].0 == at).collect();
        e = if nexts.is_empty() || r.chance(1, 40) { r.below(edges.len() as u64) as usize } else { *r.pick(&nexts) };
        out.push(e);
    }
    let _ = nv;
    out
}

fn random_case(r: &mut Rng, search: bool, pair_summary: bool) -> (Case, &'static str) {
    let nv = r.range(2, 12) as usize;
    let ne = r.range(1, 40) as usize;
    let mut edges: Vec<(usize, usize, f64)> = vec![];
    // a cycle through all vertices first (so walks rarely get stuck), then random edges
    for i in 0..nv.min(ne) {
        edges.push((i, (i + 1) % nv, nice(r, 1.0, 5000.0)));
    }
    while edges.len() < ne {
        edges.push((r.below(nv as u64) as usize, r.below(nv as u64) as usize, nice(r, 1.0, 5000.0)));
    }
    let speed_model = r.chance(2, 3);
    let tm = if speed_model {
        Tm::Speed {
            table: (0..edges.len()).map(|_| nice(r, 1.0, 130.0)).collect(),
            su: r.pick(&SPEED).to_string(),
            du: if r.chance(1, 6) { None } else { Some(r.pick(&DIST).to_string()) },
            tu: if r.chance(1, 6) { None } else { Some(r.pick(&TIME).to_string()) },
        }
    } else {
        Tm::Dist(r.pick(&DIST).to_string())
    };
    let am = if r.chance(3, 4) {
        let u = r.pick(&TIME).to_string();
        let b = delay_base(&u) * (1.0 + r.below(4) as f64);
        let mut table = full_table(b);
        if r.chance(1, 3) {
            // random, pairwise distinct, non-zero
            let mut seen: Vec<u64> = vec![];
            for t in table.iter_mut() {
                loop {
                    let v = nice(r, b * 0.125, b * 8.0);
                    if !seen.contains(&v.to_bits()) {
                        seen.push(v.to_bits());
                        t.1 = v;
                        break;
                    }
                }
            }
        }
        if r.chance(1, 5) {
            table[0].1 = 0.0; // the stock configurations: going straight is free
        }
        r.shuffle(&mut table);
        // headings: arbitrary, or (half of the cases) taken from a small pool around one direction, so that
        // consecutive edges are collinear (difference exactly 0) or sit on a class boundary (+-1, 19/20, 44/45,
        // 134/135, 159/160, 179/180/-180)
        let base_h = r.range(0, 359);
        let pool: Vec<i64> = [0i64, 0, 0, 1, -1, 19, 20, -19, -20, 44, 45, -45, 134, 135, -135, 159, 160, -160, 179, 180, -179].iter().map(|d| (base_h + d).rem_euclid(360)).collect();
        let collinear = r.chance(1, 2);
        let headings = (0..edges.len())
            .map(|_| {
                if collinear {
                    let a = *r.pick(&pool);
                    (a, match r.below(4) { 0 => Some(*r.pick(&pool)), 1 => Some(a), _ => None })
                } else {
                    let a = r.range(0, 359);
                    let d = match r.below(5) {
                        0 | 1 => None,
                        2 => Some((a + r.range(-30, 30)).rem_euclid(360)),
                        _ => Some(r.range(0, 359)),
                    };
                    (a, d)
                }
            })
            .collect();
        Am::Turn { headings, table, unit: u, fname: "time".into() }
    } else {
        Am::None
    };
    // configured features: distance and time always, in random slots, sometimes among other features
    let mut features: Vec<(String, Feat)> = vec![
        ("distance".into(), Feat::Distance(r.pick(&DIST).to_string(), if r.chance(1, 5) { nice(r, 0.0, 100.0) } else { 0.0 })),
        ("time".into(), Feat::Time(r.pick(&TIME).to_string(), if r.chance(1, 5) { nice(r, 0.0, 100.0) } else { 0.0 })),
    ];
    if r.chance(1, 3) {
        features.push(("energy".into(), Feat::Energy(r.pick(&ENERGY).to_string(), nice(r, 0.0, 50.0))));
    }
    if r.chance(1, 3) {
        features.push(("soc".into(), Feat::Custom("soc_percent".into(), nice(r, 0.0, 100.0))));
    }
    r.shuffle(&mut features);
    let mut user = vec![];
    if r.chance(1, 2) {
        if r.chance(3, 4) {
            user.push(("distance".into(), Feat::Distance(r.pick(&DIST).to_string(), if r.chance(1, 2) { nice(r, 0.0, 500.0) } else { 0.0 })));
        }
        if r.chance(3, 4) {
            user.push(("time".into(), Feat::Time(r.pick(&TIME).to_string(), if r.chance(1, 2) { nice(r, 0.0, 500.0) } else { 0.0 })));
        }
    }
    // a query may only name features the models declare: the distance model declares none
    if !speed_model {
        user.clear();
    }
    let names: Vec<String> = features.iter().map(|(n, _)| n.clone()).collect();
    let cost = if r.chance(1, 2) {
        unit_cost(&names.iter().map(|s| s.as_str()).collect::<Vec<_>>())
    } else {
        let mut weights = vec![];
        let mut vrates = vec![];
        for n in &names {
            if r.chance(4, 5) {
                weights.push((n.clone(), if r.chance(1, 6) { 0.0 } else { nice(r, 0.125, 10.0) }));
            }
            vrates.push((
                n.clone(),
                match r.below(8) {
                    0 => VRate::Zero,
                    1 | 2 => VRate::Raw,
                    3 | 4 => VRate::Factor(nice(r, 0.125, 10.0)),
                    5 => VRate::Offset(nice(r, 0.0, 2.0)),
                    // chains, applied in order: an offset BEFORE a factor is not the same as after it; nested chains
                    6 => match r.below(4) {
                        0 => VRate::Combined(vec![VRate::Offset(nice(r, 1.0, 50.0)), VRate::Factor(nice(r, 0.0078125, 4.0))]),
                        1 => VRate::Combined(vec![VRate::Factor(nice(r, 0.125, 4.0)), VRate::Offset(nice(r, 0.5, 20.0))]),
                        2 => VRate::Combined(vec![VRate::Offset(nice(r, 1.0, 50.0)), VRate::Combined(vec![VRate::Factor(nice(r, 0.125, 4.0)), VRate::Offset(nice(r, 0.5, 5.0)), VRate::Factor(nice(r, 0.25, 2.0))])]),
                        _ => VRate::Combined(vec![VRate::Raw, VRate::Offset(nice(r, 1.0, 10.0)), VRate::Factor(nice(r, 0.125, 2.0)), VRate::Combined(vec![])]),
                    },
                    _ => VRate::Combined(vec![VRate::Offset(nice(r, 1.0, 30.0)), if r.chance(1, 4) { VRate::Zero } else { VRate::Factor(nice(r, 0.015625, 2.0)) }]),
                },
            ));
        }
        if weights.iter().all(|(_, w)| *w == 0.0) {
            weights = vec![("distance".into(), 1.0)];
        }
        let mut nrates = vec![];
        if r.chance(1, 4) {
            nrates.push(("distance".to_string(), NRate::Edge((0..3).map(|_| (r.below(edges.len() as u64) as usize, nice(r, 0.0, 50.0))).collect::<HashMap<usize, f64>>().into_iter().collect())));
        }
        if r.chance(1, 4) {
            let l: HashMap<(usize, usize), f64> = (0..4).map(|_| ((r.below(edges.len() as u64) as usize, r.below(edges.len() as u64) as usize), nice(r, 0.0, 50.0))).collect();
            let mut v: Vec<(usize, usize, f64)> = l.into_iter().map(|((a, b), x)| (a, b, x)).collect();
            v.sort_by(|a, b| (a.0, a.1).cmp(&(b.0, b.1)));
            nrates.push(("time".to_string(), NRate::EdgeEdge(v)));
        }
        if let Some((_, NRate::Edge(l))) = nrates.first_mut() {
            l.sort_by(|a, b| a.0.cmp(&b.0));
        }
        CostCfg { weights, vrates, nrates, mul: r.chance(1, 8) }
    };
    let len = match r.below(4) {
        0 => r.range(1, 3),
        1 => r.range(2, 8),
        2 => r.range(5, 18),
        _ => r.range(10, 30),
    } as usize;
    let (op, fam) = if search {
        let mut w = gen_walk(r, nv, &edges, len.min(12).max(3));
        let eo = r.chance(2, 5);
        for _ in 0..6 {
            let ok = if eo { w[0] != *w.last().unwrap() && edges[w[0]].1 != edges[*w.last().unwrap()].0 } else { edges[w[0]].0 != edges[*w.last().unwrap()].1 };
            if ok {
                break;
            }
            w = gen_walk(r, nv, &edges, len.min(12).max(3));
        }
        let (src, dst) = if eo { (w[0], *w.last().unwrap()) } else { (edges[w[0]].0, edges[*w.last().unwrap()].1) };
        let alg = *r.pick(&["dijkstra", "astar", "via2", "via2", "via3", "via3", "via4"]);
        (Op::Search(alg.into(), src, dst, eo), if eo { "random_search_edge_oriented" } else { "random_search" })
    } else {
        match r.below(5) {
            0 | 1 | 2 => (Op::Forward(gen_walk(r, nv, &edges, len)), "random_forward"),
            3 => {
                let mut w = gen_walk(r, nv, &edges, len);
                w.reverse();
                (Op::Reverse(w), "random_reverse")
            }
            _ => {
                let w = gen_walk(r, nv, &edges, len.max(2));
                let cut = r.range(0, w.len() as i64) as usize;
                let f = w[..cut].to_vec();
                let mut rv = w[cut..].to_vec();
                rv.reverse();
                (Op::Via(f, rv), "random_via")
            }
        }
    };
    let summary = pair_summary || !cost.nrates.iter().any(|(_, r)| matches!(r, NRate::EdgeEdge(_)));
    (Case { nv, edges, features, user, tm, am, cost, op, summary }, fam)
}


// ------------------------------------------------------------------------------------------ behavioural extraction

/// `c03 table --out DIR`: what the COMPILED code does, exhaustively, written to DIR/table.json (no Coq side):
///   from_angle   Turn::from_angle over the whole i16 range, run-length encoded [lo, hi, serde name] (Err runs omitted)
///   bearing      EdgeHeading::bearing_to_destination as a function of x = destination.start - self.end over the whole
///                i16 range (self.end = 0), run-length encoded [lo, hi, x - result] ("panic" for an overflow)
///   diff_only    bearing(h1, h2) == that function of (h2.start - h1.end) for all 360 x 360 headings, with and without
///                separate departure headings
/// translator/tr_turn.py rebuilds Gen/TurnTable.v from this when it cannot read the source text, and the check
/// cross-checks the two routes when both exist.
fn stream_table(out: &Path) {
    std::fs::create_dir_all(out).unwrap();
    let name_of = |a: i16| -> String {
        match catch(move || Turn::from_angle(a)) {
            Err(_) => "panic".to_string(),
            Ok(Err(_)) => "Err".to_string(),
            Ok(Ok(t)) => serde_json::to_value(&t).ok().and_then(|v| v.as_str().map(|s| s.to_string())).unwrap_or("?".into()),
        }
    };
    let mut fa: Vec<Value> = vec![];
    let mut run: Option<(i32, i32, String)> = None;
    for a in i16::MIN as i32..=i16::MAX as i32 {
        let n = name_of(a as i16);
        match &mut run {
            Some((_, hi, m)) if *m == n => *hi = a,
            _ => {
                if let Some((lo, hi, m)) = run.take() {
                    if m != "Err" {
                        fa.push(json!([lo, hi, m]));
                    }
                }
                run = Some((a, a, n));
            }
        }
    }
    if let Some((lo, hi, m)) = run {
        if m != "Err" {
            fa.push(json!([lo, hi, m]));
        }
    }
    let f = |x: i16| -> Option<i32> {
        catch(move || EdgeHeading::new(0, 0).bearing_to_destination(&EdgeHeading::new(x, x))).ok().map(|r| r as i32)
    };
    let mut be: Vec<Value> = vec![];
    let mut run: Option<(i32, i32, Value)> = None;
    for x in i16::MIN as i32..=i16::MAX as i32 {
        let v = match f(x as i16) {
            Some(r) => json!(x - r),
            None => json!("panic"),
        };
        match &mut run {
            Some((_, hi, m)) if *m == v => *hi = x,
            _ => {
                if let Some((lo, hi, m)) = run.take() {
                    be.push(json!([lo, hi, m]));
                }
                run = Some((x, x, v));
            }
        }
    }
    if let Some((lo, hi, m)) = run {
        be.push(json!([lo, hi, m]));
    }
    let mut diff_only = true;
    for h1 in 0..360i16 {
        for h2 in 0..360i16 {
            let want = f(h2 - h1);
            let a = catch(move || EdgeHeading::new(h1, h1).bearing_to_destination(&EdgeHeading::new(h2, h2))).ok().map(|r| r as i32);
            let b = catch(move || EdgeHeading::new(77, h1).bearing_to_destination(&EdgeHeading::new(h2, 5))).ok().map(|r| r as i32);
            if a != want || b != want {
                diff_only = false;
            }
        }
    }
    let t = json!({"from_angle": fa, "bearing": be, "diff_only": diff_only});
    std::fs::write(out.join("table.json"), t.to_string()).unwrap();
}

const HEADER: &str = "From Coq Require Import ZArith QArith List String Floats.\nFrom RC Require Import Base.Show Base.Num Base.Res Model.Units Model.StateOps Model.Traversal Model.Cost Model.TraversalRun.\nImport ListNotations.\nOpen Scope Z_scope.";

fn main() {
    if std::env::var("VERIF_PANICS").is_err() {
        silence_panics();
    }
    let a = parse_args();
    let name = if a.stream.is_empty() { "walk".to_string() } else { a.stream.clone() };
    if name == "table" {
        stream_table(&a.out);
        return;
    }
    let mut st = Stream::new(&a.out, &name, HEADER, a.shards);
    let dir: PathBuf = a.out.join("files");
    std::fs::create_dir_all(&dir).unwrap();
    let geom = dir.join("geometry.txt");
    std::fs::write(&geom, "LINESTRING (0 0, 1 1)\n").unwrap();
    let plugin = TraversalPlugin::from_file(&geom, Some(TraversalOutputFormat::Json), None).unwrap_or_else(|e| panic!("traversal plugin: {}", e));
    if let Some(p) = &a.replay {
        st.full = true;
        let v: Value = serde_json::from_str(&std::fs::read_to_string(p).unwrap()).unwrap();
        let case = &v["case"];
        let c = case_from(if case.get("case").is_some() { &case["case"] } else { case });
        add_case(&mut st, c, "replay", &dir, &plugin);
        st.finish();
        return;
    }
    let mut rng = Rng::new(a.seed);
    // routes of configurations with an edge-pair network rate are rendered by the output plugin as well (this
    // panicked in serialize_cost_info before /repo a6b1264; `no-pair-summary` restores the old exclusion)
    let pair_summary = !a.extra.iter().any(|x| x == "no-pair-summary");
    match name.as_str() {
        "search" => {
            // two alternatives that end in different states, vertex- and edge-oriented, distance and speed model
            for (k, (alg, eo)) in [("via2", false), ("via2", true), ("via3", true), ("dijkstra", true), ("via4", false), ("via3", false)].iter().enumerate() {
                let edges = vec![(1, 2, 1000.0), (2, 4, 1000.0), (1, 3, 1500.0), (3, 4, 1500.0), (0, 1, 500.0), (4, 5, 500.0)];
                let speed = k % 2 == 1;
                let c = Case {
                    nv: 6,
                    edges,
                    features: std_features(if speed { "Meters" } else { "Kilometers" }, "Minutes"),
                    user: vec![],
                    tm: if speed { Tm::Speed { table: vec![40.0, 40.0, 80.0, 80.0, 30.0, 30.0], su: "KilometersPerHour".into(), du: Some("Kilometers".into()), tu: Some("Minutes".into()) } } else { Tm::Dist("Meters".into()) },
                    am: if k % 3 == 0 { Am::None } else { Am::Turn { headings: vec![(0, None), (90, None), (45, None), (300, None), (10, None), (200, None)], table: full_table(2.0), unit: "Seconds".into(), fname: "time".into() } },
                    cost: unit_cost(&["distance", "time"]),
                    op: if *eo { Op::Search(alg.to_string(), 4, 5, true) } else { Op::Search(alg.to_string(), 1, 4, false) },
                    summary: true,
                };
                add_case(&mut st, c, if *eo { "diamond_edge_oriented" } else { "diamond" }, &dir, &plugin);
            }
            while st.next_id() < a.n {
                let mut r = rng.fork();
                let (c, fam) = random_case(&mut r, true, pair_summary);
                add_case(&mut st, c, fam, &dir, &plugin);
            }
        }
        _ => {
            boundary(&mut st, a.n, &dir, &plugin);
            if pair_summary {
                let (nv, edges) = line_graph(2, |i| 100.0 + i as f64);
                let mut cost = unit_cost(&["distance", "time"]);
                cost.nrates = vec![("time".into(), NRate::EdgeEdge(vec![(0, 1, 5.0)]))];
                let c = Case { nv, edges, features: std_features("Meters", "Seconds"), user: vec![], tm: Tm::Dist("Meters".into()), am: Am::None, cost, op: Op::Forward(vec![0, 1]), summary: true };
                add_case(&mut st, c, "summary_with_edge_pair_rate", &dir, &plugin);
            }
            while st.next_id() < a.n {
                let mut r = rng.fork();
                let (c, fam) = random_case(&mut r, false, pair_summary);
                add_case(&mut st, c, fam, &dir, &plugin);
            }
        }
    }
    st.finish();
}
