//! C04 harness.
//! stream `frontier`: the REAL frontier models, built through CompassAppBuilder's frontier builders and the
//!   services' `build(query)` from files written under --out (road class file, vehicle restriction CSV in mixed
//!   units, turn restriction CSV), optionally wrapped in EdgeCutFrontierModel; `valid_frontier(edge, state,
//!   previous_edge)` on every (previous edge, edge).  I = grid of T/F/E, M = the same from Model/Frontier.v
//!   (binary64, bit-exact comparisons), S = the specification of Model/FrontierSpec.v over exact rationals from
//!   the raw tables (undecided within 1e-9 of a limit).
//! stream `search`: see the section SEARCH below.  `probe` prints what the real code does on the open questions.
use routee_compass::app::compass::config::compass_app_builder::CompassAppBuilder;
use routee_compass::app::compass::config::frontier_model::combined::combined_service::CombinedFrontierService;
use routee_compass_core::algorithm::search::util::edge_cut_frontier_model::EdgeCutFrontierModel;
use routee_compass_core::model::frontier::frontier_model::FrontierModel;
use routee_compass_core::model::frontier::frontier_model_service::FrontierModelService;
use routee_compass_core::model::network::{Edge, EdgeId};
use routee_compass_core::model::state::state_model::StateModel;
use routee_compass_core::model::unit::{Distance, DistanceUnit, Weight, WeightUnit};
use routee_compass_core::model::unit::as_f64::AsF64;
use serde_json::{json, Value};
use std::collections::HashSet;
use std::path::{Path, PathBuf};
use std::sync::Arc;
use verif_harness::*;

// ------------------------------------------------------------------------------------------ configuration

#[derive(Clone, Debug)]
enum Cfg {
    None,
    RoadClass { lookup: Vec<u8>, mapping: Vec<(String, u8)> },
    /// rows of the CSV: edge_id, restriction_name, restriction_value, restriction_unit
    Vehicle { rows: Vec<(usize, String, f64, String)> },
    Turn { pairs: Vec<(usize, usize)> },
    Combined(Vec<Cfg>),
}

fn bits(x: f64) -> String {
    format!("{:016x}", x.to_bits())
}
fn unbits(s: &str) -> f64 {
    f64::from_bits(u64::from_str_radix(s, 16).unwrap())
}
/// JSON with floats as bit patterns ({"$f": "hex"}), so that a replay file reproduces them exactly
fn enc(v: &Value) -> Value {
    match v {
        Value::Number(n) if !(n.is_i64() || n.is_u64()) => json!({ "$f": bits(n.as_f64().unwrap()) }),
        Value::Array(a) => Value::Array(a.iter().map(enc).collect()),
        Value::Object(m) => Value::Object(m.iter().map(|(k, v)| (k.clone(), enc(v))).collect()),
        _ => v.clone(),
    }
}
fn dec(v: &Value) -> Value {
    match v {
        Value::Object(m) if m.len() == 1 && m.contains_key("$f") => json!(unbits(m["$f"].as_str().unwrap())),
        Value::Array(a) => Value::Array(a.iter().map(dec).collect()),
        Value::Object(m) => Value::Object(m.iter().map(|(k, v)| (k.clone(), dec(v))).collect()),
        _ => v.clone(),
    }
}

fn cfg_to_json(c: &Cfg) -> Value {
    match c {
        Cfg::None => json!({"t": "none"}),
        Cfg::RoadClass { lookup, mapping } => json!({"t": "rc", "lookup": lookup, "mapping": mapping}),
        Cfg::Vehicle { rows } => {
            json!({"t": "veh", "rows": rows.iter().map(|(e, n, v, u)| json!([e, n, bits(*v), u])).collect::<Vec<_>>()})
        }
        Cfg::Turn { pairs } => json!({"t": "turn", "pairs": pairs}),
        Cfg::Combined(inner) => json!({"t": "comb", "inner": inner.iter().map(cfg_to_json).collect::<Vec<_>>()}),
    }
}
fn cfg_from_json(v: &Value) -> Cfg {
    match v["t"].as_str().unwrap() {
        "none" => Cfg::None,
        "rc" => Cfg::RoadClass {
            lookup: serde_json::from_value(v["lookup"].clone()).unwrap(),
            mapping: serde_json::from_value(v["mapping"].clone()).unwrap(),
        },
        "veh" => Cfg::Vehicle {
            rows: v["rows"]
                .as_array()
                .unwrap()
                .iter()
                .map(|r| {
                    (r[0].as_u64().unwrap() as usize, r[1].as_str().unwrap().to_string(), unbits(r[2].as_str().unwrap()), r[3].as_str().unwrap().to_string())
                })
                .collect(),
        },
        "turn" => Cfg::Turn { pairs: serde_json::from_value(v["pairs"].clone()).unwrap() },
        "comb" => Cfg::Combined(v["inner"].as_array().unwrap().iter().map(cfg_from_json).collect()),
        t => panic!("unknown cfg tag {}", t),
    }
}
fn coq_cfg(c: &Cfg) -> String {
    match c {
        Cfg::None => "CNoRestriction".into(),
        Cfg::RoadClass { lookup, mapping } => format!(
            "(CRoadClass {} {})",
            coq_list(lookup, |x| x.to_string()),
            coq_list(mapping, |(k, v)| format!("({}, {})", coq_string(k), v))
        ),
        Cfg::Vehicle { rows } => format!(
            "(CVehicle FN {})",
            coq_list(rows, |(e, n, v, u)| format!("({}, {}, {}, {})", e, coq_string(n), coq_f64(*v), coq_string(u)))
        ),
        Cfg::Turn { pairs } => format!("(CTurn {})", coq_list(pairs, |(a, b)| format!("({}, {})", a, b))),
        Cfg::Combined(inner) => format!("(CCombined FN {})", coq_list(inner, coq_cfg)),
    }
}
fn cfg_kind(c: &Cfg) -> &'static str {
    match c {
        Cfg::None => "none",
        Cfg::RoadClass { .. } => "road_class",
        Cfg::Vehicle { .. } => "vehicle",
        Cfg::Turn { .. } => "turn",
        Cfg::Combined(_) => "combined",
    }
}

// ------------------------------------------------------------------------------------------ real models

struct Files {
    dir: PathBuf,
    n: usize,
}
impl Files {
    fn path(&mut self, ext: &str) -> PathBuf {
        self.n += 1;
        self.dir.join(format!("f{}.{}", self.n, ext))
    }
}

/// A CSV table the application reads BY HEADER NAME (csv reader with headers + a serde struct with named fields: the
/// restricted-turn file and the vehicle restriction file; the road class file is headerless, one value per line).
/// `layout` picks the column order and extra columns: a quarter of the layouts is the canonical file, the others
/// permute the named columns and add unrelated columns before / between / after them (integers that look like ids,
/// so that a positional reader silently reads the wrong thing).  The table's MEANING does not depend on the layout.
fn csv_with_layout(cols: &[&str], rows: &[Vec<String>], layout: u64) -> String {
    let n = cols.len();
    let (perm_ix, extras) = if layout % 4 == 0 { (0u64, 0u64) } else { ((layout / 4) % (1..=n as u64).product::<u64>(), (layout / 4 / 24) % 5) };
    // perm_ix-th permutation (factorial number system)
    let mut pool: Vec<usize> = (0..n).collect();
    let mut order: Vec<usize> = vec![];
    let mut k = perm_ix;
    for i in (1..=n).rev() {
        let f: u64 = (1..i as u64).product();
        let j = (k / f) as usize;
        k %= f;
        order.push(pool.remove(j));
    }
    // column plan: Ok(named column index) or Err(extra column kind)
    let mut plan: Vec<Result<usize, usize>> = vec![];
    if extras == 1 || extras == 4 {
        plan.push(Err(0));
    }
    for (i, c) in order.iter().enumerate() {
        plan.push(Ok(*c));
        if i == 0 && (extras == 2 || extras == 4) {
            plan.push(Err(1));
        }
    }
    if extras == 3 || extras == 4 {
        plan.push(Err(2));
    }
    let extra_names = ["row_id", "way_id", "source"];
    let mut out = plan.iter().map(|c| match c { Ok(i) => cols[*i].to_string(), Err(k) => extra_names[*k].to_string() }).collect::<Vec<_>>().join(",");
    out.push('\n');
    for (ri, row) in rows.iter().enumerate() {
        let line = plan
            .iter()
            .map(|c| match c {
                Ok(i) => row[*i].clone(),
                Err(0) => ri.to_string(),
                Err(1) => ((ri * 7 + 3) % 11).to_string(),
                Err(_) => "survey".to_string(),
            })
            .collect::<Vec<_>>()
            .join(",");
        out.push_str(&line);
        out.push('\n');
    }
    out
}
/// the layout of a leaf's file is a function of the leaf's content: replays reproduce it, no extra case field is needed
fn layout_of(c: &Cfg) -> u64 {
    mix64(fnv(&cfg_to_json(c).to_string()))
}
/// SplitMix64 finaliser: FNV's low bits depend on the low bits of the input bytes only
fn mix64(mut z: u64) -> u64 {
    z = (z ^ (z >> 30)).wrapping_mul(0xBF58_476D_1CE4_E5B9);
    z = (z ^ (z >> 27)).wrapping_mul(0x94D0_49BB_1331_11EB);
    z ^ (z >> 31)
}
fn layout_kind(c: &Cfg) -> String {
    let (l, n) = match c { Cfg::Turn { .. } => (layout_of(c), 2u64), Cfg::Vehicle { .. } => (layout_of(c), 24u64), _ => return "n/a".into() };
    if l % 4 == 0 { "canonical".into() } else { format!("perm{}_extras{}", if (l / 4) % n == 0 { "Id" } else { "X" }, (l / 4 / 24) % 5) }
}

/// the configuration JSON the application would read, with the tables written to files
fn config_json(c: &Cfg, files: &mut Files) -> Value {
    match c {
        Cfg::None => json!({"type": "no_restriction"}),
        Cfg::RoadClass { lookup, mapping } => {
            let p = files.path("txt");
            let body: String = lookup.iter().map(|x| format!("{}\n", x)).collect();
            std::fs::write(&p, body).unwrap();
            let mut j = json!({"type": "road_class", "road_class_input_file": p.to_str().unwrap()});
            if !mapping.is_empty() {
                let m: serde_json::Map<String, Value> = mapping.iter().map(|(k, v)| (k.clone(), json!(v))).collect();
                j["road_class_parser"] = json!({ "mapping": m });
            }
            j
        }
        Cfg::Vehicle { rows } => {
            let p = files.path("csv");
            let table: Vec<Vec<String>> = rows.iter().map(|(e, n, v, u)| vec![e.to_string(), n.clone(), format!("{:?}", v), u.clone()]).collect();
            let body = csv_with_layout(&["edge_id", "restriction_name", "restriction_value", "restriction_unit"], &table, layout_of(c));
            std::fs::write(&p, body).unwrap();
            json!({"type": "vehicle_restriction", "vehicle_restriction_input_file": p.to_str().unwrap()})
        }
        Cfg::Turn { pairs } => {
            let p = files.path("csv");
            let table: Vec<Vec<String>> = pairs.iter().map(|(a, b)| vec![a.to_string(), b.to_string()]).collect();
            let body = csv_with_layout(&["prev_edge_id", "next_edge_id"], &table, layout_of(c));
            std::fs::write(&p, body).unwrap();
            json!({"type": "turn_restriction", "turn_restriction_input_file": p.to_str().unwrap()})
        }
        Cfg::Combined(inner) => {
            json!({"type": "combined", "models": inner.iter().map(|c| config_json(c, files)).collect::<Vec<_>>()})
        }
    }
}

/// nested = false: the whole configuration goes through CompassAppBuilder::build_frontier_model_service (the
/// application's path).  nested = true: leaves through their builders, combined services composed directly.
fn build_service(c: &Cfg, nested: bool, files: &mut Files) -> Result<Arc<dyn FrontierModelService>, String> {
    let builder = CompassAppBuilder::default();
    match (c, nested) {
        (Cfg::Combined(inner), true) => {
            let mut inner_services = vec![];
            for i in inner {
                inner_services.push(build_service(i, true, files)?);
            }
            Ok(Arc::new(CombinedFrontierService { inner_services }))
        }
        _ => {
            let j = config_json(c, files);
            builder.build_frontier_model_service(&j).map_err(|e| e.to_string())
        }
    }
}

/// the frontier SERVICE (what an application instance keeps for all its queries), tables written under `dir`
fn build_real_service(c: &Cfg, nested: bool, dir: &Path) -> Result<Arc<dyn FrontierModelService>, String> {
    let mut files = Files { dir: dir.to_path_buf(), n: 0 };
    std::fs::create_dir_all(dir).unwrap();
    build_service(c, nested, &mut files)
}
/// the per-query model of a service, optionally under the edge-cut wrapper
fn model_of_service(service: &Arc<dyn FrontierModelService>, query: &Value, cut: &Option<Vec<usize>>) -> Result<Arc<dyn FrontierModel>, String> {
    let sm = Arc::new(StateModel::empty());
    let m = service.build(query, sm).map_err(|e| e.to_string())?;
    Ok(match cut {
        None => m,
        Some(es) => Arc::new(EdgeCutFrontierModel::new(m, es.iter().map(|e| EdgeId(*e)).collect::<HashSet<_>>())),
    })
}
pub fn build_real_model(c: &Cfg, nested: bool, query: &Value, cut: &Option<Vec<usize>>, dir: &Path) -> Result<Arc<dyn FrontierModel>, String> {
    let service = build_real_service(c, nested, dir)?;
    model_of_service(&service, query, cut)
}

fn impl_grid(m: &Arc<dyn FrontierModel>, nedges: usize, nprev: usize) -> String {
    let edges: Vec<Edge> = (0..nedges.max(nprev)).map(|i| Edge::new(i, i, i + 1, 1.0)).collect();
    let sm = StateModel::empty();
    let mut rows = vec![];
    let prevs: Vec<Option<usize>> = std::iter::once(None).chain((0..nprev).map(Some)).collect();
    for p in prevs {
        let mut s = String::new();
        for e in 0..nedges {
            let r = m.valid_frontier(&edges[e], &[], p.map(|i| &edges[i]), &sm);
            s.push(match r {
                Ok(true) => 'T',
                Ok(false) => 'F',
                Err(_) => 'E',
            });
        }
        rows.push(s);
    }
    rows.join("|")
}

// ------------------------------------------------------------------------------------------ frontier stream

struct FCase {
    family: String,
    nested: bool,
    cfg: Cfg,
    query: Value,
    cut: Option<Vec<usize>>,
    nedges: usize,
    nprev: usize,
}

fn count_layouts(st: &mut Stream, c: &Cfg) {
    match c {
        Cfg::Combined(inner) => inner.iter().for_each(|i| count_layouts(st, i)),
        Cfg::Turn { .. } => st.count(&format!("turn_file:{}", layout_kind(c))),
        Cfg::Vehicle { .. } => st.count(&format!("vehicle_file:{}", layout_kind(c))),
        _ => {}
    }
}
/// the same table with a file layout of the wanted kind: repeats the first row (which changes nothing but the content
/// hash the layout is derived from) until `layout_kind` is the wanted one
fn turn_with_layout(pairs: &[(usize, usize)], kind: &str) -> Cfg {
    let mut p = pairs.to_vec();
    for _ in 0..400 {
        let c = Cfg::Turn { pairs: p.clone() };
        if layout_kind(&c) == kind {
            return c;
        }
        p.push(pairs[0]);
    }
    panic!("no turn table with layout {}", kind)
}
fn vehicle_with_layout(rows: &[(usize, String, f64, String)], kind: &str) -> Cfg {
    let mut p = rows.to_vec();
    for _ in 0..2000 {
        let c = Cfg::Vehicle { rows: p.clone() };
        if layout_kind(&c) == kind {
            return c;
        }
        p.push(rows[0].clone());
    }
    panic!("no vehicle table with layout {}", kind)
}
const LAYOUT_KINDS: [&str; 11] = ["canonical", "permId_extras0", "permId_extras1", "permId_extras2", "permId_extras3", "permId_extras4",
                                  "permX_extras0", "permX_extras1", "permX_extras2", "permX_extras3", "permX_extras4"];

fn has_kind(c: &Cfg, k: &str) -> bool {
    match c {
        Cfg::Combined(inner) => k == "combined" || inner.iter().any(|i| has_kind(i, k)),
        _ => cfg_kind(c) == k,
    }
}

fn add_fcase(st: &mut Stream, fc: &FCase, dir: &Path) {
    add_fcase_seq(st, fc, &[], dir)
}
/// `prior`: the queries the SAME service instance built a model for (and answered the whole verdict table of) before this
/// case's query, in order.  The case is judged for its own query alone: a frontier service carries no state from one query
/// to the next, so M and S are those of the query in isolation.
fn add_fcase_seq(st: &mut Stream, fc: &FCase, prior: &[Value], dir: &Path) {
    let id = st.next_id();
    let (cfg, nested, query, cut, nedges, nprev) = (fc.cfg.clone(), fc.nested, fc.query.clone(), fc.cut.clone(), fc.nedges, fc.nprev);
    let d = dir.join(format!("c{}", id));
    let prior2: Vec<Value> = prior.to_vec();
    let out = catch(move || {
        let service = match build_real_service(&cfg, nested, &d) {
            Err(_) => return ("Err build".to_string(), String::new()),
            Ok(s) => s,
        };
        for pq in &prior2 {
            if let Ok(m) = model_of_service(&service, pq, &cut) {
                let _ = impl_grid(&m, nedges, nprev);
            }
        }
        match model_of_service(&service, &query, &cut) {
            Err(_) => ("Err build".to_string(), String::new()),
            Ok(m) => ("Ok".to_string(), impl_grid(&m, nedges, nprev)),
        }
    })
    .unwrap_or_else(|_| ("Panic".to_string(), String::new()));
    let _ = std::fs::remove_dir_all(dir.join(format!("c{}", id)));
    let (status, grid) = out;
    let iline = if status == "Ok" { format!("I {} Ok {}", id, grid) } else { format!("I {} {}", id, status) };
    let common = format!(
        "{} {} {} {} {}",
        coq_cfg(&fc.cfg),
        coq_json(&fc.query),
        coq_opt(&fc.cut, |es| coq_list(es, |e| e.to_string())),
        fc.nedges,
        fc.nprev
    );
    let terms = vec![
        format!("line_M {}%Z {} {}", id, coq_bool(fc.nested), common),
        format!("line_S {}%Z {} {} {}", id, common, coq_string(&status), coq_string(&grid)),
    ];
    let desc = json!({"id": id, "family": fc.family, "nested": fc.nested, "cfg": cfg_to_json(&fc.cfg), "query": enc(&fc.query),
                      "cut": fc.cut, "nedges": fc.nedges, "nprev": fc.nprev, "prior": prior.iter().map(enc).collect::<Vec<_>>(), "impl_short": format!("{} {}", status, grid).chars().take(120).collect::<String>()});
    st.count(&format!("family:{}", fc.family));
    st.count(&format!("status:{}", status));
    st.count(&format!("top:{}", cfg_kind(&fc.cfg)));
    for k in ["road_class", "vehicle", "turn", "combined", "none"] {
        if has_kind(&fc.cfg, k) {
            st.count(&format!("has:{}", k));
        }
    }
    if fc.cut.is_some() {
        st.count("edge_cut");
    }
    count_layouts(st, &fc.cfg);
    if !prior.is_empty() {
        st.count(&format!("sequence_position:{}", prior.len() + 1));
    }
    if fc.nested {
        st.count("direct_composition");
    }
    let (t, f, e) = (grid.matches('T').count(), grid.matches('F').count(), grid.matches('E').count());
    if status == "Ok" {
        st.count(if f == 0 { "grid:all_true" } else if t == 0 { "grid:all_false" } else { "grid:mixed" });
        if e > 0 {
            st.count("grid:has_edge_error");
        }
    }
    // non-trivial: the model was built and both admits and refuses some edge, or the build was refused
    if (status == "Ok" && t > 0 && f > 0) || status != "Ok" {
        st.mark_nontrivial(&format!("{}|{}|{:?}", cfg_to_json(&fc.cfg), enc(&fc.query), fc.cut));
    }
    st.case(terms, vec![iline], desc);
}

const DIST_UNITS: [(&str, DistanceUnit); 5] = [
    ("meters", DistanceUnit::Meters),
    ("kilometers", DistanceUnit::Kilometers),
    ("miles", DistanceUnit::Miles),
    ("inches", DistanceUnit::Inches),
    ("feet", DistanceUnit::Feet),
];
const WEIGHT_UNITS: [(&str, WeightUnit); 3] = [("pounds", WeightUnit::Pounds), ("tons", WeightUnit::Tons), ("kg", WeightUnit::Kg)];
/// (restriction name, vehicle_parameters field, is weight, per axle)
const KINDS: [(&str, &str, bool, bool); 6] = [
    ("maximum_total_weight", "total_weight", true, false),
    ("maximum_weight_per_axle", "total_weight", true, true),
    ("maximum_length", "total_length", false, false),
    ("maximum_width", "width", false, false),
    ("maximum_height", "height", false, false),
    ("maximum_trailer_length", "trailer_length", false, false),
];

#[derive(Clone, Debug)]
struct Vehicle {
    height: (f64, usize),
    width: (f64, usize),
    total_length: (f64, usize),
    trailer_length: (f64, usize),
    total_weight: (f64, usize),
    axles: u64,
}
impl Vehicle {
    fn query(&self) -> Value {
        json!({
            "height": [self.height.0, DIST_UNITS[self.height.1].0],
            "width": [self.width.0, DIST_UNITS[self.width.1].0],
            "total_length": [self.total_length.0, DIST_UNITS[self.total_length.1].0],
            "trailer_length": [self.trailer_length.0, DIST_UNITS[self.trailer_length.1].0],
            "total_weight": [self.total_weight.0, WEIGHT_UNITS[self.total_weight.1].0],
            "number_of_axles": self.axles,
        })
    }
    fn field(&self, f: &str) -> (f64, usize) {
        match f {
            "height" => self.height,
            "width" => self.width,
            "total_length" => self.total_length,
            "trailer_length" => self.trailer_length,
            _ => self.total_weight,
        }
    }
    /// the vehicle's quantity limited by restriction kind `k`, converted to unit index `ru` BY THE REAL CODE
    /// (used only to place generated limits at and around the comparison boundary)
    fn converted(&self, k: usize, ru: usize) -> f64 {
        let (_, field, is_weight, per_axle) = KINDS[k];
        let (v, vu) = self.field(field);
        if is_weight {
            let w = WEIGHT_UNITS[vu].1.convert(&Weight::new(v), &WEIGHT_UNITS[ru].1).as_f64();
            if per_axle {
                w / (self.axles as u8) as f64
            } else {
                w
            }
        } else {
            DIST_UNITS[vu].1.convert(&Distance::new(v), &DIST_UNITS[ru].1).as_f64()
        }
    }
}
fn gen_value(r: &mut Rng) -> f64 {
    if r.chance(1, 6) {
        // short decimal values as a person would type them
        return *r.pick(&[1.0, 2.5, 4.0, 13.5, 80000.0, 36.0, 53.0, 8.5, 0.5, 10.0, 12000.0]);
    }
    let e = r.range(-2, 5);
    10f64.powi(e as i32) * (1.0 + r.unit_f64())
}
fn gen_vehicle(r: &mut Rng) -> Vehicle {
    Vehicle {
        height: (gen_value(r), r.below(5) as usize),
        width: (gen_value(r), r.below(5) as usize),
        total_length: (gen_value(r), r.below(5) as usize),
        trailer_length: (gen_value(r), r.below(5) as usize),
        total_weight: (gen_value(r), r.below(3) as usize),
        axles: 1 + r.below(6),
    }
}
const EPS20: f64 = 9.5367431640625e-7; // 2^-20
fn limit_factor(r: &mut Rng) -> f64 {
    match r.below(8) {
        0 => 1.0,
        1 => 1.0 + EPS20,
        2 => 1.0 - EPS20,
        3 => 0.5,
        4 => 2.0,
        5 => 1.0 + 1e-3,
        6 => 1.0 - 1e-3,
        _ => 0.25 + 3.0 * r.unit_f64(),
    }
}
fn gen_vehicle_rows(r: &mut Rng, veh: &Vehicle, nedges: usize, nrows: usize) -> Vec<(usize, String, f64, String)> {
    (0..nrows)
        .map(|_| {
            let e = r.below(nedges as u64) as usize;
            let k = r.below(6) as usize;
            let ru = if KINDS[k].2 { r.below(3) as usize } else { r.below(5) as usize };
            let unit = if KINDS[k].2 { WEIGHT_UNITS[ru].0 } else { DIST_UNITS[ru].0 };
            let limit = veh.converted(k, ru) * limit_factor(r);
            (e, KINDS[k].0.to_string(), limit, unit.to_string())
        })
        .collect()
}
const CLASS_NAMES: [&str; 6] = ["motorway", "trunk", "primary", "secondary", "residential", "track"];
/// road class ids from the full u8 range, built around pairs that differ by a multiple of 64 (c, c+64, c+128, c+192;
/// in particular 0/64/128/192 and 63/127/191/255): a set representation narrower than 256 values confuses them
fn wide_class_universe(r: &mut Rng) -> Vec<u8> {
    let base = match r.below(4) {
        0 => 0u8,
        1 => 63,
        _ => r.below(64) as u8,
    };
    let mut u: Vec<u8> = vec![base, base + 64, base + 128, base + 192];
    // a second, unrelated residue and a few arbitrary ids
    let other = r.below(64) as u8;
    u.push(other);
    u.push(other.wrapping_add(64 * (1 + r.below(3) as u8)));
    for _ in 0..r.below(3) {
        u.push(r.below(256) as u8);
    }
    u.sort();
    u.dedup();
    u
}
fn class_name(c: u8) -> String {
    if (c as usize) < CLASS_NAMES.len() { CLASS_NAMES[c as usize].to_string() } else { format!("class_{}", c) }
}
fn gen_road_class(r: &mut Rng, nedges: usize) -> (Cfg, Value) {
    // (configuration, the "road_classes" value of a matching query, Null = absent)
    let wide = r.chance(1, 2);
    let universe: Vec<u8> = if wide { wide_class_universe(r) } else { (0..2 + r.below(5) as u8).collect() };
    let lookup: Vec<u8> = (0..nedges).map(|_| *r.pick(&universe)).collect();
    let with_mapping = r.chance(1, 2);
    let mapping: Vec<(String, u8)> = if with_mapping { universe.iter().map(|c| (class_name(*c), *c)).collect() } else { vec![] };
    // allowed set: each class independently; for wide universes usually exactly one member of the aliasing family
    let mut chosen: Vec<u8> = universe.iter().copied().filter(|_| r.chance(1, 2)).collect();
    if wide && r.chance(2, 3) {
        let keep = universe[r.below(4.min(universe.len() as u64)) as usize];
        let fam: Vec<u8> = universe.iter().copied().filter(|c| c % 64 == keep % 64).collect();
        chosen.retain(|c| !fam.contains(c));
        chosen.push(keep);
    }
    if !wide && r.chance(1, 2) {
        chosen.push(universe.len() as u8); // a class no edge has
    }
    let q = match r.below(10) {
        0 => Value::Null,
        1..=4 => json!(chosen),
        5..=7 if with_mapping => json!(chosen.iter().filter(|c| universe.contains(c)).map(|c| class_name(*c)).collect::<Vec<_>>()),
        8 if with_mapping => json!([class_name(universe[0]), "no_such_class"]),
        9 => json!([0, "trunk"]),
        _ => json!(chosen),
    };
    (Cfg::RoadClass { lookup, mapping }, q)
}
fn gen_turn(r: &mut Rng, nedges: usize) -> Cfg {
    let n = r.below(2 * nedges as u64 + 1) as usize;
    Cfg::Turn { pairs: (0..n).map(|_| (r.below(nedges as u64) as usize, r.below(nedges as u64) as usize)).collect() }
}

/// a random leaf configuration; contributes its part of the query
fn gen_leaf(r: &mut Rng, nedges: usize, veh: &Vehicle, query: &mut serde_json::Map<String, Value>) -> Cfg {
    match r.below(7) {
        0 => Cfg::None,
        1 | 2 => {
            let (c, q) = gen_road_class(r, nedges);
            if !q.is_null() {
                query.insert("road_classes".into(), q);
            }
            c
        }
        3 | 4 | 5 => {
            query.insert("vehicle_parameters".into(), veh.query());
            let nrows = 1 + r.below(2 * nedges as u64) as usize;
            Cfg::Vehicle { rows: gen_vehicle_rows(r, veh, nedges, nrows) }
        }
        _ => gen_turn(r, nedges),
    }
}

fn boundary_fcases() -> Vec<FCase> {
    let mut v = vec![];
    // (1) every unit pair x every restriction kind, limits at and around the vehicle's converted value
    let mut r = Rng::new(4);
    for k in 0..6 {
        let nunits = if KINDS[k].2 { 3 } else { 5 };
        for vu in 0..nunits {
            for axles in if KINDS[k].3 { vec![1u64, 3, 5] } else { vec![2u64] } {
                let mut veh = gen_vehicle(&mut r);
                veh.axles = axles;
                match KINDS[k].1 {
                    "height" => veh.height.1 = vu,
                    "width" => veh.width.1 = vu,
                    "total_length" => veh.total_length.1 = vu,
                    "trailer_length" => veh.trailer_length.1 = vu,
                    _ => veh.total_weight.1 = vu,
                }
                let mut rows = vec![];
                let mut e = 0;
                for ru in 0..nunits {
                    for f in [1.0, 1.0 + EPS20, 1.0 - EPS20] {
                        let unit = if KINDS[k].2 { WEIGHT_UNITS[ru].0 } else { DIST_UNITS[ru].0 };
                        rows.push((e, KINDS[k].0.to_string(), veh.converted(k, ru) * f, unit.to_string()));
                        e += 1;
                    }
                }
                v.push(FCase {
                    family: format!("unit_pairs_{}", KINDS[k].0),
                    nested: false,
                    cfg: Cfg::Vehicle { rows },
                    query: json!({"vehicle_parameters": veh.query()}),
                    cut: None,
                    nedges: e,
                    nprev: 0,
                });
            }
        }
    }
    // (2) vehicle parameter decoding: ill-typed / missing fields, axle count conversions
    let veh = Vehicle { height: (4.0, 0), width: (2.5, 0), total_length: (20.0, 0), trailer_length: (13.5, 0), total_weight: (36.0, 1), axles: 5 };
    let rows = vec![
        (0usize, "maximum_height".to_string(), 13.0, "feet".to_string()),
        (1, "maximum_height".to_string(), 14.0, "feet".to_string()),
        (2, "maximum_total_weight".to_string(), 80000.0, "pounds".to_string()),
        (3, "maximum_total_weight".to_string(), 30000.0, "kg".to_string()),
        (4, "maximum_weight_per_axle".to_string(), 7.0, "tons".to_string()),
        (4, "maximum_weight_per_axle".to_string(), 7.5, "tons".to_string()),
        (5, "maximum_length".to_string(), 65.0, "feet".to_string()),
        (5, "maximum_width".to_string(), 102.0, "inches".to_string()),
        (6, "maximum_trailer_length".to_string(), 0.01, "kilometers".to_string()),
        (7, "maximum_trailer_length".to_string(), 0.01, "miles".to_string()),
    ];
    let base = veh.query();
    let mut variants: Vec<(&str, Value)> = vec![("vehicle_ok", json!({ "vehicle_parameters": base.clone() }))];
    variants.push(("vehicle_params_missing", json!({})));
    variants.push(("vehicle_params_not_object", json!({"vehicle_parameters": 3})));
    for f in ["height", "width", "total_length", "trailer_length", "total_weight", "number_of_axles"] {
        let mut b = base.clone();
        b.as_object_mut().unwrap().remove(f);
        variants.push(("vehicle_field_missing", json!({ "vehicle_parameters": b })));
    }
    for (f, bad) in [
        ("height", json!([4.0, "kg"])),
        ("height", json!(["4.0", "meters"])),
        ("height", json!([4.0, "meters", 1])),
        ("height", json!([4.0])),
        ("height", json!(4.0)),
        ("height", json!([4, "meters"])),
        ("height", json!([-4.0, "meters"])),
        ("height", json!([4.0, "Meters"])),
        ("total_weight", json!([36.0, "feet"])),
        ("total_weight", json!([72000, "pounds"])),
        ("total_weight", json!({"value": 36.0, "unit": "tons"})),
        ("total_weight", json!([0.0, "tons"])),
        ("number_of_axles", json!(0)),
        ("number_of_axles", json!(1)),
        ("number_of_axles", json!(255)),
        ("number_of_axles", json!(256)),
        ("number_of_axles", json!(261)),
        ("number_of_axles", json!(-5)),
        ("number_of_axles", json!(5.0)),
        ("number_of_axles", json!("5")),
        ("number_of_axles", json!(18446744073709551615u64)),
    ] {
        let mut b = base.clone();
        b[f] = bad;
        variants.push(("vehicle_field_variant", json!({ "vehicle_parameters": b })));
    }
    // zero weight with zero axles: 0/0
    let mut b = base.clone();
    b["total_weight"] = json!([0.0, "tons"]);
    b["number_of_axles"] = json!(0);
    variants.push(("vehicle_field_variant", json!({ "vehicle_parameters": b })));
    for (fam, q) in variants {
        v.push(FCase { family: fam.into(), nested: false, cfg: Cfg::Vehicle { rows: rows.clone() }, query: q, cut: None, nedges: 9, nprev: 1 });
    }
    // (3) restriction rows the builder must refuse / accept
    for (name, unit) in [
        ("maximum_height", "kg"),
        ("maximum_total_weight", "meters"),
        ("maximum_speed", "meters"),
        ("MaximumHeight", "meters"),
        ("maximum_height", "Feet"),
        ("maximum_height", "feet"),
        ("maximum_weight_per_axle", "kg"),
    ] {
        let rows = vec![(0usize, "maximum_width".to_string(), 3.0, "meters".to_string()), (1, name.to_string(), 3.0, unit.to_string())];
        v.push(FCase { family: "restriction_row_decoding".into(), nested: false, cfg: Cfg::Vehicle { rows }, query: json!({ "vehicle_parameters": base.clone() }), cut: None, nedges: 3, nprev: 0 });
    }
    v.push(FCase { family: "restriction_rows_empty".into(), nested: false, cfg: Cfg::Vehicle { rows: vec![] }, query: json!({ "vehicle_parameters": base.clone() }), cut: None, nedges: 3, nprev: 0 });
    // (4) road class queries: numeric, names, mixed, empty, out of range, ill-typed, with and without mapping
    let lookup: Vec<u8> = vec![0, 1, 2, 3, 1, 0, 255, 2];
    let mapping: Vec<(String, u8)> = vec![("motorway".into(), 0), ("trunk".into(), 1), ("primary".into(), 2), ("track".into(), 255)];
    for m in [vec![], mapping.clone()] {
        for q in [
            json!({}),
            json!({"road_classes": []}),
            json!({"road_classes": [0]}),
            json!({"road_classes": [1, 2, 2, 1]}),
            json!({"road_classes": [255]}),
            json!({"road_classes": [256]}),
            json!({"road_classes": [-1]}),
            json!({"road_classes": [1.0]}),
            json!({"road_classes": ["motorway"]}),
            json!({"road_classes": ["trunk", "track", "trunk"]}),
            json!({"road_classes": ["motorway", "lane"]}),
            json!({"road_classes": ["Motorway"]}),
            json!({"road_classes": [0, "trunk"]}),
            json!({"road_classes": "motorway"}),
            json!({"road_classes": 1}),
            json!({"road_classes": null}),
            json!({"road_classes": {"0": 1}}),
            json!({"road_classes": [[0]]}),
            json!(5),
            json!([{"road_classes": [0]}]),
        ] {
            v.push(FCase { family: "road_class_query".into(), nested: false, cfg: Cfg::RoadClass { lookup: lookup.clone(), mapping: m.clone() }, query: q, cut: None, nedges: 8, nprev: 1 });
        }
    }
    // class ids that differ by a multiple of 64 (and of 8, 16, 32): allowed sets with exactly one member of each family,
    // numeric and through the mapping
    let alias_lookup: Vec<u8> = vec![7, 71, 135, 199, 0, 64, 128, 192, 63, 127, 191, 255, 7, 71, 39, 15, 23];
    let alias_mapping: Vec<(String, u8)> = {
        let mut u = alias_lookup.clone();
        u.sort();
        u.dedup();
        u.iter().map(|c| (format!("class_{}", c), *c)).collect()
    };
    for m in [vec![], alias_mapping.clone()] {
        let mut sets: Vec<Vec<u8>> = alias_mapping.iter().map(|(_, c)| vec![*c]).collect();
        sets.extend([vec![7, 64, 127], vec![71, 0, 255], vec![135, 192, 63], vec![199, 128, 191], vec![7, 71], vec![0, 64, 128, 192], vec![1, 65, 200]]);
        for set in sets {
            v.push(FCase { family: "road_class_aliasing".into(), nested: false, cfg: Cfg::RoadClass { lookup: alias_lookup.clone(), mapping: m.clone() },
                           query: json!({"road_classes": set}), cut: None, nedges: alias_lookup.len(), nprev: 0 });
            if !m.is_empty() && set.iter().all(|c| alias_lookup.contains(c)) {
                v.push(FCase { family: "road_class_aliasing".into(), nested: false, cfg: Cfg::RoadClass { lookup: alias_lookup.clone(), mapping: m.clone() },
                               query: json!({"road_classes": set.iter().map(|c| format!("class_{}", c)).collect::<Vec<_>>()}), cut: None, nedges: alias_lookup.len(), nprev: 0 });
            }
        }
    }
    // inside a combined model and under an edge cut
    v.push(FCase { family: "road_class_aliasing".into(), nested: false,
                   cfg: Cfg::Combined(vec![Cfg::Turn { pairs: vec![(0, 1)] }, Cfg::RoadClass { lookup: alias_lookup.clone(), mapping: alias_mapping.clone() }]),
                   query: json!({"road_classes": ["class_71", "class_0"]}), cut: Some(vec![4]), nedges: alias_lookup.len(), nprev: 1 });
    // (4b) the two tables read by header name, in every file layout: column order permuted, unrelated columns before /
    // between / after the named ones (seeded/C04-11: a positional reader swaps prev and next)
    let tp = [(0usize, 1usize), (2, 0), (1, 3), (3, 3)];
    for kind in LAYOUT_KINDS {
        v.push(FCase { family: "turn_file_layouts".into(), nested: false, cfg: turn_with_layout(&tp, kind), query: json!({}), cut: None, nedges: 4, nprev: 4 });
    }
    v.push(FCase { family: "turn_file_layouts".into(), nested: false,
                   cfg: Cfg::Combined(vec![Cfg::RoadClass { lookup: vec![0, 0, 1, 0], mapping: vec![] }, turn_with_layout(&tp, "permX_extras1")]),
                   query: json!({"road_classes": [0]}), cut: Some(vec![3]), nedges: 4, nprev: 4 });
    {
        let veh = Vehicle { height: (4.0, 0), width: (2.5, 0), total_length: (20.0, 0), trailer_length: (13.5, 0), total_weight: (36.0, 1), axles: 5 };
        let vr = vec![
            (1usize, "maximum_height".to_string(), 13.0, "feet".to_string()),
            (2, "maximum_total_weight".to_string(), 80000.0, "pounds".to_string()),
            (3, "maximum_total_weight".to_string(), 30000.0, "kg".to_string()),
            (0, "maximum_width".to_string(), 2.0, "meters".to_string()),
            (4, "maximum_weight_per_axle".to_string(), 7.5, "tons".to_string()),
        ];
        for kind in ["canonical", "permX_extras0", "permX_extras1", "permX_extras2", "permX_extras3", "permX_extras4"] {
            v.push(FCase { family: "vehicle_file_layouts".into(), nested: false, cfg: vehicle_with_layout(&vr, kind),
                           query: json!({"vehicle_parameters": veh.query()}), cut: None, nedges: 6, nprev: 0 });
        }
    }
    // (4c) exactly at the limit, one float below, one float above, vehicle and restriction in the SAME unit (the conversion
    // is the identity, so the comparison is exact): the vehicle does not exceed a limit it equals
    for k in 0..6 {
        let nunits = if KINDS[k].2 { 3 } else { 5 };
        for u in 0..nunits {
            for value in [36.0f64, 0.1, 13.5] {
                let mut veh = Vehicle { height: (4.0, 0), width: (2.5, 0), total_length: (20.0, 0), trailer_length: (13.5, 0), total_weight: (36.0, 1), axles: 1 };
                match KINDS[k].1 {
                    "height" => veh.height = (value, u),
                    "width" => veh.width = (value, u),
                    "total_length" => veh.total_length = (value, u),
                    "trailer_length" => veh.trailer_length = (value, u),
                    _ => veh.total_weight = (value, u),
                }
                let unit = if KINDS[k].2 { WEIGHT_UNITS[u].0 } else { DIST_UNITS[u].0 };
                let below = f64::from_bits(value.to_bits() - 1);
                let above = f64::from_bits(value.to_bits() + 1);
                let rows = vec![
                    (0usize, KINDS[k].0.to_string(), value, unit.to_string()),
                    (1, KINDS[k].0.to_string(), below, unit.to_string()),
                    (2, KINDS[k].0.to_string(), above, unit.to_string()),
                ];
                v.push(FCase { family: "at_the_limit".into(), nested: false, cfg: Cfg::Vehicle { rows }, query: json!({"vehicle_parameters": veh.query()}), cut: None, nedges: 3, nprev: 0 });
            }
        }
    }
    // the class table is shorter than the edge list
    v.push(FCase { family: "road_class_table_short".into(), nested: false, cfg: Cfg::RoadClass { lookup: vec![0, 1, 0], mapping: vec![] }, query: json!({"road_classes": [0]}), cut: None, nedges: 5, nprev: 0 });
    v.push(FCase { family: "road_class_table_short".into(), nested: false, cfg: Cfg::RoadClass { lookup: vec![0, 1, 0], mapping: vec![] }, query: json!({}), cut: None, nedges: 5, nprev: 0 });
    // (5) turn restrictions: every (prev, edge)
    v.push(FCase { family: "turn_pairs".into(), nested: false, cfg: Cfg::Turn { pairs: vec![(0, 1), (1, 0), (2, 2), (3, 0), (0, 1)] }, query: json!({}), cut: None, nedges: 4, nprev: 4 });
    v.push(FCase { family: "turn_pairs".into(), nested: false, cfg: Cfg::Turn { pairs: vec![] }, query: json!({}), cut: None, nedges: 3, nprev: 3 });
    // (6) combined: 0..4 inner models, early false, an error after a false, nesting
    let rc = Cfg::RoadClass { lookup: vec![0, 1, 0, 1, 2, 2], mapping: mapping.clone() };
    let rc_short = Cfg::RoadClass { lookup: vec![0, 1], mapping: vec![] };
    let veh_cfg = Cfg::Vehicle { rows: rows.clone() };
    let turn = Cfg::Turn { pairs: vec![(0, 1), (1, 2), (5, 0)] };
    let q_all = json!({"road_classes": [0, 2], "vehicle_parameters": base.clone()});
    let combos: Vec<(&str, Vec<Cfg>, Value)> = vec![
        ("combined_empty", vec![], json!({})),
        ("combined_1", vec![rc.clone()], q_all.clone()),
        ("combined_2", vec![rc.clone(), turn.clone()], q_all.clone()),
        ("combined_2", vec![turn.clone(), rc.clone()], q_all.clone()),
        ("combined_3", vec![rc.clone(), veh_cfg.clone(), turn.clone()], q_all.clone()),
        ("combined_4", vec![Cfg::None, turn.clone(), veh_cfg.clone(), rc.clone()], q_all.clone()),
        ("combined_4", vec![rc.clone(), rc.clone(), turn.clone(), turn.clone()], json!({"road_classes": ["trunk"]})),
        // the first model refuses edges 2.. (class 0 only at 0), the second fails on them (table too short)
        ("combined_false_before_error", vec![Cfg::Turn { pairs: vec![(0, 2), (0, 3)] }, rc_short.clone()], json!({"road_classes": [1]})),
        ("combined_error_before_false", vec![rc_short.clone(), Cfg::Turn { pairs: vec![(0, 2), (0, 3)] }], json!({"road_classes": [1]})),
        ("combined_inner_build_error", vec![turn.clone(), veh_cfg.clone()], json!({"road_classes": [0]})),
        ("combined_inner_build_error", vec![rc.clone(), turn.clone()], json!({"road_classes": ["lane"]})),
    ];
    for (fam, inner, q) in combos {
        for nested in [false, true] {
            v.push(FCase { family: fam.into(), nested, cfg: Cfg::Combined(inner.clone()), query: q.clone(), cut: None, nedges: 6, nprev: 2 });
        }
    }
    for nested in [false, true] {
        v.push(FCase {
            family: "combined_nested".into(),
            nested,
            cfg: Cfg::Combined(vec![turn.clone(), Cfg::Combined(vec![rc.clone(), Cfg::Combined(vec![veh_cfg.clone()])])]),
            query: q_all.clone(),
            cut: None,
            nedges: 6,
            nprev: 2,
        });
    }
    // (7) edge cut over each model
    for (c, q) in [(Cfg::None, json!({})), (rc.clone(), q_all.clone()), (turn.clone(), json!({})), (Cfg::Combined(vec![rc.clone(), turn.clone()]), q_all.clone())] {
        for cut in [vec![], vec![0], vec![1, 4, 4], vec![0, 1, 2, 3, 4, 5]] {
            v.push(FCase { family: "edge_cut".into(), nested: false, cfg: c.clone(), query: q.clone(), cut: Some(cut), nedges: 6, nprev: 2 });
        }
    }
    // cut edge on an edge whose underlying model would fail
    v.push(FCase { family: "edge_cut".into(), nested: false, cfg: rc_short.clone(), query: json!({"road_classes": [0]}), cut: Some(vec![3]), nedges: 5, nprev: 0 });
    v
}

fn random_fcase(r: &mut Rng) -> FCase {
    let nedges = 2 + r.below(9) as usize;
    let veh = gen_vehicle(r);
    let mut query = serde_json::Map::new();
    let shape = r.below(10);
    let (cfg, nested) = match shape {
        0..=3 => (gen_leaf(r, nedges, &veh, &mut query), false),
        4..=7 => {
            let n = 2 + r.below(3) as usize;
            (Cfg::Combined((0..n).map(|_| gen_leaf(r, nedges, &veh, &mut query)).collect()), r.chance(1, 3))
        }
        _ => {
            let n = 1 + r.below(2) as usize;
            let mut inner: Vec<Cfg> = (0..n).map(|_| gen_leaf(r, nedges, &veh, &mut query)).collect();
            let n2 = 1 + r.below(3) as usize;
            inner.push(Cfg::Combined((0..n2).map(|_| gen_leaf(r, nedges, &veh, &mut query)).collect()));
            (Cfg::Combined(inner), r.chance(4, 5))
        }
    };
    // occasionally damage the query
    if r.chance(1, 12) {
        if let Some(vp) = query.get_mut("vehicle_parameters") {
            let f = *r.pick(&["height", "width", "total_length", "trailer_length", "total_weight", "number_of_axles"]);
            match r.below(3) {
                0 => {
                    vp.as_object_mut().unwrap().remove(f);
                }
                1 => vp[f] = json!([1.0, "furlongs"]),
                _ => vp[f] = json!(r.below(300)),
            }
        }
    }
    let cut = if r.chance(1, 4) { Some((0..r.below(4)).map(|_| r.below(nedges as u64) as usize).collect()) } else { None };
    let nprev = if has_kind(&cfg, "turn") { nedges } else { r.below(2) as usize };
    FCase { family: "random".into(), nested, cfg, query: Value::Object(query), cut, nedges, nprev }
}

const FHEADER: &str = "From Coq Require Import ZArith List String Floats.\nFrom RC Require Import Base.Show Base.Num Base.Json Model.Units Model.Frontier Model.FrontierRun.\nImport ListNotations Frontier FrontierRun.\nOpen Scope nat_scope.";

fn stream_frontier(a: &Args) {
    let mut st = Stream::new(&a.out, "frontier", FHEADER, a.shards);
    let dir = a.out.join("files");
    if let Some(p) = &a.replay {
        st.full = true;
        let v: Value = serde_json::from_str(&std::fs::read_to_string(p).unwrap()).unwrap();
        let c = &v["case"];
        let fc = FCase {
            family: "replay".into(),
            nested: c["nested"].as_bool().unwrap(),
            cfg: cfg_from_json(&c["cfg"]),
            query: dec(&c["query"]),
            cut: serde_json::from_value(c["cut"].clone()).unwrap(),
            nedges: c["nedges"].as_u64().unwrap() as usize,
            nprev: c["nprev"].as_u64().unwrap() as usize,
        };
        let prior: Vec<Value> = c.get("prior").and_then(|x| x.as_array()).map(|a| a.iter().map(dec).collect()).unwrap_or_default();
        add_fcase_seq(&mut st, &fc, &prior, &dir);
        st.finish();
        return;
    }
    for (_, fc, prior) in frontier_witnesses() {
        add_fcase_seq(&mut st, &fc, &prior, &dir);
    }
    for fc in boundary_fcases() {
        add_fcase(&mut st, &fc, &dir);
    }
    for (family, shape, queries) in sequence_families() {
        add_sequence(&mut st, &family, &shape, &queries, &dir, usize::MAX);
    }
    let mut rng = Rng::new(a.seed);
    while st.next_id() < a.n {
        let mut r = rng.fork();
        let fc = random_fcase(&mut r);
        if r.chance(1, 5) && (has_kind(&fc.cfg, "vehicle") || has_kind(&fc.cfg, "road_class")) {
            // 2-4 queries in a row on one service: the generated query and variations of it
            let mut queries = vec![fc.query.clone()];
            for _ in 0..1 + r.below(3) {
                let last = queries.last().unwrap().clone();
                let from_last = r.chance(2, 3);
                queries.push(vary_query(&mut r, if from_last { &last } else { &fc.query }));
            }
            if r.chance(1, 2) {
                queries.reverse();
            }
            add_sequence(&mut st, "random_sequence", &fc, &queries, &dir, a.n);
        } else {
            add_fcase(&mut st, &fc, &dir);
        }
    }
    let _ = std::fs::remove_dir_all(&dir);
    st.finish();
}


// ================================================================================================ SEARCH
// stream `search`: searches of the real core code (SearchAlgorithm::{Dijkstra, AStarAlgorithm, KspSingleVia}
// .run_vertex_oriented / run_edge_oriented, forward and reverse) on searchkit worlds whose FrontierModel is
// the REAL one (built as in the `frontier` stream: builders + service.build(query) [+ EdgeCutFrontierModel]).
//   I = searchkit::show_outcome,  M = Model/Search.v run with the Model/Frontier.v frontier (FrontierRun.search_M),
//   S = FrontierRun.search_S: raw-table checker on the implementation's trees and routes.
use verif_harness::searchkit::*;

const DETAIL: u8 = 0;
const WATCHDOG_MS: u64 = 4000;
/// Yen's k >= 2 often never returns (its own known defect, C13/C12): such runs are skipped and counted
const YENS_WATCHDOG_MS: u64 = 1200;
const MAX_YENS_HANGS: usize = 5;

#[derive(Clone)]
struct SCase {
    family: String,
    w: World,
    q: Query,
    nested: bool,
    cfg: Cfg,
    query: Value,
    cut: Option<Vec<usize>>,
    /// Some(k): run SearchAlgorithm::KspSingleVia { k, underlying = q.alg } instead of q.alg (no model line)
    ksp: Option<usize>,
    /// with ksp = Some(k): SearchAlgorithm::Yens { k, underlying = q.alg } instead of KspSingleVia
    yens: bool,
}

fn run_real(sc: &SCase, dir: &Path) -> Outcome {
    let sc2 = sc.clone();
    let d = dir.to_path_buf();
    let (tx, rx) = std::sync::mpsc::channel();
    std::thread::spawn(move || {
        let sc3 = sc2.clone();
        let o = catch(move || {
            let m = match build_real_model(&sc3.cfg, sc3.nested, &sc3.query, &sc3.cut, &d) {
                Ok(m) => m,
                Err(_) => return Outcome::status_only("err:build"),
            };
            let mut si = build_instance(&sc3.w);
            si.frontier_model = m;
            match sc3.ksp {
                None => run_on_instance(&si, &sc3.q),
                Some(k) => {
                    use routee_compass_core::algorithm::search::search_algorithm::SearchAlgorithm;
                    use routee_compass_core::model::network::VertexId;
                    let alg = if sc3.yens {
                        SearchAlgorithm::Yens { k, underlying: Box::new(search_algorithm(&sc3.q.alg)), similarity: None, termination: None }
                    } else {
                        SearchAlgorithm::KspSingleVia { k, underlying: Box::new(search_algorithm(&sc3.q.alg)), similarity: None, termination: None }
                    };
                    let r = alg.run_vertex_oriented(VertexId(sc3.q.source), sc3.q.target.map(VertexId), &query_json(&sc3.q), &direction(sc3.q.dir), &si);
                    outcome_of(r)
                }
            }
        })
        .unwrap_or_else(|_| Outcome::status_only("Panic"));
        let _ = tx.send(o);
    });
    match rx.recv_timeout(std::time::Duration::from_millis(if sc.yens { YENS_WATCHDOG_MS } else { WATCHDOG_MS })) {
        Ok(o) => o,
        Err(_) => Outcome::status_only("Hang"),
    }
}

fn scase_to_json(sc: &SCase) -> Value {
    json!({"family": sc.family, "world": world_to_json(&sc.w), "query": query_to_json(&sc.q), "nested": sc.nested,
           "cfg": cfg_to_json(&sc.cfg), "fquery": enc(&sc.query), "cut": sc.cut, "ksp": sc.ksp, "yens": sc.yens})
}
fn scase_from_json(c: &Value) -> SCase {
    SCase {
        family: c["family"].as_str().unwrap_or("replay").to_string(),
        w: world_from_json(&c["world"]),
        q: query_from_json(&c["query"]),
        nested: c["nested"].as_bool().unwrap_or(false),
        cfg: cfg_from_json(&c["cfg"]),
        query: dec(&c["fquery"]),
        cut: serde_json::from_value(c["cut"].clone()).unwrap_or(None),
        ksp: c["ksp"].as_u64().map(|k| k as usize),
        yens: c["yens"].as_bool().unwrap_or(false),
    }
}

fn add_scase(st: &mut Stream, sc: &SCase, dir: &Path) -> String {
    let id = st.next_id();
    let d = dir.join(format!("s{}", id));
    let o = run_real(sc, &d);
    let _ = std::fs::remove_dir_all(&d);
    let k = NumKind::F;
    let fr = format!(
        "{} {} {} {}",
        coq_bool(sc.nested),
        coq_cfg(&sc.cfg),
        coq_json(&sc.query),
        coq_opt(&sc.cut, |es| coq_list(es, |e| e.to_string()))
    );
    let fuel = default_fuel(&sc.w);
    let mut terms = vec![];
    if sc.ksp.is_none() {
        terms.push(format!("search_M {} {}%Z {} {} {} {}", fuel, id, fr, coq_world(&sc.w, k), coq_query(&sc.q, k), DETAIL));
    }
    terms.push(format!("search_S {} {}%Z {} {} {} {} {} {}", fuel, id, fr, (if sc.ksp.is_none() { 0 } else if sc.yens { 2 } else { 1 }), coq_world(&sc.w, k), coq_query(&sc.q, k), coq_outcome(&o, k), DETAIL));
    let line = format!("I {} {}", id, show_outcome(&o, DETAIL));
    let mut desc = scase_to_json(sc);
    desc["id"] = json!(id);
    desc["impl_short"] = json!(show_outcome(&o, 0).chars().take(200).collect::<String>());
    st.count(&format!("family:{}", sc.family));
    st.count(&format!("status:{}", o.status));
    st.count(&format!("orient:{:?}", sc.q.orient));
    st.count(&format!("dir:{:?}", sc.q.dir));
    st.count(&format!("alg:{}", match (sc.ksp, sc.q.alg) { (Some(_), _) if sc.yens => "yens".to_string(), (Some(_), _) => "ksp_single_via".to_string(), (None, Alg::Dijkstra) => "dijkstra".to_string(), (None, Alg::AStar(None)) => "astar(default)".to_string(), (None, Alg::AStar(Some(x))) => format!("astar({})", x) }));
    st.count(&format!("top:{}", cfg_kind(&sc.cfg)));
    for kd in ["road_class", "vehicle", "turn", "combined"] {
        if has_kind(&sc.cfg, kd) {
            st.count(&format!("has:{}", kd));
        }
    }
    if sc.cut.is_some() {
        st.count("edge_cut");
    }
    count_layouts(st, &sc.cfg);
    let rl = o.routes.iter().map(|r| r.len()).max().unwrap_or(0);
    st.count(&format!("route_edges:{}", if rl > 6 { "7+".to_string() } else { rl.to_string() }));
    let ts = o.trees.iter().map(|t| t.len()).max().unwrap_or(0);
    st.count(&format!("tree_size:{}", (ts + 3) / 4 * 4));
    // how much the real frontier model refuses on this world (edge level)
    let refused = refused_edges(sc, dir);
    st.count(&format!("refused_edges_pct:{}", if sc.w.edges.is_empty() { 0 } else { (refused * 100 / sc.w.edges.len() + 9) / 10 * 10 }));
    // non-trivial: the frontier model refuses at least one edge or turn of this world and the search returns a tree
    // of >= 3 entries or a route of >= 2 edges, or reports no path
    if (refused > 0 || has_kind(&sc.cfg, "turn")) && (rl >= 2 || ts >= 3 || o.status == "nopath") {
        st.mark_nontrivial(&scase_to_json(sc).to_string());
    }
    if sc.yens {
        st.count(&format!("yens_status:{}", o.status));
        st.count(&format!("yens_routes:{}", o.routes.len().min(6)));
    }
    st.case(terms, vec![line], desc);
    o.status.clone()
}

fn refused_edges(sc: &SCase, dir: &Path) -> usize {
    let d = dir.join("probe");
    let r = catch({
        let sc = sc.clone();
        let d = d.clone();
        move || match build_real_model(&sc.cfg, sc.nested, &sc.query, &sc.cut, &d) {
            Err(_) => 0,
            Ok(m) => impl_grid(&m, sc.w.edges.len(), 0).matches('F').count(),
        }
    })
    .unwrap_or(0);
    let _ = std::fs::remove_dir_all(&d);
    r
}

/// the D-REOPEN network (DESIGN.md section 5) with the real TurnRestrictionFrontierModel
fn reopen_witness() -> SCase {
    let mut w = World::new(5, vec![(0, 1), (0, 2), (2, 1), (1, 3), (3, 4)], vec![10.0, 1.0, 1.0, 1.0, 1000000.0]);
    w.h = vec![0.0, 0.0, 50.0, 0.0, 0.0];
    SCase {
        family: "corpus_K_reopen".into(),
        w,
        q: Query { alg: Alg::AStar(Some(1.0)), dir: Dir::Forward, orient: Orient::Vertex, source: 0, target: Some(4), query_wf: None },
        nested: false,
        cfg: Cfg::Turn { pairs: vec![(2, 3)] },
        query: json!({}),
        cut: None,
        ksp: None,
        yens: false,
    }
}

/// a real frontier configuration for world `w`: about a quarter of the edges refused by class / restriction / cut,
/// restricted turns among adjacent pairs; returns (cfg, nested, query, cut)
fn gen_real_frontier(r: &mut Rng, w: &World) -> (Cfg, bool, Value, Option<Vec<usize>>) {
    let m = w.edges.len().max(1);
    let veh = gen_vehicle(r);
    let mut query = serde_json::Map::new();
    let mut leaves: Vec<Cfg> = vec![];
    let want_rc = r.chance(1, 2);
    let want_veh = r.chance(1, 2);
    let want_turn = r.chance(1, 2);
    if want_rc {
        // the common class is `universe[0]`, the others rarer; the query allows a subset that contains the common class most
        // of the time.  Half of the tables use ids from the full u8 range with members that differ by multiples of 64.
        let universe: Vec<u8> = if r.chance(1, 2) { wide_class_universe(r) } else { (0..2 + r.below(4) as u8).collect() };
        let common = universe[0];
        let lookup: Vec<u8> = (0..m).map(|_| if r.chance(2, 3) { common } else { *r.pick(&universe) }).collect();
        let with_mapping = r.chance(1, 2);
        let mapping: Vec<(String, u8)> = if with_mapping { universe.iter().map(|c| (class_name(*c), *c)).collect() } else { vec![] };
        let allowed: Vec<u8> = universe.iter().copied().filter(|c| if *c == common { r.chance(9, 10) } else { r.chance(1, 3) }).collect();
        if !r.chance(1, 10) {
            if with_mapping && r.chance(1, 2) {
                query.insert("road_classes".into(), json!(allowed.iter().map(|c| class_name(*c)).collect::<Vec<_>>()));
            } else {
                query.insert("road_classes".into(), json!(allowed));
            }
        }
        leaves.push(Cfg::RoadClass { lookup, mapping });
    }
    if want_veh {
        query.insert("vehicle_parameters".into(), veh.query());
        let nrows = 1 + r.below(m as u64) as usize;
        // limits mostly above the vehicle's quantity, so that most restricted edges stay usable
        let rows = (0..nrows)
            .map(|_| {
                let e = r.below(m as u64) as usize;
                let k = r.below(6) as usize;
                let ru = if KINDS[k].2 { r.below(3) as usize } else { r.below(5) as usize };
                let unit = if KINDS[k].2 { WEIGHT_UNITS[ru].0 } else { DIST_UNITS[ru].0 };
                let f = match r.below(6) {
                    0 => 1.0 - EPS20,
                    1 => 1.0 + EPS20,
                    2 => 0.7,
                    _ => 1.0 + r.unit_f64(),
                };
                (e, KINDS[k].0.to_string(), veh.converted(k, ru) * f, unit.to_string())
            })
            .collect();
        leaves.push(Cfg::Vehicle { rows });
    }
    if want_turn {
        let pct = 5 + r.below(40);
        let mut pairs = vec![];
        for a in 0..w.edges.len() {
            for b in 0..w.edges.len() {
                if w.edges[a].1 == w.edges[b].0 && r.below(100) < pct {
                    // the reverse search presents the pair the other way round
                    if r.chance(1, 2) {
                        pairs.push((a, b));
                    } else {
                        pairs.push((b, a));
                    }
                }
            }
        }
        pairs.truncate(80);
        leaves.push(Cfg::Turn { pairs });
    }
    if r.chance(1, 8) {
        leaves.push(Cfg::None);
    }
    r.shuffle(&mut leaves);
    let (cfg, nested) = match leaves.len() {
        0 => (Cfg::None, false),
        1 if r.chance(2, 3) => (leaves.pop().unwrap(), false),
        n if n >= 3 && r.chance(1, 4) => {
            let last = leaves.split_off(1);
            (Cfg::Combined(vec![leaves.pop().unwrap(), Cfg::Combined(last)]), true)
        }
        _ => (Cfg::Combined(leaves), r.chance(1, 4)),
    };
    let cut = if r.chance(1, 4) { Some((0..1 + r.below(3)).map(|_| r.below(m as u64) as usize).collect()) } else { None };
    (cfg, nested, Value::Object(query), cut)
}

/// one witness per known-finding class of property C04 (written to corpus/C04/ by `c04 corpus`, replayed first by the check)
fn finding_witnesses() -> Vec<(&'static str, SCase)> {
    let chain = World::new(5, vec![(0, 1), (1, 2), (2, 3), (3, 4)], vec![1.0, 1.0, 1.0, 1.0]);
    let diamond = World::new(4, vec![(0, 1), (1, 3), (0, 2), (2, 3)], vec![1.0, 1.0, 2.0, 2.0]);
    let q = |orient: Orient, dir: Dir, s: usize, t: usize| Query { alg: Alg::Dijkstra, dir, orient, source: s, target: Some(t), query_wf: None };
    vec![
        ("K_reopen", reopen_witness()),
        // the origin edge e0 has class 1, the query allows class 0 only
        ("K_query_edges", SCase { family: "corpus_K_query_edges".into(), w: chain.clone(), q: q(Orient::Edge, Dir::Forward, 0, 3), nested: false,
                                  cfg: Cfg::RoadClass { lookup: vec![1, 0, 0, 0], mapping: vec![] }, query: json!({"road_classes": [0]}), cut: None, ksp: None, yens: false }),
        // restricted turn e1 -> e2; the reverse search from 4 to 0 drives it
        ("K_reverse_turn", SCase { family: "corpus_K_reverse_turn".into(), w: chain.clone(), q: q(Orient::Vertex, Dir::Reverse, 4, 0), nested: false,
                                   cfg: Cfg::Turn { pairs: vec![(1, 2)] }, query: json!({}), cut: None, ksp: None, yens: false }),
        // restricted turn e2 -> e3; the second single-via route is that turn
        ("K_ksp_turn", SCase { family: "corpus_K_ksp_turn".into(), w: diamond, q: q(Orient::Vertex, Dir::Forward, 0, 3), nested: false,
                               cfg: Cfg::Turn { pairs: vec![(2, 3)] }, query: json!({}), cut: None, ksp: Some(3), yens: false }),
    ]
}

/// regression witnesses (pass on the unchanged tree): shrunk inputs of seeded changes the check once missed
fn regression_witnesses() -> Vec<(&'static str, SCase)> {
    // seeded/C04-7: e0 0>1 (class 7), e1 1>3 (class 71), e2 1>2 (class 7, 5.0), e3 2>3 (class 7, 5.0)
    let w = World::new(4, vec![(0, 1), (1, 3), (1, 2), (2, 3)], vec![1.0, 1.0, 5.0, 5.0]);
    let q = Query { alg: Alg::Dijkstra, dir: Dir::Forward, orient: Orient::Vertex, source: 0, target: Some(3), query_wf: None };
    let rc = Cfg::RoadClass { lookup: vec![7, 71, 7, 7], mapping: vec![("seven".into(), 7), ("seventy_one".into(), 71)] };
    vec![
        ("seed_C04-7_class_7_not_71", SCase { family: "corpus_class_alias".into(), w: w.clone(), q: q.clone(), nested: false, cfg: rc.clone(),
                                             query: json!({"road_classes": [7]}), cut: None, ksp: None, yens: false }),
        // seeded/C04-11: the turn e0 -> e1 is restricted, the file's header is next_edge_id,prev_edge_id
        ("seed_C04-11_route_avoids_turn", SCase { family: "corpus_turn_file_layout".into(), w: w.clone(), q: q.clone(), nested: false,
                                                 cfg: turn_with_layout(&[(0, 1)], "permX_extras0"), query: json!({}), cut: None, ksp: None, yens: false }),
        ("seed_C04-7_class_71_not_7", SCase { family: "corpus_class_alias".into(), w: w.clone(), q: Query { target: None, ..q.clone() }, nested: false, cfg: rc.clone(),
                                             query: json!({"road_classes": ["seventy_one"]}), cut: None, ksp: None, yens: false }),
    ]
}

/// sequences of queries on ONE service instance (an application keeps its frontier service for all its queries):
/// (family, configuration with its shape, the queries in order).  Every query of a sequence becomes one case whose `prior`
/// is the queries before it.
fn sequence_families() -> Vec<(String, FCase, Vec<Value>)> {
    let mut out = vec![];
    // a 3.5 m bridge, a 10 t bridge, a 30 ft limit, a 100 in width limit, a 0.01 mile trailer limit, 3 t per axle
    let rows = vec![
        (0usize, "maximum_height".to_string(), 3.5, "meters".to_string()),
        (1, "maximum_total_weight".to_string(), 10.0, "tons".to_string()),
        (2, "maximum_length".to_string(), 30.0, "feet".to_string()),
        (3, "maximum_width".to_string(), 100.0, "inches".to_string()),
        (4, "maximum_trailer_length".to_string(), 0.01, "miles".to_string()),
        (5, "maximum_weight_per_axle".to_string(), 3.0, "tons".to_string()),
    ];
    let shape = |cfg: Cfg| FCase { family: String::new(), nested: false, cfg, query: json!({}), cut: None, nedges: 7, nprev: 0 };
    // the same six numbers in small units and in large units
    let small = Vehicle { height: (4.0, 4), width: (2.5, 4), total_length: (20.0, 4), trailer_length: (13.0, 4), total_weight: (9.0, 0), axles: 2 };
    let large = Vehicle { height: (4.0, 0), width: (2.5, 0), total_length: (20.0, 0), trailer_length: (13.0, 0), total_weight: (9.0, 1), axles: 2 };
    let mixed = Vehicle { height: (4.0, 0), width: (2.5, 4), total_length: (20.0, 0), trailer_length: (13.0, 4), total_weight: (9.0, 2), axles: 2 };
    let vq = |v: &Vehicle| json!({"vehicle_parameters": v.query()});
    let veh_cfg = Cfg::Vehicle { rows: rows.clone() };
    for (name, seq) in [
        ("smaller_first", vec![vq(&small), vq(&large)]),
        ("larger_first", vec![vq(&large), vq(&small)]),
        ("alternating", vec![vq(&small), vq(&large), vq(&mixed), vq(&small)]),
        ("repeated", vec![vq(&large), vq(&large), vq(&small)]),
    ] {
        out.push((format!("sequence_same_numbers_other_units_{}", name), shape(veh_cfg.clone()), seq.clone()));
        out.push((format!("sequence_same_numbers_other_units_{}", name),
                  shape(Cfg::Combined(vec![Cfg::Turn { pairs: vec![(0, 1)] }, veh_cfg.clone()])), seq));
    }
    // different vehicles: a van and a truck
    let van = Vehicle { height: (2.5, 0), width: (2.0, 0), total_length: (6.0, 0), trailer_length: (1.0, 0), total_weight: (3.5, 1), axles: 2 };
    let truck = Vehicle { height: (4.5, 0), width: (2.6, 0), total_length: (18.0, 0), trailer_length: (17.0, 0), total_weight: (40.0, 1), axles: 5 };
    for (name, seq) in [
        ("van_then_truck", vec![vq(&van), vq(&truck)]),
        ("truck_then_van", vec![vq(&truck), vq(&van)]),
        ("van_truck_van_truck", vec![vq(&van), vq(&truck), vq(&van), vq(&truck)]),
    ] {
        out.push((format!("sequence_different_vehicles_{}", name), shape(veh_cfg.clone()), seq.clone()));
        out.push((format!("sequence_different_vehicles_{}", name), FCase { cut: Some(vec![6]), ..shape(Cfg::Combined(vec![veh_cfg.clone(), Cfg::None])) }, seq));
    }
    // road classes: different allowed sets one after another, an ill-formed query in between
    let rc = Cfg::RoadClass { lookup: vec![0, 1, 2, 7, 71, 0, 1], mapping: vec![("road".into(), 0), ("path".into(), 1), ("track".into(), 2)] };
    out.push(("sequence_road_classes".into(), shape(rc.clone()),
              vec![json!({"road_classes": [0]}), json!({"road_classes": ["path", "track"]}), json!({}), json!({"road_classes": [7]}), json!({"road_classes": [0, "road"]}), json!({"road_classes": [71]})]));
    out.push(("sequence_road_classes_and_vehicles".into(), shape(Cfg::Combined(vec![rc, veh_cfg.clone()])),
              vec![json!({"road_classes": [0, 1, 2], "vehicle_parameters": van.query()}), json!({"road_classes": [0, 7, 71], "vehicle_parameters": truck.query()}),
                   json!({"road_classes": [1], "vehicle_parameters": small.query()}), json!({"vehicle_parameters": large.query()})]));
    out
}
fn add_sequence(st: &mut Stream, family: &str, shape: &FCase, queries: &[Value], dir: &Path, limit: usize) {
    for k in 0..queries.len() {
        if st.next_id() >= limit {
            break;
        }
        let fc = FCase { family: family.to_string(), query: queries[k].clone(), ..shape_clone(shape) };
        add_fcase_seq(st, &fc, &queries[..k], dir);
    }
}
fn shape_clone(fc: &FCase) -> FCase {
    FCase { family: fc.family.clone(), nested: fc.nested, cfg: fc.cfg.clone(), query: fc.query.clone(), cut: fc.cut.clone(), nedges: fc.nedges, nprev: fc.nprev }
}
/// a variation of a query for the next step of a sequence: the same numbers in other units, a scaled vehicle, another class set
fn vary_query(r: &mut Rng, q: &Value) -> Value {
    let mut q = q.clone();
    if let Some(vp) = q.get_mut("vehicle_parameters").and_then(|x| x.as_object_mut()) {
        let scale = match r.below(3) { 0 => 1.0, 1 => 0.5, _ => 2.0 };
        for f in ["height", "width", "total_length", "trailer_length", "total_weight"] {
            if let Some(arr) = vp.get_mut(f).and_then(|x| x.as_array_mut()) {
                if arr.len() == 2 {
                    if let Some(x) = arr[0].as_f64() {
                        arr[0] = json!(x * scale);
                    }
                    if r.chance(1, 2) {
                        arr[1] = json!(if f == "total_weight" { WEIGHT_UNITS[r.below(3) as usize].0 } else { DIST_UNITS[r.below(5) as usize].0 });
                    }
                }
            }
        }
        if r.chance(1, 3) {
            vp.insert("number_of_axles".into(), json!(1 + r.below(6)));
        }
    }
    if let Some(rc) = q.get_mut("road_classes").and_then(|x| x.as_array_mut()) {
        if !rc.is_empty() && r.chance(1, 2) {
            let i = r.below(rc.len() as u64) as usize;
            rc.remove(i);
        } else if rc.iter().all(|x| x.is_u64()) {
            rc.push(json!(r.below(256)));
        }
    }
    q
}

/// frontier-stream regression witnesses
fn frontier_witnesses() -> Vec<(&'static str, FCase, Vec<Value>)> {
    let veh = Vehicle { height: (4.0, 0), width: (2.5, 0), total_length: (20.0, 0), trailer_length: (13.5, 0), total_weight: (36.0, 1), axles: 1 };
    let rows = vec![
        (0usize, "maximum_total_weight".to_string(), 36.0, "tons".to_string()),
        (1, "maximum_total_weight".to_string(), f64::from_bits(36.0f64.to_bits() - 1), "tons".to_string()),
        (2, "maximum_height".to_string(), 4.0, "meters".to_string()),
        (3, "maximum_weight_per_axle".to_string(), 36.0, "tons".to_string()),
    ];
    let seq_small = Vehicle { height: (4.0, 4), width: (2.5, 4), total_length: (20.0, 4), trailer_length: (13.0, 4), total_weight: (9.0, 0), axles: 2 };
    let seq_large = Vehicle { height: (4.0, 0), width: (2.5, 0), total_length: (20.0, 0), trailer_length: (13.0, 0), total_weight: (9.0, 1), axles: 2 };
    let seq_van = Vehicle { height: (2.5, 0), width: (2.0, 0), total_length: (6.0, 0), trailer_length: (1.0, 0), total_weight: (3.5, 1), axles: 2 };
    let seq_truck = Vehicle { height: (4.5, 0), width: (2.6, 0), total_length: (18.0, 0), trailer_length: (17.0, 0), total_weight: (40.0, 1), axles: 5 };
    vec![
        // seeded/C04-11: header next_edge_id,prev_edge_id / a leading extra column
        ("seed_C04-11_turn_columns_swapped", FCase { family: "corpus_turn_file_layout".into(), nested: false, cfg: turn_with_layout(&[(0, 1), (2, 0)], "permX_extras0"),
                                                     query: json!({}), cut: None, nedges: 3, nprev: 3 }, vec![]),
        ("seed_C04-11_turn_leading_column", FCase { family: "corpus_turn_file_layout".into(), nested: false, cfg: turn_with_layout(&[(0, 1), (2, 0)], "permId_extras1"),
                                                    query: json!({}), cut: None, nedges: 3, nprev: 3 }, vec![]),
        // `<=`: a vehicle exactly at the limit is admitted
        ("at_the_limit_is_admitted", FCase { family: "corpus_at_the_limit".into(), nested: false, cfg: Cfg::Vehicle { rows }, query: json!({"vehicle_parameters": veh.query()}),
                                             cut: None, nedges: 4, nprev: 0 }, vec![]),
        // seeded/C04-13: one service, height [4.0, feet] first, then [4.0, meters] under a 3.5 m bridge (edge 0)
        ("seed_C04-13_same_numbers_other_units", FCase { family: "corpus_sequence".into(), nested: false,
            cfg: Cfg::Vehicle { rows: vec![(0, "maximum_height".to_string(), 3.5, "meters".to_string()), (1, "maximum_total_weight".to_string(), 10.0, "tons".to_string())] },
            query: json!({"vehicle_parameters": seq_large.query()}), cut: None, nedges: 3, nprev: 0 }, vec![json!({"vehicle_parameters": seq_small.query()})]),
        // seeded/C05-14: one service, a 2.5 m van first, then a 4.5 m truck under a 4 m bridge; and the other way round
        ("seed_C05-14_van_then_truck", FCase { family: "corpus_sequence".into(), nested: false,
            cfg: Cfg::Vehicle { rows: vec![(0, "maximum_height".to_string(), 4.0, "meters".to_string())] },
            query: json!({"vehicle_parameters": seq_truck.query()}), cut: None, nedges: 2, nprev: 0 }, vec![json!({"vehicle_parameters": seq_van.query()})]),
        ("seed_C05-14_truck_then_van", FCase { family: "corpus_sequence".into(), nested: false,
            cfg: Cfg::Vehicle { rows: vec![(0, "maximum_height".to_string(), 4.0, "meters".to_string())] },
            query: json!({"vehicle_parameters": seq_van.query()}), cut: None, nedges: 2, nprev: 0 }, vec![json!({"vehicle_parameters": seq_truck.query()})]),
    ]
}

fn write_corpus(a: &Args) {
    std::fs::create_dir_all(&a.out).unwrap();
    for (name, fc, prior) in frontier_witnesses() {
        let desc = json!({"id": 0, "family": fc.family, "nested": fc.nested, "cfg": cfg_to_json(&fc.cfg), "query": enc(&fc.query),
                          "cut": fc.cut, "nedges": fc.nedges, "nprev": fc.nprev, "prior": prior.iter().map(enc).collect::<Vec<_>>()});
        let v = json!({"stream": "frontier", "finding": name, "case": desc});
        std::fs::write(a.out.join(format!("{}.json", name)), serde_json::to_string_pretty(&v).unwrap() + "\n").unwrap();
    }
    for (name, sc) in finding_witnesses().into_iter().chain(regression_witnesses()) {
        let mut desc = scase_to_json(&sc);
        desc["id"] = json!(0);
        let v = json!({"stream": "search", "finding": name, "case": desc});
        std::fs::write(a.out.join(format!("{}.json", name)), serde_json::to_string_pretty(&v).unwrap() + "\n").unwrap();
    }
}

/// the network of seeded/C04-6: edge e6 is first validated after the allowed turn p1 -> e6 and is reached in a later
/// spur search after the restricted turn p2 -> e6;  a0 0>1, b1 1>2, c2 2>3, d3 3>4, p1=4 1>5 (3), p2=5 2>5, e6 5>4, f7 5>4 (5)
fn yens_shared_verdict_cases() -> Vec<SCase> {
    let w = World::new(6, vec![(0, 1), (1, 2), (2, 3), (3, 4), (1, 5), (2, 5), (5, 4), (5, 4)], vec![1.0, 1.0, 1.0, 1.0, 3.0, 1.0, 1.0, 5.0]);
    let turn = Cfg::Turn { pairs: vec![(5, 6)] };
    let rc = Cfg::RoadClass { lookup: vec![1, 1, 1, 1, 2, 2, 2, 3], mapping: vec![] };
    let veh = Vehicle { height: (4.0, 0), width: (2.5, 0), total_length: (20.0, 0), trailer_length: (13.5, 0), total_weight: (36.0, 1), axles: 5 };
    let vehc = Cfg::Vehicle { rows: vec![(7, "maximum_height".into(), 15.0, "feet".into())] };
    let mut v = vec![];
    for alg in [Alg::AStar(Some(1.0)), Alg::Dijkstra, Alg::AStar(None)] {
        for k in [2usize, 3] {
            for (cfg, nested, query) in [
                (turn.clone(), false, json!({})),
                (Cfg::Combined(vec![rc.clone(), turn.clone()]), false, json!({"road_classes": [1, 2, 3]})),
                (Cfg::Combined(vec![turn.clone(), rc.clone(), vehc.clone()]), false, json!({"road_classes": [1, 2, 3], "vehicle_parameters": veh.query()})),
                (Cfg::Combined(vec![rc.clone(), Cfg::Combined(vec![vehc.clone(), turn.clone()])]), true, json!({"road_classes": [1, 2, 3], "vehicle_parameters": veh.query()})),
            ] {
                v.push(SCase { family: "yens_shared_verdict".into(), w: w.clone(),
                               q: Query { alg, dir: Dir::Forward, orient: Orient::Vertex, source: 0, target: Some(4), query_wf: None },
                               nested, cfg, query, cut: None, ksp: Some(k), yens: true });
            }
        }
    }
    v
}

/// a world on which Yen's has a chance to return: two parallel chains 0..L and L+1..2L+1 with rungs both ways and a few
/// random extra edges, origin 0, destination L; underlying algorithms that cannot re-open a vertex (Dijkstra, A* with a
/// zero table, A* weight 1/2 with the exact table), so that every restricted pair inside one search is a genuine leak
fn random_yens_case(r: &mut Rng) -> SCase {
    let l = 5 + r.below(3) as usize;
    let n = 2 * (l + 1);
    let mut edges: Vec<(usize, usize)> = vec![];
    for i in 0..l {
        edges.push((i, i + 1));
        edges.push((l + 1 + i, l + 2 + i));
    }
    for i in 0..=l {
        if r.chance(9, 10) {
            edges.push((i, l + 1 + i));
        }
        if r.chance(9, 10) {
            edges.push((l + 1 + i, i));
        }
        // skip edges along both chains
        if i + 2 <= l && r.chance(1, 2) {
            edges.push((i, i + 2));
        }
        if i + 2 <= l && r.chance(1, 2) {
            edges.push((l + 1 + i, l + 3 + i));
        }
    }
    for _ in 0..r.below(5) {
        let (a, b) = (r.below(n as u64) as usize, r.below(n as u64) as usize);
        if a != b {
            edges.push((a, b));
        }
    }
    if r.chance(1, 3) {
        let e = *r.pick(&edges);
        edges.push(e);
    }
    r.shuffle(&mut edges);
    let cost = gen_costs(r, edges.len(), CostFamily::TieFree);
    let mut w = World::new(n, edges, cost);
    let (alg, hk) = match r.below(3) {
        0 => (Alg::Dijkstra, HKind::Zero),
        1 => (Alg::AStar(Some(1.0)), HKind::Zero),
        _ => (Alg::AStar(Some(0.5)), HKind::Exact),
    };
    gen_heuristic(r, &mut w, Dir::Forward, Some(l), hk);
    // frontier: always a turn model (5..20 % of the adjacent pairs, travel order), often inside combined
    let mut pairs = vec![];
    let pct = 3 + r.below(10);
    for a in 0..w.edges.len() {
        for b in 0..w.edges.len() {
            if w.edges[a].1 == w.edges[b].0 && r.below(100) < pct {
                pairs.push((a, b));
            }
        }
    }
    let turn = Cfg::Turn { pairs };
    let m = w.edges.len();
    let lookup: Vec<u8> = (0..m).map(|_| if r.chance(11, 12) { 0 } else { 1 }).collect();
    let rc = Cfg::RoadClass { lookup, mapping: vec![("road".into(), 0), ("path".into(), 1)] };
    let (cfg, nested, query) = match r.below(4) {
        0 => (turn, false, json!({})),
        1 => (Cfg::Combined(vec![rc, turn]), false, json!({"road_classes": ["road"]})),
        2 => (Cfg::Combined(vec![turn, rc]), false, json!({"road_classes": [0, 1]})),
        _ => (Cfg::Combined(vec![Cfg::None, Cfg::Combined(vec![turn, rc])]), true, json!({"road_classes": [0]})),
    };
    SCase { family: "random_yens".into(), w, q: Query { alg, dir: Dir::Forward, orient: Orient::Vertex, source: 0, target: Some(l), query_wf: None },
            nested, cfg, query, cut: None, ksp: Some(2 + r.below(2) as usize), yens: true }
}

fn boundary_scases() -> Vec<SCase> {
    let mut v: Vec<SCase> = finding_witnesses().into_iter().map(|(_, sc)| sc).collect();
    v.extend(regression_witnesses().into_iter().map(|(_, sc)| sc));
    v.extend(yens_shared_verdict_cases());
    // the frontier_forbids_* shapes of searchkit with the real models
    let base = World::new(4, vec![(0, 1), (1, 2), (2, 3), (0, 3), (3, 2), (2, 1), (1, 0), (3, 0)], vec![1.0, 1.0, 1.0, 9.0, 1.0, 1.0, 1.0, 9.0]);
    let veh = Vehicle { height: (4.0, 0), width: (2.5, 0), total_length: (20.0, 0), trailer_length: (13.5, 0), total_weight: (36.0, 1), axles: 5 };
    let rc = Cfg::RoadClass { lookup: vec![0, 3, 0, 0, 0, 3, 0, 0], mapping: vec![("road".into(), 0), ("path".into(), 3)] };
    let vehc = Cfg::Vehicle { rows: vec![(1, "maximum_height".into(), 13.0, "feet".into()), (5, "maximum_weight_per_axle".into(), 7.0, "tons".into()), (0, "maximum_height".into(), 14.0, "feet".into())] };
    let turn = Cfg::Turn { pairs: vec![(0, 1), (4, 5), (1, 0), (5, 4)] };
    for dir in [Dir::Forward, Dir::Reverse] {
        for alg in [Alg::Dijkstra, Alg::AStar(Some(1.0))] {
            for orient in [Orient::Vertex, Orient::Edge] {
                let (s, t) = match orient { Orient::Vertex => (0, Some(3)), Orient::Edge => (if dir == Dir::Forward { 6 } else { 7 }, Some(if dir == Dir::Forward { 7 } else { 6 })) };
                let q = Query { alg, dir, orient, source: s, target: t, query_wf: None };
                let mk = |fam: &str, cfg: Cfg, query: Value, cut: Option<Vec<usize>>| SCase { family: fam.into(), w: base.clone(), q: q.clone(), nested: false, cfg, query, cut, ksp: None, yens: false };
                v.push(mk("class_forbids_short_path", rc.clone(), json!({"road_classes": ["road"]}), None));
                v.push(mk("class_allows_all", rc.clone(), json!({}), None));
                v.push(mk("vehicle_forbids_short_path", vehc.clone(), json!({"vehicle_parameters": veh.query()}), None));
                v.push(mk("cut_forbids_short_path", Cfg::None, json!({}), Some(vec![1, 5])));
                v.push(mk("turn_forbids_short_path", turn.clone(), json!({}), None));
                v.push(mk("combined_all", Cfg::Combined(vec![rc.clone(), vehc.clone(), turn.clone()]), json!({"road_classes": [0], "vehicle_parameters": veh.query()}), Some(vec![3])));
                v.push(mk("everything_forbidden", rc.clone(), json!({"road_classes": []}), None));
            }
        }
    }
    v
}

fn random_scase(r: &mut Rng) -> SCase {
    let fam = if r.chance(3, 5) { CostFamily::TieFree } else { CostFamily::TieRich };
    let (mut w, _flags) = gen_world(r, fam);
    w.forbid.clear();
    w.fturn.clear();
    w.ferr.clear();
    let (q, _hk) = gen_query(r, &mut w);
    let (cfg, nested, query, cut) = gen_real_frontier(r, &w);
    // one case in twelve: the single-via KSP algorithm on top of the same query (vertex-oriented, forward, with a target)
    if r.chance(1, 12) && q.orient == Orient::Vertex && q.target.is_some() {
        let mut q2 = q.clone();
        q2.dir = Dir::Forward;
        let k = 2 + r.below(3) as usize;
        return SCase { family: "random_ksp_single_via".into(), w, q: q2, nested, cfg, query, cut, ksp: Some(k), yens: false };
    }
    SCase { family: match fam { CostFamily::TieFree => "random_tie_free".into(), CostFamily::TieRich => "random_tie_rich".into(), _ => "random_long_haul".into() }, w, q, nested, cfg, query, cut, ksp: None, yens: false }
}

const SHEADER: &str = "From Coq Require Import ZArith QArith List String Floats.\nFrom RC Require Import Base.Show Base.Num Base.Json Model.Units Model.Frontier Model.Search Model.SearchRun Model.FrontierRun.\nImport ListNotations Frontier FrontierRun.\nOpen Scope nat_scope.";

fn stream_search(a: &Args) {
    let mut st = Stream::new(&a.out, "search", SHEADER, a.shards);
    let dir = a.out.join("files");
    if let Some(p) = &a.replay {
        st.full = true;
        let v: Value = serde_json::from_str(&std::fs::read_to_string(p).unwrap()).unwrap();
        let sc = scase_from_json(&v["case"]);
        add_scase(&mut st, &sc, &dir);
        st.finish();
        std::process::exit(0);
    }
    for sc in boundary_scases() {
        add_scase(&mut st, &sc, &dir);
    }
    let mut rng = Rng::new(a.seed);
    let mut yens_hangs = 0usize;
    while st.next_id() < a.n {
        let mut r = rng.fork();
        // one case in eight under Yen's (until its runs that never return have used up their budget)
        let sc = if r.chance(1, 8) && yens_hangs < MAX_YENS_HANGS { random_yens_case(&mut r) } else { random_scase(&mut r) };
        let status = add_scase(&mut st, &sc, &dir);
        if sc.yens && status == "Hang" {
            yens_hangs += 1;
        }
    }
    let _ = std::fs::remove_dir_all(&dir);
    st.finish();
    std::process::exit(0);
}

/// prints what the real code does on the questions the C04 theorems leave open
fn probe(a: &Args) {
    let dir = a.out.join("probe_files");
    let show = |name: &str, sc: &SCase| {
        let o = run_real(sc, &dir);
        println!("{:44} {:?} {:?} {:?} s={} t={:?} ksp={:?} :: {}", name, sc.q.alg, sc.q.dir, sc.q.orient, sc.q.source, sc.q.target, sc.ksp, show_outcome(&o, 0));
    };
    show("K_reopen (restricted turn (2,3))", &reopen_witness());
    let mut d = reopen_witness();
    d.q.alg = Alg::Dijkstra;
    show("same, Dijkstra", &d);
    // edge-oriented: origin / destination edge forbidden by road class; chain 0->1->2->3->4, edges e0..e3
    let chain = World::new(5, vec![(0, 1), (1, 2), (2, 3), (3, 4)], vec![1.0, 1.0, 1.0, 1.0]);
    let eq = |s: usize, t: Option<usize>, dir: Dir| Query { alg: Alg::Dijkstra, dir, orient: Orient::Edge, source: s, target: t, query_wf: None };
    let mk = |q: Query, cfg: Cfg, query: Value| SCase { family: "probe".into(), w: chain.clone(), q, nested: false, cfg, query, cut: None, ksp: None, yens: false };
    show("EO origin edge e0 has forbidden class", &mk(eq(0, Some(3), Dir::Forward), Cfg::RoadClass { lookup: vec![1, 0, 0, 0], mapping: vec![] }, json!({"road_classes": [0]})));
    show("EO destination edge e3 has forbidden class", &mk(eq(0, Some(3), Dir::Forward), Cfg::RoadClass { lookup: vec![0, 0, 0, 1], mapping: vec![] }, json!({"road_classes": [0]})));
    show("EO interior edge e1 has forbidden class", &mk(eq(0, Some(3), Dir::Forward), Cfg::RoadClass { lookup: vec![0, 1, 0, 0], mapping: vec![] }, json!({"road_classes": [0]})));
    show("EO adjacent e0,e1 with restricted turn (0,1)", &mk(eq(0, Some(1), Dir::Forward), Cfg::Turn { pairs: vec![(0, 1)] }, json!({})));
    show("EO restricted turn (0,1) at the origin", &mk(eq(0, Some(3), Dir::Forward), Cfg::Turn { pairs: vec![(0, 1)] }, json!({})));
    show("EO restricted turn (2,3) at the destination", &mk(eq(0, Some(3), Dir::Forward), Cfg::Turn { pairs: vec![(2, 3)] }, json!({})));
    show("EO restricted turn (1,2) inside", &mk(eq(0, Some(3), Dir::Forward), Cfg::Turn { pairs: vec![(1, 2)] }, json!({})));
    // reverse vertex-oriented search: which orientation of the pair does the turn model see?
    let vq = |s: usize, t: Option<usize>, dir: Dir| Query { alg: Alg::Dijkstra, dir, orient: Orient::Vertex, source: s, target: t, query_wf: None };
    show("VO forward 0->4, restricted (1,2)", &mk(vq(0, Some(4), Dir::Forward), Cfg::Turn { pairs: vec![(1, 2)] }, json!({})));
    show("VO reverse 4->0, restricted (1,2) travel order", &mk(vq(4, Some(0), Dir::Reverse), Cfg::Turn { pairs: vec![(1, 2)] }, json!({})));
    show("VO reverse 4->0, restricted (2,1) search order", &mk(vq(4, Some(0), Dir::Reverse), Cfg::Turn { pairs: vec![(2, 1)] }, json!({})));
    // single-via KSP: diamond 0->1->3 (e0,e1), 0->2->3 (e2,e3), restricted turn (e2,e3) in travel order
    let diamond = World::new(4, vec![(0, 1), (1, 3), (0, 2), (2, 3)], vec![1.0, 1.0, 2.0, 2.0]);
    let mut k = SCase { family: "probe".into(), w: diamond, q: vq(0, Some(3), Dir::Forward), nested: false, cfg: Cfg::Turn { pairs: vec![(2, 3)] }, query: json!({}), cut: None, ksp: Some(3), yens: false };
    show("KSP single-via k=3, restricted (2,3)", &k);
    k.cfg = Cfg::Turn { pairs: vec![(0, 1)] };
    show("KSP single-via k=3, restricted (0,1)", &k);
    let _ = std::fs::remove_dir_all(&dir);
    std::process::exit(0);
}

fn main() {
    silence_panics();
    let a = parse_args();
    match a.stream.as_str() {
        "frontier" => stream_frontier(&a),
        "search" => stream_search(&a),
        "probe" => probe(&a),
        "corpus" => write_corpus(&a),
        s => {
            eprintln!("unknown stream {}", s);
            std::process::exit(2);
        }
    }
}
