//! C05 harness: stream `reach` -- 'no path' is reported exactly when the destination is unreachable; a
//! destination-less search returns exactly the reachable set, labelled with least costs.
//! Runs the REAL routee_compass_core search (SearchAlgorithm::{Dijkstra, AStarAlgorithm}.run_vertex_oriented /
//! run_edge_oriented, forward and reverse) through harness/src/searchkit.rs on worlds inside the property's
//! hypotheses (edge-local frontier = forbid sets, edge-local costs = no turn costs, nothing fails, no limit).
//!   I  status, route edge ids (destination) or sorted tree vertex set + per-vertex state labels (no destination)
//!   M  the search model on the same case, binary64 instance (RR.line_M)
//!   S  the property evaluated in Coq from the exact-rational world, independently of the search model: verified
//!      closure reachb, verified walk check, reachable set, Bellman-Ford least costs with stability check (RR.line_S)
//! `probe` prints the deterministic families.
use routee_compass::app::compass::config::compass_app_builder::CompassAppBuilder;
use routee_compass_core::model::network::Graph;
use routee_compass_core::model::state::state_model::StateModel;
use serde_json::{json, Value};
use std::path::Path;
use std::sync::Arc;
use verif_harness::searchkit::*;
use verif_harness::*;

const WATCHDOG_MS: u64 = 4000;

struct Ctx {
    st: Stream,
    hangs: usize,
}

fn header() -> String {
    format!("{}\nFrom RC Require Import Base.Json Model.Units Model.Frontier Model.Reach Model.ReachRun Model.ReachReal.\nImport Frontier.", HEADER)
}

/// identical to RR.summary
fn summary(q: &Query, o: &Outcome) -> String {
    if !o.is_ok() {
        return o.status.clone();
    }
    match q.target {
        Some(_) => format!("Ok routes={}", show_list(&o.routes, |r| show_route_edges(r))),
        None => format!(
            "Ok verts={} labels={}",
            show_list(&o.trees, |t| show_list(t, |b| b.v.to_string())),
            show_list(&o.trees, |t| show_labels(t))
        ),
    }
}

fn term_s5(id: usize, w: &World, q: &Query, o: &Outcome, text: &str) -> String {
    let k = NumKind::Q;
    format!(
        "RR.line_S {}%Z {} {} {} {} {} {}",
        id,
        coq_world(w, k),
        coq_query(q, k),
        coq_string(&o.status),
        coq_list(&o.trees, |t| coq_list(t, |b| format!("({}, {})", b.v, if b.state.is_finite() { coq_q(b.state) } else { "(0 # 1)%Q".to_string() }))),
        coq_list(&o.routes, |r| coq_list(r, |h| h.edge.to_string())),
        coq_string(text)
    )
}
fn term_m5(id: usize, w: &World, q: &Query) -> String {
    let k = NumKind::F;
    format!("RR.line_M {} {} {}%Z {} {}", k.inst(), default_fuel(w), id, coq_world(w, k), coq_query(q, k))
}

fn alg_name(a: &Alg) -> String {
    match a {
        Alg::Dijkstra => "dijkstra".to_string(),
        Alg::AStar(None) => "astar(default)".to_string(),
        Alg::AStar(Some(x)) => format!("astar({})", x),
    }
}

fn add_case(cx: &mut Ctx, family: &str, w: &World, q: &Query, extra: serde_json::Value) {
    let o = if cx.hangs >= 6 { Outcome::status_only("Hang") } else { run_query_watchdog(w, q, WATCHDOG_MS) };
    if o.status == "Hang" {
        cx.hangs += 1;
    }
    emit_case(cx, family, w, q, o, extra, None);
}

/// one case of the stream from an outcome obtained elsewhere; `seq`: the case is element `index` of a sequence of
/// searches run on one thread (the whole sequence is stored so that a replay re-runs it)
fn emit_case(cx: &mut Ctx, family: &str, w: &World, q: &Query, o: Outcome, extra: serde_json::Value, seq: Option<Value>) {
    let id = cx.st.next_id();
    let text = summary(q, &o);
    let terms = vec![term_m5(id, w, q), term_s5(id, w, q, &o, &text)];
    let line = format!("I {} {}", id, text);
    let mut desc = json!({"id": id, "family": family, "world": world_to_json(w), "query": query_to_json(q), "extra": extra,
                      "impl_short": text.chars().take(200).collect::<String>()});
    if let Some(sq) = seq {
        desc["sequence"] = sq;
        cx.st.count("element_of_a_sequence_on_one_thread");
    }
    let st = &mut cx.st;
    let fam_class = family.split('#').next().unwrap_or(family);
    st.count(&format!("family:{}", fam_class));
    st.count(&format!("status:{}", o.status));
    st.count(&format!("orient:{:?}", q.orient));
    st.count(&format!("dir:{:?}", q.dir));
    st.count(&format!("alg:{}", alg_name(&q.alg)));
    st.count(&format!("target:{}", if q.target.is_some() { "some" } else { "none" }));
    st.count(&format!("n:{}", if w.n <= 3 { w.n.to_string() } else { format!("<={}", (w.n + 7) / 8 * 8) }));
    if !w.forbid.is_empty() {
        st.count("has_forbid_set");
    }
    let rl = o.routes.iter().map(|r| r.len()).max().unwrap_or(0);
    let ts = o.trees.iter().map(|t| t.len()).max().unwrap_or(0);
    if q.target.is_some() {
        st.count(&format!("route_edges:{}", if rl > 6 { "7+".to_string() } else { rl.to_string() }));
    } else {
        st.count(&format!("tree_size:{}", if ts > 8 { "9+".to_string() } else { ts.to_string() }));
        st.count(&format!("unreached_vertices:{}", if w.n > ts + 1 { "some" } else { "none" }));
    }
    // non-trivial: the no-path branch, a destination-less tree of >= 2 vertices, or a route of >= 2 edges
    if o.status == "nopath" || (q.target.is_none() && ts >= 2) || rl >= 2 {
        st.mark_nontrivial(&format!("{}|{}", world_to_json(w), query_to_json(q)));
    }
    st.case(terms, vec![line], desc);
}

fn vq(alg: Alg, dir: Dir, s: usize, t: Option<usize>) -> Query {
    Query { alg, dir, orient: Orient::Vertex, source: s, target: t, query_wf: None }
}
fn eq(alg: Alg, dir: Dir, s: usize, t: Option<usize>) -> Query {
    Query { alg, dir, orient: Orient::Edge, source: s, target: t, query_wf: None }
}

fn in_class(w: &World) -> bool {
    w.fturn.is_empty() && w.ferr.is_empty() && w.terr.is_empty() && w.turn.is_empty() && w.term == Term::Unlimited && w.cost.iter().all(|c| *c > 0.0)
}

/// deterministic C05 families (restricted sub-graphs, disconnected parts), in addition to searchkit::boundary_cases
fn c05_cases() -> Vec<(String, World, Query)> {
    let mut out: Vec<(String, World, Query)> = vec![];
    let algs = [Alg::Dijkstra, Alg::AStar(Some(0.5)), Alg::AStar(Some(1.0)), Alg::AStar(Some(3.0))];
    let dirs = [Dir::Forward, Dir::Reverse];
    for alg in algs {
        for dir in dirs {
            // shapes are written for a forward search; the reverse search gets the mirrored network
            let mk = |n: usize, es: &[(usize, usize)], cs: &[f64], forbid: &[usize], h: &[f64]| {
                let es2: Vec<(usize, usize)> = es.iter().map(|(a, b)| if dir == Dir::Reverse { (*b, *a) } else { (*a, *b) }).collect();
                let mut w = World::new(n, es2, cs.to_vec());
                w.forbid = forbid.to_vec();
                w.h = h.to_vec();
                w
            };
            // the only path runs through a forbidden edge
            out.push(("forbidden_bridge".into(), mk(4, &[(0, 1), (1, 2), (2, 3)], &[1.0, 2.0, 4.0], &[1], &[0.5, 9.0, 0.25, 0.0]), vq(alg, dir, 0, Some(3))));
            out.push(("forbidden_bridge_no_target".into(), mk(4, &[(0, 1), (1, 2), (2, 3)], &[1.0, 2.0, 4.0], &[1], &[]), vq(alg, dir, 0, None)));
            // forbidden cheap edge parallel to a permitted expensive one
            out.push(("forbidden_parallel".into(), mk(3, &[(0, 1), (0, 1), (1, 2)], &[1.0, 8.0, 2.0], &[0], &[3.0, 1.0, 0.0]), vq(alg, dir, 0, Some(2))));
            out.push(("forbidden_parallel_no_target".into(), mk(3, &[(0, 1), (0, 1), (1, 2)], &[1.0, 8.0, 2.0], &[0], &[]), vq(alg, dir, 0, None)));
            // the first expansion is restricted: every edge out of the origin is forbidden
            out.push(("forbidden_first_hop".into(), mk(3, &[(0, 1), (0, 2), (1, 2)], &[1.0, 5.0, 1.0], &[0, 1], &[]), vq(alg, dir, 0, Some(2))));
            out.push(("forbidden_first_hop_one".into(), mk(3, &[(0, 1), (0, 2), (1, 2)], &[1.0, 5.0, 1.0], &[0], &[]), vq(alg, dir, 0, Some(1))));
            out.push(("forbidden_first_hop_no_target".into(), mk(3, &[(0, 1), (0, 2), (1, 2)], &[1.0, 5.0, 1.0], &[0], &[]), vq(alg, dir, 0, None)));
            // the last hop into the destination is forbidden, a detour exists / does not exist
            out.push(("forbidden_last_hop_detour".into(), mk(4, &[(0, 1), (1, 3), (1, 2), (2, 3)], &[1.0, 1.0, 2.0, 3.0], &[1], &[0.0, 1.0, 0.5, 0.0]), vq(alg, dir, 0, Some(3))));
            out.push(("forbidden_last_hop".into(), mk(3, &[(0, 1), (1, 2)], &[1.0, 1.0], &[1], &[]), vq(alg, dir, 0, Some(2))));
            // everything forbidden
            out.push(("all_forbidden".into(), mk(3, &[(0, 1), (1, 2), (2, 0)], &[1.0, 1.0, 1.0], &[0, 1, 2], &[]), vq(alg, dir, 0, None)));
            // two components; destination in the other one; the queue exhausts after the whole component
            out.push(("two_components".into(), mk(6, &[(0, 1), (1, 2), (2, 0), (3, 4), (4, 5), (5, 3)], &[1.0, 2.0, 3.0, 1.0, 2.0, 3.0], &[], &[4.0, 2.0, 1.0, 0.0, 0.0, 0.0]), vq(alg, dir, 0, Some(4))));
            out.push(("two_components_no_target".into(), mk(6, &[(0, 1), (1, 2), (2, 0), (3, 4), (4, 5), (5, 3)], &[1.0, 2.0, 3.0, 1.0, 2.0, 3.0], &[], &[]), vq(alg, dir, 1, None)));
            // a one-way street into the destination's component only (reachable one way, not the other)
            out.push(("one_way_only_there".into(), mk(3, &[(0, 1), (1, 2)], &[1.0, 1.0], &[], &[]), vq(alg, dir, 0, Some(2))));
            out.push(("one_way_only_back".into(), mk(3, &[(0, 1), (1, 2)], &[1.0, 1.0], &[], &[]), vq(alg, dir, 2, Some(0))));
            // a chain: the last vertex is popped when the queue has a single element left
            out.push(("chain_no_target".into(), mk(5, &[(0, 1), (1, 2), (2, 3), (3, 4)], &[1.0, 1.0, 1.0, 1.0], &[], &[]), vq(alg, dir, 0, None)));
            // least labels need a decrease-key and a re-parenting
            out.push(("relabel_no_target".into(), mk(4, &[(0, 2), (0, 1), (1, 2), (2, 3)], &[10.0, 1.0, 2.0, 1.0], &[], &[]), vq(alg, dir, 0, None)));
            // edge-oriented: a forbidden edge between the two query edges; the query edges themselves forbidden
            out.push(("eo_forbidden_between".into(), mk(4, &[(0, 1), (1, 2), (2, 3)], &[1.0, 1.0, 1.0], &[1], &[]), eq(alg, dir, 0, Some(2))));
            out.push(("eo_forbidden_between_detour".into(), mk(4, &[(0, 1), (1, 2), (2, 3), (1, 2)], &[1.0, 1.0, 1.0, 7.0], &[1], &[]), eq(alg, dir, 0, Some(2))));
            out.push(("eo_query_edges_forbidden".into(), mk(4, &[(0, 1), (1, 2), (2, 3)], &[1.0, 1.0, 1.0], &[0, 2], &[]), eq(alg, dir, 0, Some(2))));
            out.push(("eo_no_target_forbidden".into(), mk(4, &[(0, 1), (1, 2), (2, 3)], &[1.0, 1.0, 1.0], &[2], &[]), eq(alg, dir, 0, None)));
            out.push(("eo_no_target_cycle_back".into(), mk(3, &[(0, 1), (1, 2), (2, 0)], &[1.0, 2.0, 4.0], &[], &[]), eq(alg, dir, 0, None)));
            out.push(("eo_dest_behind_origin".into(), mk(3, &[(0, 1), (1, 2)], &[1.0, 1.0], &[], &[]), eq(alg, dir, 1, Some(0))));
        }
    }
    out
}

/// extreme weight factors (algorithm config and per-query "weight_factor") with non-zero heuristic tables: with
/// 1e308 / f64::MAX every f-score overflows to +infinity, with 5e-324 / 1e-300 the estimate underflows; the answer
/// must still be Ok iff reachable.
fn extreme_factor_cases() -> Vec<(String, World, Query)> {
    let mut out: Vec<(String, World, Query)> = vec![];
    let factors = [0.0, 5e-324, 1e-300, 1e300, 1e308, f64::MAX];
    for wf in factors {
        for place in ["config", "query", "query_over_config"] {
            for dir in [Dir::Forward, Dir::Reverse] {
                let mk = |n: usize, es: &[(usize, usize)], cs: &[f64], forbid: &[usize], h: &[f64]| {
                    let es2: Vec<(usize, usize)> = es.iter().map(|(a, b)| if dir == Dir::Reverse { (*b, *a) } else { (*a, *b) }).collect();
                    let mut w = World::new(n, es2, cs.to_vec());
                    w.forbid = forbid.to_vec();
                    w.h = h.to_vec();
                    w
                };
                let q = |orient: Orient, s: usize, t: Option<usize>| {
                    let (alg, query_wf) = match place {
                        "config" => (Alg::AStar(Some(wf)), None),
                        "query" => (Alg::Dijkstra, Some(wf)),
                        _ => (Alg::AStar(Some(1.0)), Some(wf)),
                    };
                    Query { alg, dir, orient, source: s, target: t, query_wf }
                };
                let name = |shape: &str| format!("extreme_factor_{}#{}:{:e}", shape, place, wf);
                // reachable, with a decrease-key on the way (0->2 direct 10, 0->1->2 3), destination 3
                let diamond = mk(5, &[(0, 2), (0, 1), (1, 2), (2, 3), (3, 4)], &[10.0, 1.0, 2.0, 1.0, 1.0], &[], &[6.5, 3.25, 1.5, 0.75, 2.0]);
                out.push((name("reachable"), diamond.clone(), q(Orient::Vertex, 0, Some(3))));
                out.push((name("reachable_neighbour"), diamond.clone(), q(Orient::Vertex, 0, Some(1))));
                out.push((name("eo_reachable"), diamond.clone(), q(Orient::Edge, 1, Some(4))));
                // unreachable: other component / forbidden bridge
                let split = mk(5, &[(0, 1), (1, 0), (1, 2), (3, 4), (2, 3)], &[1.0, 1.0, 2.0, 1.0, 4.0], &[4], &[2.0, 1.0, 0.5, 8.0, 0.25]);
                out.push((name("unreachable"), split.clone(), q(Orient::Vertex, 0, Some(4))));
                out.push((name("eo_unreachable"), split.clone(), q(Orient::Edge, 0, Some(3))));
            }
        }
    }
    out
}

/// long haul: edges summing to >= 2^20 cost units, then a zero-cost connector (cost 0, or 1e-12: both clamped to
/// MIN_COST = 1e-10, which the f64 addition absorbs at that magnitude, so both ends of the connector carry
/// bit-identical cost labels) as the ONLY way onward, then more vertices.  The far side is reachable: a route /
/// the full reachable set is the required answer.
fn long_haul_cases() -> Vec<(String, World, Query)> {
    let mut out: Vec<(String, World, Query)> = vec![];
    let algs = [Alg::Dijkstra, Alg::AStar(Some(1.0)), Alg::AStar(Some(3.0))];
    // the haul as one edge or as three edges
    let hauls: [(&str, Vec<f64>); 4] = [
        ("2^20", vec![1048576.0]),
        ("1.5e6", vec![1500000.0]),
        ("3x4e5", vec![400000.0, 400000.0, 400000.0]),
        ("1e9", vec![1.0e9]),
    ];
    for alg in algs {
        for dir in [Dir::Forward, Dir::Reverse] {
            for (hname, haul) in hauls.iter() {
                for (zname, zero) in [("zero", 0.0), ("sub_min_cost", 1e-12)] {
                    // vertices: p (entry of the origin edge) = k+4, chain 0 -haul-> .. -> k -zero-> k+1 -1-> k+2, then a
                    // zero 2-cycle k+2 <-> k+3, and an isolated vertex k+5
                    let k = haul.len();
                    let mut es: Vec<(usize, usize)> = vec![(k + 4, 0)];
                    let mut cs: Vec<f64> = vec![2.0];
                    for (i, c) in haul.iter().enumerate() {
                        es.push((i, i + 1));
                        cs.push(*c);
                    }
                    es.push((k, k + 1)); // the connector, edge id k+1
                    cs.push(zero);
                    es.push((k + 1, k + 2));
                    cs.push(1.0);
                    es.push((k + 2, k + 3));
                    cs.push(zero);
                    es.push((k + 3, k + 2));
                    cs.push(zero);
                    let n = k + 6;
                    let es2: Vec<(usize, usize)> = es.iter().map(|(a, b)| if dir == Dir::Reverse { (*b, *a) } else { (*a, *b) }).collect();
                    let mut w = World::new(n, es2, cs);
                    if alg != Alg::Dijkstra {
                        w.h = (0..n).map(|v| (n - v) as f64 * 0.5).collect();
                    }
                    let name = |q: &str| format!("long_haul_{}#{}:{}", q, hname, zname);
                    let vq5 = |s: usize, t: Option<usize>| Query { alg, dir, orient: Orient::Vertex, source: s, target: t, query_wf: None };
                    let eq5 = |s: usize, t: Option<usize>| Query { alg, dir, orient: Orient::Edge, source: s, target: t, query_wf: None };
                    out.push((name("behind_connector"), w.clone(), vq5(0, Some(k + 1))));
                    out.push((name("far_side"), w.clone(), vq5(0, Some(k + 3))));
                    out.push((name("tree"), w.clone(), vq5(0, None)));
                    out.push((name("unreachable"), w.clone(), vq5(0, Some(k + 5))));
                    // edge-oriented: origin edge 0 (p -> 0), destination edge k+2 (k+1 -> k+2), and the tree
                    out.push((name("eo_far_side"), w.clone(), eq5(0, Some(k + 2))));
                    out.push((name("eo_tree"), w.clone(), eq5(0, None)));
                }
            }
        }
    }
    out
}

// ------------------------------------------------------------------------------------------ real_world family
// The graph is written to CSV files and LOADED by Graph::from_files; the frontier model is a REAL one (vehicle
// restrictions, road classes, combined) built by CompassAppBuilder::build_frontier_model_service from generated files
// and instantiated with the query's parameters.  Vertex-oriented forward searches, edge-level restrictions only
// (edge-oriented start edges and reverse/turn restrictions are C04's known-finding classes).

#[derive(Clone, Debug)]
enum Cfg {
    None,
    RoadClass { lookup: Vec<u8> },
    /// rows of the CSV: edge_id, restriction_name, restriction_value, restriction_unit
    Vehicle { rows: Vec<(usize, String, f64, String)> },
    Combined(Vec<Cfg>),
}
fn fbits(x: f64) -> String {
    format!("{:016x}", x.to_bits())
}
fn funbits(s: &str) -> f64 {
    f64::from_bits(u64::from_str_radix(s, 16).unwrap())
}
/// JSON with floats as bit patterns ({"$f": "hex"}), so that a replay file reproduces them exactly
fn enc(v: &Value) -> Value {
    match v {
        Value::Number(n) if !(n.is_i64() || n.is_u64()) => json!({ "$f": fbits(n.as_f64().unwrap()) }),
        Value::Array(a) => Value::Array(a.iter().map(enc).collect()),
        Value::Object(m) => Value::Object(m.iter().map(|(k, v)| (k.clone(), enc(v))).collect()),
        _ => v.clone(),
    }
}
fn dec(v: &Value) -> Value {
    match v {
        Value::Object(m) if m.len() == 1 && m.contains_key("$f") => json!(funbits(m["$f"].as_str().unwrap())),
        Value::Array(a) => Value::Array(a.iter().map(dec).collect()),
        Value::Object(m) => Value::Object(m.iter().map(|(k, v)| (k.clone(), dec(v))).collect()),
        _ => v.clone(),
    }
}
fn cfg_to_json(c: &Cfg) -> Value {
    match c {
        Cfg::None => json!({"t": "none"}),
        Cfg::RoadClass { lookup } => json!({"t": "rc", "lookup": lookup}),
        Cfg::Vehicle { rows } => json!({"t": "veh", "rows": rows.iter().map(|(e, n, v, u)| json!([e, n, fbits(*v), u])).collect::<Vec<_>>(),
                                        "rows_text": rows.iter().map(|(e, n, v, u)| format!("{} {} {} {}", e, n, v, u)).collect::<Vec<_>>()}),
        Cfg::Combined(inner) => json!({"t": "comb", "inner": inner.iter().map(cfg_to_json).collect::<Vec<_>>()}),
    }
}
fn cfg_from_json(v: &Value) -> Cfg {
    match v["t"].as_str().unwrap() {
        "none" => Cfg::None,
        "rc" => Cfg::RoadClass { lookup: serde_json::from_value(v["lookup"].clone()).unwrap() },
        "veh" => Cfg::Vehicle {
            rows: v["rows"].as_array().unwrap().iter()
                .map(|r| (r[0].as_u64().unwrap() as usize, r[1].as_str().unwrap().to_string(), funbits(r[2].as_str().unwrap()), r[3].as_str().unwrap().to_string()))
                .collect(),
        },
        _ => Cfg::Combined(v["inner"].as_array().unwrap().iter().map(cfg_from_json).collect()),
    }
}
fn coq_cfg(c: &Cfg) -> String {
    match c {
        Cfg::None => "CNoRestriction".into(),
        Cfg::RoadClass { lookup } => format!("(CRoadClass {} [])", coq_list(lookup, |x| x.to_string())),
        Cfg::Vehicle { rows } => format!("(CVehicle FN {})", coq_list(rows, |(e, n, v, u)| format!("({}, {}, {}, {})", e, coq_string(n), coq_f64(*v), coq_string(u)))),
        Cfg::Combined(inner) => format!("(CCombined FN {})", coq_list(inner, coq_cfg)),
    }
}
fn cfg_kind(c: &Cfg) -> &'static str {
    match c {
        Cfg::None => "none",
        Cfg::RoadClass { .. } => "road_class",
        Cfg::Vehicle { .. } => "vehicle",
        Cfg::Combined(_) => "combined",
    }
}
/// the configuration JSON the application would read, with the tables written to files under `dir`
fn config_json(c: &Cfg, dir: &Path, k: &mut usize) -> Value {
    *k += 1;
    match c {
        Cfg::None => json!({"type": "no_restriction"}),
        Cfg::RoadClass { lookup } => {
            let p = dir.join(format!("classes{}.txt", k));
            std::fs::write(&p, lookup.iter().map(|x| format!("{}\n", x)).collect::<String>()).unwrap();
            json!({"type": "road_class", "road_class_input_file": p.to_str().unwrap()})
        }
        Cfg::Vehicle { rows } => {
            let p = dir.join(format!("restrictions{}.csv", k));
            let mut body = String::from("edge_id,restriction_name,restriction_value,restriction_unit\n");
            for (e, n, v, u) in rows {
                body.push_str(&format!("{},{},{:?},{}\n", e, n, v, u));
            }
            std::fs::write(&p, body).unwrap();
            json!({"type": "vehicle_restriction", "vehicle_restriction_input_file": p.to_str().unwrap()})
        }
        Cfg::Combined(inner) => json!({"type": "combined", "models": inner.iter().map(|c| config_json(c, dir, k)).collect::<Vec<_>>()}),
    }
}

#[derive(Clone)]
struct RCase {
    family: String,
    w: World,
    /// the distance column of the edge list file (independent of the cost table)
    dist: Vec<f64>,
    q: Query,
    cfg: Cfg,
    /// the query as the frontier model service sees it (vehicle_parameters, road_classes)
    fquery: Value,
}

/// loads the network from generated CSV files, builds the real frontier model, runs the real search
fn run_real_world(rc: &RCase, dir: &Path) -> Outcome {
    let rc2 = rc.clone();
    let d = dir.to_path_buf();
    let (tx, rx) = std::sync::mpsc::channel();
    std::thread::spawn(move || {
        let o = catch(move || {
            std::fs::create_dir_all(&d).unwrap();
            let vfile = d.join("vertices.csv");
            let efile = d.join("edges.csv");
            let mut vb = String::from("vertex_id,x,y\n");
            for v in 0..rc2.w.n {
                vb.push_str(&format!("{},{},{}\n", v, v as f64 * 0.01, 0.0));
            }
            std::fs::write(&vfile, vb).unwrap();
            let mut eb = String::from("edge_id,src_vertex_id,dst_vertex_id,distance\n");
            for (i, (a, b)) in rc2.w.edges.iter().enumerate() {
                eb.push_str(&format!("{},{},{},{:?}\n", i, a, b, rc2.dist[i]));
            }
            std::fs::write(&efile, eb).unwrap();
            let graph = match Graph::from_files(&efile, &vfile, None, None, Some(false)) {
                Ok(g) => g,
                Err(_) => return Outcome::status_only("err:load"),
            };
            let mut k = 0;
            let cj = config_json(&rc2.cfg, &d, &mut k);
            let service = match CompassAppBuilder::default().build_frontier_model_service(&cj) {
                Ok(s) => s,
                Err(_) => return Outcome::status_only("err:build"),
            };
            let model = match service.build(&rc2.fquery, Arc::new(StateModel::empty())) {
                Ok(m) => m,
                Err(_) => return Outcome::status_only("err:build"),
            };
            let mut si = build_instance(&rc2.w);
            si.directed_graph = Arc::new(graph);
            si.frontier_model = model;
            run_on_instance(&si, &rc2.q)
        })
        .unwrap_or_else(|_| Outcome::status_only("Panic"));
        let _ = tx.send(o);
    });
    match rx.recv_timeout(std::time::Duration::from_millis(WATCHDOG_MS)) {
        Ok(o) => o,
        Err(_) => Outcome::status_only("Hang"),
    }
}

fn rcase_to_json(rc: &RCase) -> Value {
    json!({"family": rc.family, "world": world_to_json(&rc.w), "query": query_to_json(&rc.q), "cfg": cfg_to_json(&rc.cfg), "fquery": enc(&rc.fquery),
           "fquery_text": rc.fquery.to_string(), "dist_bits": rc.dist.iter().map(|x| fbits(*x)).collect::<Vec<_>>(),
           "dist_text": rc.dist.iter().map(|x| format!("{:?}", x)).collect::<Vec<_>>().join(" ")})
}
fn rcase_from_json(c: &Value) -> RCase {
    RCase {
        family: c["family"].as_str().unwrap_or("replay").to_string(),
        w: world_from_json(&c["world"]),
        dist: c["dist_bits"].as_array().unwrap().iter().map(|x| funbits(x.as_str().unwrap())).collect(),
        q: query_from_json(&c["query"]),
        cfg: cfg_from_json(&c["cfg"]),
        fquery: dec(&c["fquery"]),
    }
}

fn add_rcase(cx: &mut Ctx, rc: &RCase, dir: &Path) {
    let d = dir.join(format!("rw{}", cx.st.next_id()));
    let o = run_real_world(rc, &d);
    let _ = std::fs::remove_dir_all(&d);
    emit_rcase(cx, rc, o, None);
}

fn emit_rcase(cx: &mut Ctx, rc: &RCase, o: Outcome, seq: Option<Value>) {
    let id = cx.st.next_id();
    let text = summary(&rc.q, &o);
    let fr = format!("{} {}", coq_cfg(&rc.cfg), coq_json(&rc.fquery));
    let kq = NumKind::Q;
    let terms = vec![
        format!("RW.line_M {} {}%Z {} {} {}", default_fuel(&rc.w), id, fr, coq_world(&rc.w, NumKind::F), coq_query(&rc.q, NumKind::F)),
        format!(
            "RW.line_S {}%Z {} {} {} {} {} {} {}",
            id,
            fr,
            coq_world(&rc.w, kq),
            coq_query(&rc.q, kq),
            coq_string(&o.status),
            coq_list(&o.trees, |t| coq_list(t, |b| format!("({}, {})", b.v, if b.state.is_finite() { coq_q(b.state) } else { "(0 # 1)%Q".to_string() }))),
            coq_list(&o.routes, |r| coq_list(r, |h| h.edge.to_string())),
            coq_string(&text)
        ),
    ];
    let mut desc = rcase_to_json(rc);
    desc["id"] = json!(id);
    desc["impl_short"] = json!(text.chars().take(200).collect::<String>());
    if let Some(sq) = seq {
        desc["sequence"] = sq;
        cx.st.count("element_of_a_sequence_on_one_service");
    }
    let st = &mut cx.st;
    let fam_class = rc.family.split('#').next().unwrap_or(&rc.family).to_string();
    st.count(&format!("family:{}", fam_class));
    st.count(&format!("status:{}", o.status));
    st.count(&format!("real_frontier:{}", cfg_kind(&rc.cfg)));
    st.count(&format!("alg:{}", alg_name(&rc.q.alg)));
    st.count(&format!("target:{}", if rc.q.target.is_some() { "some" } else { "none" }));
    if rc.dist.iter().any(|x| *x == 0.0) {
        st.count("loaded_graph_has_zero_length_edge");
    }
    let rl = o.routes.iter().map(|r| r.len()).max().unwrap_or(0);
    let ts = o.trees.iter().map(|t| t.len()).max().unwrap_or(0);
    if o.status == "nopath" || (rc.q.target.is_none() && ts >= 2) || rl >= 2 {
        st.mark_nontrivial(&rcase_to_json(rc).to_string());
    }
    st.case(terms, vec![format!("I {} {}", id, text)], desc);
}

/// exact SI size of one unit (meters, kilograms): used only to PLACE generated limits 20 % below / 25 % above the
/// vehicle's quantity; independent of the implementation's conversion code
const DIST_UNITS: [(&str, f64); 5] = [("meters", 1.0), ("kilometers", 1000.0), ("miles", 1609.344), ("inches", 0.0254), ("feet", 0.3048)];
const WEIGHT_UNITS: [(&str, f64); 3] = [("pounds", 0.45359237), ("tons", 907.18474), ("kg", 1.0)];
/// (restriction name, vehicle_parameters field, is weight, per axle)
const KINDS: [(&str, &str, bool, bool); 6] = [
    ("maximum_height", "height", false, false),
    ("maximum_width", "width", false, false),
    ("maximum_length", "total_length", false, false),
    ("maximum_trailer_length", "trailer_length", false, false),
    ("maximum_total_weight", "total_weight", true, false),
    ("maximum_weight_per_axle", "total_weight", true, true),
];

/// two parts {0,1} and {2,3,4} joined only by the connector edge 2 (1 -> 2); vertex 5 isolated.
/// `extra`: an optional second connector (edge 6, 1 -> 2, dearer)
fn two_parts(extra: bool, connector_dist: f64) -> (World, Vec<f64>) {
    let mut es = vec![(0, 1), (1, 0), (1, 2), (2, 3), (3, 2), (3, 4)];
    let mut cs = vec![1.5, 1.25, 2.0, 1.0, 1.0, 3.0];
    let mut ds = vec![120.0, 120.0, connector_dist, 80.5, 80.5, 300.0];
    if extra {
        es.push((1, 2));
        cs.push(9.0);
        ds.push(45.0);
    }
    (World::new(6, es, cs), ds)
}

fn real_world_cases(thorough: bool) -> Vec<RCase> {
    let mut out: Vec<RCase> = vec![];
    let conn_dists = [0.0, 1e-9, 12.5, 0.0, 1e-3];
    let mut rot = 0usize;
    let mut push = |out: &mut Vec<RCase>, family: String, extra: bool, cfg: Cfg, fquery: Value, rot: &mut usize| {
        *rot += 1;
        let (mut w, dist) = two_parts(extra, conn_dists[*rot % conn_dists.len()]);
        let alg = [Alg::Dijkstra, Alg::AStar(Some(1.0)), Alg::AStar(None), Alg::AStar(Some(3.0))][*rot % 4];
        if alg != Alg::Dijkstra {
            w.h = vec![3.0, 2.5, 1.0, 0.5, 0.0, 0.0];
        }
        let target = match *rot % 3 {
            0 => Some(4),
            1 => None,
            _ => Some(3),
        };
        let q = Query { alg, dir: Dir::Forward, orient: Orient::Vertex, source: 0, target, query_wf: None };
        out.push(RCase { family, w, dist, q, cfg, fquery });
    };
    let std_vehicle = || {
        json!({"height": [4.0, "meters"], "width": [2.5, "meters"], "total_length": [16.5, "meters"], "trailer_length": [13.6, "meters"],
               "total_weight": [36000.0, "kg"], "number_of_axles": 5})
    };
    // (d) the loader: zero-length / tiny connector as the only link, no restriction at all
    for cd in [0.0, 1e-9, 1e-3, 12.5] {
        for (alg, target) in [(Alg::Dijkstra, Some(4)), (Alg::Dijkstra, None), (Alg::AStar(Some(1.0)), Some(4)), (Alg::AStar(Some(3.0)), None), (Alg::Dijkstra, Some(5))] {
            let (mut w, dist) = two_parts(false, cd);
            if alg != Alg::Dijkstra {
                w.h = vec![3.0, 2.5, 1.0, 0.5, 0.0, 0.0];
            }
            out.push(RCase { family: format!("real_world_loader#connector_distance:{:?}", cd), w, dist, q: Query { alg, dir: Dir::Forward, orient: Orient::Vertex, source: 0, target, query_wf: None }, cfg: Cfg::None, fquery: json!({}) });
        }
    }
    // the paper example of the seed: 13 ft bridge, 4 m / 3.9 m vehicle
    for (h, tag) in [(4.0, "4m_under_13ft"), (3.9, "3.9m_under_13ft")] {
        let mut v = std_vehicle();
        v["height"] = json!([h, "meters"]);
        push(&mut out, format!("real_world_vehicle#{}", tag), false, Cfg::Vehicle { rows: vec![(2, "maximum_height".into(), 13.0, "feet".into())] }, json!({ "vehicle_parameters": v }), &mut rot);
    }
    // (a) every pair of (vehicle unit, limit unit), limit 20 % below (the connector is refused) and 25 % above (admitted)
    let mut kind_rot = 0usize;
    for is_weight in [false, true] {
        let nu = if is_weight { 3 } else { 5 };
        for vu in 0..nu {
            for ru in 0..nu {
                let kinds: Vec<usize> = if thorough {
                    (0..6).filter(|k| KINDS[*k].2 == is_weight).collect()
                } else {
                    kind_rot += 1;
                    let ks: Vec<usize> = (0..6).filter(|k| KINDS[*k].2 == is_weight).collect();
                    vec![ks[kind_rot % ks.len()]]
                };
                for k in kinds {
                    for (side, factor) in [("below", 0.8), ("above", 1.25)] {
                        let (name, field, _, per_axle) = KINDS[k];
                        let (vunit, vsize) = if is_weight { WEIGHT_UNITS[vu] } else { DIST_UNITS[vu] };
                        let (runit, rsize) = if is_weight { WEIGHT_UNITS[ru] } else { DIST_UNITS[ru] };
                        // a plausible vehicle quantity in SI, expressed in the vehicle's unit
                        let si_value = if is_weight { 36000.0 } else { [4.0, 2.5, 16.5, 13.6][k % 4] };
                        let vval = si_value / vsize;
                        let axles = 5.0;
                        let quantity_in_limit_unit = si_value / rsize / if per_axle { axles } else { 1.0 };
                        let limit = quantity_in_limit_unit * factor;
                        let mut v = std_vehicle();
                        v[field] = json!([vval, vunit]);
                        let extra = k % 2 == 1;
                        push(
                            &mut out,
                            format!("real_world_vehicle#{}:{}_vs_{}:{}", name, vunit, runit, side),
                            extra,
                            Cfg::Vehicle { rows: vec![(2, name.to_string(), limit, runit.to_string())] },
                            json!({ "vehicle_parameters": v }),
                            &mut rot,
                        );
                    }
                }
            }
        }
    }
    // (b) road classes with ids >= 64: the connector's class is congruent modulo 64 to a permitted class
    for base in [0u8, 1, 5, 63] {
        for k in 1..=3u8 {
            let alias = base + 64 * k;
            // ordinary edges: class `base`; connector: class `alias`
            let lookup = |conn: u8, extra: Option<u8>| {
                let mut l = vec![base, base, conn, base, base, base];
                if let Some(x) = extra {
                    l.push(x);
                }
                l
            };
            push(&mut out, format!("real_world_road_class#alias_refused:{}_{}", base, alias), false, Cfg::RoadClass { lookup: lookup(alias, None) }, json!({ "road_classes": [base] }), &mut rot);
            push(&mut out, format!("real_world_road_class#alias_listed:{}_{}", base, alias), false, Cfg::RoadClass { lookup: lookup(alias, None) }, json!({ "road_classes": [base, alias] }), &mut rot);
            // the base class is NOT permitted on the connector, its alias is permitted elsewhere
            push(&mut out, format!("real_world_road_class#base_refused:{}_{}", base, alias), true, Cfg::RoadClass { lookup: vec![alias, alias, base, alias, alias, alias, base] }, json!({ "road_classes": [alias] }), &mut rot);
            push(&mut out, format!("real_world_road_class#second_connector:{}_{}", base, alias), true, Cfg::RoadClass { lookup: lookup(alias, Some(base)) }, json!({ "road_classes": [base] }), &mut rot);
        }
    }
    push(&mut out, "real_world_road_class#no_list".into(), false, Cfg::RoadClass { lookup: vec![1, 1, 200, 1, 1, 1] }, json!({}), &mut rot);
    push(&mut out, "real_world_road_class#other_class_refused".into(), false, Cfg::RoadClass { lookup: vec![1, 1, 7, 1, 1, 1] }, json!({ "road_classes": [1, 2, 3] }), &mut rot);
    // (c) combined: both must admit the connector
    for (h, classes, tag) in [(4.0, json!([1, 65]), "height_refuses"), (3.9, json!([1]), "class_refuses"), (3.9, json!([1, 65]), "both_admit"), (4.0, json!([1]), "both_refuse")] {
        let mut v = std_vehicle();
        v["height"] = json!([h, "meters"]);
        push(
            &mut out,
            format!("real_world_combined#{}", tag),
            false,
            Cfg::Combined(vec![Cfg::Vehicle { rows: vec![(2, "maximum_height".into(), 13.0, "feet".into()), (5, "maximum_total_weight".into(), 40.0, "tons".into())] }, Cfg::RoadClass { lookup: vec![1, 1, 65, 1, 1, 1] }]),
            json!({ "vehicle_parameters": v, "road_classes": classes }),
            &mut rot,
        );
    }
    out
}

// ------------------------------------------------------------------------------------------ sequences
// Several searches IN A ROW on one thread (the same SearchInstance while the world stays the same) / several queries on
// ONE frontier service.  Every answer is judged for its own query alone: it must be what that query gets by itself.

/// runs the searches one after the other on ONE thread; the instance is reused while the world does not change
fn run_plain_sequence(items: &[(World, Query)]) -> Vec<Outcome> {
    let its: Vec<(World, Query)> = items.to_vec();
    let n = its.len();
    let (tx, rx) = std::sync::mpsc::channel();
    std::thread::spawn(move || {
        let mut out = vec![];
        let mut cur: Option<(String, routee_compass_core::algorithm::search::search_instance::SearchInstance)> = None;
        for (w, q) in its.iter() {
            let key = world_to_json(w).to_string();
            if cur.as_ref().map(|c| c.0 != key).unwrap_or(true) {
                cur = match catch({
                    let w = w.clone();
                    move || build_instance(&w)
                }) {
                    Ok(si) => Some((key, si)),
                    Err(_) => None,
                };
            }
            let o = match &cur {
                None => Outcome::status_only("Panic"),
                Some((_, si)) => catch(std::panic::AssertUnwindSafe(|| run_on_instance(si, q))).unwrap_or_else(|_| Outcome::status_only("Panic")),
            };
            out.push(o);
        }
        let _ = tx.send(out);
    });
    match rx.recv_timeout(std::time::Duration::from_millis(WATCHDOG_MS * n as u64)) {
        Ok(o) => o,
        Err(_) => vec![Outcome::status_only("Hang"); n],
    }
}

fn plain_seq_json(items: &[(World, Query)], index: usize) -> Value {
    json!({"kind": "plain", "index": index,
           "items": items.iter().map(|(w, q)| json!({"world": world_to_json(w), "query": query_to_json(q)})).collect::<Vec<_>>()})
}

fn add_plain_sequence(cx: &mut Ctx, family: &str, items: &[(World, Query)], only: Option<usize>) {
    let outs = run_plain_sequence(items);
    let shape: Vec<String> = outs.iter().map(|o| o.status.clone()).collect();
    for (i, ((w, q), o)) in items.iter().zip(outs.into_iter()).enumerate() {
        if only.map(|k| k != i).unwrap_or(false) {
            continue;
        }
        if i > 0 {
            cx.st.count(&format!("sequence_previous_status:{}", shape[i - 1]));
        }
        emit_case(cx, &format!("{}#{}of{}", family, i + 1, items.len()), w, q, o, json!({"statuses_of_the_sequence": shape}), Some(plain_seq_json(items, i)));
    }
}

/// ONE loaded graph, ONE frontier service; per element its own frontier model (service.build(fquery)) and search
fn run_real_sequence(base: &RCase, items: &[(Query, Value)], dir: &Path) -> Vec<Outcome> {
    let b = base.clone();
    let its: Vec<(Query, Value)> = items.to_vec();
    let n = its.len();
    let d = dir.to_path_buf();
    let (tx, rx) = std::sync::mpsc::channel();
    std::thread::spawn(move || {
        let fail = |s: &str| vec![Outcome::status_only(s); n];
        let r = catch(std::panic::AssertUnwindSafe(|| {
            std::fs::create_dir_all(&d).unwrap();
            let vfile = d.join("vertices.csv");
            let efile = d.join("edges.csv");
            let mut vb = String::from("vertex_id,x,y\n");
            for v in 0..b.w.n {
                vb.push_str(&format!("{},{},{}\n", v, v as f64 * 0.01, 0.0));
            }
            std::fs::write(&vfile, vb).unwrap();
            let mut eb = String::from("edge_id,src_vertex_id,dst_vertex_id,distance\n");
            for (i, (x, y)) in b.w.edges.iter().enumerate() {
                eb.push_str(&format!("{},{},{},{:?}\n", i, x, y, b.dist[i]));
            }
            std::fs::write(&efile, eb).unwrap();
            let graph = match Graph::from_files(&efile, &vfile, None, None, Some(false)) {
                Ok(g) => Arc::new(g),
                Err(_) => return fail("err:load"),
            };
            let mut k = 0;
            let cj = config_json(&b.cfg, &d, &mut k);
            let service = match CompassAppBuilder::default().build_frontier_model_service(&cj) {
                Ok(s) => s,
                Err(_) => return fail("err:build"),
            };
            let mut si = build_instance(&b.w);
            si.directed_graph = graph;
            let mut out = vec![];
            for (q, fq) in its.iter() {
                let o = match service.build(fq, Arc::new(StateModel::empty())) {
                    Err(_) => Outcome::status_only("err:build"),
                    Ok(m) => {
                        si.frontier_model = m;
                        catch(std::panic::AssertUnwindSafe(|| run_on_instance(&si, q))).unwrap_or_else(|_| Outcome::status_only("Panic"))
                    }
                };
                out.push(o);
            }
            out
        }))
        .unwrap_or_else(|_| fail("Panic"));
        let _ = tx.send(r);
    });
    match rx.recv_timeout(std::time::Duration::from_millis(WATCHDOG_MS * n as u64)) {
        Ok(o) => o,
        Err(_) => vec![Outcome::status_only("Hang"); n],
    }
}

fn add_real_sequence(cx: &mut Ctx, base: &RCase, items: &[(Query, Value)], dir: &Path, only: Option<usize>) {
    let d = dir.join(format!("rwseq{}", cx.st.next_id()));
    let outs = run_real_sequence(base, items, &d);
    let _ = std::fs::remove_dir_all(&d);
    let shape: Vec<String> = outs.iter().map(|o| o.status.clone()).collect();
    for (i, ((q, fq), o)) in items.iter().zip(outs.into_iter()).enumerate() {
        if only.map(|k| k != i).unwrap_or(false) {
            continue;
        }
        let mut rc = base.clone();
        rc.family = format!("{}#{}of{}", base.family, i + 1, items.len());
        rc.q = q.clone();
        rc.fquery = fq.clone();
        let sq = json!({"kind": "real", "index": index_of(i), "statuses_of_the_sequence": shape,
                        "items": items.iter().map(|(q, fq)| json!({"query": query_to_json(q), "fquery": enc(fq), "fquery_text": fq.to_string()})).collect::<Vec<_>>()});
        emit_rcase(cx, &rc, o, Some(sq));
    }
}
fn index_of(i: usize) -> usize {
    i
}

/// deterministic sequences on one thread: a failing search (no path / unknown vertex / terminated) and then searches
/// over the same vertices
fn plain_sequences() -> Vec<(String, Vec<(World, Query)>)> {
    let mut out = vec![];
    for alg in [Alg::Dijkstra, Alg::AStar(Some(1.0))] {
        for dir in [Dir::Forward, Dir::Reverse] {
            let mk = |n: usize, es: &[(usize, usize)], cs: &[f64], forbid: &[usize]| {
                let es2: Vec<(usize, usize)> = es.iter().map(|(a, b)| if dir == Dir::Reverse { (*b, *a) } else { (*a, *b) }).collect();
                let mut w = World::new(n, es2, cs.to_vec());
                w.forbid = forbid.to_vec();
                if alg != Alg::Dijkstra {
                    w.h = (0..n).map(|v| 0.25 * (v as f64 + 1.0)).collect();
                }
                w
            };
            let rings = mk(6, &[(0, 1), (1, 2), (2, 0), (3, 4), (4, 5), (5, 3)], &[1.0, 2.0, 3.5, 1.5, 2.5, 3.25], &[]);
            let bridge = mk(4, &[(0, 1), (1, 2), (2, 3), (0, 2)], &[1.0, 2.0, 4.0, 7.5], &[2]);
            let mut limited = rings.clone();
            limited.term = Term::Iter(1);
            let v = |s: usize, t: Option<usize>| vq(alg, dir, s, t);
            let e = |s: usize, t: Option<usize>| eq(alg, dir, s, t);
            let r = |q: Query| (rings.clone(), q);
            out.push(("sequence_nopath_then_reachable".to_string(), vec![r(v(0, Some(4))), r(v(0, Some(2)))]));
            out.push(("sequence_nopath_then_tree".to_string(), vec![r(v(0, Some(4))), r(v(0, None))]));
            out.push(("sequence_unknown_vertex_then_reachable".to_string(), vec![r(v(7, Some(1))), r(v(0, Some(2))), r(v(0, None))]));
            out.push(("sequence_four".to_string(), vec![r(v(0, Some(4))), r(v(1, Some(5))), r(v(2, Some(1))), r(v(1, None))]));
            out.push(("sequence_edge_oriented".to_string(), vec![r(e(0, Some(3))), r(e(0, Some(2))), r(e(0, None))]));
            out.push(("sequence_terminated_then_reachable".to_string(), vec![(limited.clone(), v(0, Some(2))), r(v(0, Some(2))), r(v(0, None))]));
            out.push(("sequence_all_successful".to_string(), vec![r(v(0, Some(2))), r(v(1, Some(0))), r(v(0, None))]));
            out.push(("sequence_forbidden_bridge".to_string(), vec![(bridge.clone(), v(0, Some(3))), (bridge.clone(), v(0, None)), (bridge.clone(), v(0, Some(2)))]));
            out.push(("sequence_other_network_failed".to_string(), vec![(bridge.clone(), v(0, Some(3))), r(v(0, Some(2))), r(v(0, None))]));
        }
    }
    out
}

/// sequences of queries with DIFFERENT vehicles on one vehicle-restriction service (4 m bridge / 10 ton bridge as the
/// only connector): van then truck, truck then van, ...
fn real_sequences() -> Vec<(RCase, Vec<(Query, Value)>)> {
    let mut out = vec![];
    let vehicle = |h: Value, wgt: Value| json!({"vehicle_parameters": {"height": h, "width": [2.5, "meters"], "total_length": [12.0, "meters"], "trailer_length": [8.0, "meters"], "total_weight": wgt, "number_of_axles": 2}});
    let van = vehicle(json!([8.2, "feet"]), json!([3500.0, "kg"]));
    let truck = vehicle(json!([4.5, "meters"]), json!([36000.0, "kg"]));
    let cfgs: Vec<(&str, Cfg, Option<Value>)> = vec![
        ("height_4m", Cfg::Vehicle { rows: vec![(2, "maximum_height".into(), 4.0, "meters".into())] }, None),
        ("weight_10tons", Cfg::Vehicle { rows: vec![(2, "maximum_total_weight".into(), 10.0, "tons".into())] }, None),
        ("combined", Cfg::Combined(vec![Cfg::Vehicle { rows: vec![(2, "maximum_height".into(), 4.0, "meters".into())] }, Cfg::RoadClass { lookup: vec![1, 1, 2, 1, 1, 1] }]), Some(json!([1, 2]))),
    ];
    for (ci, (tag, cfg, classes)) in cfgs.iter().enumerate() {
        for (oi, order) in [vec![&van, &truck], vec![&truck, &van], vec![&van, &van, &truck], vec![&truck, &truck, &van, &truck]].iter().enumerate() {
            for (ti, target) in [Some(4), None].iter().enumerate() {
                let alg = [Alg::Dijkstra, Alg::AStar(Some(1.0))][(ci + oi + ti) % 2];
                let (mut w, dist) = two_parts(false, [12.5, 0.0, 1e-3][(ci + oi) % 3]);
                if alg != Alg::Dijkstra {
                    w.h = vec![3.0, 2.5, 1.0, 0.5, 0.0, 0.0];
                }
                let q = Query { alg, dir: Dir::Forward, orient: Orient::Vertex, source: 0, target: *target, query_wf: None };
                let items: Vec<(Query, Value)> = order
                    .iter()
                    .map(|v| {
                        let mut fq = (**v).clone();
                        if let Some(c) = classes {
                            fq["road_classes"] = c.clone();
                        }
                        (q.clone(), fq)
                    })
                    .collect();
                let names: Vec<&str> = order.iter().map(|v| if std::ptr::eq(*v, &van) { "van" } else { "truck" }).collect();
                let base = RCase { family: format!("real_world_sequence_{}:{}", tag, names.join("_")), w, dist, q: q.clone(), cfg: cfg.clone(), fquery: json!({}) };
                out.push((base, items));
            }
        }
    }
    out
}

// ------------------------------------------------------------------------------------------ cost model variants
// Reachability does not depend on costs: with CostAggregation::Mul (and Sum as a control) and a vehicle cost rate /
// weight that makes the feature cost of some edges NEGATIVE before the strictly-positive floor, every edge stays
// traversable.  The REAL CostModel is built with these settings; the Coq search model has no such cost model, so these
// cases carry no M line (said so in the check); S = reachb / reach_set on the graph.

#[derive(Clone, Copy, Debug, PartialEq)]
enum RateKind {
    Offset(f64),
    Factor(f64),
    Weight(f64),
}
fn rate_name(r: RateKind) -> String {
    match r {
        RateKind::Offset(x) => format!("offset:{}", x),
        RateKind::Factor(x) => format!("factor:{}", x),
        RateKind::Weight(x) => format!("weight:{}", x),
    }
}
/// the feature cost of an edge before the floor
fn rated(r: RateKind, c: f64) -> f64 {
    match r {
        RateKind::Offset(x) => c + x,
        RateKind::Factor(x) => c * x,
        RateKind::Weight(x) => c * x,
    }
}

fn run_with_cost_model(w: &World, q: &Query, rate: RateKind, mul: bool) -> Outcome {
    use routee_compass_core::model::cost::cost_aggregation::CostAggregation;
    use routee_compass_core::model::cost::cost_model::CostModel;
    use routee_compass_core::model::cost::vehicle::vehicle_cost_rate::VehicleCostRate;
    use std::collections::HashMap;
    let (w2, q2) = (w.clone(), q.clone());
    let (tx, rx) = std::sync::mpsc::channel();
    std::thread::spawn(move || {
        let o = catch(move || {
            let mut si = build_instance(&w2);
            let (weight, vr) = match rate {
                RateKind::Offset(x) => (1.0, VehicleCostRate::Offset { offset: x }),
                RateKind::Factor(x) => (1.0, VehicleCostRate::Factor { factor: x }),
                RateKind::Weight(x) => (x, VehicleCostRate::Raw),
            };
            let cm = CostModel::new(
                Arc::new(HashMap::from([(String::from(FEATURE), weight)])),
                Arc::new(HashMap::from([(String::from(FEATURE), vr)])),
                Arc::new(HashMap::new()),
                if mul { CostAggregation::Mul } else { CostAggregation::Sum },
                si.state_model.clone(),
            );
            match cm {
                Ok(cm) => {
                    si.cost_model = Arc::new(cm);
                    run_on_instance(&si, &q2)
                }
                Err(_) => Outcome::status_only("err:build"),
            }
        })
        .unwrap_or_else(|_| Outcome::status_only("Panic"));
        let _ = tx.send(o);
    });
    match rx.recv_timeout(std::time::Duration::from_millis(WATCHDOG_MS)) {
        Ok(o) => o,
        Err(_) => Outcome::status_only("Hang"),
    }
}

fn add_cost_case(cx: &mut Ctx, family: &str, w: &World, q: &Query, rate: RateKind, mul: bool) {
    let id = cx.st.next_id();
    let o = run_with_cost_model(w, q, rate, mul);
    let text = summary(q, &o);
    // the world S sees: the same graph WITHOUT a cost table (all zero: S then compares status, route and the tree's
    // vertex set, not the labels -- the reported state labels are distances, the search minimises the rated cost)
    let mut ws = w.clone();
    ws.cost = vec![0.0; w.cost.len()];
    ws.h = vec![];
    let rated_costs: Vec<f64> = w.cost.iter().map(|c| rated(rate, *c)).collect();
    let terms = vec![term_s5(id, &ws, q, &o, &text)];
    let desc = json!({"id": id, "family": family, "world": world_to_json(w), "query": query_to_json(q), "no_model_line": true,
                      "cost_model": {"rate": rate_name(rate), "aggregation": if mul { "mul" } else { "sum" },
                                     "rate_kind": match rate { RateKind::Offset(_) => "offset", RateKind::Factor(_) => "factor", RateKind::Weight(_) => "weight" },
                                     "rate_bits": fbits(match rate { RateKind::Offset(x) | RateKind::Factor(x) | RateKind::Weight(x) => x })},
                      "impl_short": text.chars().take(200).collect::<String>()});
    let st = &mut cx.st;
    st.count(&format!("family:{}", family.split('#').next().unwrap_or(family)));
    st.count(&format!("status:{}", o.status));
    st.count(&format!("cost_aggregation:{}", if mul { "mul" } else { "sum" }));
    st.count("no_model_line_by_design");
    if rated_costs.iter().any(|c| *c < 0.0) {
        st.count("edge_with_negative_feature_cost");
    }
    let rl = o.routes.iter().map(|r| r.len()).max().unwrap_or(0);
    let ts = o.trees.iter().map(|t| t.len()).max().unwrap_or(0);
    if o.status == "nopath" || (q.target.is_none() && ts >= 2) || rl >= 2 {
        st.mark_nontrivial(&format!("{}|{}|{}|{}", world_to_json(w), query_to_json(q), rate_name(rate), mul));
    }
    st.case(terms, vec![format!("I {} {}", id, text)], desc);
}

fn cost_model_cases() -> Vec<(String, World, Query, RateKind, bool)> {
    let mut out = vec![];
    for (rate, tag) in [(RateKind::Offset(-2.0), "short_connector_below_offset"), (RateKind::Factor(-1.0), "negative_factor"), (RateKind::Weight(-0.5), "negative_weight"), (RateKind::Offset(-0.25), "offset_all_positive")] {
        for mul in [true, false] {
            for dir in [Dir::Forward, Dir::Reverse] {
                for alg in [Alg::Dijkstra, Alg::AStar(Some(1.0))] {
                    // two parts joined by the SHORT connector 1 -> 2 (cost 0.5); everything else costs >= 3
                    let es: Vec<(usize, usize)> = [(0, 1), (1, 0), (1, 2), (2, 3), (3, 2), (3, 4)].iter().map(|(a, b)| if dir == Dir::Reverse { (*b, *a) } else { (*a, *b) }).collect();
                    let mut w = World::new(6, es, vec![3.0, 3.5, 0.5, 4.0, 4.5, 5.0]);
                    if alg != Alg::Dijkstra {
                        w.h = vec![3.0, 2.5, 1.0, 0.5, 0.0, 0.0];
                    }
                    for (qn, s, t) in [("destination", 0usize, Some(4usize)), ("behind_connector", 0, Some(2)), ("tree", 0, None), ("unreachable", 0, Some(5))] {
                        out.push((format!("cost_model_{}#{}:{}", tag, if mul { "mul" } else { "sum" }, qn), w.clone(), vq(alg, dir, s, t), rate, mul));
                    }
                    out.push((format!("cost_model_{}#{}:edge_oriented", tag, if mul { "mul" } else { "sum" }), w.clone(), eq(alg, dir, 0, Some(5)), rate, mul));
                }
            }
        }
    }
    out
}

// ------------------------------------------------------------------------------------------ hub vertices
// A star: hub 0 with `spokes` incident edges in the search direction (70000 > 65536).  Too large for the Coq runner:
// no M line, and the S line is the expectation stated by the harness from the property (every spoke is one permitted
// edge away: the tree holds every spoke, every sampled spoke gets a route) -- a summary-fact oracle, not Coq-evaluated.
fn add_star_case(cx: &mut Ctx, spokes: usize, dir: Dir) {
    let id = cx.st.next_id();
    let edges: Vec<(usize, usize)> = (0..spokes).map(|i| if dir == Dir::Forward { (0, i + 1) } else { (i + 1, 0) }).collect();
    let cost: Vec<f64> = (0..spokes).map(|i| 1.0 + (i % 97) as f64 / 64.0).collect();
    let w = World::new(spokes + 1, edges, cost);
    // both members of a few pairs of edge positions that differ by 65536, the first, the last, one in the middle
    let mut sample: Vec<usize> = vec![1, spokes, spokes / 2];
    for k in 0..4 {
        if k + 65536 < spokes {
            sample.push(k + 1);
            sample.push(k + 65536 + 1);
        }
    }
    sample.sort();
    sample.dedup();
    let (w2, sample2) = (w.clone(), sample.clone());
    let (tx, rx) = std::sync::mpsc::channel();
    std::thread::spawn(move || {
        let r = catch(move || {
            let si = build_instance(&w2);
            let tree = run_on_instance(&si, &vq(Alg::Dijkstra, dir, 0, None));
            let tree_size = tree.trees.first().map(|t| t.len()).unwrap_or(0);
            let mut routed = 0;
            let mut nopath = 0;
            let mut other = 0;
            for t in sample2.iter() {
                let o = run_on_instance(&si, &vq(if t % 2 == 0 { Alg::Dijkstra } else { Alg::AStar(Some(1.0)) }, dir, 0, Some(*t)));
                if o.is_ok() && o.routes.len() == 1 && o.routes[0].len() == 1 && o.routes[0][0].edge + 1 == *t {
                    routed += 1;
                } else if o.status == "nopath" {
                    nopath += 1;
                } else {
                    other += 1;
                }
            }
            format!("star spokes={} tree_status={} tree_size={} sampled_spokes_with_their_route={}/{} nopath={} other={}", w2.n - 1, tree.status, tree_size, routed, sample2.len(), nopath, other)
        })
        .unwrap_or_else(|_| "Panic".to_string());
        let _ = tx.send(r);
    });
    let text = rx.recv_timeout(std::time::Duration::from_millis(60000)).unwrap_or_else(|_| "Hang".to_string());
    let expected = format!("star spokes={} tree_status=Ok tree_size={} sampled_spokes_with_their_route={}/{} nopath=0 other=0", spokes, spokes, sample.len(), sample.len());
    let terms = vec![format!("line \"S\"%string {}%Z {}", id, coq_string(&expected))];
    let desc = json!({"id": id, "family": "hub_star", "star": {"spokes": spokes, "dir": if dir == Dir::Forward { "forward" } else { "reverse" }}, "no_model_line": true,
                      "oracle": "summary facts stated by the harness from the property (not Coq-evaluated)", "impl_short": text});
    cx.st.count("family:hub_star");
    cx.st.count("no_model_line_by_design");
    cx.st.mark_nontrivial(&format!("star|{}|{:?}", spokes, dir));
    cx.st.case(terms, vec![format!("I {} {}", id, text)], desc);
}

fn rand_costs(rng: &mut Rng, m: usize) -> Vec<f64> {
    if rng.chance(2, 3) {
        gen_costs(rng, m, CostFamily::TieFree)
    } else {
        gen_costs(rng, m, CostFamily::TieRich)
    }
}
fn rand_h(rng: &mut Rng, n: usize) -> Vec<f64> {
    (0..n)
        .map(|_| match rng.below(3) {
            0 => 0.0,
            1 => rng.range(0, 6) as f64,
            _ => rng.range(0, (1 << 21) - 1) as f64 / 64.0,
        })
        .collect()
}

/// all digraphs on `n` vertices (self loops allowed, no parallel edges): every subset of the n*n possible edges
fn all_digraphs(n: usize) -> Vec<Vec<(usize, usize)>> {
    let mut pairs = vec![];
    for a in 0..n {
        for b in 0..n {
            pairs.push((a, b));
        }
    }
    let m = pairs.len();
    (0..(1u32 << m)).map(|mask| (0..m).filter(|i| mask & (1 << i) != 0).map(|i| pairs[i]).collect()).collect()
}

const ALGS4: [Alg; 4] = [Alg::Dijkstra, Alg::AStar(Some(0.5)), Alg::AStar(Some(1.0)), Alg::AStar(Some(3.0))];

/// every ordered pair / destination-less query x directions x orientations on one small graph
fn exhaustive_on(cx: &mut Ctx, rng: &mut Rng, family: &str, n: usize, edges: &[(usize, usize)], all_algs_vertex: bool, edge_orient: bool, rot: &mut usize) {
    let dirs = [Dir::Forward, Dir::Reverse];
    let m = edges.len();
    let mut w = World::new(n, edges.to_vec(), rand_costs(rng, m));
    // forbid sets are covered by the random family; here: one case in eight forbids one edge
    if m > 0 && rng.chance(1, 8) {
        w.forbid = vec![rng.below(m as u64) as usize];
    }
    for dir in dirs {
        for s in 0..n {
            let mut targets: Vec<Option<usize>> = (0..n).filter(|t| *t != s).map(Some).collect();
            targets.push(None);
            for t in targets {
                let algs: Vec<Alg> = if all_algs_vertex {
                    ALGS4.to_vec()
                } else {
                    *rot += 1;
                    vec![ALGS4[*rot % 4]]
                };
                for alg in algs {
                    w.h = if alg == Alg::Dijkstra { vec![] } else { rand_h(rng, n) };
                    add_case(cx, family, &w, &vq(alg, dir, s, t), json!({}));
                }
            }
        }
        if edge_orient {
            for e1 in 0..m {
                let mut targets: Vec<Option<usize>> = (0..m).filter(|t| *t != e1).map(Some).collect();
                targets.push(None);
                for t in targets {
                    *rot += 1;
                    let alg = ALGS4[*rot % 4];
                    w.h = if alg == Alg::Dijkstra { vec![] } else { rand_h(rng, n) };
                    add_case(cx, family, &w, &eq(alg, dir, e1, t), json!({}));
                }
            }
        }
    }
}

fn gen_query5(rng: &mut Rng, w: &mut World) -> (Query, &'static str) {
    let orient = if rng.chance(1, 3) && !w.edges.is_empty() { Orient::Edge } else { Orient::Vertex };
    let dir = if rng.chance(1, 2) { Dir::Forward } else { Dir::Reverse };
    let alg = match rng.below(5) {
        0 => Alg::Dijkstra,
        1 => Alg::AStar(None),
        _ => Alg::AStar(Some(*rng.pick(&WEIGHT_FACTORS))),
    };
    let dom = match orient {
        Orient::Vertex => w.n,
        Orient::Edge => w.edges.len(),
    };
    let source = rng.below(dom as u64) as usize;
    let target = if rng.chance(1, 3) || dom < 2 {
        None
    } else {
        let mut t = rng.below(dom as u64) as usize;
        if t == source {
            t = (t + 1) % dom;
        }
        Some(t)
    };
    let (tv, kind) = match (orient, target) {
        (_, None) => (None, HKind::Zero),
        (Orient::Vertex, t) => (t, *rng.pick(&[HKind::Zero, HKind::Exact, HKind::Half, HKind::Admissible, HKind::Wild, HKind::Wild])),
        (Orient::Edge, Some(te)) => (Some(if dir == Dir::Forward { w.edges[te].0 } else { w.edges[te].1 }), *rng.pick(&[HKind::Zero, HKind::Exact, HKind::Admissible, HKind::Wild])),
    };
    gen_heuristic(rng, w, dir, tv, kind);
    let kname = match kind {
        HKind::Zero => "zero",
        HKind::Exact => "exact",
        HKind::Half => "half",
        HKind::Admissible => "admissible",
        HKind::Wild => "wild",
    };
    (Query { alg, dir, orient, source, target, query_wf: None }, kname)
}

fn main() {
    silence_panics();
    let a = parse_args();
    if a.stream == "probe" {
        for (name, w, q) in c05_cases().into_iter().chain(extreme_factor_cases()).chain(long_haul_cases()).chain(boundary_cases()) {
            let o = run_query_watchdog(&w, &q, WATCHDOG_MS);
            println!("{:34} {:?} {:?} {:?} s={} t={:?} forbid={:?} :: {}", name, q.alg, q.dir, q.orient, q.source, q.target, w.forbid, summary(&q, &o));
        }
        for rc in real_world_cases(true) {
            let o = run_real_world(&rc, &std::env::temp_dir().join(format!("c05_probe_{}", std::process::id())));
            println!("{:60} {:?} t={:?} dist[2]={:?} :: {}", rc.family, rc.q.alg, rc.q.target, rc.dist[2], summary(&rc.q, &o));
        }
        std::process::exit(0);
    }
    let thorough = a.extra.iter().any(|x| x == "--thorough");
    let mut cx = Ctx { st: Stream::new(&a.out, "reach", &header(), a.shards), hangs: 0 };
    if let Some(p) = &a.replay {
        cx.st.full = true;
        let v: serde_json::Value = serde_json::from_str(&std::fs::read_to_string(p).unwrap()).unwrap();
        let case = &v["case"];
        if !case["sequence"].is_null() {
            // an element of a sequence: re-run the whole sequence, report that element
            let sq = &case["sequence"];
            let index = sq["index"].as_u64().unwrap_or(0) as usize;
            if sq["kind"] == "real" {
                let base = rcase_from_json(case);
                let items: Vec<(Query, Value)> = sq["items"].as_array().unwrap().iter().map(|it| (query_from_json(&it["query"]), dec(&it["fquery"]))).collect();
                let mut b = base.clone();
                b.family = base.family.split('#').next().unwrap_or("replay").to_string();
                add_real_sequence(&mut cx, &b, &items, &a.out, Some(index));
            } else {
                let items: Vec<(World, Query)> = sq["items"].as_array().unwrap().iter().map(|it| (world_from_json(&it["world"]), query_from_json(&it["query"]))).collect();
                add_plain_sequence(&mut cx, "replay", &items, Some(index));
            }
            cx.st.finish();
            std::process::exit(0);
        }
        if !case["star"].is_null() {
            add_star_case(&mut cx, case["star"]["spokes"].as_u64().unwrap() as usize, if case["star"]["dir"] == "reverse" { Dir::Reverse } else { Dir::Forward });
            cx.st.finish();
            std::process::exit(0);
        }
        if !case["cost_model"].is_null() {
            let x = funbits(case["cost_model"]["rate_bits"].as_str().unwrap());
            let rate = match case["cost_model"]["rate_kind"].as_str().unwrap_or("offset") {
                "factor" => RateKind::Factor(x),
                "weight" => RateKind::Weight(x),
                _ => RateKind::Offset(x),
            };
            add_cost_case(&mut cx, "replay", &world_from_json(&case["world"]), &query_from_json(&case["query"]), rate, case["cost_model"]["aggregation"] == "mul");
            cx.st.finish();
            std::process::exit(0);
        }
        if !case["cfg"].is_null() {
            let rc = rcase_from_json(case);
            add_rcase(&mut cx, &rc, &a.out);
            cx.st.finish();
            std::process::exit(0);
        }
        let w = world_from_json(&case["world"]);
        let q = query_from_json(&case["query"]);
        add_case(&mut cx, "replay", &w, &q, json!({}));
        cx.st.finish();
        std::process::exit(0);
    }
    let mut rng = Rng::new(a.seed);
    // ---- deterministic boundary families first ----
    for (name, w, q) in c05_cases() {
        add_case(&mut cx, &name, &w, &q, json!({}));
    }
    for (name, w, q) in extreme_factor_cases() {
        add_case(&mut cx, &name, &w, &q, json!({}));
    }
    for (name, w, q) in long_haul_cases() {
        add_case(&mut cx, &name, &w, &q, json!({}));
    }
    for rc in real_world_cases(thorough) {
        add_rcase(&mut cx, &rc, &a.out);
    }
    for (spokes, dir) in [(70000usize, Dir::Forward), (70000, Dir::Reverse), (65537, Dir::Forward), (65536, Dir::Reverse)] {
        add_star_case(&mut cx, spokes, dir);
    }
    for (name, w, q, rate, mul) in cost_model_cases() {
        add_cost_case(&mut cx, &name, &w, &q, rate, mul);
    }
    for (name, items) in plain_sequences() {
        add_plain_sequence(&mut cx, &name, &items, None);
    }
    for (base, items) in real_sequences() {
        add_real_sequence(&mut cx, &base, &items, &a.out, None);
    }
    // random sequences: three searches on one thread over one random graph, the first towards an unreachable
    // destination when there is one
    for _ in 0..(if thorough { 300 } else { 25 }) {
        let mut r = rng.fork();
        let (n, edges, _flags) = gen_graph(&mut r);
        let cost = rand_costs(&mut r, edges.len());
        let mut w = World::new(n, edges, cost);
        for e in 0..w.edges.len() {
            if r.chance(1, 5) {
                w.forbid.push(e);
            }
        }
        let mut items: Vec<(World, Query)> = vec![];
        for k in 0..3 {
            let (mut q, _) = gen_query5(&mut r, &mut w);
            if k == 0 && q.orient == Orient::Vertex && q.dir == Dir::Forward {
                // aim the first search at a vertex the origin cannot reach (frontier ignored), if there is one
                let reach = reachable(&w, q.dir, q.source);
                if let Some(t) = (0..w.n).find(|v| !reach[*v]) {
                    q.target = Some(t);
                }
            }
            items.push((w.clone(), q));
        }
        add_plain_sequence(&mut cx, "sequence_random", &items, None);
    }
    for (name, w, q) in boundary_cases() {
        if in_class(&w) {
            add_case(&mut cx, &format!("boundary#{}", name), &w, &q, json!({"boundary": name}));
        }
    }
    // ---- every digraph on <= 2 (thorough: <= 3) vertices, every ordered pair, both directions and orientations ----
    let mut rot = (a.seed as usize) % 4;
    for n in 1..=2usize {
        for edges in all_digraphs(n) {
            let mut r = rng.fork();
            exhaustive_on(&mut cx, &mut r, &format!("exhaustive_n{}", n), n, &edges, thorough, true, &mut rot);
            // plus one parallel twin of a random edge: vertex-oriented queries only
            if !edges.is_empty() && (thorough || n == 2) {
                let mut e2 = edges.clone();
                let twin = *r.pick(&edges);
                e2.push(twin);
                r.shuffle(&mut e2);
                exhaustive_on(&mut cx, &mut r, &format!("exhaustive_n{}_parallel", n), n, &e2, false, thorough, &mut rot);
            }
        }
    }
    if thorough {
        for edges in all_digraphs(3) {
            let mut r = rng.fork();
            exhaustive_on(&mut cx, &mut r, "exhaustive_n3", 3, &edges, true, true, &mut rot);
            if !edges.is_empty() {
                let mut e2 = edges.clone();
                let twin = *r.pick(&edges);
                e2.push(twin);
                r.shuffle(&mut e2);
                exhaustive_on(&mut cx, &mut r, "exhaustive_n3_parallel", 3, &e2, false, false, &mut rot);
            }
        }
    }
    // ---- random sparse / disconnected graphs with random forbid sets ----
    let base = cx.st.next_id();
    while cx.st.next_id() < base + a.n {
        let mut r = rng.fork();
        let (n, edges, flags) = gen_graph(&mut r);
        let long_haul = r.chance(1, 5);
        let cost = if long_haul { gen_costs(&mut r, edges.len(), CostFamily::LongHaul) } else { rand_costs(&mut r, edges.len()) };
        let mut w = World::new(n, edges, cost);
        let fkind = match r.below(4) {
            0 => "none",
            1 => "sparse",
            2 => "dense",
            _ => "half",
        };
        let (num, den) = match fkind {
            "sparse" => (1, 8),
            "dense" => (1, 3),
            "half" => (1, 2),
            _ => (0, 1),
        };
        for e in 0..w.edges.len() {
            if r.chance(num, den) {
                w.forbid.push(e);
            }
        }
        let k = 1 + r.below(3);
        for _ in 0..k {
            if cx.st.next_id() >= base + a.n {
                break;
            }
            let (q, hk) = gen_query5(&mut r, &mut w);
            for f in &flags {
                cx.st.count(&format!("forced:{}", f));
            }
            cx.st.count(&format!("heuristic:{}", hk));
            cx.st.count(&format!("forbid:{}", fkind));
            let fam = if long_haul { "random_long_haul" } else { "random" };
            add_case(&mut cx, fam, &w, &q, json!({"flags": flags, "heuristic": hk, "forbid": fkind}));
        }
    }
    cx.st.finish();
    // abandoned watchdog threads (if any) die here
    std::process::exit(0);
}
