//! C06 harness: one response per query, independent of parallelism, order and schedule.
//!   stream `lb`    : the REAL compass_app_ops::apply_load_balancing_policy on generated weight
//!                    vectors (absent / numeric / unreadable estimates, ties, zeros, negatives,
//!                    overflow to inf, parallelism 0..20), bins compared exactly with the model
//!                    (M) and checked in Coq to be a partition in original order (S).
//!   stream `batch` : a REAL CompassApp built from a TOML configuration on a generated grid
//!                    network (grid_search [+ load_balancer] input plugins, summary + traversal
//!                    output plugins, optional iteration limit), batches of 0..200 queries mixing
//!                    valid / malformed / unreachable / terminated / grid-search queries, run with
//!                    configured parallelism 0,1,2,3,8,16 and per-run overrides, shuffles, both
//!                    persistence policies, file sink or none, inside rayon pools of 1..16
//!                    threads, each configuration several times.  The returned vector (exact
//!                    order) and the sink content (as a multiset) are compared with the model
//!                    composed from the real component functions (M) and, as a multiset, with
//!                    what CompassApp::run answers for each query alone at parallelism 1 (S).
//!   stream `energy`: the batch stream on an application with the energy_model traversal (bundled
//!                    Toyota_Camry smartcore model, three cost features): total_cost and the
//!                    state_model indices bit for bit; corpus witness: one query 300 times.
//!   stream `ecache`: the energy stream with float_cache_policy ON in the applications under test,
//!                    on inputs where no two distinct (speed, grade) lookups share a cache key
//!                    (integer speed table in the key's unit, no grade table, key precision 0):
//!                    there the cache is transparent, so every response must equal, bit for bit,
//!                    what an application WITHOUT cache answers for the query alone (deciding).
//!   expansion cases (in `batch` / `energy`): one grid query alone vs "every expanded query
//!                    answered on its own" -- differs exactly in K_child_error_drops_siblings.
//!   stream `cache` : probe of the prediction cache (FloatCachePolicy behind
//!                    PredictionModelRecord::predict): is the answer order dependent? reported
//!                    in the histogram only, never an alarm (D-CACHE).
//! All helpers that build the application are private to this file.
use routee_compass::app::compass::compass_app::{run_single_query, CompassApp};
use routee_compass::app::compass::compass_app_error::CompassAppError;
use routee_compass::app::compass::compass_app_ops::apply_load_balancing_policy;
use routee_compass::app::compass::config::compass_app_builder::CompassAppBuilder;
use routee_compass::plugin::input::input_json_extensions::InputJsonExtensions;
use routee_compass::plugin::input::input_plugin::InputPlugin;
use routee_compass::plugin::input::input_plugin_ops as in_ops;
use routee_compass::plugin::plugin_error::PluginError;
use serde_json::{json, Map, Value};
use std::collections::{BTreeMap, HashMap};
use std::path::{Path, PathBuf};
use verif_harness::*;

// ---------------------------------------------------------------- network + application

const GW: usize = 5;
const GH: usize = 5;
const P_CFGS: [usize; 6] = [0, 1, 2, 3, 8, 16];
const ITER_LIMIT: u64 = 9;

struct Net {
    seed: u64,
    dir: PathBuf,
    n_grid: usize,
    sink_only: usize, // vertex with an outgoing edge only: unreachable as a destination
    isolated: usize,  // vertex without edges
}

fn write_network(dir: &Path, seed: u64) -> Net {
    std::fs::create_dir_all(dir).unwrap();
    let mut rng = Rng::new(seed ^ 0xC06);
    let n_grid = GW * GH;
    let coord = |v: usize| -> (f64, f64) {
        if v < n_grid {
            (-105.0 + 0.01 * (v % GW) as f64, 39.7 + 0.01 * (v / GW) as f64)
        } else {
            (-105.2 + 0.01 * (v - n_grid) as f64, 39.5)
        }
    };
    let mut vs = String::from("vertex_id,x,y\n");
    for v in 0..n_grid + 2 {
        let (x, y) = coord(v);
        vs.push_str(&format!("{},{},{}\n", v, x, y));
    }
    let mut es = String::from("edge_id,src_vertex_id,dst_vertex_id,distance\n");
    let mut speeds = String::new();
    let mut geoms = String::new();
    let mut eid = 0usize;
    let mut add = |a: usize, b: usize, rng: &mut Rng| {
        let d = 100 + rng.below(1900);
        es.push_str(&format!("{},{},{},{}\n", eid, a, b, d));
        speeds.push_str(&format!("{}\n", 20 + rng.below(80)));
        let (ax, ay) = coord(a);
        let (bx, by) = coord(b);
        geoms.push_str(&format!("LINESTRING ({} {}, {} {})\n", ax, ay, bx, by));
        eid += 1;
    };
    for y in 0..GH {
        for x in 0..GW {
            let v = y * GW + x;
            if x + 1 < GW {
                add(v, v + 1, &mut rng);
                add(v + 1, v, &mut rng);
            }
            if y + 1 < GH {
                add(v, v + GW, &mut rng);
                add(v + GW, v, &mut rng);
            }
        }
    }
    add(n_grid, 0, &mut rng);
    std::fs::write(dir.join("vertices.csv"), vs).unwrap();
    std::fs::write(dir.join("edges.csv"), es).unwrap();
    std::fs::write(dir.join("speeds.csv"), speeds).unwrap();
    std::fs::write(dir.join("geoms.txt"), geoms).unwrap();
    // tables for the deciding cache family (stream `ecache`): few distinct speeds and grades,
    // all exactly ON the grid of the cache key, grades of both signs.  Under the real key
    // function (round half away from zero) distinct values never share a key.
    //   grid 0 (key_precisions [0,0]): speeds integer km/h, grades integer (decimal unit)
    //   grid 1 (key_precisions [1,2] and [2,2]): speeds multiples of 0.5 km/h, grades multiples of 0.01
    let mut g = Rng::new(seed ^ 0x6A1D);
    let (mut s0, mut s1, mut g0, mut g1) = (String::new(), String::new(), String::new(), String::new());
    for _ in 0..eid {
        s0.push_str(&format!("{}\n", g.pick(&[30, 45, 60, 72])));
        s1.push_str(&format!("{}\n", g.pick(&["30", "45.5", "60", "72.5"])));
        g0.push_str(&format!("{}\n", g.range(-2, 2)));
        g1.push_str(&format!("{}\n", g.pick(&["-0.03", "-0.02", "-0.01", "0.0", "0.01", "0.02", "0.03"])));
    }
    std::fs::write(dir.join("speeds_grid0.csv"), s0).unwrap();
    std::fs::write(dir.join("speeds_grid1.csv"), s1).unwrap();
    std::fs::write(dir.join("grades_grid0.txt"), g0).unwrap();
    std::fs::write(dir.join("grades_grid1.txt"), g1).unwrap();
    Net { seed, dir: dir.to_path_buf(), n_grid, sink_only: n_grid, isolated: n_grid + 1 }
}

/// the traversal output plugin's route format of an application variant: every format occurs
/// (four of the five per run, all five over seeds 1..3)
const ROUTE_FORMATS: [&str; 5] = ["edge_id", "wkt", "json", "geo_json", "wkb"];
fn route_format(net: &Net, lb: bool, iter: bool) -> &'static str {
    ROUTE_FORMATS[(lb as usize + 2 * iter as usize + net.seed as usize) % 5]
}

fn app_toml(net: &Net, p_cfg: usize, lb: bool, iter_limit: bool) -> String {
    let d = net.dir.to_str().unwrap();
    let lbp = if lb {
        ",\n  { type = \"load_balancer\", weight_heuristic = { type = \"custom\", custom_weight_type = { type = \"numeric\" } } }"
    } else {
        ""
    };
    let term = if iter_limit { format!("[termination]\ntype = \"iterations\"\nlimit = {}\n", ITER_LIMIT) } else { String::new() };
    format!(
        r#"parallelism = {p}
search_orientation = "vertex"
response_persistence_policy = "persist_response_in_memory"
[response_output_policy]
type = "none"
[graph]
edge_list_input_file = "{d}/edges.csv"
vertex_list_input_file = "{d}/vertices.csv"
verbose = false
[traversal]
type = "speed_table"
speed_table_input_file = "{d}/speeds.csv"
speed_unit = "kilometers_per_hour"
output_time_unit = "hours"
[access]
type = "no_access_model"
[cost]
cost_aggregation = "sum"
[cost.weights]
distance = 0
time = 1
[cost.vehicle_rates.time]
type = "raw"
[cost.vehicle_rates.distance]
type = "raw"
{term}[plugin]
input_plugins = [
  {{ type = "grid_search" }}{lbp}
]
output_plugins = [
  {{ type = "summary" }},
  {{ type = "traversal", route = "{rf}", geometry_input_file = "{d}/geoms.txt" }},
]
"#,
        p = p_cfg,
        d = d,
        term = term,
        lbp = lbp,
        rf = route_format(net, lb, iter_limit)
    )
}

fn build_app(net: &Net, p_cfg: usize, lb: bool, iter_limit: bool) -> CompassApp {
    let toml = app_toml(net, p_cfg, lb, iter_limit);
    let conf = net.dir.join(format!("conf_{}_{}_{}.toml", p_cfg, lb, iter_limit));
    std::fs::write(&conf, &toml).unwrap();
    CompassApp::try_from_config_toml_string(toml, conf.to_str().unwrap().to_string(), &CompassAppBuilder::default())
        .unwrap_or_else(|e| panic!("app build failed: {}", e))
}

struct Ctx {
    net: Net,
    apps: HashMap<(usize, bool, bool), CompassApp>,
    pools: HashMap<usize, rayon::ThreadPool>,
    sink_dir: PathBuf,
    energy: bool, // stream `energy`: every application uses the energy_model traversal (3 cost features)
    /// stream `ecache`: the energy applications under test have the prediction cache on, with
    /// key_precisions [0,0], [1,2] or [2,2] (chosen by the plugin/termination variant) and speed /
    /// grade tables whose values lie exactly on the key grid, grades of both signs: no two distinct
    /// inputs of the network share a key.  On such inputs the cache is transparent
    /// (c06_cache_transparent_if_stable), so the reference (each query alone, and the component
    /// tables of the model) is taken from an application WITHOUT cache.
    cache: bool,
    /// run-sequence families: the earlier runs of the sequence on the same application instance
    /// (recorded in the case description so that a replay can repeat them first)
    prior: Vec<Value>,
}
const ECACHE_PRECISIONS: [(i32, i32); 3] = [(0, 0), (1, 2), (2, 2)];
/// marker for the reference application of a variant (parallelism 1, never a cache)
const REF: usize = usize::MAX;
impl Ctx {
    fn new(out: &Path, net_seed: u64) -> Ctx {
        let net = write_network(&out.join("net"), net_seed);
        let sink_dir = out.join("sink");
        std::fs::create_dir_all(&sink_dir).unwrap();
        Ctx { net, apps: HashMap::new(), pools: HashMap::new(), sink_dir, energy: false, cache: false, prior: vec![] }
    }
    fn app(&mut self, p_cfg: usize, lb: bool, iter: bool) -> &CompassApp {
        if !self.apps.contains_key(&(p_cfg, lb, iter)) {
            let a = if self.energy {
                let cached = self.cache && p_cfg != REF;
                let grid = if self.cache { Some(ECACHE_PRECISIONS[(lb as usize + 2 * iter as usize) % 3]) } else { None };
                build_energy_app(&self.net, if p_cfg == REF { 1 } else { p_cfg }, lb, iter, cached, grid)
            } else {
                build_app(&self.net, if p_cfg == REF { 1 } else { p_cfg }, lb, iter)
            };
            self.apps.insert((p_cfg, lb, iter), a);
        }
        &self.apps[&(p_cfg, lb, iter)]
    }
    fn ensure_pool(&mut self, k: usize) {
        if !self.pools.contains_key(&k) {
            self.pools.insert(k, rayon::ThreadPoolBuilder::new().num_threads(k).build().unwrap());
        }
    }
}

// ---------------------------------------------------------------- canonical responses

fn route_canon(v: &Value) -> Value {
    match v {
        Value::Array(a) => Value::Array(a.iter().map(route_canon).collect()),
        Value::Object(m) => {
            let mut o = Map::new();
            for k in ["cost", "traversal_summary", "path", "state_model"] {
                if let Some(x) = m.get(k) {
                    o.insert(k.to_string(), x.clone());
                }
            }
            Value::Object(o)
        }
        other => other.clone(),
    }
}
/// JSON text -> Value in which every float literal is kept as the string "#F<literal>": the sink
/// content is read back from text, and serde_json's default float parser may be 1 ulp off
/// (feature float_roundtrip is not enabled), so floats are compared through the shortest
/// round-trip decimal text serde_json prints, which identifies the binary64 value.
fn parse_keep_floats(text: &str) -> Option<Value> {
    let b = text.as_bytes();
    let mut out = String::with_capacity(text.len() + 16);
    let mut i = 0;
    while i < b.len() {
        let c = b[i];
        if c == b'"' {
            let start = i;
            i += 1;
            while i < b.len() && b[i] != b'"' {
                if b[i] == b'\\' {
                    i += 1;
                }
                i += 1;
            }
            i += 1;
            out.push_str(&text[start..i.min(b.len())]);
        } else if c == b'-' || c.is_ascii_digit() {
            let start = i;
            while i < b.len() && (b[i] == b'-' || b[i] == b'+' || b[i] == b'.' || b[i] == b'e' || b[i] == b'E' || b[i].is_ascii_digit()) {
                i += 1;
            }
            let tok = &text[start..i];
            if tok.contains('.') || tok.contains('e') || tok.contains('E') {
                out.push_str(&format!("\"#F{}\"", tok));
            } else {
                out.push_str(tok);
            }
        } else {
            out.push(c as char);
            i += 1;
        }
    }
    serde_json::from_str(&out).ok()
}

/// (request, ok | error text, route cost, final state, path); wall-clock and memory fields dropped
fn canonical_text(text: &str) -> String {
    let Some(resp) = parse_keep_floats(text) else {
        return format!("<unparsable {}>", text.len());
    };
    let mut o = Map::new();
    o.insert("request".into(), resp.get("request").cloned().unwrap_or(json!("<no request>")));
    if let Some(e) = resp.get("error") {
        o.insert("error".into(), e.clone());
    } else {
        o.insert("ok".into(), route_canon(resp.get("route").unwrap_or(&Value::Null)));
    }
    if let Some(e) = resp.get("csv_error") {
        o.insert("csv_error".into(), e.clone());
    }
    if let Some(e) = resp.get("PANIC") {
        o.insert("PANIC".into(), e.clone());
    }
    show_json(&Value::Object(o), true)
}
fn canonical(resp: &Value) -> String {
    canonical_text(&serde_json::to_string(resp).unwrap())
}

struct Intern {
    ids: HashMap<String, i64>,
    texts: Vec<String>,
    vals: HashMap<i64, Value>, // the first response seen with this canonical form (for the CSV record map)
}
impl Intern {
    fn new() -> Intern {
        Intern { ids: HashMap::new(), texts: vec![], vals: HashMap::new() }
    }
    fn id_resp(&mut self, resp: &Value) -> i64 {
        let i = self.id(canonical(resp));
        self.vals.entry(i).or_insert_with(|| resp.clone());
        i
    }
    fn id(&mut self, canon: String) -> i64 {
        if let Some(i) = self.ids.get(&canon) {
            return *i;
        }
        let i = 100 + self.texts.len() as i64;
        self.ids.insert(canon.clone(), i);
        self.texts.push(canon);
        i
    }
}

// ---------------------------------------------------------------- independent oracles

fn num_eq(a: &Value, b: &Value) -> bool {
    match (a.as_f64(), b.as_f64()) {
        (Some(x), Some(y)) => x == y,
        _ => a == b,
    }
}
/// does `req` answer query `q`: every field of q (but grid_search) is in req with the same value,
/// every grid_search key carries one of the listed values
fn answers(req: &Value, q: &Value) -> bool {
    let (Some(r), Some(qo)) = (req.as_object(), q.as_object()) else {
        return req == q;
    };
    if let (Some(a), Some(b)) = (r.get("grid_search"), qo.get("grid_search")) {
        // a query rejected before expansion is echoed unchanged
        return a == b && qo.iter().all(|(k, v)| r.get(k).map(|y| num_eq(y, v) || y == v).unwrap_or(false));
    }
    for (k, v) in qo {
        if k == "grid_search" {
            if let Some(g) = v.as_object() {
                for (gk, gv) in g {
                    if let Some(arr) = gv.as_array() {
                        let ok = arr.iter().any(|x| match x {
                            Value::Object(xo) => xo.iter().all(|(k2, v2)| r.get(k2).map(|y| num_eq(y, v2)).unwrap_or(false)),
                            _ => r.get(gk).map(|y| num_eq(y, x)).unwrap_or(false),
                        });
                        if !ok {
                            return false;
                        }
                    }
                }
            }
            continue;
        }
        // a grid key overrides a plain field of the same name
        let overridden = qo.get("grid_search").and_then(|g| g.as_object()).map(|g| {
            g.iter().any(|(gk, gv)| {
                gv.is_array() && (gk == k || gv.as_array().unwrap().iter().any(|x| x.as_object().map(|xo| xo.contains_key(k)).unwrap_or(false)))
            })
        });
        if overridden == Some(true) {
            continue;
        }
        match r.get(k) {
            Some(y) if num_eq(y, v) => {}
            _ => return false,
        }
    }
    true
}
// ---------------------------------------------------------------- query generation

fn gen_weight(r: &mut Rng) -> Option<Value> {
    match r.below(20) {
        0..=2 => None,
        3 => Some(json!("abc")),
        4 => Some(*r.pick(&[&json!(null), &json!(true), &json!([1]), &json!({"w": 1})])).cloned(),
        5 => Some(json!(0)),
        6 => Some(json!(-(r.below(5) as i64))),
        7 => Some(json!(r.below(4) as f64 * 0.5)),
        8 => Some(json!(1.0e308)),
        9..=13 => Some(json!(r.below(6) + 1)),
        _ => Some(json!((r.below(2000) as f64) / 16.0)),
    }
}

fn gen_query(r: &mut Rng, net: &Net, qid: usize) -> (Value, &'static str) {
    let n = net.n_grid as u64;
    let v = |r: &mut Rng| r.below(n);
    let (mut q, fam): (Value, &'static str) = match r.below(100) {
        0..=44 => (json!({"origin_vertex": v(r), "destination_vertex": v(r)}), "valid"),
        45..=49 => (json!({"origin_vertex": v(r)}), "tree_only"),
        50..=56 => {
            let d = *r.pick(&[net.sink_only, net.isolated]);
            (json!({"origin_vertex": v(r), "destination_vertex": d}), "unreachable")
        }
        57..=59 => (json!({"origin_vertex": net.isolated, "destination_vertex": v(r)}), "unreachable"),
        60..=63 => (json!({"origin_vertex": v(r), "destination_vertex": 900 + r.below(100)}), "bad_vertex"),
        64..=67 => (json!({"destination_vertex": v(r)}), "missing_origin"),
        68..=70 => (json!({"origin_vertex": "a", "destination_vertex": v(r)}), "ill_typed_origin"),
        71..=72 => (json!({"origin_vertex": v(r), "destination_vertex": -3}), "ill_typed_destination"),
        73..=75 => ((*r.pick(&[&json!(5), &json!("q"), &json!([1, 2]), &json!(null), &json!(true)])).clone(), "non_object"),
        76..=89 => {
            let k = 1 + r.below(4) as usize;
            let ds: Vec<Value> = (0..k)
                .map(|_| if r.chance(1, 6) { json!(net.isolated) } else if r.chance(1, 10) { json!(950) } else { json!(v(r)) })
                .collect();
            let mut g = Map::new();
            g.insert("destination_vertex".into(), json!(ds));
            if r.chance(1, 3) {
                let os: Vec<Value> = (0..1 + r.below(3)).map(|_| json!(v(r))).collect();
                g.insert("origin_vertex".into(), json!(os));
            }
            if r.chance(1, 5) {
                g.insert("tag".into(), json!([{"a": 1, "b": 2}, {"a": 3}]));
            }
            (json!({"origin_vertex": v(r), "grid_search": g}), "grid")
        }
        90..=93 => {
            // grid over the weight estimate, sometimes with an unreadable value among the values
            let ws: Vec<Value> = (0..2 + r.below(2)).map(|_| if r.chance(1, 3) { json!("x") } else { json!(r.below(9) + 1) }).collect();
            (json!({"origin_vertex": v(r), "destination_vertex": v(r), "grid_search": {"query_weight_estimate": ws}}), "grid_weight")
        }
        94..=96 => {
            let g = (*r.pick(&[&json!({}), &json!({"a": []}), &json!({"a": [1], "b": []}), &json!(7), &json!({"grid_search": [1]}), &json!({"k": "not an array"})])).clone();
            (json!({"origin_vertex": v(r), "destination_vertex": v(r), "grid_search": g}), "grid_degenerate")
        }
        97..=98 => (json!({}), "empty_object"),
        _ => (json!({"origin_vertex": v(r), "destination_vertex": v(r)}), "valid"),
    };
    // per-query state_features overrides (same feature names, other units / initial values)
    let sf = |r: &mut Rng| -> Value {
        let mut m = Map::new();
        if r.chance(3, 4) {
            m.insert("distance".into(), json!({"distance_unit": *r.pick(&["miles", "meters", "kilometers"]), "initial": *r.pick(&[0.0, 100.0, 5.5])}));
        }
        if m.is_empty() || r.chance(1, 3) {
            m.insert("time".into(), json!({"time_unit": *r.pick(&["minutes", "hours", "seconds"]), "initial": *r.pick(&[0.0, 30.0])}));
        }
        Value::Object(m)
    };
    let mut fam = fam;
    if fam == "valid" && r.chance(1, 12) {
        // origin == destination: a successful search with an EMPTY route
        q["destination_vertex"] = q["origin_vertex"].clone();
        fam = "same_vertex";
    }
    if fam == "valid" && r.chance(1, 6) {
        q["state_features"] = sf(r);
        fam = "state_features";
    }
    if fam == "valid" && r.chance(1, 8) {
        // grid section whose object-valued options have different key sets and set keys that
        // change the search
        let mut opts = vec![json!({"scenario": "short", "weights": {"distance": 1, "time": 0}}), json!({"scenario": "default"})];
        if r.chance(1, 2) {
            opts.push(json!({"scenario": "b"}));
        }
        if r.chance(1, 2) {
            opts.push(json!({"scenario": "wf", "weight_factor": 2.0}));
        }
        if r.chance(1, 2) {
            opts.push(json!({"scenario": "sf", "state_features": sf(r)}));
        }
        if r.chance(1, 3) {
            opts.push(json!({"scenario": "agg", "cost_aggregation": "mul", "weights": {"distance": 1, "time": 1}}));
        }
        r.shuffle(&mut opts);
        let mut g = Map::new();
        g.insert("_scenario".into(), json!(opts));
        if r.chance(1, 3) {
            g.insert("destination_vertex".into(), json!([v(r), v(r)]));
        }
        q["grid_search"] = Value::Object(g);
        fam = "grid_objects";
    }
    if let Some(o) = q.as_object_mut() {
        if fam != "grid_weight" {
            if let Some(w) = gen_weight(r) {
                o.insert("query_weight_estimate".into(), w);
            }
        }
        if r.chance(4, 5) {
            o.insert("qid".into(), json!(qid));
        }
    }
    (q, fam)
}

// ---------------------------------------------------------------- stream lb

#[derive(Clone, Debug)]
enum W {
    None,
    Num(f64),
    Bad,
}
fn coq_w(w: &W) -> String {
    match w {
        W::None => "WNone".into(),
        W::Num(x) => format!("(WSome {})", coq_f64(*x)),
        W::Bad => "WErr".into(),
    }
}
fn err_class(e: &CompassAppError) -> &'static str {
    match e {
        CompassAppError::PluginError(PluginError::InternalError(_)) => "InternalError",
        CompassAppError::PluginError(PluginError::InputPluginFailed { .. }) => "weight",
        _ => "other",
    }
}
fn show_bins(b: &[Vec<i64>]) -> String {
    show_list(b, |x| show_list(x, |i| i.to_string()))
}
fn coq_zl(l: &[i64]) -> String {
    coq_list(l, |i| coq_z(*i as i128))
}

fn lb_case(st: &mut Stream, p: usize, ws: Vec<W>, default: f64, family: &str) {
    let id = st.next_id();
    let queries: Vec<Value> = ws
        .iter()
        .enumerate()
        .map(|(i, w)| match w {
            W::None => json!({"index": i}),
            W::Num(x) => json!({"index": i, "query_weight_estimate": x}),
            W::Bad => json!({"index": i, "query_weight_estimate": "heavy"}),
        })
        .collect();
    let qs = queries.clone();
    let out = catch(move || {
        apply_load_balancing_policy(&qs, p, default)
            .map(|bins| bins.iter().map(|b| b.iter().map(|q| q["index"].as_i64().unwrap()).collect::<Vec<i64>>()).collect::<Vec<_>>())
            .map_err(|e| err_class(&e).to_string())
    });
    let (payload, impl_term) = match &out {
        Ok(Ok(bins)) => (
            format!("Ok {}", show_bins(bins)),
            format!("(Res.Ok {})", coq_list(bins, |b| coq_zl(b))),
        ),
        Ok(Err(c)) => (format!("Err {}", c), format!("(Res.Err {})", coq_string(c))),
        Err(_) => ("Panic".to_string(), "Res.Panic \"\"%string".to_string()),
    };
    let ws_coq = coq_list(&ws, coq_w);
    let terms = vec![
        format!("lb_line {} {} {} {}", id, coq_nat(p), ws_coq, coq_f64(default)),
        format!("lb_spec_line {} {} {} {}", id, coq_nat(p), ws_coq, impl_term),
    ];
    st.count(&format!("family:{}", family));
    st.count(&format!("p:{}", if p > 16 { 17 } else { p }));
    st.count(&format!("n:{}", (ws.len() + 9) / 10 * 10));
    if let Ok(Ok(bins)) = &out {
        let used = bins.iter().filter(|b| !b.is_empty()).count();
        let uneven = bins.iter().map(|b| b.len()).max() != bins.iter().map(|b| b.len()).min();
        if used >= 2 && uneven {
            st.count("nontrivial:uneven_bins");
            st.mark_nontrivial(&payload);
        }
    } else {
        st.count("outcome:err");
    }
    let desc = json!({"id": id, "family": family, "p": p, "default": default,
        "weights": ws.iter().map(|w| match w { W::None => json!(null), W::Num(x) => json!(x), W::Bad => json!("bad") }).collect::<Vec<_>>()});
    st.case(terms, vec![format!("I {} {}", id, payload)], desc);
}

fn lb_random_weights(r: &mut Rng, n: usize) -> Vec<W> {
    let style = r.below(8);
    (0..n)
        .map(|i| match style {
            0 => W::Num(1.0),
            1 => W::Num((i + 1) as f64),
            2 => W::Num([1.0, 4.0, 1.0, 2.0][i % 4]),
            3 => W::Num(r.below(4) as f64),                        // many ties and zeros
            4 => W::Num(r.range(-3, 3) as f64 * 0.25),             // negatives
            5 => W::Num(*r.pick(&[1.0e308, 1.0, -1.0e308, 5e-324, 0.1, 0.2, 0.3])), // overflow, rounding
            6 => match r.below(10) { 0 => W::None, 1 => W::Bad, _ => W::Num(r.below(1000) as f64 / 7.0) },
            _ => match r.below(4) { 0 => W::None, _ => W::Num(r.unit_f64() * 100.0) },
        })
        .collect()
}

fn stream_lb(a: &Args) {
    let header = "From Coq Require Import ZArith List String Floats.\nFrom RC Require Import Base.Show Base.Res Model.Batch Model.BatchRun.\nImport ListNotations.\nOpen Scope Z_scope.";
    let mut st = Stream::new(&a.out, "lb", header, a.shards);
    if let Some(p) = &a.replay {
        st.full = true;
        let v: Value = serde_json::from_str(&std::fs::read_to_string(p).unwrap()).unwrap();
        let c = &v["case"];
        let ws: Vec<W> = c["weights"]
            .as_array()
            .unwrap()
            .iter()
            .map(|w| if w.is_null() { W::None } else if let Some(x) = w.as_f64() { W::Num(x) } else { W::Bad })
            .collect();
        lb_case(&mut st, c["p"].as_u64().unwrap() as usize, ws, c["default"].as_f64().unwrap(), "replay");
        st.finish();
        return;
    }
    // the four unit-test inputs of compass_app_ops.rs
    lb_case(&mut st, 4, (0..12).map(|_| W::Num(1.0)).collect(), 1.0, "unit_uniform");
    lb_case(&mut st, 4, (0..12).map(|i| W::Num((i + 1) as f64)).collect(), 1.0, "unit_incremental");
    lb_case(&mut st, 4, (0..12).map(|i| W::Num([1.0, 4.0, 1.0, 2.0][i % 4])).collect(), 1.0, "unit_cycling");
    lb_case(&mut st, 4, (0..12).map(|i| W::Num(if i == 0 { 4.0 } else { 1.0 })).collect(), 1.0, "unit_outlier");
    // boundaries: sizes around the parallelism, parallelism 0 and 1, all-default, zero weights
    for p in [0usize, 1, 2, 3, 8, 16] {
        for n in [0usize, 1, 2, 3, 7, 8, 9, 16, 17] {
            lb_case(&mut st, p, (0..n).map(|_| W::None).collect(), 1.0, "all_default");
            lb_case(&mut st, p, (0..n).map(|_| W::Num(0.0)).collect(), 1.0, "all_zero");
        }
    }
    lb_case(&mut st, 3, vec![W::Num(1.0), W::Bad, W::Num(1.0)], 1.0, "unreadable");
    lb_case(&mut st, 0, vec![W::Bad], 1.0, "unreadable_p0");
    lb_case(&mut st, 2, vec![W::Num(-0.0), W::Num(0.0), W::Num(-0.0), W::Num(0.0)], 1.0, "signed_zero");
    lb_case(&mut st, 3, vec![W::Num(1e308), W::Num(1e308), W::Num(1e308), W::Num(1e308), W::Num(1e308), W::Num(1e308), W::Num(1.0)], 1.0, "overflow_inf");
    let mut rng = Rng::new(a.seed);
    while st.next_id() < a.n {
        let mut r = rng.fork();
        let p = match r.below(10) {
            0 => 0,
            1 => 1,
            2..=6 => 2 + r.below(7) as usize,
            _ => 9 + r.below(12) as usize,
        };
        let n = match r.below(6) {
            0 => r.below(4) as usize,
            1..=3 => r.below(25) as usize,
            _ => r.below(70) as usize,
        };
        let ws = lb_random_weights(&mut r, n);
        let default = *r.pick(&[1.0, 1.0, 1.0, 0.0, 2.5]);
        lb_case(&mut st, p, ws, default, "random");
    }
    st.finish();
}

// ---------------------------------------------------------------- stream batch

#[derive(Clone, Debug)]
struct Cfg {
    p_cfg: usize,
    p_run: Option<usize>,
    lb: bool,
    iter: bool,
    discard: bool,
    sink: bool,
    threads: usize,
    reps: usize,
    /// file_flush_rate of the file sink (None = not set: the default, 1)
    flush: Option<i64>,
    /// file sink format: 0 newline-delimited JSON, 1 JSON array, 2 CSV
    fmt: u8,
}

/// the CSV sink used by the stream: optional mappings only, so that formatting never rewrites a
/// response (ResponseOutputFormat::format_response adds an error for a missing non-optional path)
fn csv_format_json() -> Value {
    json!({"type": "csv", "sorted": false, "mapping": {
        "qid": {"optional": "request.qid"},
        "o": {"optional": "request.origin_vertex"},
        "d": {"optional": "request.destination_vertex"},
        "cost": {"optional": "route.cost.total_cost"}}})
}
fn sink_format_json(fmt: u8) -> Value {
    match fmt {
        1 => json!({"type": "json", "newline_delimited": false}),
        2 => csv_format_json(),
        // plain (non-optional) paths into the route only: a response without a route (a failed
        // search, a pre-search error) gives a record that consists of separators only
        3 => json!({"type": "csv", "sorted": false, "mapping": {
            "cost": "route.cost.total_cost",
            "time": "route.traversal_summary.time",
            "distance": "route.traversal_summary.distance"}}),
        _ => json!({"type": "json", "newline_delimited": true}),
    }
}

enum SRes {
    Ok(Vec<i64>),
    Err(i64),
}
/// what the real component functions answer, for every JSON value that occurs as a query or as an
/// element of the plugin state (ids: Elems)
#[derive(Default)]
struct Tables {
    stages: Vec<BTreeMap<i64, SRes>>,          // plugin k: element -> InputPlugin::process outcome
    nonobj: BTreeMap<i64, (i64, i64)>,         // non-object element -> (not-an-object error, invariant error)
    kids: BTreeMap<i64, (W, i64)>,             // processed element -> (weight, response)
    qids: Vec<i64>,                            // element id of every query of the batch
    alone: BTreeMap<i64, Vec<i64>>,            // query element -> CompassApp::run([q]) at parallelism 1
    echo_bad: Vec<usize>,                      // batch indices whose alone responses do not carry a request that answers them
    single_bad: Vec<usize>,                    // batch indices without grid section whose alone run has != 1 response
    in_k: Vec<bool>,                           // batch index in the class K_child_error_drops_siblings
    n_expanded: usize,
}
struct Elems {
    ids: HashMap<String, i64>,
}
impl Elems {
    fn id(&mut self, v: &Value) -> i64 {
        let t = serde_json::to_string(v).unwrap();
        let n = 1000 + self.ids.len() as i64;
        *self.ids.entry(t).or_insert(n)
    }
}

fn run_cfg(override_p: Option<usize>, discard: bool, sink_file: Option<&Path>) -> Value {
    run_cfg_full(override_p, discard, sink_file, None, 0)
}
fn run_cfg_full(override_p: Option<usize>, discard: bool, sink_file: Option<&Path>, flush: Option<i64>, fmt: u8) -> Value {
    let mut o = Map::new();
    if let Some(p) = override_p {
        o.insert("parallelism".into(), json!(p));
    }
    o.insert(
        "response_persistence_policy".into(),
        json!(if discard { "discard_response_from_memory" } else { "persist_response_in_memory" }),
    );
    match sink_file {
        Some(f) => {
            let mut pol = json!({"type": "file", "filename": f.to_str().unwrap(), "format": sink_format_json(fmt)});
            if let Some(n) = flush {
                pol["file_flush_rate"] = json!(n);
            }
            o.insert("response_output_policy".into(), pol);
        }
        None => {
            o.insert("response_output_policy".into(), json!({"type": "none"}));
        }
    }
    Value::Object(o)
}

/// Emulates the element-wise driver of apply_input_plugins with the app's REAL plugins, calling
/// InputPlugin::process on every element of every stage (also past a failing sibling, so that the
/// tables describe every expanded query) and the real weight reader / run_single_query /
/// package_error on the fully processed elements.
fn add_query_to_tables(app: &CompassApp, fresh: &dyn Fn() -> CompassApp, q: &Value, t: &mut Tables, el: &mut Elems, intern: &mut Intern) -> bool {
    let qid = el.id(q);
    t.qids.push(qid);
    if !q.is_object() {
        let mut c = q.clone();
        let e1 = in_ops::package_error(&mut c, "query is not a JSON object");
        let mut c2 = q.clone();
        let e2 = in_ops::package_invariant_error(Some(&mut c2), None);
        t.nonobj.insert(qid, (intern.id_resp(&e1), intern.id_resp(&e2)));
        return false;
    }
    let mut cur: Vec<Value> = vec![q.clone()];
    let mut grid_children = 0usize;
    let mut later_err = false;
    for (k, plugin) in app.input_plugins.iter().enumerate() {
        if t.stages.len() <= k {
            t.stages.push(BTreeMap::new());
        }
        let mut next: Vec<Value> = vec![];
        for e in &cur {
            let id = el.id(e);
            let mut v = e.clone();
            let outs: Option<Vec<Value>> = match plugin.process(&mut v) {
                Ok(()) => Some(match v {
                    Value::Array(a) => a,
                    other => vec![other],
                }),
                Err(err) => {
                    let resp = in_ops::package_error(&mut v, err);
                    t.stages[k].insert(id, SRes::Err(intern.id_resp(&resp)));
                    if k > 0 {
                        later_err = true;
                    }
                    None
                }
            };
            if let Some(outs) = outs {
                let ids: Vec<i64> = outs.iter().map(|o| el.id(o)).collect();
                t.stages[k].insert(id, SRes::Ok(ids));
                next.extend(outs);
            }
        }
        if k == 0 {
            grid_children = next.len();
        }
        cur = next;
    }
    for c in cur {
        let id = el.id(&c);
        if !c.is_object() {
            let mut c1 = c.clone();
            let e1 = in_ops::package_error(&mut c1, "query is not a JSON object");
            let mut c2 = c.clone();
            let e2 = in_ops::package_invariant_error(Some(&mut c2), None);
            t.nonobj.insert(id, (intern.id_resp(&e1), intern.id_resp(&e2)));
            continue;
        }
        if t.kids.contains_key(&id) {
            continue;
        }
        t.n_expanded += 1;
        match c.get_query_weight_estimate() {
            Err(e) => {
                let mut c2 = c.clone();
                let resp = in_ops::package_error(&mut c2, e);
                t.kids.insert(id, (W::Bad, intern.id_resp(&resp)));
            }
            Ok(w) => {
                // a query with its own state_features is answered by an application that has
                // never answered anything else (the reference must not depend on history)
                let own;
                let a: &CompassApp = if has_state_features(&c) {
                    own = fresh();
                    &own
                } else {
                    app
                };
                let resp = catch(std::panic::AssertUnwindSafe(|| run_single_query(&c, &a.search_orientation, &a.output_plugins, &a.search_app)))
                    .unwrap_or_else(|_| Ok(json!({"request": c, "PANIC": "run_single_query panicked: one response expected"})))
                    .unwrap_or_else(|e| json!({"request": c, "error": format!("run_single_query Err {}", e)}));
                t.kids.insert(id, (w.map(W::Num).unwrap_or(W::None), intern.id_resp(&resp)));
            }
        }
    }
    grid_children >= 2 && later_err
}

fn has_state_features(v: &Value) -> bool {
    serde_json::to_string(v).map(|t| t.contains("state_features")).unwrap_or(false)
}

/// the expansion of a grid-search query computed from the query text alone (independent of
/// the plugin): the cartesian product of the array-valued fields of the section; an object-valued
/// option sets its own keys, any other value sets the field's key; None for a query without a
/// (well-formed) section
fn ideal_children(q: &Value) -> Option<Vec<Value>> {
    let qo = q.as_object()?;
    let g = qo.get("grid_search")?.as_object()?;
    if serde_json::to_string(g).ok()?.contains("grid_search") {
        return None;
    }
    let fields: Vec<(&String, &Vec<Value>)> = g.iter().filter_map(|(k, v)| v.as_array().map(|a| (k, a))).collect();
    if fields.is_empty() || fields.iter().any(|(_, a)| a.is_empty()) {
        return None;
    }
    let mut base = qo.clone();
    base.remove("grid_search");
    let mut out: Vec<Map<String, Value>> = vec![base];
    for (k, options) in fields {
        let mut next = vec![];
        for partial in &out {
            for opt in options {
                let mut c = partial.clone();
                match opt {
                    Value::Object(o) => {
                        for (k2, v2) in o {
                            c.insert(k2.clone(), v2.clone());
                        }
                    }
                    other => {
                        c.insert(k.clone(), other.clone());
                    }
                }
                next.push(c);
            }
        }
        out = next;
    }
    Some(out.into_iter().map(Value::Object).collect())
}

fn build_tables(ctx: &mut Ctx, queries: &[Value], lb: bool, iter: bool, intern: &mut Intern, el: &mut Elems) -> Tables {
    let mut t = Tables::default();
    ctx.app(REF, lb, iter);
    let app1 = &ctx.apps[&(REF, lb, iter)];
    let (net, energy, cache) = (&ctx.net, ctx.energy, ctx.cache);
    // a fresh reference application (parallelism 1, never a cache)
    let fresh = || -> CompassApp {
        if energy {
            let grid = if cache { Some(ECACHE_PRECISIONS[(lb as usize + 2 * iter as usize) % 3]) } else { None };
            build_energy_app(net, 1, lb, iter, false, grid)
        } else {
            build_app(net, 1, lb, iter)
        }
    };
    let cfg1 = run_cfg(Some(1), false, None);
    // one query alone at parallelism 1; on a FRESH application when it carries state_features
    let run_alone = |x: &Value| -> Vec<Value> {
        let own;
        let a: &CompassApp = if has_state_features(x) {
            own = fresh();
            &own
        } else {
            app1
        };
        catch(std::panic::AssertUnwindSafe(|| a.run(vec![x.clone()], Some(&cfg1))))
            .unwrap_or_else(|_| Ok(vec![json!({"request": x, "PANIC": "CompassApp::run panicked on this query alone: one response expected"})]))
            .unwrap_or_else(|e| vec![json!({"request": x, "error": format!("run Err {}", e)})])
    };
    for (i, q) in queries.iter().enumerate() {
        let k = add_query_to_tables(app1, &fresh, q, &mut t, el, intern);
        t.in_k.push(k);
        // the property's reference: every expanded query (expansion computed from the query text,
        // independently of the plugin) run alone; the whole query alone when it has no well-formed
        // grid section or is in the class K_child_error_drops_siblings (reported by the expansion cases)
        let rs: Vec<Value> = match ideal_children(q) {
            Some(children) if !k => children.iter().flat_map(|c| run_alone(c)).collect(),
            _ => run_alone(q),
        };
        if !rs.iter().all(|r| r.get("request").map(|req| answers(req, q)).unwrap_or(false)) {
            t.echo_bad.push(i);
        }
        if q.get("grid_search").is_none() && rs.len() != 1 {
            t.single_bad.push(i);
        }
        t.alone.insert(t.qids[i], rs.iter().map(|r| intern.id_resp(r)).collect());
    }
    t
}

fn coq_tables(t: &Tables) -> String {
    let stages = coq_list(&t.stages, |m| {
        coq_list(&m.iter().collect::<Vec<_>>(), |(k, v)| match v {
            SRes::Ok(l) => format!("({}, SOk {})", coq_z(**k as i128), coq_zl(l)),
            SRes::Err(r) => format!("({}, SErr {})", coq_z(**k as i128), coq_z(*r as i128)),
        })
    });
    let nonobj = coq_list(&t.nonobj.iter().collect::<Vec<_>>(), |(k, (a, b))| {
        format!("({}, ({}, {}))", coq_z(**k as i128), coq_z(*a as i128), coq_z(*b as i128))
    });
    let kids = coq_list(&t.kids.iter().collect::<Vec<_>>(), |(k, (w, r))| {
        format!("({}, ({}, {}))", coq_z(**k as i128), coq_w(w), coq_z(*r as i128))
    });
    format!("{{| t_stages := {}; t_nonobj := {}; t_kids := {} |}}", stages, nonobj, kids)
}

/// one real CompassApp::run; returns the I payload
fn run_once(ctx: &mut Ctx, queries: &[Value], order: &[usize], cfg: &Cfg, sink_file: &Path, intern: &mut Intern) -> String {
    let _ = std::fs::remove_file(sink_file);
    let batch: Vec<Value> = order.iter().map(|i| queries[*i].clone()).collect();
    let rc = run_cfg_full(cfg.p_run, cfg.discard, if cfg.sink { Some(sink_file) } else { None }, cfg.flush, cfg.fmt);
    ctx.ensure_pool(cfg.threads);
    ctx.app(cfg.p_cfg, cfg.lb, cfg.iter);
    let app = &ctx.apps[&(cfg.p_cfg, cfg.lb, cfg.iter)];
    let pool = &ctx.pools[&cfg.threads];
    let out = catch(std::panic::AssertUnwindSafe(|| pool.install(|| app.run(batch, Some(&rc)))));
    match out {
        Err(_) => "Panic".to_string(),
        Ok(Err(e)) => format!("Err {}", err_class(&e)),
        Ok(Ok(rs)) => {
            let ret: Vec<i64> = rs.iter().map(|r| intern.id_resp(r)).collect();
            let wr = if cfg.sink {
                match std::fs::read_to_string(sink_file) {
                    // the run's own output file does not exist: nothing was written for this run
                    Err(_) => "<absent>".to_string(),
                    Ok(text) => {
                        let mut ids: Vec<i64> = read_sink_records(&text, cfg.fmt, intern);
                        ids.sort();
                        show_list(&ids, |i| i.to_string())
                    }
                }
            } else {
                "-".to_string()
            };
            format!("Ok ret={} wr={}", show_list(&ret, |i| i.to_string()), wr)
        }
    }
}

/// the records of a sink file (run never calls ResponseSink::close, so a JSON array file has no
/// closing bracket): ids of the canonical responses (JSON sinks) or of the rows (CSV)
fn read_sink_records(text: &str, fmt: u8, intern: &mut Intern) -> Vec<i64> {
    match fmt {
        2 | 3 => text.lines().skip(1).filter(|l| !l.is_empty()).map(|l| intern.id(format!("csvrow:{}", l))).collect(),
        1 => {
            // "[\n" then pretty-printed objects one after the other
            let body = text.trim_start().strip_prefix('[').unwrap_or(text);
            let mut out = vec![];
            let mut pos = 0usize;
            loop {
                let rest = &body[pos..];
                let skipped = rest.len() - rest.trim_start_matches(|c: char| c.is_whitespace() || c == ',').len();
                pos += skipped;
                if pos >= body.len() || body[pos..].starts_with(']') {
                    break;
                }
                let mut it = serde_json::Deserializer::from_str(&body[pos..]).into_iter::<Value>();
                match it.next() {
                    Some(Ok(_)) => {
                        let end = it.byte_offset();
                        out.push(intern.id(canonical_text(&body[pos..pos + end])));
                        pos += end;
                    }
                    _ => {
                        out.push(intern.id(format!("<unparsable sink content at byte {}>", pos)));
                        break;
                    }
                }
            }
            out
        }
        _ => text.lines().filter(|l| !l.trim().is_empty()).map(|l| intern.id(canonical_text(l))).collect(),
    }
}

type Cache = HashMap<(bool, bool), (Tables, Intern)>;

fn batch_case(
    st: &mut Stream,
    ctx: &mut Ctx,
    net_seed: u64,
    queries: &[Value],
    fams: &[&str],
    order: &[usize],
    cfg: &Cfg,
    tables_cache: &mut Cache,
    family: &str,
) {
    let id = st.next_id();
    if !tables_cache.contains_key(&(cfg.lb, cfg.iter)) {
        let mut intern = Intern::new();
        let mut el = Elems { ids: HashMap::new() };
        let t = build_tables(ctx, queries, cfg.lb, cfg.iter, &mut intern, &mut el);
        tables_cache.insert((cfg.lb, cfg.iter), (t, intern));
    }
    let (tables, intern) = tables_cache.get_mut(&(cfg.lb, cfg.iter)).unwrap();
    let sink_file = ctx.sink_dir.join(format!("case_{}.ndjson", id));
    let mut payload = String::new();
    for rep in 0..cfg.reps {
        let p = run_once(ctx, queries, order, cfg, &sink_file, intern);
        if rep == 0 {
            payload = p;
        } else if p != payload {
            payload = format!("UNSTABLE rep0 {} rep{} {}", payload, rep, p);
            break;
        }
    }
    let _ = std::fs::remove_file(&sink_file);
    // flags from the independent oracles, restricted to the queries of this batch
    let echo_out: Vec<usize> = tables.echo_bad.iter().filter(|i| order.contains(i)).cloned().collect();
    let single_out: Vec<usize> = tables.single_bad.iter().filter(|i| order.contains(i)).cloned().collect();
    let flags = format!(
        " echo={} single={}",
        if echo_out.is_empty() { "T".to_string() } else { format!("F{:?}", echo_out).replace(' ', "") },
        if single_out.is_empty() { "T".to_string() } else { format!("F{:?}", single_out).replace(' ', "") }
    );
    let i_line = if payload.starts_with("Ok ") { format!("{}{}", payload, flags) } else { payload.clone() };
    // model side
    let p_run_eff = cfg.p_run.unwrap_or(cfg.p_cfg);
    let order_z: Vec<i64> = order.iter().map(|i| tables.qids[*i]).collect();
    let tbl = coq_tables(tables);
    let alone_coq = coq_list(&tables.alone.iter().collect::<Vec<_>>(), |(i, l)| format!("({}, {})", coq_z(**i as i128), coq_zl(l)));
    let (impl_ok, impl_ret, impl_wr) = parse_payload(&payload);
    // CSV sinks: the record the REAL format_response makes of every known response, and what it
    // makes of the response itself (a non-optional path that is missing is recorded in the response)
    let mut rowmap: Vec<(i64, i64)> = vec![];
    let mut fmtmap: Vec<(i64, i64)> = vec![];
    if cfg.sink && cfg.fmt >= 2 {
        use routee_compass::app::compass::response::response_output_format::ResponseOutputFormat;
        let f: ResponseOutputFormat = serde_json::from_value(sink_format_json(cfg.fmt)).expect("csv format");
        let mut known: Vec<(i64, Value)> = intern.vals.iter().map(|(k, v)| (*k, v.clone())).collect();
        known.sort_by_key(|(k, _)| *k);
        let mut seen = std::collections::BTreeSet::new();
        for (k, mut v) in known {
            let row = f.format_response(&mut v).unwrap_or_else(|e| format!("<format error {}>", e));
            let rid = intern.id(format!("csvrow:{}", row));
            let k2 = intern.id_resp(&v); // the response after formatting
            if seen.insert(k) {
                rowmap.push((k, rid));
            }
            if k2 != k {
                fmtmap.push((k, k2));
                if seen.insert(k2) {
                    rowmap.push((k2, rid));
                }
            }
        }
    }
    let rowmap_coq = coq_list(&rowmap, |(a, b)| format!("({}, {})", coq_z(*a as i128), coq_z(*b as i128)));
    let fmtmap_coq = coq_list(&fmtmap, |(a, b)| format!("({}, {})", coq_z(*a as i128), coq_z(*b as i128)));
    // under the discard policy without a sink the successful responses are observable nowhere
    let spec_applies = !(cfg.discard && !cfg.sink);
    let mut terms = vec![format!(
        "batch_line {} {} {} {} {} {} {} {} {} {}",
        id,
        coq_bool(cfg.discard),
        coq_bool(cfg.sink),
        coq_nat(cfg.p_cfg),
        coq_nat(p_run_eff),
        tbl,
        coq_zl(&order_z),
        coq_string(&flags),
        rowmap_coq,
        fmtmap_coq
    )];
    if spec_applies {
        terms.push(format!(
            "batch_spec_line {} {} {} {} {} {} {} {} {} {} {}",
            id,
            coq_bool(cfg.discard),
            coq_bool(cfg.sink),
            coq_nat(p_run_eff),
            alone_coq,
            coq_zl(&order_z),
            coq_zl(&impl_ret),
            coq_zl(&impl_wr),
            coq_bool(impl_ok),
            rowmap_coq,
            fmtmap_coq
        ));
    }
    // histogram
    st.count(&format!("family:{}", family));
    st.count(&format!("n:{}", match queries.len() { 0 => "0".to_string(), 1..=4 => "1-4".into(), 5..=16 => "5-16".into(), 17..=50 => "17-50".into(), _ => "51-200".into() }));
    st.count(&format!("p_cfg:{}", cfg.p_cfg));
    st.count(&format!("p_run:{}", cfg.p_run.map(|p| if p > 16 { ">16".to_string() } else { p.to_string() }).unwrap_or("cfg".into())));
    st.count(if cfg.lb { "lb:on" } else { "lb:off" });
    st.count(if cfg.iter { "termination:iterations" } else { "termination:default" });
    st.count(if cfg.discard { "policy:discard" } else { "policy:persist" });
    st.count(if cfg.sink { "sink:file" } else { "sink:none" });
    if cfg.sink {
        st.count(["sink_format:ndjson", "sink_format:json", "sink_format:csv_optional", "sink_format:csv_route_columns"][cfg.fmt.min(3) as usize]);
        st.count(&format!("file_flush_rate:{}", match cfg.flush { None => "default".to_string(), Some(n) if n > 100 => ">batch".to_string(), Some(n) => n.to_string() }));
    }
    if payload == "Panic" {
        st.count("outcome:panic");
    }
    st.count(&format!("threads:{}", cfg.threads));
    let mut seen = std::collections::BTreeSet::new();
    for i in order {
        seen.insert(fams[*i]);
    }
    for f in &seen {
        st.count(&format!("has:{}", f));
    }
    let texts = &intern.texts;
    let is_err = |r: &i64| *r >= 100 && texts.get((*r - 100) as usize).map(|t| t.starts_with("{error:")).unwrap_or(false);
    let all: Vec<i64> = if cfg.sink { impl_wr.clone() } else { impl_ret.clone() };
    let n_err = all.iter().filter(|r| is_err(r)).count();
    let n_ok = all.len() - n_err;
    if n_err > 0 && n_ok > 0 {
        st.count("mix:ok_and_error_responses");
    }
    if texts.iter().any(|t| t.contains("exceeded")) {
        st.count("has:terminated_response");
    }
    if tables.n_expanded > queries.len() {
        st.count("has:expansion");
    }
    let k_queries: Vec<usize> = order.iter().filter(|i| tables.in_k[**i]).cloned().collect();
    if !k_queries.is_empty() {
        st.count("has:query_in_class_K");
    }
    let nontrivial = order.len() >= 2 && p_run_eff >= 2 && n_err > 0 && n_ok > 0;
    if nontrivial {
        st.mark_nontrivial(&format!("{:?}{:?}{}", order, cfg, serde_json::to_string(queries).unwrap()));
    }
    let desc = json!({
        "id": id, "family": family, "net_seed": net_seed, "queries": queries, "fams": fams, "order": order,
        "p_cfg": cfg.p_cfg, "p_run": cfg.p_run, "lb": cfg.lb, "iter": cfg.iter, "discard": cfg.discard,
        "sink": cfg.sink, "threads": cfg.threads, "reps": cfg.reps, "flush": cfg.flush, "fmt": cfg.fmt,
        "queries_in_class_K": k_queries, "flags": flags.trim(), "prior_runs": ctx.prior.clone(),
    });
    if st.full {
        // replay: show what the numbers stand for
        eprintln!("--- case {} payload: {}", id, i_line);
        for (k, t) in intern.texts.iter().enumerate() {
            eprintln!("  response {} = {}", 100 + k, t);
        }
    }
    st.case(terms, vec![format!("I {} {}", id, i_line)], desc);
}

/// one query alone: number and multiset of its responses vs the faithful model (M) and vs
/// "every expanded query answered on its own" (S); differs exactly in class K
fn expansion_case(st: &mut Stream, ctx: &mut Ctx, net_seed: u64, q: &Value, lb: bool, iter: bool, family: &str) {
    let id = st.next_id();
    let mut intern = Intern::new();
    let mut el = Elems { ids: HashMap::new() };
    let t = build_tables(ctx, std::slice::from_ref(q), lb, iter, &mut intern, &mut el);
    let mut ids = t.alone[&t.qids[0]].clone();
    ids.sort();
    let payload = format!("Ok n={} ids={}", ids.len(), show_list(&ids, |i| i.to_string()));
    let tbl = coq_tables(&t);
    let terms = vec![
        format!("expansion_line {} {} {}", id, tbl, coq_z(t.qids[0] as i128)),
        format!("expansion_spec_line {} {} {}", id, tbl, coq_z(t.qids[0] as i128)),
    ];
    st.count(&format!("family:{}", family));
    st.count(if t.in_k[0] { "expansion:in_class_K" } else { "expansion:outside_K" });
    if t.n_expanded >= 2 {
        st.mark_nontrivial(&format!("{}{}{}", q, lb, iter));
    }
    let desc = json!({"id": id, "family": family, "kind": "expansion", "net_seed": net_seed, "query": q, "lb": lb, "iter": iter,
        "in_class_K": t.in_k[0], "expanded": t.n_expanded});
    if st.full {
        eprintln!("--- case {} payload: {}", id, payload);
        for (k, tx) in intern.texts.iter().enumerate() {
            eprintln!("  response {} = {}", 100 + k, tx);
        }
    }
    st.case(terms, vec![format!("I {} {}", id, payload)], desc);
}

fn parse_payload(p: &str) -> (bool, Vec<i64>, Vec<i64>) {
    if !p.starts_with("Ok ret=") {
        return (false, vec![], vec![]);
    }
    let nums = |s: &str| -> Vec<i64> {
        s.trim_matches(|c| c == '[' || c == ']').split(',').filter(|x| !x.is_empty()).filter_map(|x| x.parse().ok()).collect()
    };
    let rest = &p[7..];
    let (ret, wr) = rest.split_once(" wr=").unwrap_or((rest, "-"));
    (true, nums(ret), if wr == "-" { vec![] } else { nums(wr) })
}

fn gen_batch(r: &mut Rng, net: &Net, n: usize) -> (Vec<Value>, Vec<&'static str>) {
    let mut qs: Vec<Value> = vec![];
    let mut fs: Vec<&'static str> = vec![];
    for i in 0..n {
        if i > 0 && r.chance(1, 12) {
            // exact duplicate of an earlier query
            let j = r.below(i as u64) as usize;
            qs.push(qs[j].clone());
            fs.push(fs[j]);
        } else {
            let (q, f) = gen_query(r, net, i);
            qs.push(q);
            fs.push(f);
        }
    }
    (qs, fs)
}

fn gen_cfg(r: &mut Rng, n: usize) -> Cfg {
    let p_cfg = *r.pick(&[1usize, 1, 2, 2, 3, 3, 8, 8, 16, 16, 0]);
    let p_run = if p_cfg == 0 || r.chance(1, 2) {
        Some(match r.below(8) {
            0 => 1,
            1 => 2,
            2 => 3,
            3 => 8,
            4 => 16,
            5 => n + 1 + r.below(3) as usize, // more bins than queries
            6 => n.max(1),
            _ => 1 + r.below(16) as usize,
        })
    } else {
        None
    };
    let discard = r.chance(1, 3);
    Cfg {
        p_cfg,
        p_run,
        lb: r.chance(1, 2),
        iter: r.chance(1, 3),
        discard,
        sink: if discard { r.chance(9, 10) } else { r.chance(1, 2) },
        threads: *r.pick(&[1usize, 2, 4, 16, 16]),
        reps: 3,
        flush: match r.below(10) {
            0..=2 => None,
            3 => Some(1),
            4 => Some(2),
            5 => Some(3),
            6 => Some(4),
            7 => Some(7),
            8 => Some(100),
            _ => Some(n as i64 * 5 + 11), // larger than any number of responses of the batch
        },
        fmt: *r.pick(&[0u8, 0, 0, 1, 2, 3]),
    }
}

/// energy applications need the vehicle: almost every object query names it (a few do not: error)
fn with_model_name(qs: &mut [Value], r: &mut Rng) {
    for q in qs.iter_mut() {
        if let Some(o) = q.as_object_mut() {
            if !r.chance(1, 25) {
                o.insert("model_name".into(), json!("Toyota_Camry"));
            }
        }
    }
}

/// the same query N times in a row through CompassApp::run on one application: the per-query
/// stage must be a function of the query (distinct canonical responses = 1)
fn repeat_case(st: &mut Stream, ctx: &mut Ctx, net_seed: u64, q: &Value, runs: usize, family: &str) {
    let id = st.next_id();
    let app = ctx.app(2, false, false);
    let mut seen: BTreeMap<String, usize> = BTreeMap::new();
    for _ in 0..runs {
        let c = match app.run(vec![q.clone()], None) {
            Ok(rs) => rs.iter().map(canonical).collect::<Vec<_>>().join("|"),
            Err(e) => format!("Err {}", e),
        };
        *seen.entry(c).or_insert(0) += 1;
    }
    st.count(&format!("family:{}", family));
    if st.full {
        for (k, v) in &seen {
            eprintln!("  {} x {}", v, k);
        }
    }
    let desc = json!({"id": id, "family": family, "kind": "repeat", "net_seed": net_seed, "query": q, "runs": runs,
        "distinct": seen.len(), "counts": seen.values().collect::<Vec<_>>()});
    let payload = format!("distinct={}", seen.len());
    st.case(
        vec![format!("line \"M\" {} \"distinct=1\"", id), format!("line \"S\" {} \"distinct=1\"", id)],
        vec![format!("I {} {}", id, payload)],
        desc,
    );
}

/// a base case description with the fields of one step (sink, discard, fmt, flush, order, p_run) on top
fn step_desc(base: &Value, step: &Value) -> Value {
    let mut d = base.clone();
    if let (Some(o), Some(s)) = (d.as_object_mut(), step.as_object()) {
        o.remove("flush");
        for (k, v) in s {
            o.insert(k.clone(), v.clone());
        }
    }
    d
}

fn parse_batch_desc(c: &Value) -> (Vec<Value>, Vec<&'static str>, Vec<usize>, Cfg) {
    let queries: Vec<Value> = c["queries"].as_array().unwrap().clone();
    let fams: Vec<&'static str> = match c["fams"].as_array() {
        Some(a) => a.iter().map(|x| leak(x.as_str().unwrap_or("?"))).collect(),
        None => queries.iter().map(|_| "corpus").collect(),
    };
    let order: Vec<usize> = match c["order"].as_array() {
        Some(a) => a.iter().map(|x| x.as_u64().unwrap() as usize).collect(),
        None => (0..queries.len()).collect(),
    };
    let cfg = Cfg {
        p_cfg: c["p_cfg"].as_u64().unwrap_or(2) as usize,
        p_run: c["p_run"].as_u64().map(|x| x as usize),
        lb: c["lb"].as_bool().unwrap_or(false),
        iter: c["iter"].as_bool().unwrap_or(false),
        discard: c["discard"].as_bool().unwrap_or(false),
        sink: c["sink"].as_bool().unwrap_or(true),
        threads: c["threads"].as_u64().unwrap_or(4) as usize,
        reps: c["reps"].as_u64().unwrap_or(3) as usize,
        flush: c["flush"].as_i64(),
        fmt: c["fmt"].as_u64().unwrap_or(0) as u8,
    };
    (queries, fams, order, cfg)
}

fn corpus_dir(a: &Args) -> Option<PathBuf> {
    let mut it = a.extra.iter();
    while let Some(x) = it.next() {
        if x == "--corpus" {
            return it.next().map(PathBuf::from);
        }
    }
    None
}

fn stream_batch(a: &Args, energy: bool, cache: bool) {
    let header = "From Coq Require Import ZArith List String Floats.\nFrom RC Require Import Base.Show Base.Res Model.Batch Model.BatchRun.\nImport ListNotations.\nOpen Scope Z_scope.";
    let mut st = Stream::new(&a.out, if cache { "ecache" } else if energy { "energy" } else { "batch" }, header, a.shards);
    if let Some(p) = &a.replay {
        st.full = true;
        let v: Value = serde_json::from_str(&std::fs::read_to_string(p).unwrap()).unwrap();
        let c = &v["case"];
        let net_seed = c["net_seed"].as_u64().unwrap_or(1);
        let mut ctx = Ctx::new(&a.out, net_seed);
        ctx.energy = energy;
    ctx.cache = cache;
        ctx.cache = cache;
        if c["kind"] == json!("repeat") {
            repeat_case(&mut st, &mut ctx, net_seed, &c["query"], c["runs"].as_u64().unwrap_or(300) as usize, "replay");
            st.finish();
            return;
        }
        if c["kind"] == json!("expansion") {
            expansion_case(&mut st, &mut ctx, net_seed, &c["query"], c["lb"].as_bool().unwrap(), c["iter"].as_bool().unwrap(), "replay");
            st.finish();
            return;
        }
        let (queries, fams, order, cfg) = parse_batch_desc(c);
        let mut cache = HashMap::new();
        // the earlier runs of a run sequence, on the same application instance
        if let Some(prior) = c["prior_runs"].as_array() {
            let scratch = ctx.sink_dir.join("prior.out");
            let mut tmp = Intern::new();
            for pr in prior {
                let (_, _, o2, c2) = parse_batch_desc(&step_desc(c, pr));
                let _ = run_once(&mut ctx, &queries, &o2, &c2, &scratch, &mut tmp);
            }
            ctx.prior = prior.clone();
        }
        batch_case(&mut st, &mut ctx, net_seed, &queries, &fams, &order, &cfg, &mut cache, "replay");
        st.finish();
        return;
    }
    let net_seed = a.seed;
    let mut ctx = Ctx::new(&a.out, net_seed);
    ctx.energy = energy;
    ctx.cache = cache;
    let cache_mode = cache;
    let mut rng = Rng::new(a.seed ^ 0xBA7C ^ if energy { 0xE0000 } else { 0 } ^ if cache { 0xC0000 } else { 0 });
    // ---- corpus first: witnesses of known findings (expansion cases)
    if let Some(dir) = corpus_dir(a) {
        let mut files: Vec<PathBuf> = std::fs::read_dir(&dir).map(|d| d.filter_map(|e| e.ok().map(|e| e.path())).collect()).unwrap_or_default();
        files.sort();
        for f in files.iter().filter(|f| f.extension().map(|e| e == "json").unwrap_or(false)) {
            let v: Value = serde_json::from_str(&std::fs::read_to_string(f).unwrap()).unwrap();
            let c = &v["case"];
            if c["kind"] == json!("expansion") && !energy {
                expansion_case(&mut st, &mut ctx, net_seed, &c["query"], c["lb"].as_bool().unwrap_or(true), c["iter"].as_bool().unwrap_or(false), "corpus");
            }
            if c["kind"] == json!("batch") && !energy {
                let (queries, fams, order, cfg) = parse_batch_desc(c);
                let mut cache = HashMap::new();
                batch_case(&mut st, &mut ctx, net_seed, &queries, &fams, &order, &cfg, &mut cache, "corpus");
            }
            if c["kind"] == json!("sequence") && !energy {
                // several runs on one application instance: base description + one object per step
                let mut cache = HashMap::new();
                ctx.prior = vec![];
                for step in c["steps"].as_array().cloned().unwrap_or_default() {
                    let (queries, fams, order, cfg) = parse_batch_desc(&step_desc(c, &step));
                    batch_case(&mut st, &mut ctx, net_seed, &queries, &fams, &order, &cfg, &mut cache, "corpus");
                    ctx.prior.push(step);
                }
                ctx.prior = vec![];
            }
            if c["kind"] == json!("repeat") && energy {
                repeat_case(&mut st, &mut ctx, net_seed, &c["query"], c["runs"].as_u64().unwrap_or(300) as usize, "corpus");
            }
        }
    }
    let mut expansions_done: std::collections::HashSet<(String, bool, bool)> = Default::default();
    let base = |p_cfg: usize, p_run: Option<usize>| Cfg { p_cfg, p_run, lb: false, iter: false, discard: false, sink: true, threads: 16, reps: 2, flush: None, fmt: 0 };
    // ---- deterministic boundary families: sizes around the parallelism (chunk arithmetic)
    {
        let mut r = rng.fork();
        let (mut qs, fs) = gen_batch(&mut r, &ctx.net, 17);
        if energy {
            with_model_name(&mut qs, &mut r);
        }
        for n in [0usize, 1, 2, 3, 4, 5, 7, 8, 9, 15, 16, 17] {
            let mut cache = HashMap::new();
            let sub: Vec<Value> = qs[..n].to_vec();
            let order: Vec<usize> = (0..n).collect();
            for p in [1usize, 2, 3, 8, 16] {
                if st.next_id() >= a.n {
                    break;
                }
                // configured parallelism p, no override; then configured 2 with override p
                // (stream ecache: the termination variant selects the key precisions; alternate it)
                let mut c1 = base(p, None);
                let mut c2 = base(2, Some(p));
                if cache_mode && n % 2 == 1 {
                    c1.iter = true;
                    c2.iter = true;
                }
                batch_case(&mut st, &mut ctx, net_seed, &sub, &fs[..n], &order, &c1, &mut cache, "size_vs_parallelism");
                batch_case(&mut st, &mut ctx, net_seed, &sub, &fs[..n], &order, &c2, &mut cache, "size_vs_override");
            }
        }
        // configured parallelism 0: Err without override as soon as one query reaches the balancer
        let mut cache = HashMap::new();
        let order: Vec<usize> = (0..5).collect();
        batch_case(&mut st, &mut ctx, net_seed, &qs[..5].to_vec(), &fs[..5], &order, &base(0, None), &mut cache, "parallelism_zero");
        batch_case(&mut st, &mut ctx, net_seed, &qs[..5].to_vec(), &fs[..5], &order, &base(0, Some(3)), &mut cache, "parallelism_zero");
        batch_case(&mut st, &mut ctx, net_seed, &qs[..5].to_vec(), &fs[..5], &order, &base(3, Some(0)), &mut cache, "parallelism_zero");
        batch_case(&mut st, &mut ctx, net_seed, &[], &[], &[], &base(0, None), &mut cache, "parallelism_zero");
    }
    // ---- every kind of failing query next to valid ones, one at a time
    {
        let (sink_only, isolated) = (ctx.net.sink_only, ctx.net.isolated);
        let valid = json!({"origin_vertex": 0, "destination_vertex": 24, "qid": 0, "query_weight_estimate": 1});
        let far = json!({"origin_vertex": 0, "destination_vertex": 24, "qid": 1, "query_weight_estimate": 7});
        let bad: Vec<(Value, &'static str)> = vec![
            (json!({"origin_vertex": 1, "destination_vertex": sink_only, "query_weight_estimate": 2}), "unreachable"),
            (json!({"origin_vertex": 1, "destination_vertex": 999, "query_weight_estimate": 2}), "bad_vertex"),
            (json!({"destination_vertex": 3, "query_weight_estimate": 2}), "missing_origin"),
            (json!({"origin_vertex": "a", "destination_vertex": 3, "query_weight_estimate": 2}), "ill_typed_origin"),
            (json!({"origin_vertex": 1, "destination_vertex": 3, "query_weight_estimate": "abc"}), "ill_typed_weight"),
            (json!({"origin_vertex": 1, "destination_vertex": 3}), "no_weight"),
            (json!({"origin_vertex": 1, "grid_search": {"destination_vertex": [2, 7, isolated]}, "query_weight_estimate": 2.5}), "grid"),
            (json!({"origin_vertex": 1, "destination_vertex": 3, "grid_search": {}}), "grid_degenerate"),
            (json!({"origin_vertex": 1, "destination_vertex": 3, "grid_search": {"query_weight_estimate": [1, "x", 3]}}), "grid_weight"),
            (json!(5), "non_object"),
            (json!([{"origin_vertex": 1, "destination_vertex": 3}, {"origin_vertex": 2, "destination_vertex": 3}]), "non_object"),
        ];
        for (b, fam) in bad {
            let mut qs = vec![valid.clone(), b.clone(), far.clone(), b.clone(), valid.clone()];
            if energy {
                for q in qs.iter_mut() {
                    if let Some(o) = q.as_object_mut() {
                        o.insert("model_name".into(), json!("Toyota_Camry"));
                    }
                }
            }
            let b = qs[1].clone();
            let fs = vec!["valid", fam, "valid", fam, "valid"];
            let order: Vec<usize> = (0..qs.len()).collect();
            let mut cache = HashMap::new();
            for (lb, iter, discard) in [(false, false, false), (true, false, false), (false, true, true), (true, true, false)] {
                let cfg = Cfg { p_cfg: 2, p_run: Some(3), lb, iter, discard, sink: true, threads: 4, reps: 2, flush: None, fmt: 0 };
                batch_case(&mut st, &mut ctx, net_seed, &qs, &fs, &order, &cfg, &mut cache, "one_failing_kind");
            }
            if b.get("grid_search").is_some() {
                for lb in [false, true] {
                    if expansions_done.insert((b.to_string(), lb, false)) {
                        expansion_case(&mut st, &mut ctx, net_seed, &b, lb, false, "expansion");
                    }
                }
            }
        }
    }
    // ---- per-query state_features overrides next to plain queries, and grid sections whose
    //      object-valued options have different key sets: several orders, and one query per run
    //      on the same application instance (run([A]) then run([B]))
    {
        let mk = |mut q: Value| -> Value {
            if energy {
                q["model_name"] = json!("Toyota_Camry");
            }
            q
        };
        let a_q = mk(json!({"name": "A", "origin_vertex": 0, "destination_vertex": 18, "query_weight_estimate": 1}));
        let b_q = mk(json!({"name": "B", "origin_vertex": 0, "destination_vertex": 18, "query_weight_estimate": 1,
            "state_features": {"distance": {"distance_unit": "miles", "initial": 100.0}}}));
        let c_q = mk(json!({"name": "C", "origin_vertex": 0, "destination_vertex": 18, "query_weight_estimate": 2,
            "state_features": {"distance": {"distance_unit": "meters", "initial": 0.0}, "time": {"time_unit": "seconds", "initial": 30.0}}}));
        let g_q = mk(json!({"name": "G", "origin_vertex": 0, "destination_vertex": 18, "query_weight_estimate": 1,
            "grid_search": {"_scenario": [
                {"scenario": "short", "weights": {"distance": 1, "time": 0}},
                {"scenario": "default"},
                {"scenario": "default_b"},
                {"scenario": "sf", "state_features": {"distance": {"distance_unit": "miles", "initial": 100.0}}},
                {"scenario": "wf", "weight_factor": 2.0}]}}));
        let qs = vec![a_q, b_q, c_q, g_q];
        let fs = vec!["valid", "state_features", "state_features", "grid_objects"];
        let orders: Vec<Vec<usize>> = vec![
            vec![0, 1], vec![1, 0], vec![0], vec![1], vec![2], vec![0], vec![2, 0, 1], vec![1, 2, 0, 0, 1],
            vec![3], vec![0, 3], vec![3, 1, 0], vec![3, 3],
        ];
        let mut cache = HashMap::new();
        for (j, order) in orders.iter().enumerate() {
            for (p_cfg, p_run, lb) in [(1usize, None, false), (2, Some(3usize), false), (3, None, true)] {
                if st.next_id() >= a.n {
                    break;
                }
                let cfg = Cfg { p_cfg, p_run, lb, iter: false, discard: j % 4 == 3, sink: true, threads: *[1usize, 4, 16].get(j % 3).unwrap(), reps: 2, flush: None, fmt: 0 };
                batch_case(&mut st, &mut ctx, net_seed, &qs, &fs, order, &cfg, &mut cache, "state_features_and_object_grids");
            }
        }
    }
    // ---- file sink: every format x file_flush_rate x both policies, response counts that are and
    //      are not multiples of the rate, batches smaller than the rate; an origin == destination
    //      query (empty route) sits in every batch, under every application variant (route format)
    {
        let mk = |i: usize, o: usize, d: usize| -> Value {
            let mut q = json!({"origin_vertex": o, "destination_vertex": d, "qid": i, "query_weight_estimate": 1 + i % 3});
            if energy {
                q["model_name"] = json!("Toyota_Camry");
            }
            q
        };
        let qs: Vec<Value> = (0..13).map(|i| if i == 2 { mk(i, 7, 7) } else { mk(i, i, 24 - i) }).collect();
        let fs: Vec<&'static str> = (0..13).map(|i| if i == 2 { "same_vertex" } else { "valid" }).collect();
        let mut cache = HashMap::new();
        let mut j = 0usize;
        for n in [1usize, 3, 4, 6, 8, 10, 13] {
            for flush in [None, Some(1i64), Some(2), Some(3), Some(4), Some(7), Some(100)] {
                if st.next_id() >= a.n + 60 {
                    break;
                }
                j += 1;
                let order: Vec<usize> = (0..n).collect();
                let (lb, iter) = [(false, false), (true, false), (false, true), (true, true)][j % 4];
                let cfg = Cfg { p_cfg: 2, p_run: Some(1 + j % 4), lb, iter, discard: j % 2 == 0, sink: true, threads: 4, reps: 2, flush, fmt: (j % 4) as u8 };
                batch_case(&mut st, &mut ctx, net_seed, &qs, &fs, &order, &cfg, &mut cache, "sink_flush_rate");
            }
        }
    }
    // ---- several runs on ONE application instance (configured parallelism 5: used by nothing
    //      else) whose per-run output policy changes from run to run: none -> file A discard ->
    //      file B discard -> persist with file -> none discard -> ...; every run's responses must
    //      all be in that run's own sink / return value
    {
        let mk = |i: usize, o: usize, d: usize| -> Value {
            let mut q = json!({"origin_vertex": o, "destination_vertex": d, "qid": i});
            if energy {
                q["model_name"] = json!("Toyota_Camry");
            }
            q
        };
        let qs: Vec<Value> = vec![mk(0, 0, 24), mk(1, 3, 11), mk(2, 1, 26), mk(3, 20, 4), mk(4, 9, 9), mk(5, 14, 8)];
        let fs: Vec<&'static str> = vec!["valid", "valid", "unreachable", "valid", "same_vertex", "valid"];
        let mut cache = HashMap::new();
        // (sink, discard, fmt, order)
        let steps: Vec<(bool, bool, u8, Vec<usize>)> = vec![
            (false, false, 0, vec![0, 1, 2]),
            (true, true, 0, vec![0, 1, 2, 3]),
            (true, true, 0, vec![3, 4, 5]),
            (true, false, 2, vec![0, 2, 4]),
            (false, true, 0, vec![1, 2]),
            (true, true, 3, vec![0, 1, 2, 3, 4, 5]),
            (true, false, 1, vec![5, 2]),
            (true, true, 3, vec![2, 4]),
        ];
        ctx.prior = vec![];
        for (sink, discard, fmt, order) in steps {
            let cfg = Cfg { p_cfg: 5, p_run: Some(2), lb: false, iter: false, discard, sink, threads: 4, reps: 1, flush: None, fmt };
            batch_case(&mut st, &mut ctx, net_seed, &qs, &fs, &order, &cfg, &mut cache, "run_sequence_one_app");
            ctx.prior.push(json!({"sink": sink, "discard": discard, "fmt": fmt, "order": order, "reps": 1}));
        }
        ctx.prior = vec![];
    }
    // ---- random batches, several configurations and shuffles each
    while st.next_id() < a.n {
        let mut r = rng.fork();
        let n = match r.below(12) {
            0 => r.below(3) as usize,
            1..=5 => 1 + r.below(12) as usize,
            6..=9 => 5 + r.below(40) as usize,
            10 => 50 + r.below(60) as usize,
            _ => 120 + r.below(81) as usize,
        };
        let (mut qs, fs) = gen_batch(&mut r, &ctx.net, n);
        if energy {
            with_model_name(&mut qs, &mut r);
        }
        let mut cache = HashMap::new();
        let k = if n > 100 { 4 } else { 8 };
        let mut variants: std::collections::BTreeSet<(bool, bool)> = Default::default();
        for j in 0..k {
            if st.next_id() >= a.n {
                break;
            }
            let mut order: Vec<usize> = (0..n).collect();
            if j % 2 == 1 {
                r.shuffle(&mut order);
            }
            let cfg = gen_cfg(&mut r, n);
            variants.insert((cfg.lb, cfg.iter));
            batch_case(&mut st, &mut ctx, net_seed, &qs, &fs, &order, &cfg, &mut cache, "random");
        }
        // every distinct grid query of the batch, alone (bounded: at most 6 per batch)
        let mut budget = 6;
        for q in qs.iter().filter(|q| q.get("grid_search").is_some()) {
            for (lb, iter) in variants.iter() {
                if budget > 0 && st.next_id() < a.n && expansions_done.insert((q.to_string(), *lb, *iter)) {
                    expansion_case(&mut st, &mut ctx, net_seed, q, *lb, *iter, "expansion");
                    budget -= 1;
                }
            }
        }
    }
    st.finish();
}

// ---------------------------------------------------------------- stream cache (probe, never an alarm)

fn build_energy_app(net: &Net, p_cfg: usize, lb: bool, iter: bool, cached: bool, grid: Option<(i32, i32)>) -> CompassApp {
    let lbp = if lb {
        ",\n  { type = \"load_balancer\", weight_heuristic = { type = \"custom\", custom_weight_type = { type = \"numeric\" } } }"
    } else {
        ""
    };
    let mut toml = energy_toml(net, if cached { grid } else { None })
        .replace("parallelism = 1\n", &format!("parallelism = {}\n", p_cfg))
        .replace("input_plugins = []", &format!("input_plugins = [\n  {{ type = \"grid_search\" }}{}\n]", lbp))
        .replace("distance = 0\ntime = 0\nenergy_liquid = 1", "distance = 1\ntime = 1\nenergy_liquid = 1");
    toml = toml.replace("route = \"edge_id\"", &format!("route = \"{}\"", route_format(net, lb, iter)));
    if let Some((ps, _)) = grid {
        // on-grid speed and grade tables (the reference application reads the same tables)
        let k = if ps == 0 { 0 } else { 1 };
        let d = net.dir.to_str().unwrap();
        toml = toml
            .replace("speeds.csv", &format!("speeds_grid{}.csv", k))
            .replace("grade_table_grade_unit = \"decimal\"", &format!("grade_table_grade_unit = \"decimal\"\ngrade_table_input_file = \"{}/grades_grid{}.txt\"", d, k));
    }
    if iter {
        toml = toml.replace("[access]", &format!("[termination]\ntype = \"iterations\"\nlimit = {}\n[access]", ITER_LIMIT));
    }
    let conf = net.dir.join(format!("energy_{}_{}_{}_{}_{}.toml", p_cfg, lb, iter, cached, grid.is_some()));
    std::fs::write(&conf, &toml).unwrap();
    CompassApp::try_from_config_toml_string(toml, conf.to_str().unwrap().to_string(), &CompassAppBuilder::default())
        .unwrap_or_else(|e| panic!("energy app build failed: {}", e))
}

fn energy_toml(net: &Net, cache: Option<(i32, i32)>) -> String {
    let d = net.dir.to_str().unwrap();
    let cache_line = match cache {
        Some((ps, pg)) => format!("float_cache_policy = {{ cache_size = 1000, key_precisions = [{}, {}] }}\n", ps, pg),
        None => String::new(),
    };
    format!(
        r#"parallelism = 1
search_orientation = "vertex"
response_persistence_policy = "persist_response_in_memory"
[response_output_policy]
type = "none"
[graph]
edge_list_input_file = "{d}/edges.csv"
vertex_list_input_file = "{d}/vertices.csv"
verbose = false
[traversal]
type = "energy_model"
time_model_speed_unit = "kilometers_per_hour"
grade_table_grade_unit = "decimal"
time_unit = "minutes"
distance_unit = "miles"
[traversal.time_model]
type = "speed_table"
speed_table_input_file = "{d}/speeds.csv"
speed_unit = "kilometers_per_hour"
distance_unit = "miles"
time_unit = "minutes"
[[traversal.vehicles]]
name = "Toyota_Camry"
type = "ice"
model_input_file = "/repo/rust/routee-compass-powertrain/src/routee/test/Toyota_Camry.bin"
model_type = "smartcore"
speed_unit = "miles_per_hour"
grade_unit = "decimal"
energy_rate_unit = "gallons_gasoline_per_mile"
ideal_energy_rate = 0.02857143
real_world_energy_adjustment = 1.166
{cache_line}[access]
type = "no_access_model"
[cost]
cost_aggregation = "sum"
[cost.weights]
distance = 0
time = 0
energy_liquid = 1
[cost.vehicle_rates.time]
type = "raw"
[cost.vehicle_rates.distance]
type = "raw"
[cost.vehicle_rates.energy_liquid]
type = "raw"
[plugin]
input_plugins = []
output_plugins = [
  {{ type = "summary" }},
  {{ type = "traversal", route = "edge_id", geometry_input_file = "{d}/geoms.txt" }},
]
"#,
        d = d,
        cache_line = cache_line
    )
}

fn stream_cache(a: &Args) {
    let header = "From Coq Require Import ZArith List String.\nFrom RC Require Import Base.Show.\nImport ListNotations.\nOpen Scope Z_scope.";
    let mut st = Stream::new(&a.out, "cache", header, a.shards);
    let seed = if let Some(p) = &a.replay {
        st.full = true;
        let v: Value = serde_json::from_str(&std::fs::read_to_string(p).unwrap()).unwrap();
        v["case"]["net_seed"].as_u64().unwrap_or(1)
    } else {
        a.seed
    };
    let net = write_network(&a.out.join("net"), seed);
    let build = |cache: Option<(i32, i32)>, tag: &str| -> Result<CompassApp, String> {
        let toml = energy_toml(&net, cache);
        let conf = net.dir.join(format!("energy_{}.toml", tag));
        std::fs::write(&conf, &toml).unwrap();
        CompassApp::try_from_config_toml_string(toml, conf.to_str().unwrap().to_string(), &CompassAppBuilder::default()).map_err(|e| e.to_string())
    };
    let mut rng = Rng::new(seed ^ 0xCAC4E);
    let n_cases = if a.replay.is_some() { 1 } else { a.n };
    for _ in 0..n_cases {
        let id = st.next_id();
        let mut r = rng.fork();
        let prec = *r.pick(&[(-1, 0), (0, 0), (-1, 2), (2, 4)]);
        let k = 2 + r.below(3) as usize;
        let qs: Vec<Value> = (0..k)
            .map(|i| json!({"origin_vertex": r.below(net.n_grid as u64), "destination_vertex": r.below(net.n_grid as u64), "model_name": "Toyota_Camry", "qid": i}))
            .collect();
        let run_all = |cache: Option<(i32, i32)>, order: Vec<usize>| -> Result<Vec<String>, String> {
            let app = build(cache, "probe")?; // a fresh application = an empty cache
            let mut out = vec![String::new(); qs.len()];
            for i in order {
                let rs = app.run(vec![qs[i].clone()], None).map_err(|e| e.to_string())?;
                out[i] = rs.iter().map(canonical).collect::<Vec<_>>().join("|");
            }
            Ok(out)
        };
        let fwd: Vec<usize> = (0..k).collect();
        let rev: Vec<usize> = (0..k).rev().collect();
        // control: without a cache the order must not matter
        if let (Ok(p1), Ok(p2)) = (run_all(None, fwd.clone()), run_all(None, rev.clone())) {
            st.count(if p1 == p2 { "control:uncached_order_independent" } else { "control:uncached_ORDER_DEPENDENT" });
        }
        let verdict = match (run_all(None, fwd.clone()), run_all(Some(prec), fwd), run_all(Some(prec), rev)) {
            (Ok(plain), Ok(c1), Ok(c2)) => {
                let order_dep = c1 != c2;
                let differs = c1 != plain || c2 != plain;
                st.count(if order_dep { "cache:order_dependent" } else { "cache:order_independent" });
                st.count(if differs { "cache:differs_from_uncached" } else { "cache:same_as_uncached" });
                if order_dep {
                    st.mark_nontrivial(&format!("{:?}{:?}", prec, qs));
                }
                format!("order_dependent={} differs_from_uncached={}", show_bool(order_dep), show_bool(differs))
            }
            (x, y, z) => {
                st.count("cache:not_configurable");
                format!("not_configurable {:?}", x.err().or(y.err()).or(z.err()).unwrap_or_default().chars().take(120).collect::<String>())
            }
        };
        st.count(&format!("key_precisions:{:?}", prec));
        let desc = json!({"id": id, "family": "cache_probe", "net_seed": seed, "key_precisions": [prec.0, prec.1], "queries": qs, "verdict": verdict});
        // informational: the model line repeats the observation (D-CACHE is a known design limitation,
        // Props c06_cache_refuted / c06_cache_transparent_if_stable say when it can be observed)
        st.case(vec![format!("line \"M\" {} \"probed\"", id)], vec![format!("I {} probed", id)], desc);
    }
    st.finish();
}

fn leak(s: &str) -> &'static str {
    Box::leak(s.to_string().into_boxed_str())
}

fn main() {
    silence_panics();
    let a = parse_args();
    match a.stream.as_str() {
        "lb" => stream_lb(&a),
        "batch" => stream_batch(&a, false, false),
        "energy" => stream_batch(&a, true, false),
        "ecache" => stream_batch(&a, true, true),
        "cache" => stream_cache(&a),
        other => panic!("unknown stream {}", other),
    }
}
