//! C07 harness (stream `cost`): drives the REAL cost model -- CostModel::new or the configuration glue
//! (CostModelBuilder::build + CostModelService::build), the four entry points traversal_cost / access_cost /
//! edge_cost / cost_estimate, and EdgeTraversal::forward_traversal / reverse_traversal on a SearchInstance whose
//! access and traversal models set the state vector to the vectors of the case.
//!   I line: float bits of every observable (canonical format of CostRun.show_outs)
//!   M line: the Gallina model in binary64 (CostRun.line_m)
//!   S line: the specification in exact rationals judging the implementation's output (CostRun.line_s)
//! `c07 probe --out DIR` prints the float-absorption probe (access share >= 2^51 x edge total; fixed in /repo by
//! 693929c, total_cost() now floors the sum), serde facts about the rate enums, and writes corpus replay files.
use routee_compass::app::compass::config::cost_model::cost_model_builder::CostModelBuilder;
use routee_compass_core::algorithm::search::edge_traversal::EdgeTraversal;
use routee_compass_core::algorithm::search::search_instance::SearchInstance;
use routee_compass_core::model::access::access_model::AccessModel;
use routee_compass_core::model::access::access_model_error::AccessModelError;
use routee_compass_core::model::cost::cost_aggregation::CostAggregation;
use routee_compass_core::model::cost::cost_model::CostModel;
use routee_compass_core::model::cost::network::network_cost_rate::NetworkCostRate;
use routee_compass_core::model::cost::network::network_cost_rate_builder::NetworkCostRateBuilder;
use routee_compass_core::model::cost::vehicle::vehicle_cost_rate::VehicleCostRate;
use routee_compass_core::model::frontier::default::no_restriction::NoRestriction;
use routee_compass_core::model::network::{Edge, EdgeId, Graph, Vertex, VertexId};
use routee_compass_core::model::state::custom_feature_format::CustomFeatureFormat;
use routee_compass_core::model::state::state_feature::StateFeature;
use routee_compass_core::model::state::state_model::StateModel;
use routee_compass_core::model::termination::termination_model::TerminationModel;
use routee_compass_core::model::traversal::state::state_variable::StateVar;
use routee_compass_core::model::traversal::traversal_model::TraversalModel;
use routee_compass_core::model::traversal::traversal_model_error::TraversalModelError;
use routee_compass_core::model::unit::as_f64::AsF64;
use routee_compass_core::model::unit::Cost;
use serde_json::{json, Value};
use std::collections::HashMap;
use std::sync::Arc;
use verif_harness::*;

const N_EDGES: usize = 6;

// ---------------------------------------------------------------- case description

#[derive(Clone, Debug, PartialEq)]
enum VR {
    Zero,
    Raw,
    Factor(f64),
    Offset(f64),
    Combined(Vec<VR>),
}
#[derive(Clone, Debug, PartialEq)]
enum NR {
    Zero,
    Edge(Vec<(usize, f64)>),
    Pair(Vec<((usize, usize), f64)>),
    Combined(Vec<NR>),
}
#[derive(Clone, Debug)]
struct Case {
    names: Vec<String>,
    glue: bool,
    w: Vec<(String, f64)>,
    v: Vec<(String, VR)>,
    n: Vec<(String, NR)>,
    mul: bool,
    ignore: bool,
    qw: Option<Vec<(String, f64)>>,
    qv: Option<Vec<(String, VR)>>,
    qmul: Option<bool>,
    this: usize,
    other: usize,
    has_other: bool,
    p: Vec<f64>,
    sa: Vec<f64>,
    st: Vec<f64>,
}

fn fj(x: f64) -> Value {
    json!(format!("{:016x}", x.to_bits()))
}
fn jf(v: &Value) -> f64 {
    f64::from_bits(u64::from_str_radix(v.as_str().unwrap(), 16).unwrap())
}
fn vr_j(r: &VR) -> Value {
    match r {
        VR::Zero => json!({"k": "zero"}),
        VR::Raw => json!({"k": "raw"}),
        VR::Factor(x) => json!({"k": "factor", "x": fj(*x)}),
        VR::Offset(x) => json!({"k": "offset", "x": fj(*x)}),
        VR::Combined(l) => json!({"k": "combined", "l": l.iter().map(vr_j).collect::<Vec<_>>()}),
    }
}
fn j_vr(v: &Value) -> VR {
    match v["k"].as_str().unwrap() {
        "zero" => VR::Zero,
        "raw" => VR::Raw,
        "factor" => VR::Factor(jf(&v["x"])),
        "offset" => VR::Offset(jf(&v["x"])),
        _ => VR::Combined(v["l"].as_array().unwrap().iter().map(j_vr).collect()),
    }
}
fn nr_j(r: &NR) -> Value {
    match r {
        NR::Zero => json!({"k": "zero"}),
        NR::Edge(l) => json!({"k": "edge", "l": l.iter().map(|(e, c)| json!([e, fj(*c)])).collect::<Vec<_>>()}),
        NR::Pair(l) => json!({"k": "pair", "l": l.iter().map(|((a, b), c)| json!([a, b, fj(*c)])).collect::<Vec<_>>()}),
        NR::Combined(l) => json!({"k": "combined", "l": l.iter().map(nr_j).collect::<Vec<_>>()}),
    }
}
fn j_nr(v: &Value) -> NR {
    let us = |x: &Value| x.as_u64().unwrap() as usize;
    match v["k"].as_str().unwrap() {
        "zero" => NR::Zero,
        "edge" => NR::Edge(v["l"].as_array().unwrap().iter().map(|x| (us(&x[0]), jf(&x[1]))).collect()),
        "pair" => NR::Pair(v["l"].as_array().unwrap().iter().map(|x| ((us(&x[0]), us(&x[1])), jf(&x[2]))).collect()),
        _ => NR::Combined(v["l"].as_array().unwrap().iter().map(j_nr).collect()),
    }
}
fn wmap_j(m: &[(String, f64)]) -> Value {
    Value::Array(m.iter().map(|(k, x)| json!([k, fj(*x)])).collect())
}
fn j_wmap(v: &Value) -> Vec<(String, f64)> {
    v.as_array().unwrap().iter().map(|x| (x[0].as_str().unwrap().to_string(), jf(&x[1]))).collect()
}
fn vmap_j(m: &[(String, VR)]) -> Value {
    Value::Array(m.iter().map(|(k, x)| json!([k, vr_j(x)])).collect())
}
fn j_vmap(v: &Value) -> Vec<(String, VR)> {
    v.as_array().unwrap().iter().map(|x| (x[0].as_str().unwrap().to_string(), j_vr(&x[1]))).collect()
}
fn fl_j(l: &[f64]) -> Value {
    Value::Array(l.iter().map(|x| fj(*x)).collect())
}
fn j_fl(v: &Value) -> Vec<f64> {
    v.as_array().unwrap().iter().map(jf).collect()
}
fn case_j(c: &Case) -> Value {
    json!({
        "names": c.names, "glue": c.glue, "w": wmap_j(&c.w), "v": vmap_j(&c.v),
        "n": Value::Array(c.n.iter().map(|(k, x)| json!([k, nr_j(x)])).collect()),
        "mul": c.mul, "ignore": c.ignore,
        "qw": c.qw.as_ref().map(|m| wmap_j(m)), "qv": c.qv.as_ref().map(|m| vmap_j(m)), "qmul": c.qmul,
        "this": c.this, "other": c.other, "has_other": c.has_other,
        "p": fl_j(&c.p), "sa": fl_j(&c.sa), "st": fl_j(&c.st),
    })
}
fn j_case(v: &Value) -> Case {
    Case {
        names: v["names"].as_array().unwrap().iter().map(|x| x.as_str().unwrap().to_string()).collect(),
        glue: v["glue"].as_bool().unwrap(),
        w: j_wmap(&v["w"]),
        v: j_vmap(&v["v"]),
        n: v["n"].as_array().unwrap().iter().map(|x| (x[0].as_str().unwrap().to_string(), j_nr(&x[1]))).collect(),
        mul: v["mul"].as_bool().unwrap(),
        ignore: v["ignore"].as_bool().unwrap(),
        qw: if v["qw"].is_null() { None } else { Some(j_wmap(&v["qw"])) },
        qv: if v["qv"].is_null() { None } else { Some(j_vmap(&v["qv"])) },
        qmul: v["qmul"].as_bool(),
        this: v["this"].as_u64().unwrap() as usize,
        other: v["other"].as_u64().unwrap() as usize,
        has_other: v["has_other"].as_bool().unwrap(),
        p: j_fl(&v["p"]),
        sa: j_fl(&v["sa"]),
        st: j_fl(&v["st"]),
    }
}

// ---------------------------------------------------------------- Gallina emission

fn coq_vr(r: &VR) -> String {
    match r {
        VR::Zero => "VZero".into(),
        VR::Raw => "VRaw".into(),
        VR::Factor(x) => format!("(VFactor {})", coq_f64(*x)),
        VR::Offset(x) => format!("(VOffset {})", coq_f64(*x)),
        VR::Combined(l) => format!("(VCombined {})", coq_list(l, coq_vr)),
    }
}
fn coq_nr(r: &NR) -> String {
    match r {
        NR::Zero => "NZero".into(),
        NR::Edge(l) => format!("(NEdge {})", coq_list(l, |(e, c)| format!("({}, {})", coq_z(*e as i128), coq_f64(*c)))),
        NR::Pair(l) => format!(
            "(NEdgeEdge {})",
            coq_list(l, |((a, b), c)| format!("(({}, {}), {})", coq_z(*a as i128), coq_z(*b as i128), coq_f64(*c)))
        ),
        NR::Combined(l) => format!("(NCombined {})", coq_list(l, coq_nr)),
    }
}
fn coq_agg(mul: bool) -> &'static str {
    if mul {
        "AMul"
    } else {
        "ASum"
    }
}
fn coq_wmap(m: &[(String, f64)]) -> String {
    coq_list(m, |(k, x)| format!("({}, {})", coq_string(k), coq_f64(*x)))
}
fn coq_vmap(m: &[(String, VR)]) -> String {
    coq_list(m, |(k, x)| format!("({}, {})", coq_string(k), coq_vr(x)))
}
fn coq_case(c: &Case) -> String {
    format!(
        "(@Build_case float {} {} {} {} {} {} {} {} {} {} {} {} {} {} {} {})",
        coq_list(&c.names, |s| coq_string(s)),
        coq_bool(c.glue),
        coq_wmap(&c.w),
        coq_vmap(&c.v),
        coq_list(&c.n, |(k, x)| format!("({}, {})", coq_string(k), coq_nr(x))),
        coq_agg(c.mul),
        coq_bool(c.ignore),
        coq_opt(&c.qw, |m| coq_wmap(m)),
        coq_opt(&c.qv, |m| coq_vmap(m)),
        coq_opt(&c.qmul, |m| coq_agg(*m).to_string()),
        coq_z(c.this as i128),
        coq_z(c.other as i128),
        coq_bool(c.has_other),
        coq_list(&c.p, |x| coq_f64(*x)),
        coq_list(&c.sa, |x| coq_f64(*x)),
        coq_list(&c.st, |x| coq_f64(*x)),
    )
}

// ---------------------------------------------------------------- running the implementation

type R1 = Result<f64, String>;
type R3 = Result<(f64, f64, f64), String>;
struct Outs {
    tc: R1,
    est: R1,
    acf: R1,
    ecf: R1,
    acr: R1,
    ecr: R1,
    fwd: R3,
    rev: R3,
}

fn class(dbg: String) -> String {
    for k in ["StateIndexOutOfBounds", "InvalidCostVariables", "UserConfigurationError"] {
        if dbg.contains(k) {
            // "failed to build cost model: invalid cost variables ..." is a UserConfigurationError of the glue
            return if dbg.contains("UserConfigurationError") { "UserConfigurationError".into() } else { k.into() };
        }
    }
    format!("Other:{}", dbg.chars().filter(|c| c.is_ascii_alphanumeric()).take(60).collect::<String>())
}

fn to_vr(r: &VR) -> VehicleCostRate {
    match r {
        VR::Zero => VehicleCostRate::Zero,
        VR::Raw => VehicleCostRate::Raw,
        VR::Factor(x) => VehicleCostRate::Factor { factor: *x },
        VR::Offset(x) => VehicleCostRate::Offset { offset: *x },
        VR::Combined(l) => VehicleCostRate::Combined(l.iter().map(to_vr).collect()),
    }
}
fn to_nr(r: &NR) -> NetworkCostRate {
    match r {
        NR::Zero => NetworkCostRate::Zero,
        NR::Edge(l) => NetworkCostRate::EdgeLookup { lookup: l.iter().map(|(e, c)| (EdgeId(*e), Cost::new(*c))).collect() },
        NR::Pair(l) => NetworkCostRate::EdgeEdgeLookup {
            lookup: l.iter().map(|((a, b), c)| ((EdgeId(*a), EdgeId(*b)), Cost::new(*c))).collect(),
        },
        NR::Combined(l) => NetworkCostRate::Combined(l.iter().map(to_nr).collect()),
    }
}
fn has_combined(m: &[(String, VR)]) -> bool {
    m.iter().any(|(_, r)| matches!(r, VR::Combined(_)))
}
/// vehicle rates as the configuration / query JSON spells them
fn vr_config_json(r: &VR) -> Value {
    match r {
        VR::Zero => json!({"type": "zero"}),
        VR::Raw => json!({"type": "raw"}),
        VR::Factor(x) => json!({"type": "factor", "factor": x}),
        VR::Offset(x) => json!({"type": "offset", "offset": x}),
        VR::Combined(l) => json!({"type": "combined", "0": l.iter().map(vr_config_json).collect::<Vec<_>>()}),
    }
}
/// network rates as the configuration JSON spells them (edge pairs as "<prev>,<next>" keys)
fn nr_config_json(r: &NR) -> Value {
    match r {
        NR::Zero => json!({"type": "zero"}),
        NR::Edge(l) => {
            let mut o = serde_json::Map::new();
            for (e, c) in l {
                o.insert(e.to_string(), json!(c));
            }
            json!({"type": "edge_lookup", "lookup": o})
        }
        NR::Pair(l) => {
            let mut o = serde_json::Map::new();
            for ((a, b), c) in l {
                o.insert(format!("{},{}", a, b), json!(c));
            }
            json!({"type": "edge_edge_lookup", "lookup": o})
        }
        NR::Combined(_) => json!({"type": "combined"}),
    }
}
fn agg_of(mul: bool) -> CostAggregation {
    if mul {
        CostAggregation::Mul
    } else {
        CostAggregation::Sum
    }
}
fn obj<T>(m: &[(String, T)], f: impl Fn(&T) -> Value) -> Value {
    let mut o = serde_json::Map::new();
    for (k, x) in m {
        o.insert(k.clone(), f(x));
    }
    Value::Object(o)
}

fn state_model(names: &[String]) -> Arc<StateModel> {
    Arc::new(StateModel::new(
        names
            .iter()
            .map(|n| {
                (
                    n.clone(),
                    StateFeature::Custom {
                        r#type: "floating_point".into(),
                        unit: "unit".into(),
                        format: CustomFeatureFormat::FloatingPoint { initial: ordered_float::OrderedFloat(0.0) },
                    },
                )
            })
            .collect(),
    ))
}

/// the configured service (CostModelBuilder::build from configuration JSON)
fn build_service(c: &Case) -> Result<routee_compass::app::compass::config::cost_model::cost_model_service::CostModelService, String> {
    let nmap: HashMap<String, NetworkCostRate> = c.n.iter().map(|(k, r)| (k.clone(), to_nr(r))).collect();
    // configuration glue: weights, (flat) vehicle rates, (flat) network rates, aggregation and the ignore flag
    // travel as JSON; Combined rates (serde cannot read an internally tagged sequence variant) are put into the
    // service's public fields
    let via_json = !has_combined(&c.v);
    // (a non-empty EdgeLookup cannot be read from JSON either: inside the internally tagged enum the keys arrive as
    //  buffered strings, "invalid type: string \"1\", expected usize")
    let net_via_json = !c.n.iter().any(|(_, r)| match r {
        NR::Combined(_) => true,
        NR::Edge(l) => !l.is_empty(),
        _ => false,
    });
    let mut cfg = json!({
        "weights": obj(&c.w, |x| json!(x)),
        "cost_aggregation": if c.mul { "mul" } else { "sum" },
        "ignore_unknown_user_provided_weights": c.ignore,
    });
    if via_json {
        cfg["vehicle_rates"] = obj(&c.v, vr_config_json);
    }
    if net_via_json {
        cfg["network_rates"] = obj(&c.n, nr_config_json);
    }
    let mut svc = CostModelBuilder {}.build(&cfg).map_err(|e| class(format!("{:?}", e)))?;
    if !via_json {
        svc.vehicle_rates = Arc::new(c.v.iter().map(|(k, r)| (k.clone(), to_vr(r))).collect());
    }
    if !net_via_json {
        svc.network_rates = Arc::new(nmap);
    }
    Ok(svc)
}
type Query = (Option<Vec<(String, f64)>>, Option<Vec<(String, VR)>>, Option<bool>);
fn query_json(q: &Query) -> Value {
    let mut j = json!({"origin_vertex": 0});
    if let Some(w) = &q.0 {
        j["weights"] = obj(w, |x| json!(x));
    }
    if let Some(v) = &q.1 {
        j["vehicle_rates"] = obj(v, vr_config_json);
    }
    if let Some(m) = q.2 {
        j["cost_aggregation"] = json!(if m { "mul" } else { "sum" });
    }
    j
}
fn build_cm(c: &Case, sm: Arc<StateModel>) -> Result<CostModel, String> {
    if !c.glue {
        let nmap: HashMap<String, NetworkCostRate> = c.n.iter().map(|(k, r)| (k.clone(), to_nr(r))).collect();
        let w: HashMap<String, f64> = c.w.iter().cloned().collect();
        let v: HashMap<String, VehicleCostRate> = c.v.iter().map(|(k, r)| (k.clone(), to_vr(r))).collect();
        return CostModel::new(Arc::new(w), Arc::new(v), Arc::new(nmap), agg_of(c.mul), sm).map_err(|e| class(format!("{:?}", e)));
    }
    let svc = build_service(c)?;
    svc.build(&query_json(&(c.qw.clone(), c.qv.clone(), c.qmul)), sm).map_err(|e| class(format!("{:?}", e)))
}

struct SetState {
    after_access: Vec<f64>,
    after_traversal: Vec<f64>,
}
impl AccessModel for SetState {
    fn state_features(&self) -> Vec<(String, StateFeature)> {
        vec![]
    }
    fn access_edge(
        &self,
        _t: (&Vertex, &Edge, &Vertex, &Edge, &Vertex),
        state: &mut Vec<StateVar>,
        _sm: &StateModel,
    ) -> Result<(), AccessModelError> {
        *state = self.after_access.iter().map(|x| StateVar(*x)).collect();
        Ok(())
    }
}
impl TraversalModel for SetState {
    fn state_features(&self) -> Vec<(String, StateFeature)> {
        vec![]
    }
    fn traverse_edge(&self, _t: (&Vertex, &Edge, &Vertex), state: &mut Vec<StateVar>, _sm: &StateModel) -> Result<(), TraversalModelError> {
        *state = self.after_traversal.iter().map(|x| StateVar(*x)).collect();
        Ok(())
    }
    fn estimate_traversal(&self, _od: (&Vertex, &Vertex), state: &mut Vec<StateVar>, _sm: &StateModel) -> Result<(), TraversalModelError> {
        *state = self.after_traversal.iter().map(|x| StateVar(*x)).collect();
        Ok(())
    }
}

fn graph() -> Graph {
    // a ring of N_EDGES edges: edge i goes from vertex i to vertex i+1 (mod N_EDGES)
    let edges: Vec<Edge> = (0..N_EDGES).map(|i| Edge::new(i, i, (i + 1) % N_EDGES, 1.0)).collect();
    let vertices: Vec<Vertex> = (0..N_EDGES).map(|i| Vertex::new(i, i as f32, 0.0)).collect();
    Graph { adj: vec![].into_boxed_slice(), rev: vec![].into_boxed_slice(), edges: edges.into_boxed_slice(), vertices: vertices.into_boxed_slice() }
}

fn run_impl(c: &Case) -> Result<Outs, String> {
    let sm = state_model(&c.names);
    let cm = Arc::new(build_cm(c, sm.clone())?);
    let g = Arc::new(graph());
    let sv = |l: &[f64]| l.iter().map(|x| StateVar(*x)).collect::<Vec<_>>();
    let (p, sa, st) = (sv(&c.p), sv(&c.sa), sv(&c.st));
    let e_this = *g.get_edge(&EdgeId(c.this)).unwrap();
    let e_other = *g.get_edge(&EdgeId(c.other)).unwrap();
    let r1 = |r: Result<Cost, routee_compass_core::model::cost::cost_model_error::CostModelError>| -> R1 {
        r.map(|x| x.as_f64()).map_err(|e| class(format!("{:?}", e)))
    };
    let tc = r1(cm.traversal_cost(&e_this, &p, &st));
    let mut est = r1(cm.cost_estimate(&p, &st));
    let acf = r1(cm.access_cost(&e_other, &e_this, &p, &sa));
    let ecf = r1(cm.edge_cost(if c.has_other { Some((&e_other, &e_this)) } else { None }, &e_this, &p, &st));
    let acr = r1(cm.access_cost(&e_this, &e_other, &p, &sa));
    let ecr = r1(cm.edge_cost(if c.has_other { Some((&e_this, &e_other)) } else { None }, &e_this, &p, &st));
    let models = Arc::new(SetState { after_access: c.sa.clone(), after_traversal: c.st.clone() });
    let si = SearchInstance {
        directed_graph: g.clone(),
        state_model: sm.clone(),
        traversal_model: models.clone(),
        access_model: models.clone(),
        cost_model: cm.clone(),
        frontier_model: Arc::new(NoRestriction {}),
        termination_model: Arc::new(TerminationModel::IterationsLimit { limit: 1 }),
    };
    // the estimate as the search obtains it must be the same number
    let est2 = si.estimate_traversal_cost(VertexId(0), VertexId(1), &p).map(|x| x.as_f64()).map_err(|e| class(format!("{:?}", e)));
    let same = match (&est, &est2) {
        (Ok(a), Ok(b)) => a.to_bits() == b.to_bits(),
        (Err(a), Err(b)) => a == b,
        _ => false,
    };
    if !same {
        est = Err("Other:estimate_traversal_cost_differs".into());
    }
    let other = if c.has_other { Some(EdgeId(c.other)) } else { None };
    let r3 = |r: Result<EdgeTraversal, routee_compass_core::algorithm::search::search_error::SearchError>| -> R3 {
        r.map(|et| (et.access_cost.as_f64(), et.traversal_cost.as_f64(), et.total_cost().as_f64())).map_err(|e| class(format!("{:?}", e)))
    };
    let fwd = r3(EdgeTraversal::forward_traversal(EdgeId(c.this), other, &p, &si));
    let rev = r3(EdgeTraversal::reverse_traversal(EdgeId(c.this), other, &p, &si));
    Ok(Outs { tc, est, acf, ecf, acr, ecr, fwd, rev })
}

fn show_r1(r: &R1) -> String {
    match r {
        Ok(x) => format!("Ok {}", show_f64(*x)),
        Err(e) => format!("Err {}", e),
    }
}
fn show_r3(r: &R3) -> String {
    match r {
        Ok((a, t, s)) => format!("Ok ({},{},{})", show_f64(*a), show_f64(*t), show_f64(*s)),
        Err(e) => format!("Err {}", e),
    }
}
fn show_outs(r: &Result<Outs, String>) -> String {
    match r {
        Err(e) => format!("new=Err {}", e),
        Ok(o) => format!(
            "new=Ok tc={} est={} acf={} ecf={} acr={} ecr={} fwd={} rev={}",
            show_r1(&o.tc),
            show_r1(&o.est),
            show_r1(&o.acf),
            show_r1(&o.ecf),
            show_r1(&o.acr),
            show_r1(&o.ecr),
            show_r3(&o.fwd),
            show_r3(&o.rev)
        ),
    }
}
fn coq_r1(r: &R1) -> String {
    match r {
        Ok(x) => format!("(Ok {})", coq_f64(*x)),
        Err(e) => format!("(Err {})", coq_string(e)),
    }
}
fn coq_r3(r: &R3) -> String {
    match r {
        Ok((a, t, s)) => format!("(Ok ({}, {}, {}))", coq_f64(*a), coq_f64(*t), coq_f64(*s)),
        Err(e) => format!("(Err {})", coq_string(e)),
    }
}
fn coq_outs(r: &Result<Outs, String>) -> String {
    match r {
        Err(e) => format!("(@Err (outs float) {})", coq_string(e)),
        Ok(o) => format!(
            "(Ok (@Build_outs float {} {} {} {} {} {} {} {}))",
            coq_r1(&o.tc),
            coq_r1(&o.est),
            coq_r1(&o.acf),
            coq_r1(&o.ecf),
            coq_r1(&o.acr),
            coq_r1(&o.ecr),
            coq_r3(&o.fwd),
            coq_r3(&o.rev)
        ),
    }
}

// ---------------------------------------------------------------- one case into the stream

const MIN_COST: f64 = 0.0000000001;

fn vr_depth(r: &VR) -> usize {
    match r {
        VR::Combined(l) => 1 + l.iter().map(vr_depth).max().unwrap_or(0),
        _ => 0,
    }
}
fn nr_depth(r: &NR) -> usize {
    match r {
        NR::Combined(l) => 1 + l.iter().map(nr_depth).max().unwrap_or(0),
        _ => 0,
    }
}
fn nr_hits(r: &NR, this: usize, pf: (usize, usize), pr: (usize, usize)) -> (bool, bool) {
    match r {
        NR::Zero => (false, false),
        NR::Edge(l) => (l.iter().any(|(e, _)| *e == this), false),
        NR::Pair(l) => (false, l.iter().any(|(k, _)| *k == pf || *k == pr)),
        NR::Combined(l) => l.iter().fold((false, false), |a, x| {
            let b = nr_hits(x, this, pf, pr);
            (a.0 || b.0, a.1 || b.1)
        }),
    }
}

fn add_case(st: &mut Stream, c: Case, family: &str) {
    let id = st.next_id();
    let cc = c.clone();
    let out: Result<Outs, String> = match catch(move || run_impl(&cc)) {
        Ok(r) => r,
        Err(_) => Err("Panic".into()),
    };
    let cq = coq_case(&c);
    let terms = vec![format!("line_m {} {}", coq_z(id as i128), cq), format!("line_s {} {} {}", coq_z(id as i128), cq, coq_outs(&out))];
    // class of the float-only absorption: the access share is so much larger than the (floored) total of the edge
    // that `access + (total - access)` cannot represent the total; total_cost() then returns the floor (histogram only)
    let mut absorb = false;
    if let Ok(o) = &out {
        for (ac, ec) in [(&o.acf, &o.ecf), (&o.acr, &o.ecr)] {
            if let (true, Ok(a), Ok(e)) = (c.has_other, ac, ec) {
                if *a > 0.0 && *e > 0.0 && *e * 4503599627370496.0 <= *a * 2.0 {
                    absorb = true;
                }
            }
        }
    }
    // histogram
    st.count(&format!("family:{}", family));
    st.count(&format!("features:{}", c.names.len()));
    st.count(if c.glue { "ctor:glue" } else { "ctor:new" });
    let eff_mul = if c.glue { c.qmul.unwrap_or(c.mul) } else { c.mul };
    st.count(if eff_mul { "agg:mul" } else { "agg:sum" });
    st.count(if c.has_other { "edge:with_other" } else { "edge:first" });
    let maxd = c.v.iter().map(|(_, r)| vr_depth(r)).max().unwrap_or(0);
    st.count(&format!("vrate_depth:{}", maxd));
    st.count(&format!("nrate_depth:{}", c.n.iter().map(|(_, r)| nr_depth(r)).max().unwrap_or(0)));
    let hits = c.n.iter().fold((false, false), |a, (_, r)| {
        let b = nr_hits(r, c.this, (c.other, c.this), (c.this, c.other));
        (a.0 || b.0, a.1 || b.1)
    });
    if !c.n.is_empty() {
        st.count(if hits.0 { "edge_lookup:hit" } else { "edge_lookup:miss" });
        st.count(if hits.1 { "pair_lookup:hit" } else { "pair_lookup:miss" });
    }
    if c.qw.is_some() || c.qv.is_some() || c.qmul.is_some() {
        st.count("query_overrides");
    }
    let mut nontrivial = false;
    match &out {
        Err(e) => st.count(&format!("new:Err {}", e)),
        Ok(o) => {
            st.count("new:Ok");
            match &o.ecf {
                Ok(x) if *x == MIN_COST => st.count("edge_cost:floored"),
                Ok(x) => {
                    st.count("edge_cost:positive");
                    if *x > 0.0 && *x < MIN_COST {
                        st.count("edge_cost:positive_below_min_cost");
                    }
                    // non-trivial: the charge is neither the floor nor the plain state change of one feature
                    let plain = c.p.iter().zip(c.st.iter()).any(|(a, b)| b - a == *x);
                    if !plain {
                        nontrivial = true;
                    }
                }
                Err(e) => st.count(&format!("edge_cost:Err {}", e)),
            }
            match &o.est {
                Ok(x) if *x == 0.0 => st.count("estimate:zero"),
                Ok(_) => st.count("estimate:positive"),
                Err(_) => st.count("estimate:Err"),
            }
            if let (Ok(a), Ok(b)) = (&o.tc, &o.ecf) {
                if a != b {
                    st.count("turn_surcharge_changes_total");
                }
            }
            if let Ok((_, t, _)) = &o.fwd {
                if *t < 0.0 {
                    st.count("negative_traversal_share");
                }
            }
        }
    }
    if absorb {
        st.count("absorb_class");
    }
    let canonical = case_j(&c);
    if nontrivial {
        st.mark_nontrivial(&canonical.to_string());
    }
    let desc = json!({"id": id, "family": family, "absorb_class": absorb, "case": canonical, "readable": format!("{:?}", c)});
    st.case(terms, vec![format!("I {} {}", id, show_outs(&out))], desc);
}

// ---------------------------------------------------------------- generators

const NAMES: [&str; 8] = ["distance", "time", "energy_liquid", "energy_electric", "f4", "f5", "f6", "f7"];

fn names(n: usize) -> Vec<String> {
    NAMES[..n].iter().map(|s| s.to_string()).collect()
}
fn simple(nf: usize, w: Vec<f64>, v: Vec<VR>, n: Vec<NR>, mul: bool, p: Vec<f64>, st: Vec<f64>) -> Case {
    let nm = names(nf);
    Case {
        names: nm.clone(),
        glue: false,
        w: nm.iter().cloned().zip(w).collect(),
        v: nm.iter().cloned().zip(v).collect(),
        n: nm.iter().cloned().zip(n).collect(),
        mul,
        ignore: true,
        qw: None,
        qv: None,
        qmul: None,
        this: 1,
        other: 0,
        has_other: true,
        p: p.clone(),
        sa: p,
        st,
    }
}

fn val(r: &mut Rng) -> f64 {
    match r.below(12) {
        0 => 0.0,
        1 => *r.pick(&[1.0, -1.0, 0.5, 3.0, 2.0, -2.0, 0.25, 10.0, 100.0, -0.0]),
        2..=7 => r.range(-800, 800) as f64 / 8.0,
        8 => r.range(-64000, 64000) as f64 / 64.0,
        _ => {
            let mag = 10f64.powf(r.unit_f64() * 6.0 - 3.0);
            if r.chance(1, 2) {
                mag
            } else {
                -mag
            }
        }
    }
}
fn weight(r: &mut Rng) -> f64 {
    match r.below(8) {
        0..=4 => *r.pick(&[0.0, 1.0, -1.0, 0.5, 3.0]),
        5 => r.range(-40, 40) as f64 / 8.0,
        _ => r.unit_f64() * 10.0 - 5.0,
    }
}
fn gen_vr(r: &mut Rng, depth: usize) -> VR {
    let k = if depth == 0 { r.below(4) } else { r.below(6) };
    match k {
        0 => VR::Zero,
        1 => VR::Raw,
        2 => VR::Factor(val(r)),
        3 => VR::Offset(val(r)),
        _ => {
            let n = r.below(4) as usize;
            VR::Combined((0..n).map(|_| gen_vr(r, depth - 1)).collect())
        }
    }
}
fn gen_nr(r: &mut Rng, depth: usize, this: usize, other: usize) -> NR {
    let k = if depth == 0 { r.below(3) } else { r.below(5) };
    match k {
        0 => NR::Zero,
        1 => {
            let mut l: Vec<(usize, f64)> = vec![];
            for _ in 0..r.below(4) {
                let e = if r.chance(1, 2) { this } else { r.below(N_EDGES as u64) as usize };
                if !l.iter().any(|(k, _)| *k == e) {
                    l.push((e, val(r)));
                }
            }
            NR::Edge(l)
        }
        2 => {
            let mut l: Vec<((usize, usize), f64)> = vec![];
            for _ in 0..r.below(4) {
                let k = match r.below(3) {
                    0 => (other, this),
                    1 => (this, other),
                    _ => (r.below(N_EDGES as u64) as usize, r.below(N_EDGES as u64) as usize),
                };
                if !l.iter().any(|(x, _)| *x == k) {
                    l.push((k, val(r)));
                }
            }
            NR::Pair(l)
        }
        _ => {
            let n = r.below(4) as usize;
            NR::Combined((0..n).map(|_| gen_nr(r, depth - 1, this, other)).collect())
        }
    }
}

fn random_case(r: &mut Rng) -> Case {
    let nf = 1 + r.below(8) as usize;
    let nm = names(nf);
    let this = r.below(N_EDGES as u64) as usize;
    let other = r.below(N_EDGES as u64) as usize;
    let positive = r.chance(1, 2); // route-like: positive weights and state changes dominate
    let glue = r.chance(1, 2);
    let mut w = vec![];
    for n in &nm {
        if r.chance(17, 20) {
            let x = weight(r);
            w.push((n.clone(), if positive && r.chance(4, 5) { x.abs() } else { x }));
        }
    }
    if r.chance(1, 8) {
        w.push(("not_a_feature".to_string(), weight(r)));
    }
    let mut v = vec![];
    for n in &nm {
        if r.chance(4, 5) {
            let d = r.below(4) as usize;
            v.push((n.clone(), if positive && r.chance(1, 2) { VR::Raw } else { gen_vr(r, d) }));
        }
    }
    let mut n = vec![];
    for x in &nm {
        if r.chance(1, 2) {
            let d = r.below(3) as usize;
            n.push((x.clone(), gen_nr(r, d, this, other)));
        }
    }
    let qw = if glue && r.chance(1, 4) {
        let mut m = vec![];
        for x in &nm {
            if r.chance(3, 4) {
                m.push((x.clone(), weight(r)));
            }
        }
        Some(m)
    } else {
        None
    };
    let qv = if glue && r.chance(1, 4) {
        let mut m = vec![];
        for x in &nm {
            if r.chance(3, 4) {
                m.push((x.clone(), gen_vr(r, 0)));
            }
        }
        Some(m)
    } else {
        None
    };
    let qmul = if glue && r.chance(1, 4) { Some(r.chance(1, 2)) } else { None };
    let p: Vec<f64> = (0..nf).map(|_| val(r)).collect();
    let step = |r: &mut Rng, base: &[f64]| -> Vec<f64> {
        base.iter()
            .map(|x| match r.below(6) {
                0 => *x,
                _ => {
                    let d = val(r);
                    x + if positive && r.chance(4, 5) { d.abs() } else { d }
                }
            })
            .collect()
    };
    let mut sa = if r.chance(1, 2) { p.clone() } else { step(r, &p) };
    let mut st = step(r, &sa);
    let mut p = p;
    if r.chance(1, 25) {
        match r.below(3) {
            0 => p.truncate(r.below(nf as u64) as usize),
            1 => sa.truncate(r.below(nf as u64) as usize),
            _ => st.truncate(r.below(nf as u64) as usize),
        }
    }
    if r.chance(1, 20) {
        st.push(val(r)); // longer than the state model: the extra slot is never read
    }
    Case {
        names: nm,
        glue,
        w,
        v,
        n,
        mul: r.chance(1, 3),
        ignore: !r.chance(1, 5),
        qw,
        qv,
        qmul,
        this,
        other,
        has_other: r.chance(3, 4),
        p,
        sa,
        st,
    }
}

fn boundary(st: &mut Stream) {
    let shapes: Vec<VR> = vec![
        VR::Zero,
        VR::Raw,
        VR::Factor(2.5),
        VR::Factor(-2.0),
        VR::Offset(1.5),
        VR::Offset(-7.0),
        VR::Combined(vec![]),
        VR::Combined(vec![VR::Factor(0.5), VR::Offset(1.0)]),
        VR::Combined(vec![VR::Offset(1.0), VR::Factor(0.5)]),
        VR::Combined(vec![VR::Raw, VR::Zero, VR::Offset(2.0)]),
        VR::Combined(vec![VR::Factor(0.5), VR::Combined(vec![VR::Offset(1.0), VR::Combined(vec![VR::Factor(2.0)])])]),
    ];
    // every rate shape x state change (zero, positive, negative, signed zero) x aggregation x weight
    for sh in &shapes {
        for (a, b) in [(4.0, 4.0), (4.0, 10.0), (10.0, 4.0)] {
            for mul in [false, true] {
                for w in [1.0, -1.0, 0.5, 0.0] {
                    // a second feature with weight 1 and no change keeps the weights' sum non-zero
                    let c = simple(
                        2,
                        vec![w, if w == -1.0 { 2.0 } else { 1.0 }],
                        vec![sh.clone(), VR::Raw],
                        vec![NR::Zero, NR::Zero],
                        mul,
                        vec![a, 1.0],
                        vec![b, if mul { 3.0 } else { 1.0 }],
                    );
                    add_case(st, c, "shape_x_delta_x_agg_x_weight");
                }
            }
        }
    }
    // totals that are exactly zero / cancel between features / are tiny
    add_case(st, simple(1, vec![1.0], vec![VR::Raw], vec![NR::Zero], false, vec![5.0], vec![5.0]), "exact_zero_total");
    add_case(st, simple(2, vec![1.0, -0.5], vec![VR::Raw, VR::Raw], vec![NR::Zero, NR::Zero], false, vec![0.0, 0.0], vec![5.0, 10.0]), "exact_zero_total");
    add_case(st, simple(1, vec![1.0], vec![VR::Offset(-3.0)], vec![NR::Zero], false, vec![0.0], vec![3.0]), "exact_zero_total");
    add_case(st, simple(1, vec![1.0], vec![VR::Raw], vec![NR::Edge(vec![(1, -2.0)])], false, vec![0.0], vec![2.0]), "exact_zero_total");
    add_case(st, simple(1, vec![1.0], vec![VR::Raw], vec![NR::Zero], false, vec![0.0], vec![1e-12]), "positive_below_min_cost");
    let mut c = simple(1, vec![1.0], vec![VR::Raw], vec![NR::Zero], false, vec![0.0], vec![5e-324]);
    c.has_other = false; // with a previous edge this is the absorption class (see absorb_cases)
    add_case(st, c, "positive_below_min_cost");
    add_case(st, simple(1, vec![1.0], vec![VR::Raw], vec![NR::Zero], false, vec![0.0], vec![MIN_COST]), "positive_below_min_cost");
    add_case(st, simple(1, vec![1.0], vec![VR::Raw], vec![NR::Zero], false, vec![7.0], vec![-1e9]), "large_regain");
    add_case(st, simple(2, vec![3.0, 1.0], vec![VR::Raw, VR::Factor(-1.0)], vec![NR::Zero, NR::Zero], false, vec![0.0, -0.0], vec![-0.0, 0.0]), "signed_zero");
    add_case(st, simple(2, vec![3.0, 1.0], vec![VR::Raw, VR::Factor(-1.0)], vec![NR::Zero, NR::Zero], true, vec![0.0, -0.0], vec![-0.0, 0.0]), "signed_zero");
    // surcharges: per edge / per turn, hit / miss, nested, negative, zero and negative weight (D-TURNFEE witness first)
    let turn100 = NR::Pair(vec![((0, 1), 100.0)]);
    add_case(st, simple(1, vec![1.0], vec![VR::Raw], vec![turn100.clone()], false, vec![0.0], vec![1.0]), "turn_fee_witness");
    let nets: Vec<NR> = vec![
        NR::Edge(vec![(1, 5.0)]),
        NR::Edge(vec![(2, 5.0)]),
        NR::Edge(vec![]),
        turn100.clone(),
        NR::Pair(vec![((1, 0), 100.0)]),
        NR::Pair(vec![((3, 4), 100.0)]),
        NR::Combined(vec![]),
        NR::Combined(vec![NR::Edge(vec![(1, 5.0)]), NR::Pair(vec![((0, 1), 7.0), ((1, 0), 9.0)]), NR::Edge(vec![(1, 0.25)])]),
        NR::Combined(vec![NR::Combined(vec![NR::Combined(vec![NR::Edge(vec![(1, 5.0)])]), NR::Pair(vec![((0, 1), -2.0)])]), NR::Zero]),
        NR::Edge(vec![(1, -50.0)]),
        NR::Pair(vec![((0, 1), -50.0)]),
    ];
    for nr in &nets {
        for w in [1.0, -1.0, 0.0] {
            for mul in [false, true] {
                for has_other in [true, false] {
                    let mut c = simple(
                        2,
                        vec![w, if w == -1.0 { 2.0 } else { 1.0 }],
                        vec![VR::Raw, VR::Raw],
                        vec![nr.clone(), if mul { NR::Edge(vec![(1, 2.0)]) } else { NR::Zero }],
                        mul,
                        vec![0.0, 0.0],
                        vec![2.0, 3.0],
                    );
                    c.has_other = has_other;
                    c.sa = vec![0.5, 0.0];
                    add_case(st, c, "surcharge_x_weight_x_agg");
                }
            }
        }
    }
    // 1..8 features, all defaults missing / all present, both constructors
    for nf in 1..=8usize {
        for glue in [false, true] {
            let mut c = simple(nf, vec![1.0; nf], vec![VR::Raw; nf], vec![NR::Zero; nf], false, vec![0.0; nf], (0..nf).map(|i| i as f64 + 1.0).collect());
            c.glue = glue;
            add_case(st, c.clone(), "feature_count");
            c.v.retain(|(k, _)| k != "distance");
            c.w.truncate(nf.max(2) - 1);
            c.n.clear();
            add_case(st, c.clone(), "feature_count_defaults");
            c.mul = true;
            add_case(st, c, "feature_count_defaults");
        }
    }
    // construction: weights summing to zero, no feature, unknown weights
    for glue in [false, true] {
        let mut c = simple(2, vec![1.0, -1.0], vec![VR::Raw, VR::Raw], vec![NR::Zero, NR::Zero], false, vec![0.0, 0.0], vec![1.0, 1.0]);
        c.glue = glue;
        add_case(st, c.clone(), "weights_sum_to_zero");
        c.w = vec![];
        add_case(st, c.clone(), "weights_sum_to_zero");
        c.names = vec![];
        c.w = vec![("distance".into(), 1.0)];
        add_case(st, c.clone(), "no_feature");
        for ignore in [true, false] {
            let mut c = simple(2, vec![1.0, 2.0], vec![VR::Raw, VR::Raw], vec![NR::Zero, NR::Zero], false, vec![0.0, 0.0], vec![1.0, 1.0]);
            c.glue = glue;
            c.ignore = ignore;
            c.w.push(("not_a_feature".into(), 5.0));
            add_case(st, c.clone(), "unknown_weight");
            c.w.pop();
            c.qw = Some(vec![("time".into(), 4.0), ("nope".into(), 1.0)]);
            add_case(st, c, "unknown_weight");
        }
    }
    // the query replaces weights / vehicle rates / aggregation
    for (qw, qv, qmul) in [
        (Some(vec![("distance".to_string(), 3.0)]), None, None),
        (None, Some(vec![("distance".to_string(), VR::Factor(10.0))]), None),
        (None, None, Some(true)),
        (Some(vec![("time".to_string(), -1.0), ("distance".to_string(), 0.5)]), Some(vec![("time".to_string(), VR::Offset(2.0))]), Some(false)),
    ] {
        let mut c = simple(2, vec![1.0, 2.0], vec![VR::Raw, VR::Factor(2.0)], vec![NR::Edge(vec![(1, 1.0)]), NR::Zero], true, vec![0.0, 0.0], vec![1.0, 4.0]);
        c.glue = true;
        c.qw = qw;
        c.qv = qv;
        c.qmul = qmul;
        add_case(st, c, "query_overrides");
    }
    // state vectors shorter / longer than the state model
    for which in 0..3 {
        for len in [0usize, 1, 2] {
            let mut c = simple(3, vec![1.0; 3], vec![VR::Raw; 3], vec![NR::Zero; 3], false, vec![0.0; 3], vec![1.0, 2.0, 3.0]);
            match which {
                0 => c.p.truncate(len),
                1 => c.sa.truncate(len),
                _ => c.st.truncate(len),
            }
            add_case(st, c.clone(), "short_state_vector");
            c.has_other = false;
            add_case(st, c, "short_state_vector");
        }
    }
    let mut c = simple(2, vec![1.0; 2], vec![VR::Raw; 2], vec![NR::Zero; 2], false, vec![0.0; 4], vec![1.0, 2.0, 99.0, 98.0]);
    c.sa = vec![0.0; 3];
    add_case(st, c, "long_state_vector");
    // multiplication: sign patterns, zero factor, single feature
    for signs in [[1.0, 1.0, 1.0], [-1.0, 1.0, 1.0], [-1.0, -1.0, 1.0], [-1.0, -1.0, -1.0], [0.0, 1.0, 1.0]] {
        let c = simple(3, vec![1.0, 2.0, 0.5], vec![VR::Raw; 3], vec![NR::Zero; 3], true, vec![0.0; 3], vec![2.0 * signs[0], 3.0 * signs[1], 4.0 * signs[2]]);
        add_case(st, c, "mul_sign_patterns");
    }
    // the access share is larger than the whole edge (the traversal share is negative)
    let mut c = simple(1, vec![1.0], vec![VR::Raw], vec![NR::Zero], false, vec![0.0], vec![2.0]);
    c.sa = vec![10.0];
    add_case(st, c, "negative_traversal_share");
    // positive totals BELOW the floor (tiny weights / rates): enforce_strictly_positive(c) = c for every c > 0,
    // the floor only replaces non-positive totals
    for mul in [false, true] {
        for (w, f, d) in [(1e-12, 1.0, 1.2), (1.0, 1e-13, 150.0), (9.094947017729282e-13, 1.0, 3.0), (1e-6, 1e-6, 0.5), (1e-11, 1.0, 9.0)] {
            let c = simple(2, vec![w, w], vec![VR::Factor(f), VR::Raw], vec![NR::Zero, NR::Zero], mul, vec![0.0, 1.0], vec![d, if mul { 1.5 } else { 1.0 }]);
            add_case(st, c, "tiny_costs");
        }
    }
    // the C02 corpus shape: weight 1e-12 on metre-scale edges, with a tiny per-edge and per-turn surcharge
    let mut c = simple(1, vec![1e-12], vec![VR::Raw], vec![NR::Combined(vec![NR::Edge(vec![(1, 0.25)]), NR::Pair(vec![((0, 1), 0.5)])])], false, vec![0.0], vec![1.2]);
    c.sa = vec![0.125];
    add_case(st, c, "tiny_costs");
}

/// float-only absorption: access share >= 2^51 x the total of the edge (e.g. access >= 2^20 and the total floored)
fn absorb_cases() -> Vec<Case> {
    let mut out = vec![];
    // one feature, raw rate, weight 1: the access model adds 4194304 (a turn penalty), the traversal model takes it back
    let mut c = simple(1, vec![1.0], vec![VR::Raw], vec![NR::Zero], false, vec![0.0], vec![0.0]);
    c.sa = vec![4194304.0];
    out.push(c.clone());
    // the same through the configuration glue, with a per-turn surcharge that the vehicle cost cancels
    let mut c2 = simple(2, vec![1.0, 1.0], vec![VR::Raw, VR::Factor(1000.0)], vec![NR::Pair(vec![((0, 1), 2000000.0)]), NR::Zero], false, vec![0.0, 0.0], vec![30.0, -2500.0]);
    c2.glue = true;
    c2.sa = vec![30.0, 0.0];
    out.push(c2);
    // no floor involved: a small positive total next to a huge access share
    let mut c3 = simple(1, vec![1.0], vec![VR::Raw], vec![NR::Zero], false, vec![0.0], vec![0.00001]);
    c3.sa = vec![1e12];
    out.push(c3);
    // the access share is itself only the floor; the total of the edge is the smallest positive double
    out.push(simple(1, vec![1.0], vec![VR::Raw], vec![NR::Zero], false, vec![0.0], vec![5e-324]));
    out
}

fn probe(a: &Args) {
    let mut facts = serde_json::Map::new();
    let j = json!({"type": "combined", "0": [{"type": "raw"}]});
    facts.insert("deserialize_vehicle_combined".into(), json!(format!("{:?}", serde_json::from_value::<VehicleCostRate>(j).map(|_| "ok"))));
    facts.insert(
        "serialize_vehicle_combined".into(),
        json!(format!("{:?}", serde_json::to_value(VehicleCostRate::Combined(vec![VehicleCostRate::Raw])))),
    );
    facts.insert(
        "serialize_network_edge_edge".into(),
        json!(format!("{:?}", serde_json::to_value(NetworkCostRate::EdgeEdgeLookup { lookup: [((EdgeId(0), EdgeId(1)), Cost::new(1.0))].into_iter().collect() }))),
    );
    let mut ab = vec![];
    for c in absorb_cases() {
        let o = run_impl(&c);
        ab.push(json!({"input": format!("{:?}", c), "observed": show_outs(&o),
            "total_cost_forward": o.as_ref().ok().and_then(|o| o.fwd.as_ref().ok().map(|t| t.2)),
            "access_cost": o.as_ref().ok().and_then(|o| o.fwd.as_ref().ok().map(|t| t.0)),
            "traversal_cost": o.as_ref().ok().and_then(|o| o.fwd.as_ref().ok().map(|t| t.1)),
            "edge_cost": o.as_ref().ok().and_then(|o| o.ecf.clone().ok())}));
    }
    facts.insert(
        "deserialize_network_edge_lookup".into(),
        json!(format!("{:?}", serde_json::from_value::<NetworkCostRate>(json!({"type": "edge_lookup", "lookup": {"1": 5.0}})).map(|_| "ok"))),
    );
    facts.insert(
        "deserialize_network_edge_edge_lookup".into(),
        json!(format!("{:?}", serde_json::from_value::<NetworkCostRate>(json!({"type": "edge_edge_lookup", "lookup": {"0,1": 5.0}})).map(|_| "ok"))),
    );
    facts.insert("k_absorb".into(), Value::Array(ab));
    // replay files (`./check C07 --replay FILE`) for the corpus
    std::fs::create_dir_all(&a.out).unwrap();
    for (i, c) in absorb_cases().iter().enumerate() {
        let d = json!({"stream": "cost", "case": {"id": 0, "family": "float_absorption", "absorb_class": true, "case": case_j(c), "readable": format!("{:?}", c)}});
        std::fs::write(a.out.join(format!("k_absorb_{}.json", i)), serde_json::to_string_pretty(&d).unwrap()).unwrap();
    }
    let t = simple(1, vec![1.0], vec![VR::Raw], vec![NR::Pair(vec![((0, 1), 100.0)])], false, vec![0.0], vec![1.0]);
    let d = json!({"stream": "cost", "case": {"id": 0, "family": "turn_fee_witness", "absorb_class": false, "case": case_j(&t), "readable": format!("{:?}", t)}});
    std::fs::write(a.out.join("d_turnfee_fixed.json"), serde_json::to_string_pretty(&d).unwrap()).unwrap();
    let v = Value::Object(facts);
    std::fs::create_dir_all(&a.out).unwrap();
    std::fs::write(a.out.join("probe.json"), serde_json::to_string_pretty(&v).unwrap()).unwrap();
    println!("{}", serde_json::to_string_pretty(&v).unwrap());
}

// ================================================================ stream `seq`: call sequences on ONE CostModel

#[derive(Clone, Debug)]
enum Call {
    Access(usize, usize),
    Trav(usize),
    Edge(Option<(usize, usize)>, usize),
    Est,
}
fn call_j(k: &Call) -> Value {
    match k {
        Call::Access(a, b) => json!({"k": "access", "prev": a, "next": b}),
        Call::Trav(e) => json!({"k": "traversal", "e": e}),
        Call::Edge(Some((a, b)), e) => json!({"k": "edge", "prev": a, "next": b, "e": e}),
        Call::Edge(None, e) => json!({"k": "edge", "e": e}),
        Call::Est => json!({"k": "estimate"}),
    }
}
fn j_call(v: &Value) -> Call {
    let us = |x: &Value| x.as_u64().unwrap() as usize;
    match v["k"].as_str().unwrap() {
        "access" => Call::Access(us(&v["prev"]), us(&v["next"])),
        "traversal" => Call::Trav(us(&v["e"])),
        "edge" => Call::Edge(if v["prev"].is_null() { None } else { Some((us(&v["prev"]), us(&v["next"]))) }, us(&v["e"])),
        _ => Call::Est,
    }
}
fn coq_call(k: &Call) -> String {
    let z = |x: &usize| coq_z(*x as i128);
    match k {
        Call::Access(a, b) => format!("(CAccess ({}, {}))", z(a), z(b)),
        Call::Trav(e) => format!("(CTrav {})", z(e)),
        Call::Edge(Some((a, b)), e) => format!("(CEdge (Some ({}, {})) {})", z(a), z(b), z(e)),
        Call::Edge(None, e) => format!("(CEdge None {})", z(e)),
        Call::Est => "CEst".into(),
    }
}
fn run_seq_impl(c: &Case, calls: &[Call]) -> Result<Vec<R1>, String> {
    let sm = state_model(&c.names);
    let cm = build_cm(c, sm)?; // ONE instance for the whole sequence
    let g = graph();
    let sv = |l: &[f64]| l.iter().map(|x| StateVar(*x)).collect::<Vec<_>>();
    let (p, sa, st) = (sv(&c.p), sv(&c.sa), sv(&c.st));
    let e = |i: &usize| *g.get_edge(&EdgeId(*i)).unwrap();
    let r1 = |r: Result<Cost, routee_compass_core::model::cost::cost_model_error::CostModelError>| -> R1 {
        r.map(|x| x.as_f64()).map_err(|e| class(format!("{:?}", e)))
    };
    Ok(calls
        .iter()
        .map(|k| match k {
            Call::Access(a, b) => r1(cm.access_cost(&e(a), &e(b), &p, &sa)),
            Call::Trav(x) => r1(cm.traversal_cost(&e(x), &p, &st)),
            Call::Edge(Some((a, b)), x) => r1(cm.edge_cost(Some((&e(a), &e(b))), &e(x), &p, &st)),
            Call::Edge(None, x) => r1(cm.edge_cost(None, &e(x), &p, &st)),
            Call::Est => r1(cm.cost_estimate(&p, &st)),
        })
        .collect())
}
fn add_seq(st: &mut Stream, c: Case, calls: Vec<Call>, family: &str) {
    let id = st.next_id();
    let (cc, kk) = (c.clone(), calls.clone());
    let out: Result<Vec<R1>, String> = match catch(move || run_seq_impl(&cc, &kk)) {
        Ok(r) => r,
        Err(_) => Err("Panic".into()),
    };
    let cq = coq_case(&c);
    let ks = coq_list(&calls, coq_call);
    let (show, coq) = match &out {
        Ok(l) => (format!("new=Ok {}", show_list(l, show_r1)), format!("(@Ok (list (res float)) {})", coq_list(l, coq_r1))),
        Err(e) => (format!("new=Err {}", e), format!("(@Err (list (res float)) {})", coq_string(e))),
    };
    let terms = vec![
        format!("line_mseq {} {} {}", coq_z(id as i128), cq, ks),
        format!("line_sseq {} {} {} {}", coq_z(id as i128), cq, ks, coq),
    ];
    st.count(&format!("family:{}", family));
    st.count(&format!("calls:{}", calls.len()));
    // non-trivial: an edge_cost with a pair follows an access_cost of a DIFFERENT pair with the same next edge
    let mut last_access: Option<(usize, usize)> = None;
    let mut stale_risk = false;
    for k in &calls {
        match k {
            Call::Access(a, b) => last_access = Some((*a, *b)),
            Call::Edge(Some((a, b)), _) => {
                if let Some((la, lb)) = last_access {
                    if lb == *b && la != *a {
                        stale_risk = true;
                    }
                }
            }
            _ => {}
        }
    }
    if stale_risk {
        st.count("edge_cost_after_access_of_other_pair_same_next");
        st.mark_nontrivial(&format!("{}{:?}", case_j(&c), calls));
    }
    let desc = json!({"id": id, "family": family, "case": case_j(&c), "calls": calls.iter().map(call_j).collect::<Vec<_>>(),
        "readable": format!("{:?} calls {:?}", c, calls)});
    st.case(terms, vec![format!("I {} {}", id, show)], desc);
}
fn seq_config(turns: Vec<((usize, usize), f64)>, edge_fees: Vec<(usize, f64)>, w: f64, mul: bool) -> Case {
    let mut c = simple(
        2,
        vec![w, 1.0],
        vec![VR::Raw, VR::Raw],
        vec![NR::Combined(vec![NR::Pair(turns), NR::Edge(edge_fees)]), NR::Zero],
        mul,
        vec![0.0, 0.0],
        vec![1.0, if mul { 1.0 } else { 0.0 }],
    );
    c.sa = vec![0.0, 0.0];
    c
}
fn seq_stream(a: &Args, st: &mut Stream) {
    // the junction of the C07-15 witness: turns 1->3 costs 5, 2->3 costs 0.5, 4->3 is a rebate of 3; the edge itself costs 1
    let junction = || seq_config(vec![((1, 3), 5.0), ((2, 3), 0.5), ((4, 3), -3.0)], vec![], 1.0, false);
    let e3 = |p: usize| Call::Edge(Some((p, 3)), 3);
    add_seq(st, junction(), vec![e3(2), e3(1), Call::Access(1, 3), e3(2), e3(2), Call::Access(4, 3), e3(4), e3(1), e3(2)], "junction_witness");
    add_seq(st, junction(), vec![Call::Access(1, 3), e3(2)], "junction_witness");
    add_seq(st, junction(), vec![Call::Access(4, 3), e3(1), Call::Edge(None, 3), Call::Trav(3), Call::Est, e3(2)], "junction_witness");
    add_seq(st, junction(), vec![Call::Access(2, 3), Call::Access(1, 3), Call::Trav(3), e3(2), Call::Access(2, 3), e3(1)], "junction_witness");
    // every ordered pair of (access of pair x ; edge_cost of pair y) over three incoming edges, both aggregations, weights
    for mul in [false, true] {
        for w in [1.0, 3.0, -1.0] {
            for x in [1usize, 2, 4] {
                for y in [1usize, 2, 4] {
                    let c = seq_config(vec![((1, 3), 5.0), ((2, 3), 0.5), ((4, 3), -3.0)], vec![(3, 0.25)], w, mul);
                    add_seq(st, c, vec![Call::Access(x, 3), e3(y), Call::Access(y, 3), e3(x)], "access_then_edge_pairs");
                }
            }
        }
    }
    let mut rng = Rng::new(a.seed ^ 0x5e9);
    while st.next_id() < a.n {
        let mut r = rng.fork();
        let mut c = random_case(&mut r);
        // make sure edge-pair rates with several incoming edges of a shared next edge are present
        let next = r.below(N_EDGES as u64) as usize;
        let mut turns = vec![];
        for p in 0..N_EDGES {
            if r.chance(2, 3) {
                turns.push(((p, next), val(&mut r)));
            }
        }
        if !c.names.is_empty() {
            let nm = c.names[r.below(c.names.len() as u64) as usize].clone();
            c.n.retain(|(k, _)| *k != nm);
            let extra = gen_nr(&mut r, 1, next, 0);
            c.n.push((nm, if r.chance(1, 2) { NR::Pair(turns) } else { NR::Combined(vec![extra, NR::Pair(turns)]) }));
        }
        let ncalls = 2 + r.below(9) as usize;
        let mut calls = vec![];
        for _ in 0..ncalls {
            let p = r.below(N_EDGES as u64) as usize;
            let e = if r.chance(4, 5) { next } else { r.below(N_EDGES as u64) as usize };
            calls.push(match r.below(8) {
                0..=2 => Call::Access(p, e),
                3..=5 => Call::Edge(Some((p, e)), e),
                6 => if r.chance(1, 2) { Call::Trav(e) } else { Call::Edge(None, e) },
                _ => Call::Est,
            });
        }
        add_seq(st, c, calls, "random");
    }
}

// ================================================================ stream `builder`: NetworkCostRateBuilder over CSV files

#[derive(Clone, Debug)]
enum B {
    Trav(Option<Vec<(usize, f64)>>),
    Acc(Option<Vec<((usize, usize), f64)>>),
    Comb(Vec<B>),
}
fn b_j(b: &B) -> Value {
    match b {
        B::Trav(None) => json!({"k": "traversal_missing"}),
        B::Acc(None) => json!({"k": "access_missing"}),
        B::Trav(Some(l)) => json!({"k": "traversal", "rows": l.iter().map(|(e, c)| json!([e, fj(*c)])).collect::<Vec<_>>()}),
        B::Acc(Some(l)) => json!({"k": "access", "rows": l.iter().map(|((a, b), c)| json!([a, b, fj(*c)])).collect::<Vec<_>>()}),
        B::Comb(l) => json!({"k": "combined", "l": l.iter().map(b_j).collect::<Vec<_>>()}),
    }
}
fn j_b(v: &Value) -> B {
    let us = |x: &Value| x.as_u64().unwrap() as usize;
    match v["k"].as_str().unwrap() {
        "traversal_missing" => B::Trav(None),
        "access_missing" => B::Acc(None),
        "traversal" => B::Trav(Some(v["rows"].as_array().unwrap().iter().map(|x| (us(&x[0]), jf(&x[1]))).collect())),
        "access" => B::Acc(Some(v["rows"].as_array().unwrap().iter().map(|x| ((us(&x[0]), us(&x[1])), jf(&x[2]))).collect())),
        _ => B::Comb(v["l"].as_array().unwrap().iter().map(j_b).collect()),
    }
}
fn coq_b(b: &B) -> String {
    match b {
        B::Trav(None) => "(@BTraversal float None)".into(),
        B::Acc(None) => "(@BAccess float None)".into(),
        B::Trav(Some(l)) => format!("(@BTraversal float (Some {}))", coq_list(l, |(e, c)| format!("({}, {})", coq_z(*e as i128), coq_f64(*c)))),
        B::Acc(Some(l)) => format!(
            "(@BAccess float (Some {}))",
            coq_list(l, |((a, b), c)| format!("(({}, {}), {})", coq_z(*a as i128), coq_z(*b as i128), coq_f64(*c)))
        ),
        B::Comb(l) => format!("(@BCombined float {})", coq_list(l, coq_b)),
    }
}
/// writes the tables to CSV files and builds the REAL builder value: leaves are read from configuration JSON
/// ({"type": "traversal_lookup", "cost_input_file": ...}), `combined` is assembled from its members
fn real_builder(b: &B, dir: &std::path::Path, counter: &mut usize) -> NetworkCostRateBuilder {
    *counter += 1;
    let path = dir.join(format!("table_{}.csv", counter));
    match b {
        B::Trav(rows) => {
            if let Some(rows) = rows {
                let mut t = String::from("edge_id,cost\n");
                for (e, c) in rows {
                    t.push_str(&format!("{},{:?}\n", e, c));
                }
                std::fs::write(&path, t).unwrap();
            }
            serde_json::from_value(json!({"type": "traversal_lookup", "cost_input_file": path.to_str().unwrap()})).unwrap()
        }
        B::Acc(rows) => {
            if let Some(rows) = rows {
                let mut t = String::from("source,destination,cost\n");
                for ((a, b), c) in rows {
                    t.push_str(&format!("{},{},{:?}\n", a, b, c));
                }
                std::fs::write(&path, t).unwrap();
            }
            serde_json::from_value(json!({"type": "access_lookup", "cost_input_file": path.to_str().unwrap()})).unwrap()
        }
        B::Comb(l) => NetworkCostRateBuilder::Combined(l.iter().map(|x| real_builder(x, dir, counter)).collect()),
    }
}
struct BCase {
    b: B,
    edges: Vec<usize>,
    pairs: Vec<(usize, usize)>,
    w: f64,
    d: f64,
}
type BOut = Result<(Vec<f64>, Vec<f64>, Vec<R1>), String>;
fn run_builder_impl(c: &BCase, dir: &std::path::Path) -> BOut {
    let _ = std::fs::remove_dir_all(dir);
    std::fs::create_dir_all(dir).unwrap();
    let mut k = 0;
    let rate = real_builder(&c.b, dir, &mut k).build().map_err(|e| {
        let d = format!("{:?}", e);
        if d.starts_with("BuildError") { "BuildError".to_string() } else { class(d) }
    })?;
    let edge = |i: usize| Edge::new(i, 0, 1, 1.0);
    let z = StateVar(0.0);
    let t = c.edges.iter().map(|e| rate.traversal_cost(z, z, &edge(*e)).map(|x| x.as_f64()).unwrap_or(f64::NAN)).collect();
    let a = c.pairs.iter().map(|(x, y)| rate.access_cost(z, z, &edge(*x), &edge(*y)).map(|x| x.as_f64()).unwrap_or(f64::NAN)).collect();
    let nm = names(1);
    let cm = CostModel::new(
        Arc::new([(nm[0].clone(), c.w)].into_iter().collect()),
        Arc::new([(nm[0].clone(), VehicleCostRate::Raw)].into_iter().collect()),
        Arc::new([(nm[0].clone(), rate.clone())].into_iter().collect()),
        CostAggregation::Sum,
        state_model(&nm),
    )
    .map_err(|e| class(format!("{:?}", e)))?;
    let ec = c
        .pairs
        .iter()
        .map(|(x, y)| {
            cm.edge_cost(Some((&edge(*x), &edge(*y))), &edge(*y), &[StateVar(0.0)], &[StateVar(c.d)])
                .map(|x| x.as_f64())
                .map_err(|e| class(format!("{:?}", e)))
        })
        .collect();
    Ok((t, a, ec))
}
fn b_tables(b: &B, out: &mut Vec<B>) {
    match b {
        B::Comb(l) => l.iter().for_each(|x| b_tables(x, out)),
        x => out.push(x.clone()),
    }
}
fn add_builder(st: &mut Stream, c: BCase, family: &str, dir: &std::path::Path) {
    let id = st.next_id();
    let d = dir.join(format!("case_{}", id));
    let out: BOut = match catch(std::panic::AssertUnwindSafe(|| run_builder_impl(&c, &d))) {
        Ok(r) => r,
        Err(_) => Err("Panic".into()),
    };
    let cq = format!(
        "(@Build_bcase float {} {} {} {} {})",
        coq_b(&c.b),
        coq_list(&c.edges, |e| coq_z(*e as i128)),
        coq_list(&c.pairs, |(a, b)| format!("({}, {})", coq_z(*a as i128), coq_z(*b as i128))),
        coq_f64(c.w),
        coq_f64(c.d)
    );
    let (show, coq) = match &out {
        Ok((t, a, e)) => (
            format!("build=Ok t={} a={} ec={}", show_list(t, |x| show_f64(*x)), show_list(a, |x| show_f64(*x)), show_list(e, show_r1)),
            format!("(@Ok (bouts float) ({}, {}, {}))", coq_list(t, |x| coq_f64(*x)), coq_list(a, |x| coq_f64(*x)), coq_list(e, coq_r1)),
        ),
        Err(e) => (format!("build=Err {}", e), format!("(@Err (bouts float) {})", coq_string(e))),
    };
    let terms = vec![format!("line_mb {} {}", coq_z(id as i128), cq), format!("line_sb {} {} {}", coq_z(id as i128), cq, coq)];
    // non-trivial: some probed edge / pair is listed by at least two tables (the surcharges must ADD UP)
    let mut tabs = vec![];
    b_tables(&c.b, &mut tabs);
    let overlap_e = c.edges.iter().chain(c.pairs.iter().map(|(_, y)| y)).any(|e| {
        tabs.iter().filter(|t| matches!(t, B::Trav(Some(l)) if l.iter().any(|(k, _)| k == e))).count() >= 2
    });
    let overlap_p = c.pairs.iter().any(|p| tabs.iter().filter(|t| matches!(t, B::Acc(Some(l)) if l.iter().any(|(k, _)| k == p))).count() >= 2);
    st.count(&format!("family:{}", family));
    st.count(&format!("tables:{}", tabs.len()));
    if overlap_e {
        st.count("edge_in_two_or_more_traversal_tables");
    }
    if overlap_p {
        st.count("pair_in_two_or_more_access_tables");
    }
    st.count(if out.is_ok() { "build:Ok" } else { "build:Err" });
    if overlap_e || overlap_p {
        st.mark_nontrivial(&b_j(&c.b).to_string());
    }
    let desc = json!({"id": id, "family": family, "builder": b_j(&c.b), "edges": c.edges,
        "pairs": c.pairs.iter().map(|(a, b)| json!([a, b])).collect::<Vec<_>>(), "w": fj(c.w), "d": fj(c.d),
        "readable": format!("{:?} edges {:?} pairs {:?} w {} d {}", c.b, c.edges, c.pairs, c.w, c.d)});
    st.case(terms, vec![format!("I {} {}", id, show)], desc);
}
const B_EDGES: u64 = 10;
fn gen_b(r: &mut Rng, depth: usize, hot_e: usize, hot_p: (usize, usize)) -> B {
    let k = if depth == 0 { r.below(2) } else { r.below(4) };
    match k {
        0 => {
            let mut l: Vec<(usize, f64)> = vec![];
            for _ in 0..1 + r.below(4) {
                let e = if r.chance(1, 2) { hot_e } else { r.below(B_EDGES) as usize };
                if r.chance(1, 12) || !l.iter().any(|(k, _)| *k == e) {
                    l.push((e, val(r))); // rarely the same key twice in one file: the last row wins
                }
            }
            B::Trav(Some(l))
        }
        1 => {
            let mut l: Vec<((usize, usize), f64)> = vec![];
            for _ in 0..1 + r.below(4) {
                let k = if r.chance(1, 2) { hot_p } else { (r.below(B_EDGES) as usize, hot_p.1) };
                if r.chance(1, 12) || !l.iter().any(|(x, _)| *x == k) {
                    l.push((k, val(r)));
                }
            }
            B::Acc(Some(l))
        }
        _ => B::Comb((0..r.below(5)).map(|_| gen_b(r, depth - 1, hot_e, hot_p)).collect()),
    }
}
fn builder_stream(a: &Args, st: &mut Stream) {
    let dir = a.out.join("csv");
    // the C07-14 witness: two toll tables and a congestion table listing edge 7, two turn tables listing (3,7)
    let toll = B::Trav(Some(vec![(3, 3.0), (7, 4.0)]));
    let congestion = B::Trav(Some(vec![(7, 1.5), (9, 8.0)]));
    let turn1 = B::Acc(Some(vec![((3, 7), 1.0), ((7, 9), 2.0)]));
    let turn2 = B::Acc(Some(vec![((3, 7), 0.5)]));
    let probes_e = vec![5usize, 3, 9, 7];
    let probes_p = vec![(7usize, 9usize), (3, 7), (5, 7), (3, 5)];
    let mk = |b: B| BCase { b, edges: probes_e.clone(), pairs: probes_p.clone(), w: 1.0, d: 2.0 };
    add_builder(st, mk(B::Comb(vec![toll.clone(), congestion.clone(), turn1.clone(), turn2.clone()])), "overlapping_tables_witness", &dir);
    add_builder(st, mk(B::Comb(vec![toll.clone(), B::Comb(vec![congestion.clone(), turn1.clone()]), turn2.clone()])), "overlapping_tables_witness", &dir);
    add_builder(st, mk(B::Comb(vec![B::Comb(vec![B::Comb(vec![toll.clone(), toll.clone(), toll.clone()])]), turn2.clone(), turn2.clone()])), "overlapping_tables_witness", &dir);
    add_builder(st, mk(toll.clone()), "single_table", &dir);
    add_builder(st, mk(turn1.clone()), "single_table", &dir);
    add_builder(st, mk(B::Comb(vec![])), "empty_combined", &dir);
    add_builder(st, mk(B::Comb(vec![toll.clone(), turn2.clone()])), "disjoint_tables", &dir);
    add_builder(st, mk(B::Trav(Some(vec![(7, 1.0), (3, 2.0), (7, 5.0)]))), "duplicate_rows_in_one_file", &dir);
    add_builder(st, mk(B::Comb(vec![toll.clone(), B::Trav(None)])), "missing_file", &dir);
    add_builder(st, mk(B::Acc(None)), "missing_file", &dir);
    // 2-3 traversal tables x 2-3 access tables, flat and nested, all sharing the probed keys; weights and negative fees
    for nt in 2..=3usize {
        for na in 2..=3usize {
            for nested in [false, true] {
                for w in [1.0, 3.0, -1.0, 0.5] {
                    let ts: Vec<B> = (0..nt).map(|i| B::Trav(Some(vec![(7, 1.0 + i as f64), (i, 10.0)]))).collect();
                    let as_: Vec<B> = (0..na).map(|i| B::Acc(Some(vec![((3, 7), 0.25 * (i as f64 + 1.0)), ((i, 7), -1.0)]))).collect();
                    let b = if nested { B::Comb(vec![B::Comb(ts), B::Comb(vec![B::Comb(as_)])]) } else { B::Comb(ts.into_iter().chain(as_).collect()) };
                    add_builder(st, BCase { b, edges: vec![7, 0, 1, 2, 5], pairs: vec![(3, 7), (0, 7), (2, 7), (3, 5)], w, d: 2.0 }, "tables_x_nesting_x_weight", &dir);
                }
            }
        }
    }
    let mut rng = Rng::new(a.seed ^ 0xb11d);
    while st.next_id() < a.n {
        let mut r = rng.fork();
        let hot_e = r.below(B_EDGES) as usize;
        let hot_p = (r.below(B_EDGES) as usize, hot_e);
        let depth = 1 + r.below(3) as usize;
        let b = B::Comb((0..2 + r.below(5)).map(|_| gen_b(&mut r, depth - 1, hot_e, hot_p)).collect());
        let mut edges = vec![hot_e];
        let mut pairs = vec![hot_p];
        for _ in 0..r.below(4) {
            edges.push(r.below(B_EDGES) as usize);
            pairs.push((r.below(B_EDGES) as usize, if r.chance(1, 2) { hot_e } else { r.below(B_EDGES) as usize }));
        }
        let w = *r.pick(&[1.0, 0.5, 3.0, -1.0, 2.0]);
        let d = val(&mut r);
        add_builder(st, BCase { b, edges, pairs, w, d }, "random", &dir);
    }
    let _ = std::fs::remove_dir_all(&dir);
}

// ================================================================ stream `svc`: query SEQUENCES on ONE CostModelService

fn coq_query(q: &Query) -> String {
    format!("({}, {}, {})", coq_opt(&q.0, |m| coq_wmap(m)), coq_opt(&q.1, |m| coq_vmap(m)), coq_opt(&q.2, |m| coq_agg(*m).to_string()))
}
fn query_j(q: &Query) -> Value {
    json!({"qw": q.0.as_ref().map(|m| wmap_j(m)), "qv": q.1.as_ref().map(|m| vmap_j(m)), "qmul": q.2})
}
fn j_query(v: &Value) -> Query {
    (if v["qw"].is_null() { None } else { Some(j_wmap(&v["qw"])) }, if v["qv"].is_null() { None } else { Some(j_vmap(&v["qv"])) }, v["qmul"].as_bool())
}
type RQ = Result<(R1, R1), String>;
fn run_svc_impl(c: &Case, qs: &[Query]) -> Result<Vec<RQ>, String> {
    let sm = state_model(&c.names);
    let svc = build_service(c)?; // ONE service for all queries
    let g = graph();
    let sv = |l: &[f64]| l.iter().map(|x| StateVar(*x)).collect::<Vec<_>>();
    let (p, st) = (sv(&c.p), sv(&c.st));
    let (e_this, e_other) = (*g.get_edge(&EdgeId(c.this)).unwrap(), *g.get_edge(&EdgeId(c.other)).unwrap());
    let r1 = |r: Result<Cost, routee_compass_core::model::cost::cost_model_error::CostModelError>| -> R1 {
        r.map(|x| x.as_f64()).map_err(|e| class(format!("{:?}", e)))
    };
    Ok(qs
        .iter()
        .map(|q| {
            let cm = svc.build(&query_json(q), sm.clone()).map_err(|e| class(format!("{:?}", e)))?;
            Ok((r1(cm.traversal_cost(&e_this, &p, &st)), r1(cm.edge_cost(Some((&e_other, &e_this)), &e_this, &p, &st))))
        })
        .collect())
}
fn add_svc(st: &mut Stream, mut c: Case, qs: Vec<Query>, family: &str) {
    c.glue = true;
    c.qw = None;
    c.qv = None;
    c.qmul = None;
    let id = st.next_id();
    let (cc, qq) = (c.clone(), qs.clone());
    let out: Result<Vec<RQ>, String> = match catch(move || run_svc_impl(&cc, &qq)) {
        Ok(r) => r,
        Err(_) => Err("Panic".into()),
    };
    let show_rq = |r: &RQ| match r {
        Ok((a, b)) => format!("Ok ({};{})", show_r1(a), show_r1(b)),
        Err(e) => format!("Err {}", e),
    };
    let coq_rq = |r: &RQ| match r {
        Ok((a, b)) => format!("(Ok ({}, {}))", coq_r1(a), coq_r1(b)),
        Err(e) => format!("(Err {})", coq_string(e)),
    };
    let (show, coq) = match &out {
        Ok(l) => (format!("svc=Ok {}", show_list(l, show_rq)), format!("(@Ok (list (res (res float * res float))) {})", coq_list(l, coq_rq))),
        Err(e) => (format!("svc=Err {}", e), format!("(@Err (list (res (res float * res float))) {})", coq_string(e))),
    };
    let cq = coq_case(&c);
    let ql = format!("({} : list (option (list (string * float)) * option (list (string * vrate float)) * option agg))", coq_list(&qs, coq_query));
    let terms = vec![
        format!("line_msvc {} {} {}", coq_z(id as i128), cq, ql),
        format!("line_ssvc {} {} {} {}", coq_z(id as i128), cq, ql, coq),
    ];
    st.count(&format!("family:{}", family));
    st.count(&format!("queries:{}", qs.len()));
    // non-trivial: two queries with the same weights override differ in vehicle_rates or cost_aggregation
    let mut same_w_diff = false;
    for i in 0..qs.len() {
        for j in 0..i {
            let same_w = match (&qs[i].0, &qs[j].0) {
                (None, None) => true,
                (Some(a), Some(b)) => a.len() == b.len() && a.iter().zip(b.iter()).all(|(x, y)| x.0 == y.0 && x.1.to_bits() == y.1.to_bits()),
                _ => false,
            };
            if same_w && (qs[i].1 != qs[j].1 || qs[i].2 != qs[j].2) {
                same_w_diff = true;
            }
        }
    }
    if same_w_diff {
        st.count("same_weights_different_rates_or_aggregation");
        st.mark_nontrivial(&format!("{}{:?}", case_j(&c), qs));
    }
    let desc = json!({"id": id, "family": family, "case": case_j(&c), "queries": qs.iter().map(query_j).collect::<Vec<_>>(),
        "readable": format!("{:?} queries {:?}", c, qs)});
    st.case(terms, vec![format!("I {} {}", id, show)], desc);
}
fn svc_stream(a: &Args, st: &mut Stream) {
    // the C07-17 witness: two features, the product of the per-feature costs is negative (floor under mul, 1.0 under sum)
    let base = || {
        let mut c = simple(2, vec![1.0, 1.0], vec![VR::Raw, VR::Raw], vec![NR::Zero, NR::Zero], false, vec![0.0, 0.0], vec![2.0, -1.0]);
        c.sa = vec![0.0, 0.0];
        c
    };
    let plain: Query = (None, None, None);
    let factor: Query = (None, Some(vec![("distance".to_string(), VR::Factor(2.0)), ("time".to_string(), VR::Raw)]), None);
    let mulq: Query = (None, None, Some(true));
    let w1 = Some(vec![("distance".to_string(), 1.0), ("time".to_string(), 1.0)]);
    for order in [vec![plain.clone(), factor.clone(), mulq.clone()], vec![factor.clone(), plain.clone()], vec![mulq.clone(), plain.clone(), factor.clone()], vec![plain.clone(), plain.clone()]] {
        add_svc(st, base(), order.clone(), "same_weights_witness");
        // the same with an explicit (identical) weights override in every query
        add_svc(st, base(), order.into_iter().map(|q| (w1.clone(), q.1, q.2)).collect(), "same_weights_witness");
    }
    // weights differ: never shared
    add_svc(st, base(), vec![(w1.clone(), None, None), (Some(vec![("distance".to_string(), 3.0)]), factor.1.clone(), Some(true)), (w1.clone(), factor.1.clone(), None)], "different_weights");
    // configured aggregation mul, queries switch it back and forth
    let mut c = base();
    c.mul = true;
    c.st = vec![2.0, 3.0];
    add_svc(st, c, vec![plain.clone(), (None, None, Some(false)), plain.clone(), factor.clone(), (None, factor.1.clone(), Some(false))], "configured_mul");
    let mut rng = Rng::new(a.seed ^ 0x5c17);
    while st.next_id() < a.n {
        let mut r = rng.fork();
        let c = random_case(&mut r);
        let nq = 2 + r.below(3) as usize;
        let shared_w: Option<Vec<(String, f64)>> = if r.chance(1, 2) {
            let mut m = vec![];
            for x in &c.names {
                if r.chance(4, 5) {
                    m.push((x.clone(), weight(&mut r).abs() + 0.5));
                }
            }
            Some(m)
        } else {
            None
        };
        let mut qs: Vec<Query> = vec![];
        for _ in 0..nq {
            let qw = if r.chance(5, 6) { shared_w.clone() } else { Some(vec![(c.names.get(0).cloned().unwrap_or("distance".into()), weight(&mut r))]) };
            let qv = if r.chance(1, 2) {
                let mut m = vec![];
                for x in &c.names {
                    if r.chance(3, 4) {
                        m.push((x.clone(), gen_vr(&mut r, 0)));
                    }
                }
                Some(m)
            } else {
                None
            };
            let qm = if r.chance(1, 2) { Some(r.chance(1, 2)) } else { None };
            qs.push((qw, qv, qm));
        }
        add_svc(st, c, qs, "random");
    }
}

const HEADER: &str = "From Coq Require Import ZArith List String Floats.\nFrom RC Require Import Base.Show Base.Res Model.Cost Model.CostRun.\nImport ListNotations.\nImport Cost CostRun.";

fn main() {
    silence_panics();
    let a = parse_args();
    if a.stream == "probe" {
        probe(&a);
        return;
    }
    if a.stream == "seq" {
        let mut st = Stream::new(&a.out, "seq", HEADER, a.shards);
        if let Some(p) = &a.replay {
            st.full = true;
            let v: Value = serde_json::from_str(&std::fs::read_to_string(p).unwrap()).unwrap();
            let case = &v["case"];
            add_seq(&mut st, j_case(&case["case"]), case["calls"].as_array().unwrap().iter().map(j_call).collect(), case["family"].as_str().unwrap_or("replay"));
        } else {
            seq_stream(&a, &mut st);
        }
        st.finish();
        return;
    }
    if a.stream == "svc" {
        let mut st = Stream::new(&a.out, "svc", HEADER, a.shards);
        if let Some(p) = &a.replay {
            st.full = true;
            let v: Value = serde_json::from_str(&std::fs::read_to_string(p).unwrap()).unwrap();
            let case = &v["case"];
            add_svc(&mut st, j_case(&case["case"]), case["queries"].as_array().unwrap().iter().map(j_query).collect(), case["family"].as_str().unwrap_or("replay"));
        } else {
            svc_stream(&a, &mut st);
        }
        st.finish();
        return;
    }
    if a.stream == "builder" {
        let mut st = Stream::new(&a.out, "builder", HEADER, a.shards);
        if let Some(p) = &a.replay {
            st.full = true;
            let v: Value = serde_json::from_str(&std::fs::read_to_string(p).unwrap()).unwrap();
            let case = &v["case"];
            let us = |x: &Value| x.as_u64().unwrap() as usize;
            let c = BCase {
                b: j_b(&case["builder"]),
                edges: case["edges"].as_array().unwrap().iter().map(us).collect(),
                pairs: case["pairs"].as_array().unwrap().iter().map(|x| (us(&x[0]), us(&x[1]))).collect(),
                w: jf(&case["w"]),
                d: jf(&case["d"]),
            };
            add_builder(&mut st, c, case["family"].as_str().unwrap_or("replay"), &a.out.join("csv"));
        } else {
            builder_stream(&a, &mut st);
        }
        st.finish();
        return;
    }
    let mut st = Stream::new(&a.out, "cost", HEADER, a.shards);
    if let Some(p) = &a.replay {
        st.full = true;
        let v: Value = serde_json::from_str(&std::fs::read_to_string(p).unwrap()).unwrap();
        let case = &v["case"];
        add_case(&mut st, j_case(&case["case"]), case["family"].as_str().unwrap_or("replay"));
        st.finish();
        return;
    }
    boundary(&mut st);
    for c in absorb_cases() {
        add_case(&mut st, c, "float_absorption");
    }
    let mut rng = Rng::new(a.seed);
    while st.next_id() < a.n {
        let mut r = rng.fork();
        let mut c = random_case(&mut r);
        // one case in ten with the weights scaled by 2^-40 (~9.1e-13): positive totals below MIN_COST
        if r.chance(1, 10) {
            let k = 9.094947017729282e-13;
            c.w.iter_mut().for_each(|(_, x)| *x *= k);
            if let Some(q) = c.qw.as_mut() {
                q.iter_mut().for_each(|(_, x)| *x *= k);
            }
            add_case(&mut st, c, "random_tiny_weights");
        } else {
            add_case(&mut st, c, "random");
        }
    }
    st.finish();
}
